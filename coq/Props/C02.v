(* C02  Heads are exactly the entries nothing else in the log points to.
   For every reachable state of every well-formed history (appends with content-consistent CIDs,
   unbounded joins - partially overlapping, already merged, diverged, self, foreign id -, identity
   changes, publications, iterations) over any number of replicas.  Statements only. *)
From Coq Require Import List ZArith Bool Lia Permutation.
From IpfsLog Require Import Model.System Proofs.OmapProofs Proofs.SortProofs Proofs.Inv Proofs.JoinProofs Proofs.SysProofs.
Import ListNotations.
Open Scope Z_scope.

Theorem C02_heads_exact ops r l :
  wf ops -> nth_error (s_logs (run ops)) r = Some l ->
  (forall k e, In (k, e) (l_heads l) <-> In (k, e) (l_entries l) /\ ~ named_in (ents l) k) /\
  NoDup (okeys (l_heads l)).
Proof.
  intros W L. destruct (sinv_run ops W) as [_ IL]. specialize (IL r l L).
  split; [exact (li_heads _ _ IL)|exact (li_heads_nodup _ _ IL)].
Qed.

Theorem C02_heads_nonempty ops r l :
  wf ops -> nth_error (s_logs (run ops)) r = Some l -> l_entries l <> [] -> l_heads l <> [].
Proof.
  intros W L. destruct (sinv_run ops W) as [UO IL]. exact (nonempty_has_head (s_univ (run ops)) l l UO (IL r l L) eq_refl).
Qed.

(* every prefix of a well-formed history is a reachable state too *)
Theorem C02_every_prefix pre suf r l :
  wf (pre ++ suf) -> nth_error (s_logs (run pre)) r = Some l ->
  forall k e, In (k, e) (l_heads l) <-> In (k, e) (l_entries l) /\ ~ named_in (ents l) k.
Proof.
  intros W L. apply (C02_heads_exact pre r l); [|exact L]. exact (wf_from_app _ _ _ W).
Qed.

(* what Heads() returns is a reordering of the head map *)
Theorem C02_heads_accessor ops r l e :
  wf ops -> nth_error (s_logs (run ops)) r = Some l ->
  (In e (heads l) <-> In e (oslice (l_heads l))) /\ NoDup (map e_hash (heads l)).
Proof.
  intros W L. destruct (sinv_run ops W) as [_ IL]. specialize (IL r l L).
  pose proof (li_heads_nodup _ _ IL) as Hnd. pose proof (heads_well_keyed _ _ IL) as Hw.
  unfold heads. split.
  - rewrite !In_oslice. split; intros [k H]; exists k; now apply sorted_heads_In.
  - unfold sorted_heads. destruct (from_entries_props (sort_desc (l_sort l) (oslice (l_heads l)))) as [A [B _]].
    replace (map e_hash (oslice (from_entries (sort_desc (l_sort l) (oslice (l_heads l))))))
      with (okeys (from_entries (sort_desc (l_sort l) (oslice (l_heads l))))); [exact A|].
    unfold okeys, oslice. rewrite map_map. apply map_ext_in. intros [k' e'] Hin. cbn. symmetry. now apply B.
Qed.

(* non-vacuity: a forked, re-merged three-replica history is well formed (checked by computation
   through the boolean form of wf in Examples.v) *)

(* ---- beyond the histories C02 quantifies over: along EVERY history - merges with any bound, replicas
   re-opened over any selection of another replica's entries (what the loaders build), everything merged
   from and appended to those - the heads of every log are exactly its unreferenced entries, without
   duplicates, non-empty when the log is ([owf], Proofs/POpen.v).  This is what licenses the harness to
   evaluate the heads monitor on truncated and re-opened logs too. *)
From IpfsLog Require Import Proofs.PInv Proofs.POpen.
Theorem C02_heads_exact_in_every_history ops r l :
  owf ops -> nth_error (s_logs (run ops)) r = Some l ->
  (forall k e, In (k, e) (l_heads l) <-> In (k, e) (l_entries l) /\ ~ named_in (ents l) k) /\
  NoDup (okeys (l_heads l)) /\
  (l_entries l <> [] -> l_heads l <> []).
Proof.
  intros W L. destruct (olog_is_a_log ops r l W L) as [A [_ [B [_ [_ [C _]]]]]]. split; [exact A|]. split; [exact C|exact B].
Qed.

Print Assumptions C02_heads_exact.
Print Assumptions C02_heads_nonempty.
Print Assumptions C02_every_prefix.
Print Assumptions C02_heads_accessor.
Print Assumptions C02_heads_exact_in_every_history.

From IpfsLog Require Import Model.ExampleHist Proofs.WfBool.
Example C02_nonvacuous :
  wf ex_hist /\
  (* in the middle of the history replica 2 holds three concurrent heads *)
  exists l, nth_error (s_logs ex_mid) 2 = Some l /\ okeys (l_heads l) = [102; 201; 301]%N.
Proof.
  split; [apply wfb_wf; vm_compute; reflexivity|]. vm_compute. eexists. split; reflexivity.
Qed.
Print Assumptions C02_nonvacuous.
