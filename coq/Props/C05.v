(* C05  The log is append-only: entries never change or vanish.
   Set/content part proved here for every step of every well-formed history; the subsequence
   clause for Values() is in C05_values_subsequence (strict total orderings); the aliasing clause
   (Go shares entries by pointer) is checked by execution only (harness deep-copies). *)
From Coq Require Import List ZArith Bool Lia Permutation.
From IpfsLog Require Import Model.System Proofs.OmapProofs Proofs.Inv Proofs.SysProofs Proofs.StepProofs.
Import ListNotations.
Open Scope Z_scope.

(* one more operation [o] after any well-formed history [ops]: every replica keeps every entry it
   had, under the same hash with identical content, and its entry count does not decrease *)
Theorem C05_entries_never_vanish ops o r l :
  wf (ops ++ [o]) -> nth_error (s_logs (run ops)) r = Some l ->
  exists l', nth_error (s_logs (run (ops ++ [o]))) r = Some l' /\
             (forall k v, In (k, v) (l_entries l) -> In (k, v) (l_entries l')) /\
             (forall k v, oget (l_entries l) k = Some v -> oget (l_entries l') k = Some v) /\
             (length (l_entries l) <= length (l_entries l'))%nat.
Proof.
  intros W L.
  pose proof (sinv_run ops (wf_from_app _ _ _ W)) as SI.
  pose proof (wf_from_app_r _ _ _ W) as W2. cbn [wf_from] in W2. destruct W2 as [W2 _].
  unfold run in *. rewrite run_from_app. cbn [run_from fold_left].
  destruct (step_entries_monotone _ o r l SI W2 L) as [l' [H1 [H2 H3]]].
  exists l'. split; [exact H1|]. split; [exact H2|]. split; [|exact H3].
  intros k v G. apply oget_In in G.
  assert (SI' : sinv (fst (step (run_from empty_sys ops) o))) by (apply sinv_step; auto).
  destruct SI' as [_ IL']. apply In_oget; [apply (li_nodup _ _ (IL' r l' H1))|auto].
Qed.

(* an operation on one replica never alters another replica *)
Theorem C05_other_replicas_untouched ops o r' l' :
  nth_error (s_logs (run ops)) r' = Some l' ->
  (match o with
   | OAppend r _ _ _ | OJoin r _ _ | OSetIdentity r _ => r <> r'
   | _ => True end) ->
  nth_error (s_logs (run (ops ++ [o]))) r' = Some l'.
Proof.
  intros L Hr. unfold run in *. rewrite run_from_app. cbn [run_from fold_left].
  rewrite step_other_untouched; auto. apply nth_error_Some. congruence.
Qed.

(* over any continuation of a history *)
Theorem C05_monotone_over_histories ops more r l :
  wf (ops ++ more) -> nth_error (s_logs (run ops)) r = Some l ->
  exists l', nth_error (s_logs (run (ops ++ more))) r = Some l' /\
             forall k v, In (k, v) (l_entries l) -> In (k, v) (l_entries l').
Proof.
  revert ops l. induction more as [|o more IH]; intros ops l W L.
  - rewrite app_nil_r. exists l. auto.
  - replace (ops ++ o :: more) with ((ops ++ [o]) ++ more) in * by (rewrite <- app_assoc; reflexivity).
    destruct (C05_entries_never_vanish ops o r l (wf_from_app _ _ _ W) L) as [l1 [H1 [H2 _]]].
    destruct (IH (ops ++ [o]) l1 W H1) as [l2 [H3 H4]]. exists l2. split; [exact H3|]. auto.
Qed.

From IpfsLog Require Import Model.ExampleHist Proofs.WfBool.
Example C05_nonvacuous : wf (firstn 9 ex_hist ++ skipn 9 ex_hist) /\ length (s_logs (run (firstn 9 ex_hist))) = 3%nat.
Proof. split; [apply wfb_wf; vm_compute; reflexivity|reflexivity]. Qed.

Print Assumptions C05_entries_never_vanish.
Print Assumptions C05_other_replicas_untouched.
Print Assumptions C05_monotone_over_histories.
Print Assumptions C05_nonvacuous.
