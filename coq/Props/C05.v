(* C05  The log is append-only: entries never change or vanish.
   Proved for every step / continuation of every well-formed history; the subsequence clause for
   Values() (C05_values_subsequence) for strict total orderings; the aliasing clause (Go shares
   entries by pointer) is checked by execution only (the harness snapshots every log). *)
From Coq Require Import List ZArith Bool Lia Permutation.
From IpfsLog Require Import Model.System Proofs.OmapProofs Proofs.Inv Proofs.SysProofs Proofs.StepProofs
     Proofs.TravProofs Proofs.TimeProofs Proofs.ValuesProofs Proofs.PInv Proofs.PJoin Proofs.PSys.
From IpfsLog Require Import Proofs.POpen.
Import ListNotations.
Open Scope Z_scope.

(* one more operation [o] after any well-formed history [ops]: every replica keeps every entry it
   had, under the same hash with identical content, and its entry count does not decrease *)
Theorem C05_entries_never_vanish ops o r l :
  wf (ops ++ [o]) -> nth_error (s_logs (run ops)) r = Some l ->
  exists l', nth_error (s_logs (run (ops ++ [o]))) r = Some l' /\
             (forall k v, In (k, v) (l_entries l) -> In (k, v) (l_entries l')) /\
             (forall k v, oget (l_entries l) k = Some v -> oget (l_entries l') k = Some v) /\
             (length (l_entries l) <= length (l_entries l'))%nat.
Proof.
  intros W L.
  pose proof (sinv_run ops (wf_from_app _ _ _ W)) as SI.
  pose proof (wf_from_app_r _ _ _ W) as W2. cbn [wf_from] in W2. destruct W2 as [W2 _].
  unfold run in *. rewrite run_from_app. cbn [run_from fold_left].
  destruct (step_entries_monotone _ o r l SI W2 L) as [l' [H1 [H2 H3]]].
  exists l'. split; [exact H1|]. split; [exact H2|]. split; [|exact H3].
  intros k v G. apply oget_In in G.
  assert (SI' : sinv (fst (step (run_from empty_sys ops) o))) by (apply sinv_step; auto).
  destruct SI' as [_ IL']. apply In_oget; [apply (li_nodup _ _ (IL' r l' H1))|auto].
Qed.

(* the same along every history with bounded merges elsewhere and re-opened logs ([owf]): an operation that
   is not itself a bounded merge never removes or replaces an entry of any replica - a causally open,
   re-opened or truncated log is append-only too *)
Theorem C05_entries_never_vanish_in_every_history ops o r l :
  owf (ops ++ [o]) -> (match o with OJoin _ _ size => size < 0 | _ => True end) ->
  nth_error (s_logs (run ops)) r = Some l ->
  exists l', nth_error (s_logs (run (ops ++ [o]))) r = Some l' /\
             (forall k v, In (k, v) (l_entries l) -> In (k, v) (l_entries l')) /\
             (length (l_entries l) <= length (l_entries l'))%nat.
Proof.
  intros W Hb L.
  assert (W1 : owf ops /\ owf_step (run ops) o).
  { clear L Hb. unfold owf, run in *. revert W. generalize empty_sys. induction ops as [|x xs IH]; intros s W; cbn [app owf_from run_from fold_left] in *.
    - destruct W as [W _]. split; [exact Logic.I|exact W].
    - destruct W as [Wx W]. destruct (IH _ W) as [A B]. split; [split; assumption|exact B]. }
  destruct W1 as [W1 W2].
  unfold run. rewrite run_from_app. cbn [run_from fold_left].
  exact (ostep_entries_monotone (run ops) o r l (osinv_run ops W1) W2 Hb L).
Qed.

(* merging ANY other log object - no assumption on it: forged entries, entries filed under keys that
   are not their hashes, arbitrary heads - into a replica of any history never removes or replaces an
   entry the replica holds (the merge may fail or add entries, it never touches held ones) *)
Theorem C05_merge_of_any_log_keeps_held_entries ops r l o same size l' out :
  pwf ops -> nth_error (s_logs (run ops)) r = Some l -> size < 0 ->
  join l o same size = (l', out) ->
  forall k v, In (k, v) (l_entries l) -> In (k, v) (l_entries l').
Proof.
  intros W L Hs J. destruct (psinv_run ops W) as [_ IL].
  exact (join_keeps_held_entries _ l o same size l' out (IL r l L) Hs J).
Qed.

(* ... also when [l] is a replica of a history in which logs are re-opened over selections of entries
   ([owf], Proofs/POpen.v) *)
Theorem C05_merge_of_any_log_keeps_held_entries_reopened ops r l o same size l' out :
  owf ops -> nth_error (s_logs (run ops)) r = Some l -> size < 0 ->
  join l o same size = (l', out) ->
  forall k v, In (k, v) (l_entries l) -> In (k, v) (l_entries l').
Proof. intros W L. exact (ojoin_keeps_held_entries ops r l W L o same size l' out). Qed.

(* an operation on one replica never alters another replica *)
Theorem C05_other_replicas_untouched ops o r' l' :
  nth_error (s_logs (run ops)) r' = Some l' ->
  (match o with
   | OAppend r _ _ _ | OAppendFail r _ _ _ | OJoin r _ _ | OSetIdentity r _ => r <> r'
   | _ => True end) ->
  nth_error (s_logs (run (ops ++ [o]))) r' = Some l'.
Proof.
  intros L Hr. unfold run in *. rewrite run_from_app. cbn [run_from fold_left].
  rewrite step_other_untouched; auto. apply nth_error_Some. congruence.
Qed.

(* over any continuation of a history *)
Theorem C05_monotone_over_histories ops more r l :
  wf (ops ++ more) -> nth_error (s_logs (run ops)) r = Some l ->
  exists l', nth_error (s_logs (run (ops ++ more))) r = Some l' /\
             forall k v, In (k, v) (l_entries l) -> In (k, v) (l_entries l').
Proof.
  revert ops l. induction more as [|o more IH]; intros ops l W L.
  - rewrite app_nil_r. exists l. auto.
  - replace (ops ++ o :: more) with ((ops ++ [o]) ++ more) in * by (rewrite <- app_assoc; reflexivity).
    destruct (C05_entries_never_vanish ops o r l (wf_from_app _ _ _ W) L) as [l1 [H1 [H2 _]]].
    destruct (IH (ops ++ [o]) l1 W H1) as [l2 [H3 H4]]. exists l2. split; [exact H3|]. auto.
Qed.

(* each new linearised view contains the previous one as a subsequence, for every total ordering
   (hash-tiebreak always; default ordering on tie-free logs; with ties see known finding K2) *)
Theorem C05_values_subsequence ops more r l l' :
  wf (ops ++ more) -> hist_bound (ops ++ more) < two63 ->
  nth_error (s_logs (run ops)) r = Some l -> nth_error (s_logs (run (ops ++ more))) r = Some l' ->
  order_total l -> order_total l' ->
  exists v v', values l = Some v /\ values l' = Some v' /\ subseq (oslice v) (oslice v').
Proof.
  intros W Hlen L L' O O'.
  pose proof (wf_from_app _ _ _ W) as W0.
  destruct (sinv_run (ops ++ more) W) as [UO' IL']. destruct (sinv_run ops W0) as [UO IL].
  assert (Hlen0 : hist_bound ops < two63) by (pose proof (hist_bound_app_l ops more); lia).
  pose proof (times_in_range ops r l W0 Hlen0 L) as T. pose proof (times_in_range (ops ++ more) r l' W Hlen L') as T'.
  destruct (C05_monotone_over_histories ops more r l W L) as [l2 [L2 Sub]]. rewrite L' in L2. injection L2 as <-.
  destruct (values_spec _ l UO (IL r l L) T O) as [v [V [_ [B [_ D]]]]].
  destruct (values_spec _ l' UO' (IL' r l' L') T' O') as [v' [V' [_ [B' [_ D']]]]].
  exists v, v'. split; [exact V|]. split; [exact V'|].
  (* l satisfies the invariant also with respect to the larger universe *)
  assert (Il : linv (s_univ (run (ops ++ more))) l).
  { destruct (IL r l L) as [F1 F2 F3 F4 F5 F6 F7 F8]. split; auto. intros k e H. destruct (F2 k e H) as [HU Hk]. split; [|exact Hk].
    destruct (li_in_U _ _ (IL' r l' L') k e (Sub k e H)). assumption. }
  exact (values_subsequence _ l l' v v' UO' Il (IL' r l' L') T' Sub B B' D D').
Qed.

From IpfsLog Require Import Model.ExampleHist Proofs.WfBool.
Example C05_nonvacuous : wf (firstn 9 ex_hist ++ skipn 9 ex_hist) /\ length (s_logs (run (firstn 9 ex_hist))) = 3%nat.
Proof. split; [apply wfb_wf; vm_compute; reflexivity|reflexivity]. Qed.

(* Known finding K5: the subsequence clause FAILS for a log opened through NewLog with Entries and Heads
   when a given head is named by another supplied entry (a log opened "at an earlier head" of a complete
   entry cache).  The model reproduces what the implementation does: the view [e1 e2] becomes [peer]
   after an unbounded merge of an unrelated one-entry log, with all four entries still held.  No log
   made by appends, merges, loaders or re-opening without explicit heads has such a head
   (C16_reopened_logs_are_logs: heads are exactly the unreferenced entries). *)
Example C05_opened_at_earlier_head_refuted :
  let e1 := mkEntry 101%N 1%N 1%N [] [] 1 10%N 10%N true in
  let e2 := mkEntry 102%N 1%N 2%N [101%N] [] 2 10%N 10%N true in
  let e3 := mkEntry 103%N 1%N 3%N [102%N] [] 3 10%N 10%N true in
  let p := mkEntry 201%N 1%N 4%N [] [] 1 20%N 20%N true in
  let older := new_log_from 1%N 30%N SLww [] (from_entries [e1; e2; e3]) [e2] in
  let peer := new_log_from 1%N 20%N SLww [] (from_entries [p]) [] in
  let after := join older peer false (-1) in
  option_map okeys (values older) = Some [101; 102]%N /\
  snd after = Ok tt /\
  option_map okeys (values (fst after)) = Some [201]%N /\
  length (l_entries (fst after)) = 4%nat.
Proof. vm_compute. repeat split; reflexivity. Qed.

Print Assumptions C05_entries_never_vanish.
Print Assumptions C05_merge_of_any_log_keeps_held_entries.
Print Assumptions C05_other_replicas_untouched.
Print Assumptions C05_monotone_over_histories.
Print Assumptions C05_values_subsequence.
Print Assumptions C05_nonvacuous.
Print Assumptions C05_merge_of_any_log_keeps_held_entries_reopened.
Print Assumptions C05_opened_at_earlier_head_refuted.
Print Assumptions C05_entries_never_vanish_in_every_history.
