(* C11  Fetching tolerates missing, failing and slow blocks and always terminates.

   The statements quantify over ALL executions of the transition system of Model/Fetcher.v
   (every interleaving of dispatches, Get returns and critical sections the code allows, and
   more), every finite store, every fault set (a faulty block is a block [store_get] does not
   deliver), every exclusion predicate, every concurrency, with or without a timeout.

   NOT covered by these theorems (exercised by the harness only, see notes/C11.md): real time
   ("within the configured timeout"), the sync.Cond / semaphore implementation of the worker
   loop (lost wake-ups), and whether Dag().Get honours the context.                          *)
From Coq Require Import List ZArith NArith Bool Lia.
From IpfsLog Require Import Model.Order Model.Fetcher Proofs.FetcherBasics Proofs.FetcherProofs.
Import ListNotations.
Open Scope Z_scope.

Section C11.
  Variable cfg : config.          (* store (with its faults), ShouldExclude, length, concurrency, timeout *)
  Variable starts : list N.       (* the requested hashes *)
  Notation sget := (store_get (cf_store cfg)).
  Notation init := (init_state cfg starts).

  (* ---- termination ---- *)
  (* every execution is finite, with an explicit bound on the number of events: 8 events per
     hash that occurs among the start hashes or as a link of a stored block, plus the timeout *)
  Theorem C11_terminates_bound evs s : exec cfg init evs s ->
    (length evs <= 8 * length (universe cfg starts) + 1)%nat.
  Proof.
    intros He. assert (Hr : reachable_state cfg starts init) by (exists []; constructor).
    pose proof (exec_bound cfg starts init evs s Hr He).
    pose proof (init_fmeasure_bound cfg starts). lia.
  Qed.

  (* the measure 2*(4*unseen + 3*queued + 2*fetching + pending) + [timeout still possible]
     strictly decreases with every step (the timeout happens at most once) *)
  Theorem C11_terminates_measure s ev s' : reachable_state cfg starts s -> step cfg s ev s' ->
    (fmeasure cfg starts s' < fmeasure cfg starts s)%nat.
  Proof. intros Hr. apply step_decreases. now apply inv_reachable. Qed.

  (* hence no infinite execution: "is a successor of a reachable state" is well founded *)
  Theorem C11_terminates : well_founded (succ_rel cfg starts).
  Proof. exact (succ_rel_wf cfg starts). Qed.

  (* and an execution can only stop in a terminal state (where processQueue returns), for any
     concurrency >= 1: the model has no deadlock *)
  Theorem C11_no_deadlock s : (1 <= cf_conc cfg)%nat -> reachable_state cfg starts s ->
    ~ terminal s -> exists ev s', step cfg s ev s'.
  Proof. intros Hc Hr. apply (progress cfg starts); [now apply inv_reachable|lia]. Qed.

  (* ---- no entry twice ---- *)
  Theorem C11_no_dup s : reachable_state cfg starts s -> NoDup (map fe_hash (st_results s)).
  Proof. intros Hr. apply (inv_results_nodup cfg starts s). now apply inv_reachable. Qed.

  (* ---- every hash is requested at most once, never an excluded or undefined one ---- *)
  Theorem C11_request_once s : reachable_state cfg starts s ->
    NoDup (st_requests s) /\
    forall h, In h (st_requests s) -> h <> 0%N /\ cf_excl cfg h = false.
  Proof.
    intros Hr. pose proof (inv_reachable cfg starts s Hr) as I. split.
    - apply (inv_requests_nodup cfg starts s I).
    - intros h Hin. apply (inv_requests cfg starts s I) in Hin.
      apply (requested_wanted cfg starts). apply (inv_cached cfg starts s I).
      apply cached_true. destruct Hin; eauto.
  Qed.

  (* ---- exactness: unbounded mode, the timeout did not fire ---- *)
  Theorem C11_exact s : reachable_state cfg starts s -> terminal s ->
    cf_length cfg < 0 -> st_timedout s = false ->
    (forall h, In h (map fe_hash (st_results s)) <-> reachable cfg starts h) /\
    (forall e, In e (st_results s) -> sget (fe_hash e) = Some e) /\
    (forall h, In h (st_requests s) <-> requested cfg starts h).
  Proof.
    intros Hr T Hlen Ht. split; [|split].
    - now apply terminal_exact.
    - intros e He. apply (inv_results cfg starts s (inv_reachable cfg starts s Hr) e He).
    - now apply terminal_requests.
  Qed.

  (* ---- with a timeout (indeed at every state of every execution, in every mode): what has been
     collected is duplicate free, genuine, and inside the reachable set ---- *)
  Theorem C11_timeout_sound s : reachable_state cfg starts s ->
    NoDup (map fe_hash (st_results s)) /\
    forall e, In e (st_results s) -> reachable cfg starts (fe_hash e) /\ sget (fe_hash e) = Some e.
  Proof.
    intros Hr. pose proof (inv_reachable cfg starts s Hr) as I. split.
    - apply (inv_results_nodup cfg starts s I).
    - intros e He. destruct (inv_results cfg starts s I e He) as [Hd Hs]. split; [split|assumption].
      + apply (inv_cached cfg starts s I). apply cached_true. eauto.
      + congruence.
  Qed.

  (* ---- the validator used by the harness accepts exactly the executions of the relation, so
     every theorem above applies to every trace it accepts ---- *)
  Theorem C11_validator_sound evs s : run_trace cfg starts evs = Some s <-> exec cfg init evs s.
  Proof. apply run_from_iff. Qed.
End C11.

(* The hypotheses are satisfiable and the statements not vacuous: a forked DAG with skip
   references (5 -> 3,4 ; 3 -> 1 ; 4 -> 2 ; 5 refs 1 and 9), block 2 faulty (not delivered),
   block 9 unknown, start hashes with a duplicate and the undefined CID, concurrency 2: a
   complete execution exists, returns 5,3,1,4 and requests every motivated hash exactly once. *)
Definition c11_store : store :=
  [ (1%N, Build_fentry 1 [] [] 1 1 1);
    (3%N, Build_fentry 3 [1%N] [] 2 1 1);
    (4%N, Build_fentry 4 [2%N] [] 3 2 1);
    (5%N, Build_fentry 5 [3%N; 4%N] [1%N; 9%N] 4 1 1) ].
Definition c11_cfg : config :=
  {| cf_store := c11_store; cf_excl := fun _ => false; cf_length := -1; cf_conc := 2; cf_timeout := false |}.

Example C11_example_run :
  exists s, run_seq c11_cfg 100 (init_state c11_cfg [5%N; 0%N; 5%N]) = Some s /\
            terminalb s = true /\
            map fe_hash (st_results s) = [5%N; 3%N; 1%N; 4%N] /\
            st_requests s = [5%N; 3%N; 1%N; 4%N; 2%N; 9%N].
Proof. eexists. vm_compute. repeat split. Qed.

(* The semaphore bounds outstanding Gets, not unprocessed tasks: with concurrency 1 the real
   fetcher (and the model) dispatches a second hash before the first one is processed. *)
Example C11_example_conc1 :
  exists s, run_trace {| cf_store := c11_store; cf_excl := fun _ => false; cf_length := -1;
                         cf_conc := 1; cf_timeout := false |} [3%N; 4%N]
              [EvDispatch 3; EvReturn 3 true; EvDispatch 4; EvComplete 3; EvReturn 4 true;
               EvDispatch 1; EvComplete 4; EvReturn 1 true; EvDispatch 2; EvComplete 1;
               EvReturn 2 false; EvComplete 2] = Some s /\ terminalb s = true.
Proof. eexists. vm_compute. split; reflexivity. Qed.

Print Assumptions C11_terminates_bound.
Print Assumptions C11_terminates_measure.
Print Assumptions C11_terminates.
Print Assumptions C11_no_deadlock.
Print Assumptions C11_no_dup.
Print Assumptions C11_request_once.
Print Assumptions C11_exact.
Print Assumptions C11_timeout_sound.
Print Assumptions C11_validator_sound.
Print Assumptions C11_example_run.
Print Assumptions C11_example_conc1.
