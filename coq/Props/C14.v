(* C14  Merging from a live log sees a consistent snapshot and cannot deadlock.
   Statements only.  Facts about Join's text are computed over Gen/Locks.v (regenerated from
   log.go on every check); the general theorems are in Proofs/ConcProofs.v.                   *)
From Coq Require Import List String Bool NArith.
From IpfsLog Require Import Model.Conc Proofs.ConcProofs Gen.Locks.
Import ListNotations.
Open Scope string_scope.

Definition join_paths : list path := match assoc "Join" ops with Some ps => ps | None => [] end.

(* 1. facts about the program text ----------------------------------------------------- *)

(* Join exists and really reads the other log on some path (the checks below are not vacuous) *)
Theorem C14_join_reads_source :
  existsb (fun p => mem_str "RawHeads" (foreign_seq p) && mem_str "GetEntries" (foreign_seq p)) join_paths = true.
Proof. vm_compute. reflexivity. Qed.

(* no operation calls a method of another log (which takes that log's lock) between acquiring and
   releasing its own lock *)
Theorem C14_no_foreign_under_lock : all_paths no_foreign_under_lock ops = true.
Proof. vm_compute. reflexivity. Qed.

(* the reads of the source made by Join, in textual order: the id, then the heads exactly once,
   then the entries (or an early return before any of them) *)
Theorem C14_heads_read_once_before_entries : forallb join_reads_ok join_paths = true.
Proof. vm_compute. reflexivity. Qed.

(* the accessors Join calls on the source are plain read-locked sections (so a Foreign call is
   faithfully modelled by inlining them on the other instance), and with them inlined no path of
   any operation acquires a lock while holding one *)
Theorem C14_foreign_targets_simple : forallb (foreign_ok ops) ["GetID"; "RawHeads"; "GetEntries"] = true.
Proof. vm_compute. reflexivity. Qed.

Theorem C14_no_nested_acquire : all_paths (no_nested_acquire ops returns_field) ops = true.
Proof. vm_compute. reflexivity. Qed.

(* 2. what follows ---------------------------------------------------------------------- *)

Definition valid_invocation (iv : invocation) : Prop :=
  iv_self iv <> iv_other iv /\
  exists name ps p, In (name, ps) ops /\ In p ps /\ In (iv_code iv) (expand ops returns_field p).

(* any number of logs merging each other (a.Join(b) || b.Join(a) || b.Join(c) || appends ...)
   in any interleaving: as long as some goroutine has not finished, some goroutine can move *)
Theorem C14_cross_merge_deadlock_free : forall ivs, (forall iv, In iv ivs -> valid_invocation iv) ->
  forall s, reach clock cloc clock_eqb (init clock cloc (progs_of ivs)) s ->
  (exists i t, nth_error s i = Some t /\ code t <> []) -> can_step clock cloc clock_eqb s.
Proof.
  intros ivs V s R.
  apply (deadlock_free clock cloc clock_eqb clock_eqb_spec cleaf (progs_of ivs) s); auto.
  apply nn_progs. intros iv I. destruct (V _ I) as [N [name [ps [p [I1 [I2 I3]]]]]]. split; auto.
  pose proof (all_paths_In _ _ _ _ _ C14_no_nested_acquire I1 I2) as H.
  unfold no_nested_acquire in H. apply andb_true_iff in H as [_ H]. rewrite forallb_forall in H. now apply H.
Qed.

(* the premise is needed: holding one's own lock while taking the other's can deadlock *)
Theorem C14_nested_foreign_can_deadlock :
  exists s, reach nat nat Nat.eqb (init nat nat [p_join 0 1; p_join 1 0]) s /\
            (exists i t, nth_error s i = Some t /\ code t <> []) /\ ~ can_step nat nat Nat.eqb s.
Proof. exact cross_join_can_deadlock. Qed.

(* snapshot: the source only grows (entries monotone; every state is history closed and contains
   its heads).  Heads read at t1, entries at t2 >= t1: the walk that collects the new entries
   yields exactly what it yields on the consistent state the source had at t1. *)
Theorem C14_snapshot (S : nat -> lstate) :
  (forall t t', t <= t' -> sub_ents (ents (S t)) (ents (S t'))) ->
  (forall t, closed (ents (S t)) /\ Forall (dom (ents (S t))) (hds (S t))) ->
  forall t1 t2 fuel inB, t1 <= t2 ->
    difference fuel (ents (S t2)) (hds (S t1)) inB = difference fuel (ents (S t1)) (hds (S t1)) inB.
Proof. exact (snapshot_heads_then_entries S). Qed.

(* the order matters: entries first and heads later (and heads read twice) gives a result that
   corresponds to no state of the source - the new head is not among the collected entries *)
Theorem C14_entries_first_is_torn :
  exists S t1 t2 inB,
    (forall t t', t <= t' -> sub_ents (ents (S t)) (ents (S t'))) /\
    (forall t, closed (ents (S t)) /\ Forall (dom (ents (S t))) (hds (S t))) /\
    t1 <= t2 /\
    difference 10 (ents (S t1)) (hds (S t2)) inB = Some [] /\
    difference 10 (ents (S t2)) (hds (S t2)) inB = Some [mkE 2 [1%N]; mkE 1 []] /\
    difference 10 (ents (S t1)) (hds (S t1)) inB = Some [mkE 1 []].
Proof. exact entries_then_heads_is_torn. Qed.

(* the hypotheses of C14_snapshot are satisfiable by a source that really grows *)
Example C14_source_exists :
  (forall t t', t <= t' -> sub_ents (ents (src_demo t)) (ents (src_demo t'))) /\
  (forall t, closed (ents (src_demo t)) /\ Forall (dom (ents (src_demo t))) (hds (src_demo t))) /\
  ents (src_demo 0) <> ents (src_demo 1).
Proof. destruct src_demo_ok as [A B]. repeat split; try apply A; try apply B. discriminate. Qed.

Print Assumptions C14_join_reads_source.
Print Assumptions C14_no_foreign_under_lock.
Print Assumptions C14_heads_read_once_before_entries.
Print Assumptions C14_foreign_targets_simple.
Print Assumptions C14_no_nested_acquire.
Print Assumptions C14_cross_merge_deadlock_free.
Print Assumptions C14_nested_foreign_can_deadlock.
Print Assumptions C14_snapshot.
Print Assumptions C14_entries_first_is_torn.
Print Assumptions C14_source_exists.
