(* C19  The ordering functions are lawful orders that respect causality.
   This file contains only statements; every proof is [exact]/direct use of Proofs/*.      *)
From Coq Require Import List ZArith Bool Lia Permutation Sorted.
From IpfsLog Require Import Model.Order Proofs.SortProofs Proofs.OrderProofs Proofs.OrderAnyClock.
Import ListNotations.
Open Scope Z_scope.

Section C19.
  Variable K : Type.
  Variable kcmp : K -> K -> Z.
  Hypothesis KO : KOrd K kcmp.      (* bytes.Compare / strings.Compare is a three-way total order *)

  Notation skey := (skey K).
  Notation time_ok := (time_ok K).
  Notation hash := (sort_by_entry_hash K kcmp).
  Notation lww := (last_write_wins K kcmp).
  Notation fww := (first_write_wins K kcmp).
  Notation clk := (compare_clocks K kcmp).

  Definition lt (f : skey -> skey -> cres) a b := exists r, f a b = COk r /\ r < 0.
  Definition gt (f : skey -> skey -> cres) a b := exists r, f a b = COk r /\ r > 0.

  (* 1. the hash-tiebreak ordering is a strict total order on distinct entries *)
  Theorem C19_hash_irreflexive a : time_ok a -> ~ lt hash a a /\ ~ gt hash a a.
  Proof. intros H. split; intros [r [E L]]; rewrite (hash_irrefl K kcmp KO a H) in E; inversion E; lia. Qed.

  Theorem C19_hash_antisymmetric a b : time_ok a -> time_ok b -> (lt hash a b <-> gt hash b a).
  Proof.
    intros Ha Hb. unfold lt, gt. rewrite !(hash_spec K kcmp) by assumption.
    rewrite (hash_anti K kcmp KO a b Ha Hb).
    split; intros [r [E L]]; inversion E; subst; eexists; split; try reflexivity; lia.
  Qed.

  Theorem C19_hash_transitive a b c : time_ok a -> time_ok b -> time_ok c ->
    lt hash a b -> lt hash b c -> lt hash a c.
  Proof.
    intros Ha Hb Hc. unfold lt. rewrite !(hash_spec K kcmp) by assumption.
    intros [r1 [E1 L1]] [r2 [E2 L2]]. inversion E1; inversion E2; subst.
    eexists; split; [reflexivity|]. eapply (hash_trans K kcmp KO a b c); eauto.
  Qed.

  Theorem C19_hash_total a b : time_ok a -> time_ok b -> sk_hash a <> sk_hash b ->
    lt hash a b \/ lt hash b a.
  Proof.
    intros Ha Hb Hne. unfold lt. rewrite !(hash_spec K kcmp) by assumption.
    pose proof (hash_total K kcmp KO a b Ha Hb Hne). pose proof (hash_anti K kcmp KO a b Ha Hb).
    destruct (Z.lt_trichotomy (hash_val K kcmp a b) 0) as [L|[L|L]]; [left|lia|right];
      eexists; split; try reflexivity; lia.
  Qed.

  (* 2. the default ordering coincides with it whenever (clock id, time) pairs are distinct *)
  Theorem C19_default_same_when_distinct a b : time_ok a -> time_ok b ->
    (sk_time a, sk_id a) <> (sk_time b, sk_id b) -> lww a b = hash a b.
  Proof.
    intros Ha Hb Hne. rewrite (lww_spec K kcmp), (hash_spec K kcmp) by assumption.
    f_equal. now apply (lww_eq_hash K kcmp KO).
  Qed.

  (* 3. clock comparison is antisymmetric and transitive *)
  Theorem C19_clock_antisymmetric t1 i1 t2 i2 : int64_range t1 -> int64_range t2 ->
    clock_compare K kcmp t2 i2 t1 i1 = - clock_compare K kcmp t1 i1 t2 i2.
  Proof. exact (clock_compare_anti K kcmp KO t1 i1 t2 i2). Qed.

  Theorem C19_clock_transitive t1 i1 t2 i2 t3 i3 :
    int64_range t1 -> int64_range t2 -> int64_range t3 ->
    clock_compare K kcmp t1 i1 t2 i2 < 0 -> clock_compare K kcmp t2 i2 t3 i3 < 0 ->
    clock_compare K kcmp t1 i1 t3 i3 < 0.
  Proof. exact (clock_compare_trans K kcmp KO t1 i1 t2 i2 t3 i3). Qed.

  (* 4. all of them put an entry with a smaller clock time first *)
  Theorem C19_respects_time a b : time_ok a -> time_ok b -> sk_time a < sk_time b ->
    lt hash a b /\ lt lww a b /\ lt clk a b.
  Proof.
    intros Ha Hb H. unfold lt, compare_clocks.
    rewrite (hash_spec K kcmp), (lww_spec K kcmp) by assumption.
    repeat split; eexists; (split; [reflexivity|]).
    - now apply hash_time.
    - now apply lww_time.
    - now apply (clock_compare_time K kcmp).
  Qed.

  (* 5. first-write-wins is the exact reverse of last-write-wins *)
  Theorem C19_fww_reverse a b : time_ok a -> time_ok b ->
    exists r, lww a b = COk r /\ fww a b = COk (- r).
  Proof.
    intros Ha Hb. exists (lww_val K kcmp a b). split; [now apply lww_spec|now apply fww_reverse].
  Qed.

  (* 6. sorting: a permutation of the input (for ANY comparator, lawful or not), and for the
        hash-tiebreak ordering (with or without the NoZeroes wrapper the log installs) sorted and
        independent of the order of the input, ascending or descending. *)
  Theorem C19_sort_permutation (f : skey -> skey -> cres) rev l : Permutation (sort_go f rev l) l.
  Proof. exact (sort_go_perm skey f rev l). Qed.

  Lemma hash_sort_premises (f : skey -> skey -> cres) :
    (f = hash \/ f = no_zeroes K hash) ->
    (forall a b, time_ok a -> time_ok b -> a <> b -> f a b = COk (hash_val K kcmp a b)) /\
    (forall a, time_ok a -> f a a = CErr \/ f a a = COk 0).
  Proof.
    intros Hf. split.
    - intros a b Ha Hb Hne.
      assert (hash_val K kcmp a b <> 0).
      { intro Z0. apply (hash_zero K kcmp KO a b Ha Hb) in Z0. destruct a, b; cbn in *.
        destruct Z0 as [? [? ?]]; subst. now apply Hne. }
      destruct Hf; subst f; unfold no_zeroes; rewrite (hash_spec K kcmp) by assumption; auto.
      apply Z.eqb_neq in H. now rewrite H.
    - intros a Ha. destruct Hf; subst f; unfold no_zeroes; rewrite (hash_irrefl K kcmp KO a Ha); auto.
  Qed.

  Theorem C19_sort_sorted_deterministic (f : skey -> skey -> cres) rev l l' :
    (f = hash \/ f = no_zeroes K hash) ->
    Forall time_ok l -> NoDup l -> Permutation l l' ->
    StronglySorted (fun a b => sort_less f rev a b = true) (sort_go f rev l) /\
    sort_go f rev l = sort_go f rev l'.
  Proof.
    intros Hf HP Hnd Hp. destruct (hash_sort_premises f Hf) as [Hv Hs].
    assert (Htot : forall a b, time_ok a -> time_ok b -> a <> b -> hash_val K kcmp a b <> 0).
    { intros a b Ha Hb Hne Z0. apply (hash_zero K kcmp KO a b Ha Hb) in Z0. destruct a, b; cbn in *.
      destruct Z0 as [? [? ?]]; subst. now apply Hne. }
    split.
    - exact (sort_go_sorted skey (hash_val K kcmp) f time_ok Hv Hs
               (hash_anti K kcmp KO) (hash_trans K kcmp KO) Htot rev l HP Hnd).
    - exact (sort_go_deterministic skey (hash_val K kcmp) f time_ok Hv Hs
               (hash_anti K kcmp KO) (hash_trans K kcmp KO) Htot rev l l' HP Hnd Hp).
  Qed.
End C19.

(* The clock type is pluggable (iface.IPFSLogLamportClock; codecs and LogOptions take prototypes):
   SortByClocks calls the clocks' own Compare and compares the ids itself when that answers 0.  The
   laws hold for EVERY clock type whose Compare ranks by time and, on equal times, either does not
   decide or decides like the ids ([clock_law]) - the orderings do not lean on what the built-in
   clock does beyond that. *)
Section C19_any_clock.
  Variable K : Type.
  Variable kcmp : K -> K -> Z.
  Hypothesis KO : KOrd K kcmp.
  Variable cc : skey K -> skey K -> Z.          (* a.GetClock().Compare(b.GetClock()) *)
  Hypothesis CL : clock_law K kcmp cc.
  Notation time_ok := (time_ok K).
  Notation hashg := (hash_g K kcmp cc).
  Notation lwwg := (lww_g K kcmp cc).
  Notation fwwg := (fww_g K kcmp cc).
  Notation ltg := (ltg K).
  Notation gtg := (gtg K).

  Theorem C19_any_clock_hash_strict_total_order :
    (forall a, time_ok a -> ~ ltg hashg a a /\ ~ gtg hashg a a) /\
    (forall a b, time_ok a -> time_ok b -> (ltg hashg a b <-> gtg hashg b a)) /\
    (forall a b c, time_ok a -> time_ok b -> time_ok c -> ltg hashg a b -> ltg hashg b c -> ltg hashg a c) /\
    (forall a b, time_ok a -> time_ok b -> sk_hash a <> sk_hash b -> ltg hashg a b \/ ltg hashg b a).
  Proof.
    exact (conj (any_clock_hash_irreflexive K kcmp KO cc CL)
          (conj (any_clock_hash_antisymmetric K kcmp KO cc CL)
          (conj (any_clock_hash_transitive K kcmp KO cc CL) (any_clock_hash_total K kcmp KO cc CL)))).
  Qed.

  Theorem C19_any_clock_default_same_when_distinct a b : time_ok a -> time_ok b ->
    (sk_time a, sk_id a) <> (sk_time b, sk_id b) ->
    (ltg lwwg a b <-> ltg hashg a b) /\ (ltg lwwg a b <-> ~ ltg lwwg b a).
  Proof.
    intros Ha Hb Hne. exact (conj (any_clock_default_same_when_distinct K kcmp KO cc CL a b Ha Hb Hne)
                                  (any_clock_default_decides_distinct K kcmp KO cc CL a b Ha Hb Hne)).
  Qed.

  Theorem C19_any_clock_respects_time a b : time_ok a -> time_ok b -> sk_time a < sk_time b ->
    ltg hashg a b /\ ltg lwwg a b.
  Proof. exact (any_clock_respects_time K kcmp KO cc CL a b). Qed.

  Theorem C19_any_clock_fww_reverse a b : time_ok a -> time_ok b -> - two63 < cc a b < two63 ->
    exists r, lwwg a b = COk r /\ fwwg a b = COk (- r).
  Proof. exact (any_clock_fww_reverse K kcmp KO cc a b). Qed.
End C19_any_clock.

(* the assumption is met by the built-in clock - for which the generic definitions are the model of
   sorting.go itself - and by a clock that compares times alone *)
Theorem C19_builtin_clock_is_an_instance K kcmp : KOrd K kcmp ->
  clock_law K kcmp (builtin_cc K kcmp) /\
  (forall a b, hash_g K kcmp (builtin_cc K kcmp) a b = sort_by_entry_hash K kcmp a b) /\
  (forall a b, lww_g K kcmp (builtin_cc K kcmp) a b = last_write_wins K kcmp a b).
Proof. intros KO. exact (conj (builtin_clock_law K kcmp KO) (conj (hash_g_builtin K kcmp) (lww_g_builtin K kcmp))). Qed.

Theorem C19_time_only_clock_is_an_instance K kcmp : clock_law K kcmp time_only_cc.
Proof. exact (time_only_clock_law K kcmp). Qed.

Example C19_any_clock_nonvacuous :
  (* same time, different ids: the time-only clock answers 0 and the orderings go on to the ids *)
  let a := Build_skey 3 1%N 10%N in let b := Build_skey 3 2%N 9%N in
  time_only_cc a b = 0 /\ lww_g N ncmp time_only_cc a b = COk (-1) /\ lww_g N ncmp time_only_cc b a = COk 1 /\
  hash_g N ncmp time_only_cc a b = COk (-1) /\ fww_g N ncmp time_only_cc a b = COk 1.
Proof. cbv. repeat split. Qed.

(* The laws assumed of the id/hash comparison hold for the two instances in use:
   natural-number ranks (used when the model is executed) and raw byte strings (bytes.Compare). *)
Theorem C19_ranks_are_ordered : KOrd N ncmp.
Proof. exact ncmp_ord. Qed.
Theorem C19_bytes_are_ordered : KOrd (list N) lexcmp.
Proof. exact lexcmp_ord. Qed.

(* Non-vacuity: concrete keys meet the hypotheses. *)
Example C19_nonvacuous :
  let a := Build_skey 3 2%N 10%N in let b := Build_skey 3 2%N 11%N in
  time_ok N a /\ time_ok N b /\ sk_hash a <> sk_hash b /\
  sort_by_entry_hash N ncmp a b = COk (-1) /\ last_write_wins N ncmp a b = COk 1.
Proof. cbv. repeat split; try lia; try discriminate. Qed.

(* LamportClock.Compare subtracts machine integers.  Before the repair (known_findings.json,
   "fixed" entry for C19) the subtraction wrapped for times further apart than 2^63; the model now
   contains the saturation the fix introduced, and all laws above hold on the whole int64 range
   ([time_ok] is [int64_range]).  The former counterexample is kept as a regression theorem. *)
Theorem C19_extreme_times_ordered :
  forall i, clock_compare N ncmp (- two63) i 1 i < 0 /\ clock_compare N ncmp (two63 - 1) i (-1) i > 0.
Proof. intros i. cbv. split; reflexivity. Qed.

Print Assumptions C19_hash_irreflexive.
Print Assumptions C19_hash_antisymmetric.
Print Assumptions C19_hash_transitive.
Print Assumptions C19_hash_total.
Print Assumptions C19_default_same_when_distinct.
Print Assumptions C19_clock_antisymmetric.
Print Assumptions C19_clock_transitive.
Print Assumptions C19_respects_time.
Print Assumptions C19_fww_reverse.
Print Assumptions C19_sort_permutation.
Print Assumptions C19_sort_sorted_deterministic.
Print Assumptions C19_ranks_are_ordered.
Print Assumptions C19_bytes_are_ordered.
Print Assumptions C19_extreme_times_ordered.
Print Assumptions C19_any_clock_hash_strict_total_order.
Print Assumptions C19_any_clock_default_same_when_distinct.
Print Assumptions C19_any_clock_respects_time.
Print Assumptions C19_any_clock_fww_reverse.
Print Assumptions C19_builtin_clock_is_an_instance.
Print Assumptions C19_time_only_clock_is_an_instance.
Print Assumptions C19_any_clock_nonvacuous.
