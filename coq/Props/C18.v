(* C18  With a link key, stored blocks never reveal the log's structure; readers with the key
   recover the links and can verify and merge the entries.
   Statements only; proofs in Proofs/LinkProofs.v (and Proofs/EntryCodecProofs.v).

   Tree level, over the codec model of C08 (Model/EntryCodec.v: PreSign, ToJsonableEntry, the atlas
   of Gen/Tables.v, DecryptLinks) and Model/LinkVerify.v (NonceRefForEntry, CreateEntryWithIO and
   Entry.Verify for the link codec; the signed bytes are those of C07's Model/Signing.v).
   Secrecy of the sealed box, of the signature and of the nonce is cryptography and is NOT claimed:
   the theorems say that no link identifier is stored in clear or as a traversable (tag 42) item,
   and that nothing else in the block is a function of the links. *)
From Coq Require Import List NArith ZArith Bool String.
From IpfsLog Require Import Model.Cbor Model.EntryCodec Gen.Tables Proofs.CborProofs Proofs.EntryCodecProofs Model.LinkVerify Proofs.LinkProofs.
(* deps *)
Import ListNotations.
Local Open Scope string_scope.
Open Scope N_scope.

(* ---- 1. the stored block ----
   [has_enc e]: the entry carries the two strings PreSign attaches when a key is configured and the
   entry has links (C18_presign_attaches).  Its block has next = refs = [] and not a single tagged
   item (a CID can only appear as tag 42; Links() of the node enumerates exactly those). *)
Theorem C18_stored_block_hides_links e t : to_tree e = Ok t -> has_enc e = true ->
  links_of t = [] /\ field_of "jsonable.Entry" "Next" t = Some (CArray []) /\
  field_of "jsonable.Entry" "Refs" t = Some (CArray []).
Proof. exact (stored_block_hides_links e t). Qed.

Theorem C18_entry_without_links_has_none e t : to_tree e = Ok t -> (1 <? e_v e) = true ->
  len0 (e_next e) = true -> len0 (e_refs e) = true -> links_of t = [].
Proof. exact (stored_block_without_links e t). Qed.

(* every field of the block other than enc_links, enc_links_nonce and sig is the same for two
   entries that differ only in their links (and hence in what was sealed and signed) *)
Theorem C18_clear_part_independent_of_links e1 e2 t1 t2 :
  to_tree e1 = Ok t1 -> to_tree e2 = Ok t2 -> has_enc e1 = true -> has_enc e2 = true ->
  e_v e1 = e_v e2 -> e_logid e1 = e_logid e2 -> e_payload e1 = e_payload e2 -> e_clock e1 = e_clock e2 ->
  e_key e1 = e_key e2 -> e_identity e1 = e_identity e2 ->
  clear_part t1 = clear_part t2.
Proof. exact (clear_part_independent_of_links e1 e2 t1 t2). Qed.

Section Codec.
  Variable cidok : bytes -> bool.
  Variable K : Type.
  Variable seal : K -> bytes -> bytes -> bytes.
  Variable open_ : K -> bytes -> bytes -> option bytes.
  Variable nonce_of : entry -> bytes.
  Variable b64enc : bytes -> bytes.
  Variable b64dec : bytes -> option bytes.
  Hypothesis open_seal : forall k n m, open_ k n (seal k n m) = Some m.       (* secretbox *)
  Hypothesis b64_inv : forall x, b64dec (b64enc x) = Some x.

  (* PreSign with a key attaches the strings exactly when there are links *)
  Theorem C18_presign_attaches k e e' :
    presign K seal nonce_of b64enc (Some k) e = Ok e' -> (1 <? e_v e) = true ->
    (len0 (e_next e) && len0 (e_refs e) = true /\ e' = e) \/ has_enc e' = true.
  Proof.
    intros P V. destruct (presign_shape K seal nonce_of b64enc k e e' P) as [H|(lt & _ & _ & _ & Hv & A1 & A2)]; [now left|].
    right. unfold has_enc. now rewrite A1, A2, Hv.
  Qed.

  (* ---- 2. readers ---- same key: identical next / refs (and every other field), C08's theorem *)
  Theorem C18_reader_with_same_key k e h lt nonce :
    wf_entry cidok e = true -> (1 <? e_v e) = true ->
    links_tree (e_next e) (e_refs e) = Ok lt ->
    assoc key_enc_links (e_additional e) = Some (b64enc (seal k nonce (encode lt))) ->
    assoc key_enc_nonce (e_additional e) = Some (b64enc nonce) ->
    is_nil (b64enc (seal k nonce (encode lt))) = false -> is_nil (b64enc nonce) = false ->
    exists t e', to_tree e = Ok t /\ of_tree cidok K open_ b64dec (Some k) h t = Ok e' /\
                 e_next e' = e_next e /\ e_refs e' = e_refs e.
  Proof.
    intros W V L A1 A2 N1 N2.
    destruct (link_roundtrip_core cidok K seal open_ b64enc b64dec open_seal b64_inv k e h lt nonce W V L A1 A2 N1 N2)
      as (t & Et & _ & Dt & _).
    exists t, (strip_additional h e). auto.
  Qed.

  (* no key: an entry with empty link lists *)
  Theorem C18_reader_without_key e h : wf_entry cidok e = true -> has_enc e = true ->
    exists t e', to_tree e = Ok t /\ of_tree_plain cidok h t = Ok e' /\ e_next e' = Some [] /\ e_refs e' = Some [].
  Proof.
    intros W E. destruct (entry_roundtrip cidok e h W) as (t & Et & _ & Dt).
    exists t, (normal h e). repeat split; auto; unfold normal; cbn [e_next e_refs]; now rewrite E.
  Qed.

  (* another key: an error (assumption: the box does not open under it - secretbox authenticity) *)
  Theorem C18_reader_with_other_key k' e t c h box nonce :
    to_tree e = Ok t -> (1 <? e_v e) = true -> e_clock e = Some c -> int64_ok (clk_time c) = true ->
    assoc key_enc_links (e_additional e) = Some (b64enc box) -> assoc key_enc_nonce (e_additional e) = Some (b64enc nonce) ->
    is_nil (b64enc box) = false -> is_nil (b64enc nonce) = false ->
    open_ k' nonce box = None ->
    of_tree cidok K open_ b64dec (Some k') h t = Err EDecrypt.
  Proof. exact (reader_with_other_key cidok K open_ b64enc b64dec b64_inv k' e t c h box nonce). Qed.
End Codec.

(* ---- 3. verification ----
   FINDING F3 (key C18:link-entry-does-not-verify): with the code as it is, an entry that has links
   and was created with a link key does not verify, so it can never be merged.  NonceRefForEntry
   formats the entry's key into the nonce reference; CreateEntryWithIO runs PreSign BEFORE SetKey
   (key empty), Entry.Verify runs PreSign again on the finished entry (key set): *)
Theorem C18_nonce_reference_depends_on_key cid_text e k1 k2 :
  List.length k1 <> List.length k2 -> nonce_ref_with cid_text k1 e <> nonce_ref_with cid_text k2 e.
Proof. exact (nonce_ref_depends_on_key cid_text e k1 k2). Qed.

(* end to end with toy oracles (identity hash / base64, seal k n m = n ++ m, signature = 1 :: m):
   the created entry has a link and [verify_link] answers false *)
Theorem C18_regression_link_entry_did_not_verify :
  exists e, toy_create (nonce_ref (fun x => x)) = Ok e /\ e_next e = Some [[1; 113; 18; 1; 9]] /\
            toy_verify_entry (nonce_ref (fun x => x)) e = Ok false.
Proof. exact toy_link_entry_does_not_verify. Qed.

(* repaired variant (notes/C18.md): the key position of the reference is always empty - exactly
   the bytes the code has always produced at creation time, so stored entries keep their nonce.
   Then every entry created with the key verifies, as created and as read back from its block. *)
Theorem C18_link_entry_verifies
  cid_text cid_b58 K seal derive b64enc skey pkey pub pub_bytes unmarshal sign verify :
  (forall sk, unmarshal (pub_bytes sk) = Some (pub sk)) ->
  (forall sk m, verify (pub sk) m (sign sk m) = true) ->
  (forall sk, is_nil (pub_bytes sk) = false) -> (forall sk m, is_nil (sign sk m) = false) ->
  (forall y, is_nil (b64enc (derive y)) = false) ->
  forall (k : K) (sk : skey) ident data e' h,
    e_additional data = [] ->
    create_link cid_b58 K seal derive b64enc skey pub_bytes sign (nonce_ref_nokey cid_text) (Some k) sk ident data = Ok e' ->
    verify_link cid_b58 K seal derive b64enc pkey unmarshal verify (nonce_ref_nokey cid_text) (Some k) e' = Ok true /\
    verify_link cid_b58 K seal derive b64enc pkey unmarshal verify (nonce_ref_nokey cid_text) (Some k) (strip_additional h e') = Ok true.
Proof.
  exact (link_entries_verify_with_nokey_reference cid_text cid_b58 K seal derive b64enc skey pkey pub pub_bytes unmarshal sign verify).
Qed.

(* the repaired reference is the one the code computes when the key is empty, i.e. at creation *)
Theorem C18_nokey_reference_is_creation_reference cid_text e : e_key e = [] -> nonce_ref cid_text e = nonce_ref_nokey cid_text e.
Proof. intros H. unfold nonce_ref, nonce_ref_nokey. now rewrite H. Qed.

Example C18_nonvacuous :
  exists e, toy_create (nonce_ref_nokey (fun x => x)) = Ok e /\ has_enc e = true /\
            toy_verify_entry (nonce_ref_nokey (fun x => x)) e = Ok true /\
            toy_verify_entry (nonce_ref_nokey (fun x => x)) (strip_additional [9] e) = Ok true /\
            exists t, to_tree e = Ok t /\ links_of t = [].
Proof.
  destruct toy_link_entry_verifies_with_nokey_reference as (e & C & V1 & V2).
  exists e. split; [exact C|]. vm_compute in C. inversion C; subst e. clear C.
  split; [reflexivity|]. split; [exact V1|]. split; [exact V2|].
  eexists. split; vm_compute; reflexivity.
Qed.

Print Assumptions C18_stored_block_hides_links.
Print Assumptions C18_entry_without_links_has_none.
Print Assumptions C18_clear_part_independent_of_links.
Print Assumptions C18_presign_attaches.
Print Assumptions C18_reader_with_same_key.
Print Assumptions C18_reader_without_key.
Print Assumptions C18_reader_with_other_key.
Print Assumptions C18_nonce_reference_depends_on_key.
Print Assumptions C18_regression_link_entry_did_not_verify.
Print Assumptions C18_link_entry_verifies.
Print Assumptions C18_nokey_reference_is_creation_reference.
Print Assumptions C18_nonvacuous.
