(* C16  A size-bounded merge keeps exactly the newest entries of the full merge.
   [l], [o]: any two replicas of any well-formed history; [size >= 0]. *)
From Coq Require Import List ZArith Bool Lia Permutation Sorted.
From IpfsLog Require Import Model.System Model.CheckLog Proofs.OmapProofs Proofs.SortProofs Proofs.Inv Proofs.DiffProofs
     Proofs.JoinProofs Proofs.SysProofs Proofs.TravProofs Proofs.TimeProofs Proofs.ValuesProofs Proofs.BoundedProofs
     Proofs.PInv Proofs.PJoin Proofs.PSys Proofs.PValues Proofs.PTime Proofs.PBounded.
Import ListNotations.
Open Scope Z_scope.

Lemma values_total U l : linv U l -> values l <> None.
Proof.
  intros I. unfold values, traverse.
  set (stack0 := sort_desc (l_sort l) (oslice (l_heads l))).
  pose proof (trav_fuel_ok (l_entries l) (l_sort l) (li_nodup _ _ I) (linv_well_keyed _ _ I) (-1) None
                (trav_fuel (l_entries l) stack0) stack0 [] [] 0) as F.
  destruct (trav _ _ _ _ _ _ _ _ _); [discriminate|]. exfalso. apply F; [|reflexivity].
  unfold trav_fuel. rewrite unseen_nil. lia.
Qed.

(* never panics: for every pair of replicas, every bound (also negative ones), whatever the entries *)
Theorem C16_join_never_panics ops r src l o size :
  wf ops -> nth_error (s_logs (run ops)) r = Some l -> nth_error (s_logs (run ops)) src = Some o ->
  snd (join l o (Nat.eqb r src) size) <> Panic.
Proof.
  intros W L O. destruct (sinv_run ops W) as [UO IL]. pose proof (IL r l L) as Il. pose proof (IL src o O) as Io.
  unfold join, join_reads. destruct (Nat.eqb r src); [discriminate|].
  destruct (N.eqb_spec (l_id l) (l_id o)) as [Hid|Hid]; cbn [negb]; [|discriminate].
  destruct (difference (l_entries o) (oslice (l_heads o)) l) as [ni|] eqn:D;
    [|exfalso; exact (difference_total _ _ _ D)].
  destruct (forallb (entry_ok l) (oslice ni)); cbn [negb]; [|discriminate].
  destruct (size <? 0); [discriminate|].
  fold_j_ents l ni. rewrite (own_heads_o _ l o UO Il Io Hid ni D).
  match goal with |- context [values ?x] => change (values x) with (values (j_log l o ni)) end.
  pose proof (values_total _ _ (linv_join _ l o UO Il Io Hid ni D)) as V.
  destruct (values (j_log l o ni)); [discriminate|congruence].
Qed.

(* the bounded merge = the last min(n,total) entries of the linearisation of the unbounded merge *)
Theorem C16_bounded_join_keeps_newest ops r src l o size lu :
  wf ops -> hist_bound ops < two63 ->
  nth_error (s_logs (run ops)) r = Some l -> nth_error (s_logs (run ops)) src = Some o ->
  l_id l = l_id o -> 0 <= size ->
  join l o false (-1) = (lu, Ok tt) ->                     (* the unbounded merge is accepted *)
  order_total lu ->
  exists vu l',
    values lu = Some vu /\
    join l o false size = (l', Ok tt) /\
    let keep := lastn (Z.to_nat size) (oslice vu) in
    (forall k v, In (k, v) (l_entries l') <-> In v keep /\ e_hash v = k) /\
    (forall k v, In (k, v) (l_heads l') <-> In v keep /\ e_hash v = k /\ ~ named_in keep k) /\
    NoDup (okeys (l_entries l')) /\
    (Z.of_nat (length vu) <= size -> forall k v, In (k, v) (l_entries l') <-> In (k, v) (l_entries lu)).
Proof.
  intros W Hlen L O Hid Hs J OT. destruct (sinv_run ops W) as [UO IL]. pose proof (IL r l L) as Il. pose proof (IL src o O) as Io.
  unfold join, join_reads in J.
  assert (E0 : N.eqb (l_id l) (l_id o) = true) by (apply N.eqb_eq; exact Hid). rewrite E0 in J. cbn [negb] in J.
  destruct (difference (l_entries o) (oslice (l_heads o)) l) as [ni|] eqn:D; [|discriminate].
  destruct (forallb (entry_ok l) (oslice ni)) eqn:OK; cbn [negb] in J; [|discriminate].
  cbn [Z.ltb Z.compare] in J. fold_j_ents l ni. rewrite (own_heads_o _ l o UO Il Io Hid ni D) in J. injection J as <-.
  assert (TO : times_ok (j_log l o ni)).
  { intros e He. apply ents_In in He. destruct He as [k He]. apply (join_entries _ l o UO Il Io Hid ni D) in He.
    destruct He as [He|He]; [eapply (times_in_range ops r l W Hlen L)|eapply (times_in_range ops src o W Hlen O)]; apply ents_In; eauto. }
  destruct (bounded_join_spec _ l o UO Il Io Hid ni D OK TO OT size Hs) as [vu [l' [V [J' [A [B [C _]]]]]]].
  exists vu, l'. split; [exact V|]. split; [exact J'|]. cbn zeta.
  split; [exact A|]. split; [exact B|]. split; [exact C|].
  intros Hl. exact (bounded_join_large _ l o UO Il Io Hid ni D OK TO OT size Hs vu l' V J' Hl).
Qed.

(* the log it leaves IS the log holding the kept entries: its reverse next index (the only other
   state later merges read) names exactly the predecessors of the kept entries and has forgotten the
   dropped ones *)
Theorem C16_bounded_join_forgets_dropped_entries ops r src l o size lu :
  wf ops -> hist_bound ops < two63 ->
  nth_error (s_logs (run ops)) r = Some l -> nth_error (s_logs (run ops)) src = Some o ->
  l_id l = l_id o -> 0 <= size ->
  join l o false (-1) = (lu, Ok tt) -> order_total lu ->
  exists vu l',
    values lu = Some vu /\ join l o false size = (l', Ok tt) /\
    forall n, In n (okeys (l_next l')) <-> named_in (lastn (Z.to_nat size) (oslice vu)) n.
Proof.
  intros W Hlen L O Hid Hs J OT. destruct (sinv_run ops W) as [UO IL]. pose proof (IL r l L) as Il. pose proof (IL src o O) as Io.
  unfold join, join_reads in J.
  assert (E0 : N.eqb (l_id l) (l_id o) = true) by (apply N.eqb_eq; exact Hid). rewrite E0 in J. cbn [negb] in J.
  destruct (difference (l_entries o) (oslice (l_heads o)) l) as [ni|] eqn:D; [|discriminate].
  destruct (forallb (entry_ok l) (oslice ni)) eqn:OK; cbn [negb] in J; [|discriminate].
  cbn [Z.ltb Z.compare] in J. fold_j_ents l ni. rewrite (own_heads_o _ l o UO Il Io Hid ni D) in J. injection J as <-.
  assert (TO : times_ok (j_log l o ni)).
  { intros e He. apply ents_In in He. destruct He as [k He]. apply (join_entries _ l o UO Il Io Hid ni D) in He.
    destruct He as [He|He]; [eapply (times_in_range ops r l W Hlen L)|eapply (times_in_range ops src o W Hlen O)]; apply ents_In; eauto. }
  exact (bounded_join_next _ l o UO Il Io Hid ni D OK TO OT size Hs).
Qed.

(* ---- "for all pairs of logs": also logs that earlier bounded merges have truncated, and logs that
   merged from such logs.  [pwf] only asks for hash-consistent appends; joins may carry any bound.
   Along every such history every replica is a log in the full sense ([pinv]): in particular, after
   ANY merge with ANY bound the heads are exactly the unreferenced entries (non-empty when the log is),
   the reverse next index is exact, every entry is at most as new as the clock - and no merge panics. *)
Lemma values_total_raw l : NoDup (okeys (l_entries l)) -> well_keyed (l_entries l) -> values l <> None.
Proof.
  intros ND WK. unfold values, traverse.
  set (stack0 := sort_desc (l_sort l) (oslice (l_heads l))).
  pose proof (trav_fuel_ok (l_entries l) (l_sort l) ND WK (-1) None
                (trav_fuel (l_entries l) stack0) stack0 [] [] 0) as F.
  destruct (trav _ _ _ _ _ _ _ _ _); [discriminate|]. exfalso. apply F; [|reflexivity].
  unfold trav_fuel. rewrite unseen_nil. lia.
Qed.

Theorem C16_every_log_of_every_history_is_a_log ops r l :
  pwf ops -> nth_error (s_logs (run ops)) r = Some l ->
  (forall k e, In (k, e) (l_heads l) <-> In (k, e) (l_entries l) /\ ~ named_in (ents l) k) /\
  (forall n, In n (okeys (l_next l)) <-> named_in (ents l) n) /\
  (l_entries l <> [] -> l_heads l <> []) /\
  (forall e, In e (ents l) -> e_time e <= l_time l) /\
  NoDup (okeys (l_entries l)) /\ NoDup (okeys (l_heads l)).
Proof.
  intros W L. destruct (psinv_run ops W) as [UO IL]. pose proof (IL r l L) as I.
  split; [exact (pi_heads _ _ I)|]. split; [exact (pi_next _ _ I)|]. split; [|split; [exact (pi_time _ _ I)|split; [exact (pi_nodup _ _ I)|exact (pi_heads_nodup _ _ I)]]].
  intros Hne Hh.
  assert (exists k v, In (k, v) (l_entries l)) as [k [v Hin]].
  { destruct (l_entries l) as [|[k v] m]; [congruence|]. exists k, v. now left. }
  destruct (climb (s_univ (run ops)) (l_entries l) (l_heads l) UO (pi_in_U _ _ I) (pi_heads _ _ I) k v Hin) as [kh [hd [Hhd _]]].
  rewrite Hh in Hhd. destruct Hhd.
Qed.

Theorem C16_any_merge_any_bound_any_history ops r src l o size :
  pwf ops -> nth_error (s_logs (run ops)) r = Some l -> nth_error (s_logs (run ops)) src = Some o ->
  snd (join l o (Nat.eqb r src) size) <> Panic /\
  pwf (ops ++ [OJoin r src size]).
Proof.
  intros W L O. destruct (psinv_run ops W) as [UO IL]. pose proof (IL r l L) as Il. pose proof (IL src o O) as Io.
  split.
  - unfold join, join_reads. destruct (Nat.eqb r src); [discriminate|].
    destruct (N.eqb_spec (l_id l) (l_id o)) as [Hid|Hid]; cbn [negb]; [|discriminate].
    destruct (difference (l_entries o) (oslice (l_heads o)) l) as [ni|] eqn:D;
      [|exfalso; exact (difference_total _ _ _ D)].
    destruct (forallb (entry_ok l) (oslice ni)); cbn [negb]; [|discriminate].
    destruct (size <? 0); [discriminate|].
    match goal with |- context [values ?x] => assert (V : values x <> None) end.
    { apply values_total_raw; cbn [l_entries].
      - exact (proj1 (pj_ents_spec _ l o Il Io Hid ni D)).
      - intros k v H. now apply (pj_in_U _ l o Il Io Hid ni D) in H. }
    match goal with |- context [values ?x] => destruct (values x) end; [discriminate|congruence].
  - unfold pwf in *. clear - W. revert W. generalize empty_sys. induction ops as [|x xs IH]; intros s W; cbn [app pwf_from] in *.
    + split; [exact I|exact I].
    + destruct W as [W1 W2]. split; [exact W1|apply IH; exact W2].
Qed.

(* ... and its Values() is a complete, duplicate-free linearisation, sorted by the ordering and with
   every entry after those of its predecessors that the log still holds (C03 for truncated logs) *)
Theorem C16_truncated_logs_linearise ops r l :
  pwf ops -> hist_bound ops < two63 -> nth_error (s_logs (run ops)) r = Some l -> order_total l ->
  exists v, values l = Some v /\
    NoDup (okeys v) /\
    (forall k e, In (k, e) v <-> In (k, e) (l_entries l)) /\
    StronglySorted (asc l) (oslice v) /\
    (forall l1 e l2, oslice v = l1 ++ e :: l2 ->
       forall n p, In n (e_next e) -> In (n, p) (l_entries l) -> In p l1).
Proof.
  intros W Hlen L OT. destruct (psinv_run ops W) as [UO IL].
  pose proof (ptimes_in_range ops r l W Hlen L) as TO.
  destruct (pvalues_spec _ l UO (IL r l L) TO OT) as [v [V [A [B [C D]]]]].
  exists v. repeat split; auto; try apply B.
  exact (pvalues_causal _ l v UO (IL r l L) TO B D).
Qed.

(* the main clause for ALL pairs of logs: any two replicas of any history with any earlier bounds *)
Theorem C16_bounded_join_keeps_newest_all_pairs ops r src l o size lu :
  pwf ops -> hist_bound ops < two63 ->
  nth_error (s_logs (run ops)) r = Some l -> nth_error (s_logs (run ops)) src = Some o ->
  l_id l = l_id o -> 0 <= size ->
  join l o false (-1) = (lu, Ok tt) ->                     (* the unbounded merge is accepted *)
  order_total lu ->
  exists vu l',
    values lu = Some vu /\
    join l o false size = (l', Ok tt) /\
    let keep := lastn (Z.to_nat size) (oslice vu) in
    (forall k v, In (k, v) (l_entries l') <-> In v keep /\ e_hash v = k) /\
    (forall k v, In (k, v) (l_heads l') <-> In v keep /\ e_hash v = k /\ ~ named_in keep k) /\
    (forall n, In n (okeys (l_next l')) <-> named_in keep n) /\
    NoDup (okeys (l_entries l')) /\
    (Z.of_nat (length vu) <= size -> forall k v, In (k, v) (l_entries l') <-> In (k, v) (l_entries lu)).
Proof.
  intros W Hlen L O Hid Hs J OT. destruct (psinv_run ops W) as [UO IL]. pose proof (IL r l L) as Il. pose proof (IL src o O) as Io.
  unfold join, join_reads in J.
  assert (E0 : N.eqb (l_id l) (l_id o) = true) by (apply N.eqb_eq; exact Hid). rewrite E0 in J. cbn [negb] in J.
  destruct (difference (l_entries o) (oslice (l_heads o)) l) as [ni|] eqn:D; [|discriminate].
  destruct (forallb (entry_ok l) (oslice ni)) eqn:OK; cbn [negb] in J; [|discriminate].
  cbn [Z.ltb Z.compare] in J. fold_j_ents l ni. rewrite (pown_heads_o _ l o UO Il Io Hid ni D) in J. injection J as <-.
  assert (TO : times_ok (j_log l o ni)).
  { intros e He. apply ents_In in He. destruct He as [k He]. cbn [j_log l_entries] in He.
    apply (proj2 (pj_ents_spec _ l o Il Io Hid ni D)) in He. destruct He as [He|He].
    - eapply (ptimes_in_range ops r l W Hlen L). apply ents_In; eauto.
    - apply (pni_sound _ l o Io Hid ni D) in He. destruct He as [He _].
      eapply (ptimes_in_range ops src o W Hlen O). apply ents_In; eauto. }
  destruct (pbounded_join_spec _ l o UO Il Io Hid ni D OK TO OT size Hs) as [vu [l' [V [J' [A [B [C _]]]]]]].
  destruct (pbounded_join_next _ l o UO Il Io Hid ni D OK TO OT size Hs) as [vu2 [l2 [V2 [J2 N2]]]].
  rewrite V in V2. injection V2 as <-. rewrite J' in J2. injection J2 as <-.
  exists vu, l'. split; [exact V|]. split; [exact J'|]. cbn zeta.
  split; [exact A|]. split; [exact B|]. split; [exact N2|]. split; [exact C|].
  intros Hl. exact (pbounded_join_large _ l o UO Il Io Hid ni D OK TO OT size Hs vu l' V J' Hl).
Qed.


(* ---- ... and logs that are RE-OPENED over any selection of another replica's entries (NewLog with
   LogOptions.Entries: what NewFromEntryHash, NewFromEntry and NewFromJSON do with the result of a complete
   or of a length-limited load), and everything merged from or appended to them afterwards.  [owf] asks
   for hash-consistent appends only; joins carry any bound, selections are arbitrary.  The clock of a
   re-opened log starts below its entries (NewLog computes it before it finds the heads); what remains
   true is that nothing is newer than the newest head ([hmax]), which is what Append, Join and
   SetIdentity read the clock together with. *)
From IpfsLog Require Import Proofs.POpen.

Theorem C16_reopened_logs_are_logs ops r l :
  owf ops -> nth_error (s_logs (run ops)) r = Some l ->
  (forall k e, In (k, e) (l_heads l) <-> In (k, e) (l_entries l) /\ ~ named_in (ents l) k) /\
  (forall n, In n (okeys (l_next l)) <-> named_in (ents l) n) /\
  (l_entries l <> [] -> l_heads l <> []) /\
  (forall e, In e (ents l) -> e_time e <= hmax l) /\
  NoDup (okeys (l_entries l)) /\ NoDup (okeys (l_heads l)) /\
  (forall e, In e (ents l) -> e_logid e = l_id l).
Proof. exact (olog_is_a_log ops r l). Qed.

Theorem C16_reopened_any_merge_any_bound_never_panics ops r src l o size :
  owf ops -> nth_error (s_logs (run ops)) r = Some l -> nth_error (s_logs (run ops)) src = Some o ->
  snd (join l o (Nat.eqb r src) size) <> Panic.
Proof. intros W L O. exact (ojoin_no_panic ops r l W L src o size O). Qed.

Theorem C16_reopened_logs_linearise ops r l :
  owf ops -> hist_bound ops < two63 -> nth_error (s_logs (run ops)) r = Some l -> order_total l ->
  exists v, values l = Some v /\
    NoDup (okeys v) /\
    (forall k e, In (k, e) v <-> In (k, e) (l_entries l)) /\
    StronglySorted (asc l) (oslice v) /\
    (forall l1 e l2, oslice v = l1 ++ e :: l2 ->
       forall n p, In n (e_next e) -> In (n, p) (l_entries l) -> In p l1).
Proof. intros W Hlen L OT. exact (ovalues_linearise ops r l W L Hlen OT). Qed.


(* no operation at all - append, merge with any bound, iteration with any options, identity change,
   publication, re-opening - panics on any replica of any such history *)
Theorem C16_no_operation_of_any_history_panics ops o :
  owf ops -> match snd (step (run ops) o) with ResNone RcPanic => False | _ => True end.
Proof. exact (ostep_never_panics ops o). Qed.

(* the main clause between any two replicas of such a history *)
Theorem C16_bounded_join_keeps_newest_reopened ops r src l o size lu :
  owf ops -> hist_bound ops < two63 ->
  nth_error (s_logs (run ops)) r = Some l -> nth_error (s_logs (run ops)) src = Some o ->
  l_id l = l_id o -> 0 <= size ->
  join l o false (-1) = (lu, Ok tt) ->                     (* the unbounded merge is accepted *)
  order_total lu ->
  exists vu l',
    values lu = Some vu /\
    join l o false size = (l', Ok tt) /\
    let keep := lastn (Z.to_nat size) (oslice vu) in
    (forall k v, In (k, v) (l_entries l') <-> In v keep /\ e_hash v = k) /\
    (forall k v, In (k, v) (l_heads l') <-> In v keep /\ e_hash v = k /\ ~ named_in keep k) /\
    (forall n, In n (okeys (l_next l')) <-> named_in keep n) /\
    NoDup (okeys (l_entries l')) /\
    (Z.of_nat (length vu) <= size -> forall k v, In (k, v) (l_entries l') <-> In (k, v) (l_entries lu)).
Proof. exact (obounded_join_keeps_newest ops r src l o size lu). Qed.

From IpfsLog Require Import Model.ExampleHist Proofs.WfBool.
Example C16_truncated_nonvacuous :
  pwf ex_hist_trunc /\ wfb ex_hist_trunc = false /\
  map (fun l => (CheckLog.nsort (okeys (l_entries l)), okeys (l_heads l), option_map okeys (values l)))
      (firstn 2 (s_logs (run ex_hist_trunc))) =
  [([101; 103; 201], [101; 201], Some [101; 103; 201]); ([103; 201], [201], Some [103; 201])]%N.
Proof.
  split; [apply pwfb_pwf; vm_compute; reflexivity|]. split; vm_compute; reflexivity.
Qed.

Example C16_nonvacuous :
  (* replica 0 (two entries) merges replica 2 (three heads) with bound 3: keeps the 3 newest of the 4 *)
  wf (firstn 9 ex_hist) /\
  match nth_error (s_logs ex_mid) 0, nth_error (s_logs ex_mid) 2 with
  | Some l, Some o => let l' := fst (join l o false 3) in
                      Some (CheckLog.nsort (okeys (l_entries l')), CheckLog.nsort (okeys (l_heads l')))
  | _, _ => None
  end = Some ([102; 201; 301]%N, [102; 201; 301]%N).
Proof. split; [apply wfb_wf; vm_compute; reflexivity|vm_compute; reflexivity]. Qed.

Example C16_reopened_nonvacuous :
  (* ex_hist_open: replica 1 is opened over {103,102} (clock 0 below its entries), appends 201 on top of 103
     at time 4, merges replica 0 (102 is known, so 101 is not reached: an open log stays open); replica 0 then
     merges it with bound 2 and keeps {103,201} *)
  owf ex_hist_open /\ pwfb ex_hist_open = false /\
  map (fun l => (CheckLog.nsort (okeys (l_entries l)), okeys (l_heads l), option_map okeys (values l), l_time l))
      (s_logs (run (firstn 5 ex_hist_open))) =
  [([101; 102; 103]%N, [103]%N, Some [101; 102; 103]%N, 3); ([102; 103]%N, [103]%N, Some [102; 103]%N, 0)] /\
  map (fun l => (CheckLog.nsort (okeys (l_entries l)), okeys (l_heads l), option_map okeys (values l), l_time l))
      (s_logs (run ex_hist_open)) =
  [([103; 201]%N, [201]%N, Some [103; 201]%N, 4); ([102; 103; 201]%N, [201]%N, Some [102; 103; 201]%N, 4);
   ([101; 102; 103; 301]%N, [301]%N, Some [101; 102; 103; 301]%N, 4)].
Proof.
  split; [apply owfb_owf; vm_compute; reflexivity|]. split; [vm_compute; reflexivity|]. split; vm_compute; reflexivity.
Qed.

Print Assumptions C16_join_never_panics.
Print Assumptions C16_bounded_join_keeps_newest.
Print Assumptions C16_bounded_join_forgets_dropped_entries.
Print Assumptions C16_every_log_of_every_history_is_a_log.
Print Assumptions C16_any_merge_any_bound_any_history.
Print Assumptions C16_truncated_logs_linearise.
Print Assumptions C16_bounded_join_keeps_newest_all_pairs.
Print Assumptions C16_truncated_nonvacuous.
Print Assumptions C16_nonvacuous.
Print Assumptions C16_reopened_logs_are_logs.
Print Assumptions C16_reopened_any_merge_any_bound_never_panics.
Print Assumptions C16_reopened_logs_linearise.
Print Assumptions C16_no_operation_of_any_history_panics.
Print Assumptions C16_bounded_join_keeps_newest_reopened.
Print Assumptions C16_reopened_nonvacuous.
