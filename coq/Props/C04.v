(* C04  Every appended entry dominates the log it was appended to.
   For every reachable log state [l] of every well-formed history (any merges before), every writer
   and every pointer count: the entry [e] Append makes (content-consistent CID [h]). *)
From Coq Require Import List ZArith Bool Lia Permutation.
From IpfsLog Require Import Model.System Proofs.OmapProofs Proofs.Inv Proofs.SysProofs Proofs.StepProofs
     Proofs.TravProofs Proofs.ValuesProofs Proofs.AppendProofs Proofs.StoreProofs.
Import ListNotations.
Open Scope Z_scope.

Section C04.
  Variables (ops : list op) (r : nat) (l : log) (payload : N) (pc : Z) (h : hash) (e : entry).
  Hypothesis W : wf (ops ++ [OAppend r payload pc h]).          (* the append is part of a well-formed history *)
  Hypothesis L : nth_error (s_logs (run ops)) r = Some l.
  Hypothesis AE : append_entry l payload pc h = Some e.

  Let I : linv (s_univ (run ops)) l := proj2 (sinv_run ops (wf_from_app _ _ _ W)) r l L.

  (* predecessors = exactly the current heads, each once *)
  Theorem C04_next_is_heads : (forall n, In n (e_next e) <-> In n (okeys (l_heads l))) /\ NoDup (e_next e).
  Proof. split; [exact (ae_next _ l payload pc h e I AE)|exact (ae_next_nodup l payload pc h e AE)]. Qed.

  (* clock id = the writer's public key; the signing key is the same key *)
  Theorem C04_clock_id_is_writer_key : e_cid e = l_key l /\ e_key e = l_key l.
  Proof.
    destruct (ae_cid_key l payload pc h e AE) as [A B]. split; [|exact B].
    rewrite A. exact (keyinv_run ops r l L).
  Qed.

  (* strictly later than everything already in the log, including merged-in entries *)
  Theorem C04_time_dominates : forall x, In x (ents l) -> e_time x < e_time e.
  Proof. exact (ae_time_gt _ l payload pc h e I AE). Qed.

  (* it becomes the single head *)
  Theorem C04_single_head : allowed l e = true ->
    l_heads (fst (append l payload pc h)) = [(h, e)] /\ e_hash e = h.
  Proof.
    intros A. rewrite (append_ok_state l payload pc h e AE A). cbn [fst l_heads from_entries fold_left oset].
    rewrite (ae_hash l payload pc h e AE). auto.
  Qed.

  (* skip references: entries of the log (hence of e's causal past: every entry of the log is
     reachable from the heads e names, see C04_log_is_causal_past), distinct from the predecessors,
     without repetition, at most log2(pointer count) + 2 *)
  Theorem C04_refs : 
    (forall x, In x (e_refs e) -> In x (okeys (l_entries l)) /\ ~ In x (e_next e)) /\
    NoDup (e_refs e) /\
    (length (e_refs e) <= (let p := (if pc =? 0 then 1 else pc)%Z in if (1 <=? p)%Z then Z.to_nat (Z.log2 p) + 2 else 0))%nat.
  Proof.
    split; [|split].
    - intros x Hx. split; [exact (ae_refs_in_log _ l payload pc h e I AE x Hx)|exact (ae_refs_not_next l payload pc h e AE x Hx)].
    - exact (ae_refs_nodup l payload pc h e AE).
    - exact (ae_refs_length l payload pc h e AE).
  Qed.

  Theorem C04_log_is_causal_past : forall k v, In (k, v) (l_entries l) ->
    treach (l_entries l) (oslice (l_heads l)) k.
  Proof. exact (all_reachable _ l (proj1 (sinv_run ops (wf_from_app _ _ _ W))) I). Qed.
End C04.

(* ---- appends on one log form a chain: an append that returned is in the causal past of every
   later successful append on that log, whatever happened in between (merges, other appends,
   identity changes, refused operations).  With C13 (writer sections of one log are serialised) this
   is the "concurrent appends are serialised into one chain" clause. ---- *)
Lemma entries_monotone_run_from more : forall s r l,
  sinv s -> wf_from s more -> nth_error (s_logs s) r = Some l ->
  exists l', nth_error (s_logs (run_from s more)) r = Some l' /\
             forall k v, In (k, v) (l_entries l) -> In (k, v) (l_entries l').
Proof.
  induction more as [|o more IH]; intros s r l SI W L; cbn [run_from fold_left].
  - exists l. auto.
  - destruct W as [W1 W2]. destruct (step_entries_monotone s o r l SI W1 L) as [l1 [H1 [H2 _]]].
    destruct (IH (fst (step s o)) r l1 (sinv_step s o SI W1) W2 H1) as [l2 [H3 H4]].
    exists l2. split; [exact H3|]. intros k v Hin. apply H4, H2, Hin.
Qed.

Theorem C04_appends_form_a_chain ops r p1 pc1 h1 mid p2 pc2 h2 e1 e2 l2 :
  let first := OAppend r p1 pc1 h1 in
  let second := OAppend r p2 pc2 h2 in
  wf (ops ++ first :: mid ++ [second]) ->
  snd (step (run ops) first) = ResEntry e1 ->                              (* the earlier append returned e1 *)
  snd (step (run (ops ++ first :: mid)) second) = ResEntry e2 ->           (* the later one returned e2 *)
  nth_error (s_logs (run (ops ++ first :: mid ++ [second]))) r = Some l2 ->
  e_hash e1 = h1 /\ treach (l_entries l2) [e2] h1.                        (* e1 is below e2 *)
Proof.
  intros first second W R1 R2 L2.
  pose proof (sinv_run _ W) as [UO2 IL2]. pose proof (IL2 r l2 L2) as I2.
  (* state after the first append *)
  assert (W1 : wf (ops ++ [first])).
  { replace (ops ++ first :: mid ++ [second]) with ((ops ++ [first]) ++ (mid ++ [second])) in W
      by (rewrite <- app_assoc; reflexivity). exact (wf_from_app _ _ _ W). }
  pose proof (sinv_run _ W1) as S1.
  assert (A1 : exists l1, nth_error (s_logs (run (ops ++ [first]))) r = Some l1 /\ In (h1, e1) (l_entries l1) /\ e_hash e1 = h1).
  { unfold run in *. rewrite run_from_app. cbn [run_from fold_left]. unfold first in *. cbn [step] in R1 |- *.
    destruct (nth_error (s_logs (run_from empty_sys ops)) r) as [l|] eqn:L; [|discriminate].
    unfold append in *. destruct (append_entry l p1 pc1 h1) as [e|] eqn:AE; [|discriminate].
    destruct (allowed l e); cbn [fst snd s_logs] in *; [|discriminate].
    injection R1 as <-. eexists. split; [rewrite nth_error_set_nth, L, Nat.eqb_refl; reflexivity|].
    cbn [l_entries]. split; [|exact (ae_hash l p1 pc1 h1 e AE)].
    apply oget_In. apply oget_oset_same. }
  destruct A1 as [l1 [L1 [In1 Hh]]]. split; [exact Hh|].
  (* through the operations in between, and the second append *)
  assert (Wm : wf_from (run (ops ++ [first])) (mid ++ [second])).
  { replace (ops ++ first :: mid ++ [second]) with ((ops ++ [first]) ++ (mid ++ [second])) in W
      by (rewrite <- app_assoc; reflexivity). exact (wf_from_app_r _ _ _ W). }
  destruct (entries_monotone_run_from (mid ++ [second]) _ r l1 S1 Wm L1) as [l' [L' Sub]].
  assert (E : run_from (run (ops ++ [first])) (mid ++ [second]) = run (ops ++ first :: mid ++ [second])).
  { unfold run. rewrite <- run_from_app. f_equal. rewrite <- app_assoc. reflexivity. }
  rewrite E in L'. rewrite L2 in L'. injection L' as <-.
  (* after the second append the single head is e2, and every entry is reachable from the heads *)
  assert (H2 : l_heads l2 = [(h2, e2)]).
  { revert L2. unfold run. rewrite app_comm_cons, app_assoc, run_from_app. cbn [run_from fold_left].
    unfold second in *. cbn [step] in R2 |- *. fold (run (ops ++ first :: mid)).
    destruct (nth_error (s_logs (run (ops ++ first :: mid))) r) as [l|] eqn:L; [|discriminate].
    unfold append in *. destruct (append_entry l p2 pc2 h2) as [e|] eqn:AE; [|discriminate].
    destruct (allowed l e); cbn [fst snd s_logs] in *; [|discriminate].
    injection R2 as <-. rewrite nth_error_set_nth, L, Nat.eqb_refl. intros H. injection H as <-.
    cbn [l_heads from_entries fold_left oset]. now rewrite (ae_hash l p2 pc2 h2 e AE). }
  pose proof (all_reachable _ l2 UO2 I2 h1 e1 (Sub _ _ In1)) as T. rewrite H2 in T. exact T.
Qed.


(* ---- appends on RE-OPENED logs (NewLog with LogOptions.Entries, the loaders) and on everything merged
   from them, with any bounds in between ([owf], Proofs/POpen.v): the clock of such a log starts at 0,
   below its entries, and still the new entry names exactly the heads and is strictly newer than
   everything the log holds - Append reads the clock together with the heads. *)
From IpfsLog Require Import Proofs.POpen.
Theorem C04_append_on_reopened_log ops r l payload pc h e :
  owf ops -> nth_error (s_logs (run ops)) r = Some l -> append_entry l payload pc h = Some e ->
  (forall n, In n (e_next e) <-> In n (okeys (l_heads l))) /\ NoDup (e_next e) /\
  (forall x, In x (ents l) -> e_time x < e_time e) /\ e_logid e = l_id l /\
  (forall x, In x (e_refs e) -> ~ In x (e_next e)) /\ NoDup (e_refs e).
Proof.
  intros W L AE. destruct (oappend_dominates ops r l W L payload pc h e AE) as [A [B [C D]]].
  repeat split; auto; try apply A.
  - exact (ae_refs_not_next l payload pc h e AE).
  - exact (ae_refs_nodup l payload pc h e AE).
Qed.

From IpfsLog Require Import Model.ExampleHist Proofs.WfBool.
Example C04_nonvacuous :
  (* the append that merges three concurrent heads in ex_hist: next = the 3 heads, time 3 > 2, refs = [101] *)
  wf (firstn 9 ex_hist ++ [OAppend 2 4%N 4 302%N]) /\
  option_map (fun l => option_map (fun e => (e_next e, e_refs e, e_time e)) (append_entry l 4%N 4 302%N))
             (nth_error (s_logs ex_mid) 2) = Some (Some ([201; 301; 102]%N, [101]%N, 3)).
Proof. split; [apply wfb_wf; vm_compute; reflexivity|vm_compute; reflexivity]. Qed.

Example C04_reopened_nonvacuous :
  (* ex_hist_open: the log opened over {103,102} has clock 0; its append names 103 and gets time 4 *)
  owf (firstn 5 ex_hist_open ++ [OAppend 1 4%N 2 201%N]) /\
  option_map (fun l => (l_time l, option_map (fun e => (e_next e, e_refs e, e_time e)) (append_entry l 4%N 2 201%N)))
             (nth_error (s_logs (run (firstn 5 ex_hist_open))) 1) = Some (0, Some ([103]%N, [102]%N, 4)).
Proof. split; [apply owfb_owf; vm_compute; reflexivity|vm_compute; reflexivity]. Qed.

Print Assumptions C04_next_is_heads.
Print Assumptions C04_clock_id_is_writer_key.
Print Assumptions C04_time_dominates.
Print Assumptions C04_single_head.
Print Assumptions C04_refs.
Print Assumptions C04_log_is_causal_past.
Print Assumptions C04_appends_form_a_chain.
Print Assumptions C04_nonvacuous.
Print Assumptions C04_append_on_reopened_log.
Print Assumptions C04_reopened_nonvacuous.
