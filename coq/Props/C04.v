(* C04  Every appended entry dominates the log it was appended to.
   For every reachable log state [l] of every well-formed history (any merges before), every writer
   and every pointer count: the entry [e] Append makes (content-consistent CID [h]). *)
From Coq Require Import List ZArith Bool Lia Permutation.
From IpfsLog Require Import Model.System Proofs.OmapProofs Proofs.Inv Proofs.SysProofs Proofs.StepProofs
     Proofs.TravProofs Proofs.ValuesProofs Proofs.AppendProofs Proofs.StoreProofs.
Import ListNotations.
Open Scope Z_scope.

Section C04.
  Variables (ops : list op) (r : nat) (l : log) (payload : N) (pc : Z) (h : hash) (e : entry).
  Hypothesis W : wf (ops ++ [OAppend r payload pc h]).          (* the append is part of a well-formed history *)
  Hypothesis L : nth_error (s_logs (run ops)) r = Some l.
  Hypothesis AE : append_entry l payload pc h = Some e.

  Let I : linv (s_univ (run ops)) l := proj2 (sinv_run ops (wf_from_app _ _ _ W)) r l L.

  (* predecessors = exactly the current heads, each once *)
  Theorem C04_next_is_heads : (forall n, In n (e_next e) <-> In n (okeys (l_heads l))) /\ NoDup (e_next e).
  Proof. split; [exact (ae_next _ l payload pc h e I AE)|exact (ae_next_nodup l payload pc h e AE)]. Qed.

  (* clock id = the writer's public key; the signing key is the same key *)
  Theorem C04_clock_id_is_writer_key : e_cid e = l_key l /\ e_key e = l_key l.
  Proof.
    destruct (ae_cid_key l payload pc h e AE) as [A B]. split; [|exact B].
    rewrite A. exact (keyinv_run ops r l L).
  Qed.

  (* strictly later than everything already in the log, including merged-in entries *)
  Theorem C04_time_dominates : forall x, In x (ents l) -> e_time x < e_time e.
  Proof. exact (ae_time_gt _ l payload pc h e I AE). Qed.

  (* it becomes the single head *)
  Theorem C04_single_head : allowed l e = true ->
    l_heads (fst (append l payload pc h)) = [(h, e)] /\ e_hash e = h.
  Proof.
    intros A. rewrite (append_ok_state l payload pc h e AE A). cbn [fst l_heads from_entries fold_left oset].
    rewrite (ae_hash l payload pc h e AE). auto.
  Qed.

  (* skip references: entries of the log (hence of e's causal past: every entry of the log is
     reachable from the heads e names, see C04_log_is_causal_past), distinct from the predecessors,
     without repetition, at most log2(pointer count) + 2 *)
  Theorem C04_refs : 
    (forall x, In x (e_refs e) -> In x (okeys (l_entries l)) /\ ~ In x (e_next e)) /\
    NoDup (e_refs e) /\
    (length (e_refs e) <= (let p := (if pc =? 0 then 1 else pc)%Z in if (1 <=? p)%Z then Z.to_nat (Z.log2 p) + 2 else 0))%nat.
  Proof.
    split; [|split].
    - intros x Hx. split; [exact (ae_refs_in_log _ l payload pc h e I AE x Hx)|exact (ae_refs_not_next l payload pc h e AE x Hx)].
    - exact (ae_refs_nodup l payload pc h e AE).
    - exact (ae_refs_length l payload pc h e AE).
  Qed.

  Theorem C04_log_is_causal_past : forall k v, In (k, v) (l_entries l) ->
    treach (l_entries l) (oslice (l_heads l)) k.
  Proof. exact (all_reachable _ l (proj1 (sinv_run ops (wf_from_app _ _ _ W))) I). Qed.
End C04.

From IpfsLog Require Import Model.ExampleHist Proofs.WfBool.
Example C04_nonvacuous :
  (* the append that merges three concurrent heads in ex_hist: next = the 3 heads, time 3 > 2, refs = [101] *)
  wf (firstn 9 ex_hist ++ [OAppend 2 4%N 4 302%N]) /\
  option_map (fun l => option_map (fun e => (e_next e, e_refs e, e_time e)) (append_entry l 4%N 4 302%N))
             (nth_error (s_logs ex_mid) 2) = Some (Some ([201; 301; 102]%N, [101]%N, 3)).
Proof. split; [apply wfb_wf; vm_compute; reflexivity|vm_compute; reflexivity]. Qed.

Print Assumptions C04_next_is_heads.
Print Assumptions C04_clock_id_is_writer_key.
Print Assumptions C04_time_dominates.
Print Assumptions C04_single_head.
Print Assumptions C04_refs.
Print Assumptions C04_log_is_causal_past.
Print Assumptions C04_nonvacuous.
