(* C12  Untrusted blocks and manifests cannot crash the process.
   Statements only; proofs in Proofs/DecodeTotal.v.

   Scope of the theorems: the conversion layer between a decoded CBOR tree and an entry / manifest
   (refmt unmarshal into the typed structs, DecryptLinks, Entry.ToPlain / Identity.ToPlain /
   IdentitySignature.ToPlain / LamportClock.ToPlain, EntryV0.ToPlain), as modelled in
   Model/EntryCodec.v.  The places where a nil pointer is dereferenced without a check are not
   written in the model: they come from Gen/Guards.v, which tools/genguards regenerates from
   io/jsonable/types.go on every check.  Byte-level decoders (refmt, go-ipld-cbor, protobuf,
   encoding/json) are third party: exercised by the harness with recover, not modelled. *)
From Coq Require Import List NArith ZArith Bool String.
From IpfsLog Require Import Model.Cbor Model.EntryCodec Gen.Tables Gen.Guards Proofs.DecodeTotal.
(* deps *)
Import ListNotations.
Local Open Scope string_scope.
Open Scope N_scope.

(* ---- what the text of /repo says (generated): every dereference is guarded ---- *)
Theorem C12_guards_today :
  nil_panics "Entry.ToPlain" "Clock" = false /\
  nil_panics "Identity.ToPlain" "Signatures" = false /\
  nil_panics "EntryV0.ToPlain" "Clock" = false /\
  nil_panics "Entry.ToPlain" "Identity" = false /\
  nil_panics "EntryV0.ToPlain" "Hash" = false.
Proof. repeat split; reflexivity. Qed.

Theorem C12_guard_table_covered :
  forallb (fun r => existsb (fun p => String.eqb (g_method r) (fst p) && String.eqb (g_field r) (snd p))
                            [("Entry.ToPlain", "Clock"); ("Entry.ToPlain", "Identity"); ("Identity.ToPlain", "Signatures");
                             ("EntryV0.ToPlain", "Clock"); ("EntryV0.ToPlain", "Hash")]) guard_table = true.
Proof. reflexivity. Qed.

(* REGRESSION witnesses for F6 (repaired): the reader without the three nil checks panicked on the
   block {} , on null, and on an identity without signatures *)
Theorem C12_regression_unguarded_reader_panicked :
  of_tree_g (fun _ => true) unit (fun _ _ _ => None) (fun _ => None) true false true None [9] (CMap []) = Panic /\
  of_tree_g (fun _ => true) unit (fun _ _ _ => None) (fun _ => None) true false true None [9] CNull = Panic /\
  of_tree_g (fun _ => true) unit (fun _ _ _ => None) (fun _ => None) true false true None [9]
    (CMap [([118], CUint 2); ([99;108;111;99;107], CMap [([105;100], CText []); ([116;105;109;101], CUint 1)]);
           ([105;100;101;110;116;105;116;121], CMap [([105;100], CText [120])])]) = Panic.
Proof. repeat split; vm_compute; reflexivity. Qed.

Theorem C12_regression_v0_unguarded_panicked parse :
  v0_to_plain_g parse false true [9] {| v0_hash := None; v0_id := []; v0_payload := []; v0_next := None; v0_v := 0;
                                        v0_clock := None; v0_key := []; v0_sig := [] |} = Panic.
Proof. reflexivity. Qed.

(* ---- decoding is total: for EVERY tree, key configuration and oracle ---- *)
Section Total.
  Variable cidok : bytes -> bool.
  Variable K : Type.
  Variable open_ : K -> bytes -> bytes -> option bytes.
  Variable b64dec : bytes -> option bytes.

  Theorem C12_total key h t : of_tree cidok K open_ b64dec key h t <> Panic.
  Proof. exact (of_tree_guarded_total cidok K open_ b64dec key h t). Qed.

  (* today's reader is that reader with the generated flags: once Gen/Guards.v reports the checks,
     [C12_total_after_fix] is a statement about [of_tree] itself *)
  Theorem C12_reader_is_generated key h t :
    of_tree cidok K open_ b64dec key h t =
    of_tree_g cidok K open_ b64dec (nil_panics "Entry.ToPlain" "Clock") (nil_panics "Entry.ToPlain" "Identity")
              (nil_panics "Identity.ToPlain" "Signatures") key h t.
  Proof. reflexivity. Qed.

  (* manifests: no pointer is dereferenced at all *)
  Theorem C12_manifest_total t : manifest_of_tree cidok t <> Panic.
  Proof. exact (np_manifest_of_tree cidok t). Qed.

  (* the struct-level decode (refmt into jsonable.EntryV2) and DecryptLinks never panic either *)
  Theorem C12_unmarshal_total t : unmarshal_jentry cidok t <> Panic.
  Proof. exact (np_unmarshal_jentry cidok t). Qed.
  Theorem C12_decrypt_total key j : decrypt_links cidok K open_ b64dec key j <> Panic.
  Proof. exact (np_decrypt_links cidok K open_ b64dec key j). Qed.

  (* and in every version: an entry that IS returned has a clock, an identity that is either absent
     or complete, and its hash - so GetClock().GetTime()/GetID(), the comparators of C19, Verify and
     ToJsonableEntry (re-encoding) do not meet a nil pointer *)
  Theorem C12_ok_entry_is_safe pc pi ps key h t e :
    of_tree_g cidok K open_ b64dec pc pi ps key h t = Ok e ->
    (exists c, e_clock e = Some c) /\
    match e_identity e with Some i => exists s, idn_sigs i = Some s | None => True end /\
    e_hash e = Some h.
  Proof. exact (of_tree_ok_defined cidok K open_ b64dec pc pi ps key h t e). Qed.

  Theorem C12_ok_entry_reencodes pc pi ps key h t e :
    of_tree_g cidok K open_ b64dec pc pi ps key h t = Ok e -> to_tree e <> Panic.
  Proof. exact (ok_entry_reencodes cidok K open_ b64dec pc pi ps key h t e). Qed.
End Total.

Theorem C12_v0_total parse h j : v0_to_plain parse h j <> Panic.
Proof. exact (v0_guarded_total parse h j). Qed.

Print Assumptions C12_guards_today.
Print Assumptions C12_guard_table_covered.
Print Assumptions C12_regression_unguarded_reader_panicked.
Print Assumptions C12_regression_v0_unguarded_panicked.
Print Assumptions C12_total.
Print Assumptions C12_reader_is_generated.
Print Assumptions C12_manifest_total.
Print Assumptions C12_unmarshal_total.
Print Assumptions C12_decrypt_total.
Print Assumptions C12_ok_entry_is_safe.
Print Assumptions C12_ok_entry_reencodes.
Print Assumptions C12_v0_total.
