(* C03  Values() is a complete, duplicate-free, causally ordered linearisation.
   For every reachable log state of every well-formed history (fewer than 2^63 operations, so that
   Go's int clock cannot overflow) and every supported ordering that is a strict total order on the
   entries present: the hash-tiebreak ordering always, the default ordering when no two distinct
   entries share (clock id, time).  Statements only. *)
From Coq Require Import List ZArith Bool Lia Permutation Sorted.
From IpfsLog Require Import Model.System Proofs.OmapProofs Proofs.SortProofs Proofs.Inv Proofs.SysProofs
     Proofs.TravProofs Proofs.TimeProofs Proofs.ValuesProofs.
Import ListNotations.
Open Scope Z_scope.

Theorem C03_values_complete_sorted_causal ops r l :
  wf ops -> hist_bound ops < two63 -> nth_error (s_logs (run ops)) r = Some l -> order_total l ->
  exists v, values l = Some v /\
    NoDup (okeys v) /\                                                  (* each entry once *)
    (forall k e, In (k, e) v <-> In (k, e) (l_entries l)) /\            (* exactly the log's entries *)
    StronglySorted (asc l) (oslice v) /\                                (* sorted by the configured ordering *)
    (forall l1 e l2, oslice v = l1 ++ e :: l2 ->                        (* every entry after all its predecessors in the log *)
       forall n p, In n (e_next e) -> In (n, p) (l_entries l) -> In p l1).
Proof.
  intros W Hlen L OT. destruct (sinv_run ops W) as [UO IL].
  pose proof (times_in_range ops r l W Hlen L) as TO.
  destruct (values_spec _ l UO (IL r l L) TO OT) as [v [V [A [B [C D]]]]].
  exists v. repeat split; auto; try apply B.
  exact (values_causal _ l v UO (IL r l L) TO B D).
Qed.

(* it depends only on which entries the log holds, not on the order in which they arrived: two
   replicas (of one history) holding the same entries under the same total ordering have identical
   linearisations *)
Theorem C03_depends_only_on_entries ops r1 r2 l1 l2 :
  wf ops -> hist_bound ops < two63 ->
  nth_error (s_logs (run ops)) r1 = Some l1 -> nth_error (s_logs (run ops)) r2 = Some l2 ->
  order_total l1 -> order_total l2 ->
  (forall k e, In (k, e) (l_entries l1) <-> In (k, e) (l_entries l2)) ->
  values l1 = values l2.
Proof.
  intros W Hlen L1 L2 O1 O2 Same. destruct (sinv_run ops W) as [UO IL].
  pose proof (times_in_range ops r1 l1 W Hlen L1) as T1. pose proof (times_in_range ops r2 l2 W Hlen L2) as T2.
  destruct (values_spec _ l1 UO (IL r1 l1 L1) T1 O1) as [v1 [V1 [A1 [B1 [_ D1]]]]].
  destruct (values_spec _ l2 UO (IL r2 l2 L2) T2 O2) as [v2 [V2 [A2 [B2 [_ D2]]]]].
  rewrite V1, V2. f_equal.
  exact (values_unique _ l1 l2 v1 v2 UO (IL r1 l1 L1) (IL r2 l2 L2) T1 Same A1 A2 B1 B2 D1 D2).
Qed.

(* ---- the same for replicas of histories with bounded merges and re-opened logs ([owf],
   Proofs/POpen.v): complete, duplicate free, sorted, and every entry after those of its predecessors
   that the log holds (such a log may lack predecessors: it is causally open) *)
From IpfsLog Require Import Proofs.PValues Proofs.POpen.
Theorem C03_values_of_reopened_logs ops r l :
  owf ops -> hist_bound ops < two63 -> nth_error (s_logs (run ops)) r = Some l -> order_total l ->
  exists v, values l = Some v /\
    NoDup (okeys v) /\
    (forall k e, In (k, e) v <-> In (k, e) (l_entries l)) /\
    StronglySorted (asc l) (oslice v) /\
    (forall l1 e l2, oslice v = l1 ++ e :: l2 ->
       forall n p, In n (e_next e) -> In (n, p) (l_entries l) -> In p l1).
Proof. intros W Hlen L OT. exact (ovalues_linearise ops r l W L Hlen OT). Qed.

(* ... and it still depends only on WHICH entries the log holds: two replicas of such a history holding the
   same entries - e.g. a replica and the log a complete reload of it returns, whose entries arrive in fetch
   order (C09_reloaded_log_is_a_replica) - linearise identically under a total ordering *)
Theorem C03_depends_only_on_entries_in_every_history ops r1 r2 l1 l2 :
  owf ops -> hist_bound ops < two63 ->
  nth_error (s_logs (run ops)) r1 = Some l1 -> nth_error (s_logs (run ops)) r2 = Some l2 ->
  order_total l1 -> order_total l2 ->
  (forall k e, In (k, e) (l_entries l1) <-> In (k, e) (l_entries l2)) ->
  values l1 = values l2.
Proof.
  intros W Hlen L1 L2 O1 O2 Same. destruct (osinv_run ops W) as [UO IL].
  pose proof (otimes_in_range ops r1 l1 W Hlen L1) as T1. pose proof (otimes_in_range ops r2 l2 W Hlen L2) as T2.
  destruct (PValues.pvalues_spec _ (lift l1) UO (IL r1 l1 L1) T1 O1) as [v1 [V1 [A1 [B1 [_ D1]]]]].
  destruct (PValues.pvalues_spec _ (lift l2) UO (IL r2 l2 L2) T2 O2) as [v2 [V2 [A2 [B2 [_ D2]]]]].
  change (values (lift l1)) with (values l1) in V1. change (values (lift l2)) with (values l2) in V2.
  rewrite V1, V2. f_equal.
  exact (PValues.pvalues_unique _ (lift l1) (lift l2) v1 v2 UO (IL r1 l1 L1) (IL r2 l2 L2) T1 Same A1 A2 B1 B2 D1 D2).
Qed.

(* under ANY ordering - the default one on logs WITH clock ties included, where the order clauses are not
   claimed (K2) - Values() of every replica of every such history still holds only entries of the log, each
   under its own hash, no hash twice (Proofs/ValuesSound.v) *)
From IpfsLog Require Import Proofs.PInv Proofs.ValuesSound.
Theorem C03_values_sound_under_any_ordering ops r l v :
  owf ops -> nth_error (s_logs (run ops)) r = Some l -> values l = Some v ->
  NoDup (okeys v) /\ okeys v = map e_hash (oslice v) /\
  (forall e, In e (oslice v) -> In e (oslice (l_entries l))).
Proof.
  intros W L. destruct (osinv_run ops W) as [_ IL]. pose proof (IL r l L) as I.
  apply values_sound. intros k e H. now apply (pi_heads _ _ I) in H.
Qed.

From IpfsLog Require Import Model.ExampleHist Proofs.WfBool.
Example C03_nonvacuous :
  wf ex_hist /\ hist_bound ex_hist < two63 /\
  map (fun l => (l_sort l, option_map okeys (values l))) (firstn 1 (s_logs (run ex_hist))) =
  [(SHash, Some [101; 201; 301; 102; 302]%N)].
Proof.
  split; [apply wfb_wf; vm_compute; reflexivity|]. split; [vm_compute; reflexivity|].
  vm_compute. reflexivity.
Qed.

(* the theorems cover replicas opened with a clock of their own: the premises hold of a history whose
   clocks start beyond 2^53, and the appended entries continue from there *)
Example C03_seeded_clocks_nonvacuous :
  wf ex_hist_seeded /\ hist_bound ex_hist_seeded < two63 /\
  map (fun l => option_map (fun v => (okeys v, map e_time (oslice v))) (values l)) (firstn 1 (s_logs (run ex_hist_seeded))) =
  [Some ([301; 201; 101; 102; 202; 302]%N,
         [1; 9007199254740993; 1700000000000000002; 1700000000000000003; 1700000000000000004; 1700000000000000005])].
Proof.
  split; [apply wfb_wf; vm_compute; reflexivity|]. split; [vm_compute; reflexivity|].
  vm_compute. reflexivity.
Qed.

(* with the default ordering and an (id, time) tie the hypothesis [order_total] fails: the
   linearisation may then depend on arrival order (known finding K2) *)
Example C03_ties_are_excluded :
  (* both replicas hold the same two entries (same identity, same clock time) but linearise them differently *)
  map (fun l => (okeys (l_entries l), option_map okeys (values l))) (s_logs (run ex_hist_lww)) =
  [([101; 201], Some [101; 201]); ([201; 101], Some [201; 101])]%N.
Proof. vm_compute. reflexivity. Qed.

Print Assumptions C03_values_complete_sorted_causal.
Print Assumptions C03_depends_only_on_entries.
Print Assumptions C03_nonvacuous.
Print Assumptions C03_ties_are_excluded.
Print Assumptions C03_seeded_clocks_nonvacuous.
Print Assumptions C03_values_of_reopened_logs.
Print Assumptions C03_depends_only_on_entries_in_every_history.
Print Assumptions C03_values_sound_under_any_ordering.
