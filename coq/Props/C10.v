(* C10  A length-limited load returns exactly the most recent entries, for every schedule.

   Stored log: entry set S, heads, id, well formed in the store of the configuration
   ([log_wf], as in C09), clock monotone along next (I3: a predecessor has a strictly smaller
   time), clock times in the int range, and - for the statements that mention "the log's
   order" - no two distinct entries with the same (clock id, time)  ([tie_free]: on such logs
   NoZeroes(LastWriteWins) and Compare are the same strict total order; with ties the default
   order is not an order at all, see C19 / K2 / K4).

   The loader models follow log_io.go as of commit ba56479.  Proved: the min-clock invariant,
   the window theorem for EVERY schedule (top n of the log <= fetch result <= log), and for all
   four loaders and every n >= 0 the exact outcome: min(max(n,k),size) entries, all supplied ones
   plus the most recent others, the same for every schedule and concurrency.
   [C10_regression_*]: the three deviations of the loaders BEFORE that commit
   ([*_before_fix] in Model/Fetcher.v), kept as machine-checked regression witnesses.        *)
From Coq Require Import List ZArith NArith Bool Lia Permutation Sorted.
From IpfsLog Require Import Model.Order Model.Fetcher Proofs.SortProofs Proofs.FetcherBasics
  Proofs.FetcherProofs Proofs.LoaderProofs Proofs.LimitProofs Proofs.WindowProofs Proofs.LimitLoaders.
Import ListNotations.
Open Scope Z_scope.

Section C10.
  Variable cfg : config.
  Variable S : list fentry.
  Variable heads : list fentry.
  Variable id : N.
  Hypothesis WF : log_wf cfg S heads id.
  Notation n := (cf_length cfg).
  Hypothesis Hlim : 0 <= n.
  Hypothesis Hclock : forall e e', In e S -> In e' S -> In (fe_hash e') (fe_next e) -> fe_time e' < fe_time e.

  (* ---- the key invariant (DESIGN.md A.4), for every reachable state of every schedule, any
     store, any faults: all results but the last are at least as new as minClock; a processed
     entry was admitted unless n strictly newer results existed, and its predecessors were
     enqueued unless n results at least as new existed ---- *)
  Theorem C10_min_clock_invariant starts s : reachable_state cfg starts s ->
    (forall rs l, st_results s = rs ++ [l] -> forall r, In r rs -> st_min s <= fe_time r) /\
    (forall h e, cache_get (st_cache s) h = Some TDone -> store_get (cf_store cfg) h = Some e ->
       (In e (st_results s) \/ n <= newer_in (fe_time e) (st_results s)) /\
       ((forall x, In x (fe_next e) -> wanted cfg x -> cached (st_cache s) x = true) \/
        n <= geq_in (fe_time e) (st_results s))).
  Proof. intros Hr. destruct (inv_l_reachable cfg starts Hlim s Hr) as [H1 H2]. split; assumption. Qed.

  (* ---- the window theorem: at every terminal state of every schedule and concurrency,
     top n (log) <= results <= log, without duplicates ---- *)
  Theorem C10_fetch_window starts s :
    (forall h, In h starts <-> In h (map fe_hash heads)) ->
    reachable_state cfg starts s -> terminal s -> st_timedout s = false ->
    window S n (st_results s).
  Proof.
    intros Hst Hr T Ht.
    exact (fetch_window cfg S heads (log_wf_closure cfg S heads id WF) Hlim Hclock starts s Hst Hr T Ht).
  Qed.

  Hypothesis Htimes : times_ok S.
  Hypothesis Hties : tie_free S.

  (* ---- schedule independence of "sort, keep the last n" ---- *)
  Theorem C10_schedule_independent starts s1 s2 :
    (forall h, In h starts <-> In h (map fe_hash heads)) ->
    reachable_state cfg starts s1 -> terminal s1 -> st_timedout s1 = false ->
    reachable_state cfg starts s2 -> terminal s2 -> st_timedout s2 = false ->
    last_n n (sort_go cmp_lww false (st_results s1)) = last_n n (sort_go cmp_lww false (st_results s2)).
  Proof.
    intros Hst R1 T1 O1 R2 T2 O2. pose proof (wf_nodup _ _ _ _ WF) as Hnd.
    rewrite (window_lww S Hnd Htimes Hties n _ Hlim (C10_fetch_window starts s1 Hst R1 T1 O1)).
    rewrite (window_lww S Hnd Htimes Hties n _ Hlim (C10_fetch_window starts s2 Hst R2 T2 O2)).
    reflexivity.
  Qed.

  (* ---- NewFromMultihash (k = 0), every n >= 0: exactly the last n of the log's order ---- *)
  Theorem C10_manifest mheads s :
    (forall h, In h mheads <-> In h (map fe_hash heads)) ->
    reachable_state cfg mheads s -> terminal s -> st_timedout s = false ->
    lg_entries (load_multihash id mheads n (st_results s)) = last_n n (sort_go cmp_lww false S) /\
    zlen (lg_entries (load_multihash id mheads n (st_results s))) = Z.min n (zlen S).
  Proof.
    intros Hm Hr T Ht. pose proof (wf_nodup _ _ _ _ WF) as Hnd.
    pose proof (limited_multihash S Hnd Htimes Hties id mheads n _ Hlim (C10_fetch_window mheads s Hm Hr T Ht)) as E.
    split; [exact E|]. rewrite E. now apply last_n_sorted_length.
  Qed.

  (* ---- NewFromJSON (k = 0), every n >= 0 ---- *)
  Theorem C10_json jheads s :
    (forall h, In h jheads <-> In h (map fe_hash heads)) ->
    reachable_state cfg jheads s -> terminal s -> st_timedout s = false ->
    lg_entries (load_json id n (st_results s)) = last_n n (sort_go cmp_clock false S) /\
    zlen (lg_entries (load_json id n (st_results s))) = Z.min n (zlen S).
  Proof.
    intros Hm Hr T Ht. pose proof (wf_nodup _ _ _ _ WF) as Hnd.
    pose proof (limited_json S Hnd Htimes Hties id n _ Hlim (C10_fetch_window jheads s Hm Hr T Ht)) as E.
    split; [exact E|]. rewrite E. now apply last_n_sorted_length.
  Qed.

  (* ---- NewFromEntryHash (single-headed log, k = 1), every n >= 0: the last max(n,1) of the
     log's order, min(max(n,1),size) entries.  For n = 0 the fetcher runs with length 0 and
     still delivers the head: the first processed entry is always admitted. ---- *)
  Theorem C10_entryhash h s : heads = [h] ->
    (forall e, In e S -> 0 <= fe_time e) ->
    reachable_state cfg [fe_hash h] s -> terminal s -> st_timedout s = false ->
    lg_entries (load_entryhash id n (st_results s)) = last_n (Z.max n 1) (sort_go cmp_lww false S) /\
    zlen (lg_entries (load_entryhash id n (st_results s))) = Z.min (Z.max n 1) (zlen S).
  Proof.
    intros Hh Hnn Hr T Ht. pose proof (wf_nodup _ _ _ _ WF) as Hnd.
    assert (WF1 : log_wf cfg S [h] id) by (rewrite <- Hh; exact WF).
    pose proof (fetch_window_single cfg S h id WF1 Hlim Hclock Hnn s Hr T Ht) as HW.
    pose proof (limited_entryhash S id n _ Hnd Htimes Hties Hlim HW) as E.
    split; [exact E|]. rewrite E. apply last_n_sorted_length. lia.
  Qed.
End C10.

(* ---- NewFromEntry, for EVERY list of supplied entries and every m >= 0.  S is the stored
   next-closure of the supplied entries ([closure_wf]; for the heads of a log it is the log,
   [C10_entries_of_heads]).  The caller supplies [source] (k = its length, duplicates allowed) and
   asks for m; the fetcher runs with length max(m,k).  Whatever the schedule: every supplied entry,
   then the most recent others, min(max(m,k),size) entries in total. ---- *)
Section C10Entries.
  Variable cfg : config.
  Variable S : list fentry.
  Variable source : list fentry.
  Hypothesis CW : closure_wf cfg S source.
  Hypothesis Hclock : forall e e', In e S -> In e' S -> In (fe_hash e') (fe_next e) -> fe_time e' < fe_time e.
  Hypothesis Htimes : times_ok S.
  Hypothesis Hties : tie_free S.

  Theorem C10_entries m s :
    0 <= m -> cf_length cfg = Z.max m (zlen source) ->
    reachable_state cfg (map fe_hash source) s -> terminal s -> st_timedout s = false ->
    let k := zlen source in
    let src := ordered_map source in
    from_entry_values m source (st_results s) =
      src ++ last_n (Z.max m k - zlen src)
               (sort_go cmp_clock false (filter (fun e => negb (has_hash (fe_hash e) src)) S)) /\
    zlen (from_entry_values m source (st_results s)) = Z.min (Z.max m k) (zlen S) /\
    (forall e, In e source -> In e (from_entry_values m source (st_results s))).
  Proof.
    intros Hm Hn Hr T Ht. pose proof (cw_nodup _ _ _ CW) as HndS. pose proof (cw_source _ _ _ CW) as Hin.
    assert (Hlim : 0 <= cf_length cfg) by (pose proof (zlen_nonneg source); lia).
    assert (HW : window S (Z.max m (zlen source)) (st_results s)).
    { rewrite <- Hn. apply (fetch_window cfg S source CW Hlim Hclock (map fe_hash source) s); auto.
      intros x. reflexivity. }
    cbv zeta. split; [|split].
    - exact (entry_values S HndS Htimes Hties source Hin m _ Hm HW).
    - exact (entry_values_count S HndS Htimes Hties source Hin m _ Hm HW).
    - intros e He. exact (entry_values_supplied S HndS Htimes Hties source Hin m _ e Hm HW He).
  Qed.
End C10Entries.

(* the usual case: the supplied entries are the heads of a stored log *)
Theorem C10_entries_of_heads cfg S heads id m s :
  log_wf cfg S heads id ->
  (forall e e', In e S -> In e' S -> In (fe_hash e') (fe_next e) -> fe_time e' < fe_time e) ->
  times_ok S -> tie_free S ->
  0 <= m -> cf_length cfg = Z.max m (zlen heads) ->
  reachable_state cfg (map fe_hash heads) s -> terminal s -> st_timedout s = false ->
  zlen (from_entry_values m heads (st_results s)) = Z.min (Z.max m (zlen heads)) (zlen S) /\
  (forall e, In e heads -> In e (from_entry_values m heads (st_results s))).
Proof.
  intros WF Hc Ht Hf Hm Hn Hr T Hto.
  destruct (C10_entries cfg S heads (log_wf_closure cfg S heads id WF) Hc Ht Hf m s Hm Hn Hr T Hto)
    as [_ [H2 H3]]. split; assumption.
Qed.

(* ------------------------------------------------------------------------------------------ *)
(* A stored log satisfying every hypothesis: three replicas A (clock id 1), B (2), C (3);
      a0                          head
      b1 <- b2 <- b3 <- b4 <- b5  head   (b4 refs b1)
      c1 <- c2                    head                                                        *)
Definition c10_a0 := Build_fentry 1 [] [] 1 1 7.
Definition c10_b1 := Build_fentry 11 [] [] 1 2 7.
Definition c10_b2 := Build_fentry 12 [11%N] [] 2 2 7.
Definition c10_b3 := Build_fentry 13 [12%N] [] 3 2 7.
Definition c10_b4 := Build_fentry 14 [13%N] [11%N] 4 2 7.
Definition c10_b5 := Build_fentry 15 [14%N] [] 5 2 7.
Definition c10_c1 := Build_fentry 21 [] [] 1 3 7.
Definition c10_c2 := Build_fentry 22 [21%N] [] 2 3 7.
Definition c10_S := [c10_a0; c10_b1; c10_b2; c10_b3; c10_b4; c10_b5; c10_c1; c10_c2].
Definition c10_heads := [c10_b5; c10_c2; c10_a0].
Definition c10_cfg (n : Z) : config :=
  {| cf_store := map (fun e => (fe_hash e, e)) c10_S; cf_excl := fun _ => false;
     cf_length := n; cf_conc := 2; cf_timeout := false |}.

Example C10_example_wf n : log_wf (c10_cfg n) c10_S c10_heads 7.
Proof.
  assert (W : forall x, x <> 0%N -> wanted (c10_cfg n) x) by (intros x Hx; split; [assumption|reflexivity]).
  split.
  - cbn. repeat constructor; cbn; intuition discriminate.
  - intros e He. cbn in He. repeat destruct He as [<-|He]; try reflexivity. contradiction.
  - intros h. split.
    + intros Hin. cbn in Hin.
      assert (R15 : next_reach (c10_cfg n) (map fe_hash c10_heads) 15) by (apply nr_start; [cbn; auto|apply W; discriminate]).
      assert (R22 : next_reach (c10_cfg n) (map fe_hash c10_heads) 22) by (apply nr_start; [cbn; auto|apply W; discriminate]).
      assert (R1 : next_reach (c10_cfg n) (map fe_hash c10_heads) 1) by (apply nr_start; [cbn; auto|apply W; discriminate]).
      assert (R14 : next_reach (c10_cfg n) (map fe_hash c10_heads) 14).
      { eapply (nr_link _ _ 15%N); [exact R15|reflexivity|cbn; auto|apply W; discriminate]. }
      assert (R13 : next_reach (c10_cfg n) (map fe_hash c10_heads) 13).
      { eapply (nr_link _ _ 14%N); [exact R14|reflexivity|cbn; auto|apply W; discriminate]. }
      assert (R12 : next_reach (c10_cfg n) (map fe_hash c10_heads) 12).
      { eapply (nr_link _ _ 13%N); [exact R13|reflexivity|cbn; auto|apply W; discriminate]. }
      assert (R11 : next_reach (c10_cfg n) (map fe_hash c10_heads) 11).
      { eapply (nr_link _ _ 12%N); [exact R12|reflexivity|cbn; auto|apply W; discriminate]. }
      assert (R21 : next_reach (c10_cfg n) (map fe_hash c10_heads) 21).
      { eapply (nr_link _ _ 22%N); [exact R22|reflexivity|cbn; auto|apply W; discriminate]. }
      repeat destruct Hin as [<-|Hin]; try assumption. contradiction.
    + intros Hr. induction Hr as [h Hin _|h e h' _ IH Hg Hin _].
      * cbn in Hin. cbn. intuition.
      * cbn in IH. repeat destruct IH as [<-|IH]; try contradiction;
          vm_compute in Hg; injection Hg as <-; cbn in Hin; cbn; intuition.
  - intros e h He Hh Hne. cbn in He. repeat destruct He as [<-|He]; try contradiction;
      cbn in Hh; cbn; intuition.
  - intros e. split.
    + intros He. cbn in He. repeat destruct He as [<-|He]; try contradiction;
        (split; [cbn; auto 10|cbn; intuition discriminate]).
    + intros [He Hn]. cbn in He. repeat destruct He as [<-|He]; try contradiction;
        cbn; auto; exfalso; apply Hn; cbn; auto 10.
  - intros e He. cbn in He. repeat destruct He as [<-|He]; try reflexivity. contradiction.
Qed.

Example C10_example_clock : forall e e', In e c10_S -> In e' c10_S -> In (fe_hash e') (fe_next e) ->
  fe_time e' < fe_time e.
Proof.
  intros e e' He He'. cbn in He, He'.
  repeat destruct He as [<-|He]; try contradiction; cbn; try tauto;
    repeat destruct He' as [<-|He']; try contradiction; cbn; intuition (try discriminate; try lia).
Qed.

Example C10_example_times : times_ok c10_S.
Proof. intros e He. cbn in He. repeat destruct He as [<-|He]; try contradiction; cbn; unfold int64_range, two63; lia. Qed.

Example C10_example_tie_free : tie_free c10_S.
Proof.
  intros a b Ha Hb. cbn in Ha, Hb.
  repeat destruct Ha as [<-|Ha]; try contradiction;
    repeat destruct Hb as [<-|Hb]; try contradiction; cbn; intros; try reflexivity; try discriminate.
Qed.

(* ------------------------------------------------------------------------------------------ *)
(* regression witnesses: the loaders BEFORE commit ba56479, on the log above                   *)

(* n = 0 from a manifest: the fetcher admits the newest head, entrySlice(entries, -0) returns
   everything: 1 entry instead of min(max(0,0),8) = 0 *)
Theorem C10_regression_manifest_n0 :
  exists s, reachable_state (c10_cfg 0) (map fe_hash c10_heads) s /\ terminal s /\ st_timedout s = false /\
    zlen (lg_entries (load_multihash_before_fix 7 (map fe_hash c10_heads) 0 (st_results s))) = 1 /\
    zlen (lg_entries (load_multihash 7 (map fe_hash c10_heads) 0 (st_results s))) = 0 /\
    Z.min (Z.max 0 0) (zlen c10_S) = 0.
Proof.
  destruct (run_seq (c10_cfg 0) 100 (init_state (c10_cfg 0) (map fe_hash c10_heads))) as [s|] eqn:E;
    [|vm_compute in E; discriminate].
  exists s. split; [eapply run_seq_reachable; exact E|].
  vm_compute in E. injection E as <-. split; [apply terminalb_iff; reflexivity|].
  repeat (split; [reflexivity|]). reflexivity.
Qed.

(* the JSON loader never trims: with n = 1, when the older head c2 completes first the fetcher
   over-delivers (5 entries) and all of them end up in the log; another schedule gives 1 *)
Definition c10_json_trace : list event :=
  [EvDispatch 15; EvDispatch 22; EvReturn 22 true; EvComplete 22; EvReturn 15 true; EvComplete 15].

Theorem C10_regression_json_no_trim :
  exists s s', reachable_state (c10_cfg 1) [15%N; 22%N; 1%N] s /\ terminal s /\ st_timedout s = false /\
    reachable_state (c10_cfg 1) [15%N; 22%N; 1%N] s' /\ terminal s' /\ st_timedout s' = false /\
    zlen (lg_entries (load_json_before_fix 7 1 (st_results s))) = 5 /\
    zlen (lg_entries (load_json_before_fix 7 1 (st_results s'))) = 1 /\
    zlen (lg_entries (load_json 7 1 (st_results s))) = 1 /\
    Z.min (Z.max 1 0) (zlen c10_S) = 1.
Proof.
  destruct (run_from (c10_cfg 1) (init_state (c10_cfg 1) [15%N; 22%N; 1%N]) c10_json_trace) as [s1|] eqn:E1;
    [|vm_compute in E1; discriminate].
  destruct (run_seq (c10_cfg 1) 100 s1) as [s|] eqn:E2; [|vm_compute in E1; injection E1 as <-; vm_compute in E2; discriminate].
  destruct (run_seq (c10_cfg 1) 100 (init_state (c10_cfg 1) [15%N; 22%N; 1%N])) as [s'|] eqn:E3;
    [|vm_compute in E3; discriminate].
  exists s, s'.
  assert (R : reachable_state (c10_cfg 1) [15%N; 22%N; 1%N] s).
  { apply run_from_iff in E1. destruct (run_seq_exec _ _ _ _ E2) as [evs He].
    exists (c10_json_trace ++ evs). eapply exec_app; eauto. }
  split; [exact R|].
  assert (R' : reachable_state (c10_cfg 1) [15%N; 22%N; 1%N] s') by (eapply run_seq_reachable; exact E3).
  vm_compute in E1. injection E1 as <-. vm_compute in E2. injection E2 as <-.
  vm_compute in E3. injection E3 as <-.
  split; [apply terminalb_iff; reflexivity|]. split; [reflexivity|]. split; [exact R'|].
  split; [apply terminalb_iff; reflexivity|]. repeat (split; [reflexivity|]). reflexivity.
Qed.

(* NewFromEntry with the three heads and n = 4: the window [c2 b3 b4 b5] misses the supplied a0;
   a0 is put back by dropping the window's oldest element - the supplied c2 *)
Theorem C10_regression_fromentry_drops_supplied :
  exists s, reachable_state (c10_cfg 4) (map fe_hash c10_heads) s /\ terminal s /\ st_timedout s = false /\
    cf_length (c10_cfg 4) = entry_fetch_len 4 c10_heads /\
    In c10_c2 c10_heads /\ ~ In c10_c2 (from_entry_values_before_fix 4 c10_heads (st_results s)) /\
    map fe_hash (from_entry_values_before_fix 4 c10_heads (st_results s)) = [1%N; 13%N; 14%N; 15%N] /\
    map fe_hash (from_entry_values 4 c10_heads (st_results s)) = [15%N; 22%N; 1%N; 14%N].
Proof.
  destruct (run_seq (c10_cfg 4) 100 (init_state (c10_cfg 4) (map fe_hash c10_heads))) as [s|] eqn:E;
    [|vm_compute in E; discriminate].
  exists s. split; [eapply run_seq_reachable; exact E|].
  vm_compute in E. injection E as <-. split; [apply terminalb_iff; reflexivity|].
  split; [reflexivity|]. split; [reflexivity|]. split; [cbn; auto|]. split.
  - vm_compute. intros H. repeat destruct H as [H|H]; try discriminate. contradiction.
  - split; reflexivity.
Qed.

(* ---- the log a length-limited load returns is a replica: the history goes on with it.
   What NewFromJSON with Length n hands to NewLog is, by C10_json, the last n of the stored log in clock
   order (NewFromEntryHash: C10_entryhash, with the other ordering).  Such a part of the log, opened
   without heads, is an admissible step of the histories with re-opened logs (Proofs/POpen.v,
   Proofs/ReloadBridge.v): the loaded log is a log in the full sense - heads = its unreferenced entries,
   exact index, complete sorted causal Values() (the C16_reopened theorems) - and so is everything appended to it and
   merged with it afterwards, although it is causally open and its clock starts at 0. *)
From IpfsLog Require Import Model.System Proofs.Inv Proofs.SysProofs Proofs.PInv Proofs.PSys Proofs.POpen
  Proofs.BridgeProofs Proofs.ReloadBridge.

Theorem C10_limited_reload_is_a_replica (ops : list op) (r : nat) (l : log) (n : Z)
        (cmp : fentry -> fentry -> cres) key sf deny :
  wf ops -> nth_error (s_logs (run ops)) r = Some l ->
  let X := last_n n (sort_go cmp false (fentries_of l)) in
  let reopen := OOpen r (map fe_hash X) [] (l_id l) key sf deny in
  owf (ops ++ [reopen]) /\
  exists lr, nth_error (s_logs (run (ops ++ [reopen]))) (length (s_logs (run ops))) = Some lr /\
    map fentry_of (ents lr) = X /\ l_id lr = l_id l.
Proof.
  intros W L X reopen.
  assert (WO : owf ops) by (apply pwf_owf, wf_pwf, W).
  destruct (sinv_run ops W) as [UO IL]. pose proof (IL r l L) as I.
  assert (HI : incl X (fentries_of l)).
  { intros x Hx. apply last_n_incl in Hx. unfold sort_go in Hx. now apply gosort_in in Hx. }
  assert (ND : NoDup (map fe_hash X)).
  { apply last_n_nodup_hashes. unfold hashes, sort_go.
    eapply Permutation_NoDup; [apply Permutation_map; symmetry; apply gosort_perm|].
    rewrite hashes_fentries. rewrite (keys_are_hashes _ l I). apply (li_nodup _ _ I). }
  exact (reloaded_selection_is_a_replica ops r l X key sf deny WO L HI ND).
Qed.

(* NewFromMultihash with a length limit also hands NewLog heads: those heads of the manifest that are among
   the loaded entries.  For a replica of a well-formed history they are exactly the unreferenced entries of
   the loaded part (the part is a suffix of the log in clock order: whatever names a loaded entry is newer
   and therefore loaded too), so this step is admissible as well (Proofs/LimitedReload.v) *)
From IpfsLog Require Import Proofs.LimitedReload.
Theorem C10_limited_manifest_reload_is_a_replica (ops : list op) (r : nat) (l : log) (n : Z) (hh : list N) key sf deny :
  wf ops -> nth_error (s_logs (run ops)) r = Some l ->
  times_ok (fentries_of l) -> tie_free (fentries_of l) ->
  let X := last_n n (sort_go cmp_lww false (fentries_of l)) in      (* what C10_manifest says is loaded *)
  (forall h, In h hh <-> In h (okeys (l_heads l)) /\ In h (map fe_hash X)) ->   (* the manifest heads among it *)
  let reopen := OOpen r (map fe_hash X) hh (l_id l) key sf deny in
  owf (ops ++ [reopen]) /\
  exists lr, nth_error (s_logs (run (ops ++ [reopen]))) (length (s_logs (run ops))) = Some lr /\
    map fentry_of (ents lr) = X /\ l_id lr = l_id l.
Proof.
  intros W L Ht Hf X HH reopen.
  exact (limited_manifest_reload_is_a_replica ops r l n hh key sf deny (pwf_owf _ (wf_pwf _ W)) L Ht Hf HH).
Qed.

Print Assumptions C10_min_clock_invariant.
Print Assumptions C10_fetch_window.
Print Assumptions C10_schedule_independent.
Print Assumptions C10_manifest.
Print Assumptions C10_json.
Print Assumptions C10_entryhash.
Print Assumptions C10_entries.
Print Assumptions C10_entries_of_heads.
Print Assumptions C10_example_wf.
Print Assumptions C10_example_clock.
Print Assumptions C10_example_times.
Print Assumptions C10_example_tie_free.
Print Assumptions C10_regression_manifest_n0.
Print Assumptions C10_regression_json_no_trim.
Print Assumptions C10_regression_fromentry_drops_supplied.
Print Assumptions C10_limited_reload_is_a_replica.
Print Assumptions C10_limited_manifest_reload_is_a_replica.
