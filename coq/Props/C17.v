(* C17  The block store is causally closed at every instant (crash safety).
   [s_store] is the write trace of the one block store shared by all replicas: (cid, links) in write
   order, at most one block per operation.  [store_ordered]: every block was written after every
   block it links to; hence every PREFIX of the trace - every possible crash point - is closed. *)
From Coq Require Import List ZArith Bool Lia Permutation.
From IpfsLog Require Import Model.System Proofs.OmapProofs Proofs.Inv Proofs.SysProofs Proofs.StepProofs Proofs.StoreProofs.
(* nth_error_set_nth is in SysProofs *)
Import ListNotations.
Open Scope Z_scope.

Theorem C17_closed_at_every_crash_point ops pre suf :
  wf ops -> s_store (run ops) = pre ++ suf -> closed_store pre.
Proof.
  intros W E. destruct (stinv_run ops W) as [SO _]. exact (store_ordered_prefix_closed _ SO pre suf E).
Qed.

(* every entry of every replica has its block in the store (appends write before they publish), and
   so have all its predecessors and references *)
Theorem C17_replica_entries_are_stored ops r l :
  wf ops -> nth_error (s_logs (run ops)) r = Some l ->
  forall e, In e (ents l) ->
    In (e_hash e) (map fst (s_store (run ops))) /\
    (forall n, In n (e_next e ++ e_refs e) -> In n (map fst (s_store (run ops)))).
Proof.
  intros W L e He. destruct (stinv_run ops W) as [_ SH]. destruct (sinv_run ops W) as [_ IL].
  pose proof (rinv_run ops W r l L) as R.
  destruct (linv_entry _ _ _ (IL r l L) He) as [Hin _].
  split; [apply (SH r l L); apply In_okeys; eauto|].
  intros n Hn. apply (SH r l L). apply in_app_iff in Hn. destruct Hn as [Hn|Hn].
  - exact (li_closed _ _ (IL r l L) e n He Hn).
  - exact (R e He n Hn).
Qed.

(* a returned manifest names only stored heads; the store only grows, so whatever was stored when an
   operation returned is still there after any continuation of the history *)
Theorem C17_store_only_grows ops more : exists suf, s_store (run (ops ++ more)) = s_store (run ops) ++ suf.
Proof.
  unfold run. rewrite run_from_app. generalize (run_from empty_sys ops). induction more as [|o more IH]; intros s.
  - exists []. cbn. now rewrite app_nil_r.
  - cbn [run_from fold_left]. destruct (step_store_extends s o) as [s1 E1].
    destruct (IH (fst (step s o))) as [s2 E2]. exists (s1 ++ s2). unfold run_from in *. rewrite E2, E1. now rewrite app_assoc.
Qed.

Theorem C17_manifest_heads_stored ops r l :
  wf ops -> nth_error (s_logs (run ops)) r = Some l ->
  forall k, In k (json_heads l) -> In k (map fst (s_store (run ops))).
Proof.
  intros W L k Hk. destruct (stinv_run ops W) as [_ SH]. destruct (sinv_run ops W) as [_ IL].
  apply (SH r l L). eapply json_heads_in_entries; eauto.
Qed.

(* "a crash loses at most operations that had not returned": an append that returns an entry has
   written that entry's block, with the hash it returns, before returning; and an operation whose
   block write the store refuses (modelled by [OFail], which the correspondence check runs against
   appends and publications during an injected store outage) changes neither a log nor the store. *)
Theorem C17_acknowledged_append_is_stored s r payload pc h e :
  snd (step s (OAppend r payload pc h)) = ResEntry e ->
  e_hash e = h /\ In h (map fst (s_store (fst (step s (OAppend r payload pc h))))).
Proof.
  cbn [step]. destruct (nth_error (s_logs s) r) as [l|]; [|discriminate].
  unfold append. destruct (append_entry l payload pc h) as [e0|] eqn:A; [|discriminate].
  destruct (allowed l e0); cbn [fst snd s_store].
  - intros H. injection H as <-. split; [exact (ae_hash l payload pc h e0 A)|apply add_block_has].
  - discriminate.
Qed.

Theorem C17_refused_write_changes_nothing s r payload pc h :
  (step s (OFail r) = (s, ResNone RcErrOther)) /\
  let s' := fst (step s (OAppendFail r payload pc h)) in
  s_store s' = s_store s /\
  forall r' l, nth_error (s_logs s) r' = Some l ->
    exists l', nth_error (s_logs s') r' = Some l' /\
               (l' = l \/ (l' = set_time l (l_time l') /\ l_time l < l_time l')).
Proof.
  split; [reflexivity|]. cbn [step].
  destruct (nth_error (s_logs s) r) as [l0|] eqn:L0; [|cbn; split; [reflexivity|]; intros r' l H; exists l; auto].
  destruct (append_entry l0 payload pc h) as [e|] eqn:A; [|cbn; split; [reflexivity|]; intros r' l H; exists l; auto].
  cbn [fst s_store s_logs]. split; [reflexivity|]. intros r' l H. rewrite nth_error_set_nth, L0.
  destruct (Nat.eqb_spec r r') as [->|Hne]; [|exists l; auto].
  rewrite L0 in H. injection H as ->. eexists. split; [reflexivity|]. right. cbn [set_time l_time].
  split; [reflexivity|]. exact (ae_time_gt_clock l payload pc h e A).
Qed.

From IpfsLog Require Import Model.ExampleHist Proofs.WfBool.
Example C17_nonvacuous :
  wf ex_hist /\ map fst (s_store (run ex_hist)) = [101; 102; 201; 301; 302; 900]%N /\
  nth_error (s_store (run ex_hist)) 4 = Some (302, [201; 301; 102; 101])%N.
Proof. split; [apply wfb_wf; vm_compute; reflexivity|split; vm_compute; reflexivity]. Qed.

Print Assumptions C17_closed_at_every_crash_point.
Print Assumptions C17_replica_entries_are_stored.
Print Assumptions C17_store_only_grows.
Print Assumptions C17_manifest_heads_stored.
Print Assumptions C17_acknowledged_append_is_stored.
Print Assumptions C17_refused_write_changes_nothing.
Print Assumptions C17_nonvacuous.
