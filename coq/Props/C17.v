(* C17  The block store is causally closed at every instant (crash safety).
   [s_store] is the write trace of the one block store shared by all replicas: (cid, links) in write
   order, at most one block per operation.  [store_ordered]: every block was written after every
   block it links to; hence every PREFIX of the trace - every possible crash point - is closed. *)
From Coq Require Import List ZArith Bool Lia Permutation.
From IpfsLog Require Import Model.System Proofs.OmapProofs Proofs.Inv Proofs.SysProofs Proofs.StepProofs Proofs.StoreProofs.
Import ListNotations.
Open Scope Z_scope.

Theorem C17_closed_at_every_crash_point ops pre suf :
  wf ops -> s_store (run ops) = pre ++ suf -> closed_store pre.
Proof.
  intros W E. destruct (stinv_run ops W) as [SO _]. exact (store_ordered_prefix_closed _ SO pre suf E).
Qed.

(* every entry of every replica has its block in the store (appends write before they publish), and
   so have all its predecessors and references *)
Theorem C17_replica_entries_are_stored ops r l :
  wf ops -> nth_error (s_logs (run ops)) r = Some l ->
  forall e, In e (ents l) ->
    In (e_hash e) (map fst (s_store (run ops))) /\
    (forall n, In n (e_next e ++ e_refs e) -> In n (map fst (s_store (run ops)))).
Proof.
  intros W L e He. destruct (stinv_run ops W) as [_ SH]. destruct (sinv_run ops W) as [_ IL].
  pose proof (rinv_run ops W r l L) as R.
  destruct (linv_entry _ _ _ (IL r l L) He) as [Hin _].
  split; [apply (SH r l L); apply In_okeys; eauto|].
  intros n Hn. apply (SH r l L). apply in_app_iff in Hn. destruct Hn as [Hn|Hn].
  - exact (li_closed _ _ (IL r l L) e n He Hn).
  - exact (R e He n Hn).
Qed.

(* a returned manifest names only stored heads; the store only grows, so whatever was stored when an
   operation returned is still there after any continuation of the history *)
Theorem C17_store_only_grows ops more : exists suf, s_store (run (ops ++ more)) = s_store (run ops) ++ suf.
Proof.
  unfold run. rewrite run_from_app. generalize (run_from empty_sys ops). induction more as [|o more IH]; intros s.
  - exists []. cbn. now rewrite app_nil_r.
  - cbn [run_from fold_left]. destruct (step_store_extends s o) as [s1 E1].
    destruct (IH (fst (step s o))) as [s2 E2]. exists (s1 ++ s2). unfold run_from in *. rewrite E2, E1. now rewrite app_assoc.
Qed.

Theorem C17_manifest_heads_stored ops r l :
  wf ops -> nth_error (s_logs (run ops)) r = Some l ->
  forall k, In k (json_heads l) -> In k (map fst (s_store (run ops))).
Proof.
  intros W L k Hk. destruct (stinv_run ops W) as [_ SH]. destruct (sinv_run ops W) as [_ IL].
  apply (SH r l L). eapply json_heads_in_entries; eauto.
Qed.

From IpfsLog Require Import Model.ExampleHist Proofs.WfBool.
Example C17_nonvacuous :
  wf ex_hist /\ map fst (s_store (run ex_hist)) = [101; 102; 201; 301; 302; 900]%N /\
  nth_error (s_store (run ex_hist)) 4 = Some (302, [201; 301; 102; 101])%N.
Proof. split; [apply wfb_wf; vm_compute; reflexivity|split; vm_compute; reflexivity]. Qed.

Print Assumptions C17_closed_at_every_crash_point.
Print Assumptions C17_replica_entries_are_stored.
Print Assumptions C17_store_only_grows.
Print Assumptions C17_manifest_heads_stored.
Print Assumptions C17_nonvacuous.
