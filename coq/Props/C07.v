(* C07  Signatures are tamper-evident over every signed field.
   Statements only; proofs are in Proofs/JsonProofs.v and Proofs/SigningProofs.v.  The view
   [sig_view] is built from coq/Gen/Signed.v, regenerated from entry/entry.go on every check. *)
From Coq Require Import List NArith ZArith Bool String.
From IpfsLog Require Import Model.Json Model.SignedTags Gen.Signed Model.Signing Proofs.JsonProofs Proofs.SigningProofs.   (* deps *)
Import ListNotations.
Open Scope N_scope.

(* ---- encoding/json fragment ---- *)

(* a reader of the printed fragment gets back the sanitised value (needs enough fuel, and a
   following byte that is not a digit) *)
Theorem C07_parse_print j n rest :
  (jfuel j <= n)%nat -> rest_ok rest -> parse n (print j ++ rest) = Some (sanitize j, rest).
Proof. exact (parse_print j n rest). Qed.

(* json.Marshal is injective up to the replacement of invalid UTF-8 by U+FFFD *)
Theorem C07_print_injective j1 j2 : print j1 = print j2 -> sanitize j1 = sanitize j2.
Proof. exact (print_injective j1 j2). Qed.

Theorem C07_valid_utf8_not_sanitised bs : valid_utf8 bs = true -> sanitize_str bs = bs.
Proof. exact (valid_utf8_sanitize bs). Qed.

Theorem C07_hex_injective a b :
  bytes_ok a = true -> bytes_ok b = true -> hex_encode a = hex_encode b -> a = b.
Proof. exact (hex_encode_inj a b). Qed.

Section C07.
  Variable cid : Type.
  Variable cid_str : cid -> bytes.                  (* cidB58 *)
  (* ASSUMPTIONS on the base58btc multibase text of a CID *)
  Hypothesis cid_str_inj : forall a b, cid_str a = cid_str b -> a = b.
  Hypothesis cid_str_text : forall c, valid_utf8 (cid_str c) = true.

  Notation entry := (entry cid).
  Notation sig_view := (sig_view cid cid_str).
  Notation signing_bytes := (signing_bytes cid cid_str).

  (* the bytes that are signed are json.Marshal of the generated view *)
  Theorem C07_signing_bytes_def e : signing_bytes e = print (sig_view e).
  Proof. reflexivity. Qed.

  (* equal (sanitised) views => equal log id and payload up to sanitisation, equal next list
     (membership and order), refs list, v, clock id, clock time, additional data *)
  Theorem C07_sig_view_injective e1 e2 :
    sanitize (sig_view e1) = sanitize (sig_view e2) -> same_signed_fields cid e1 e2.
  Proof. exact (sig_view_injective cid cid_str cid_str_inj cid_str_text e1 e2). Qed.

  Theorem C07_signing_bytes_injective e1 e2 :
    signing_bytes e1 = signing_bytes e2 -> same_signed_fields cid e1 e2.
  Proof. exact (signing_bytes_injective cid cid_str cid_str_inj cid_str_text e1 e2). Qed.

  Theorem C07_signing_bytes_injective_text e1 e2 :
    text_ok cid e1 -> text_ok cid e2 -> signing_bytes e1 = signing_bytes e2 ->
    e_logid e1 = e_logid e2 /\ e_payload e1 = e_payload e2 /\ e_next e1 = e_next e2 /\
    e_refs e1 = e_refs e2 /\ e_v e1 = e_v e2 /\ e_clock_id e1 = e_clock_id e2 /\
    e_clock_time e1 = e_clock_time e2 /\ ad_canon (e_ad e1) = ad_canon (e_ad e2).
  Proof. exact (signing_bytes_injective_text cid cid_str cid_str_inj cid_str_text e1 e2). Qed.

  Section Crypto.
    Variables skey pkey : Type.
    Variable pub : skey -> pkey.
    Variable pub_bytes : skey -> bytes.
    Variable unmarshal : bytes -> option pkey.
    Variable sign : skey -> bytes -> bytes.
    Variable verify : pkey -> bytes -> bytes -> bool.

    Notation verify_entry := (verify_entry cid cid_str pkey unmarshal verify).
    Notation create_entry := (create_entry cid cid_str skey pub_bytes sign).
    Notation honest := (honest cid cid_str skey pub_bytes sign).
    Notation modify_one_signed_field := (modify_one_signed_field cid cid_str skey pkey pub unmarshal sign).

    Section Unforgeable.
      (* ASSUMPTION, what EUF-CMA gives for the listed modifications: a signature produced for m
         under sk verifies under pk' for m' only if pk' = pub sk and m' = m *)
      Hypothesis sig_binding :
        forall sk m pk' m', verify pk' m' (sign sk m) = true -> pk' = pub sk /\ m' = m.
      Hypothesis unmarshal_pub : forall sk, unmarshal (pub_bytes sk) = Some (pub sk).

      (* any single-field modification of an honestly signed entry is rejected by Verify, provided
         payload and log id are valid UTF-8 before and after *)
      Theorem C07_tamper sk e e' :
        honest sk e -> modify_one_signed_field sk e e' -> text_ok cid e -> text_ok cid e' ->
        verify_entry e' = false.
      Proof.
        exact (tamper cid cid_str cid_str_inj cid_str_text skey pkey pub pub_bytes unmarshal sign verify
                      sig_binding unmarshal_pub sk e e').
      Qed.

      Theorem C07_tamper_created sk data e e' :
        create_entry sk data = Some e -> modify_one_signed_field sk e e' -> text_ok cid e -> text_ok cid e' ->
        verify_entry e' = false.
      Proof.
        intros H. apply C07_tamper. exact (create_entry_honest cid cid_str skey pub_bytes sign sk data e H).
      Qed.
    End Unforgeable.

    Section Correct.
      Hypothesis sign_correct : forall sk m, verify (pub sk) m (sign sk m) = true.
      Hypothesis unmarshal_pub : forall sk, unmarshal (pub_bytes sk) = Some (pub sk).
      Hypothesis pub_bytes_nonempty : forall sk, pub_bytes sk <> [].
      Hypothesis sign_nonempty : forall sk m, sign sk m <> [].

      (* default codec: what CreateEntryWithIO signs is what Verify checks (C06, last clause) *)
      Theorem C07_created_entry_verifies sk data e : create_entry sk data = Some e -> verify_entry e = true.
      Proof.
        exact (created_entry_verifies cid cid_str skey pkey pub pub_bytes unmarshal sign verify
                 sign_correct unmarshal_pub pub_bytes_nonempty sign_nonempty sk data e).
      Qed.

      (* K1: without the UTF-8 premise C07_tamper is FALSE of the code as it is, for every correct
         signature scheme: sk's entry with payload [ff], the payload changed to [fe], still verifies *)
      Theorem C07_binary_payload_tamper_refuted sk :
        exists e e', honest sk e /\ modify_one_signed_field sk e e' /\
                     e_payload e = [0xff] /\ e_payload e' = [0xfe] /\ verify_entry e' = true.
      Proof.
        destruct (k1_tamper_verifies cid cid_str skey pkey pub pub_bytes unmarshal sign verify
                    sign_correct unmarshal_pub pub_bytes_nonempty sign_nonempty sk) as (A & B & C).
        eexists _, _. split; [exact A|]. split; [exact B|]. split; [reflexivity|]. split; [reflexivity|exact C].
      Qed.
    End Correct.
  End Crypto.
End C07.

(* K1 (finding): two entries that differ only inside invalid UTF-8 payload bytes have the same
   signing bytes; so does a log id *)
Theorem C07_binary_payload_refuted (cid : Type) (cid_str : cid -> bytes) :
  exists e e' : entry cid,
    e_payload e = [0xff] /\ e' = set_payload cid e [0xfe] /\ e_payload e' <> e_payload e /\
    signing_bytes cid cid_str e' = signing_bytes cid cid_str e.
Proof.
  exists (k1_entry cid [0xff]), (k1_entry cid [0xfe]).
  split; [reflexivity|]. split; [reflexivity|]. split; [discriminate|].
  symmetry. apply k1_signing_bytes_equal.
Qed.

Theorem C07_binary_logid_refuted (cid : Type) (cid_str : cid -> bytes) :
  exists e e' : entry cid,
    e_logid e' <> e_logid e /\ e' = set_logid cid e (e_logid e') /\
    signing_bytes cid cid_str e' = signing_bytes cid cid_str e.
Proof.
  exists (set_logid cid (k1_entry cid [65]) [0x69; 0xff]), (set_logid cid (k1_entry cid [65]) [0x69; 0xfe]).
  split; [discriminate|]. split; [reflexivity|]. symmetry. apply k1_logid_signing_bytes_equal.
Qed.

(* after the suggested repair (sig_view_fixed: hex copy of a non-UTF-8 payload in the signed map)
   the payload is bound without any UTF-8 premise *)
Theorem C07_payload_bound_after_fix (cid : Type) (cid_str : cid -> bytes) (e1 e2 : entry cid) :
  signing_bytes_fixed cid cid_str e1 = signing_bytes_fixed cid cid_str e2 ->
  bytes_ok (e_payload e1) = true -> bytes_ok (e_payload e2) = true -> e_payload e1 = e_payload e2.
Proof. exact (payload_bound_after_fix cid cid_str e1 e2). Qed.

(* ---- the hypotheses are satisfiable: a toy instance (the toy_ definitions of Proofs/SigningProofs.v) ---- *)
Example C07_assumptions_satisfiable :
  (forall a b, toy_cid_str a = toy_cid_str b -> a = b) /\
  (forall c, valid_utf8 (toy_cid_str c) = true) /\
  (forall sk m pk' m', toy_verify pk' m' (toy_sign sk m) = true -> pk' = toy_pub sk /\ m' = m) /\
  (forall sk, toy_unmarshal (toy_pub_bytes sk) = Some (toy_pub sk)) /\
  (forall sk m, toy_verify (toy_pub sk) m (toy_sign sk m) = true) /\
  (forall sk, toy_pub_bytes sk <> []) /\ (forall sk m, toy_sign sk m <> []).
Proof. exact toy_laws. Qed.

(* a concrete honest entry with two predecessors, and a swap of them: Verify accepts the first and
   rejects the second (computed in the toy instance) *)
Example C07_tamper_instance :
  let data := Build_entry bool [108; 111; 103] [104; 105] [true; false] [false] 0 [] 0%Z [([107], [118])] [] [] in
  exists e, create_entry bool toy_cid_str N toy_pub_bytes toy_sign 7 data = Some e /\
    text_ok bool e /\
    verify_entry bool toy_cid_str N toy_unmarshal toy_verify e = true /\
    modify_one_signed_field bool toy_cid_str N N toy_pub toy_unmarshal toy_sign 7 e (set_next bool e [false; true]) /\
    verify_entry bool toy_cid_str N toy_unmarshal toy_verify (set_next bool e [false; true]) = false.
Proof. exact toy_tamper_instance. Qed.

Print Assumptions C07_parse_print.
Print Assumptions C07_print_injective.
Print Assumptions C07_valid_utf8_not_sanitised.
Print Assumptions C07_hex_injective.
Print Assumptions C07_signing_bytes_def.
Print Assumptions C07_sig_view_injective.
Print Assumptions C07_signing_bytes_injective.
Print Assumptions C07_signing_bytes_injective_text.
Print Assumptions C07_tamper.
Print Assumptions C07_tamper_created.
Print Assumptions C07_created_entry_verifies.
Print Assumptions C07_binary_payload_tamper_refuted.
Print Assumptions C07_binary_payload_refuted.
Print Assumptions C07_binary_logid_refuted.
Print Assumptions C07_payload_bound_after_fix.
Print Assumptions C07_assumptions_satisfiable.
Print Assumptions C07_tamper_instance.
