(* C08  Entry encoding is canonical and decoding is its exact inverse.
   Statements only; proofs are in Proofs/CborProofs.v and Proofs/EntryCodecProofs.v.

   Model: Model/Cbor.v (bytes <-> CBOR tree, refmt's encoder), Model/EntryCodec.v (entry <-> tree:
   Normalize, ToJsonableEntry, refmt marshal/unmarshal through the atlas of Gen/Tables.v which is
   regenerated from io/cbor/cbor.go on every check, DecryptLinks, ToPlain).
   A content identifier is H(block bytes) for the hash function H of the store, so "same bytes"
   is "same identifier" (C08_same_bytes_same_cid); nothing else about H is used.            *)
From Coq Require Import List NArith ZArith Bool String Permutation.
From IpfsLog Require Import Model.Cbor Model.EntryCodec Gen.Tables Proofs.CborProofs Proofs.EntryCodecProofs.
(* deps: keep this comment line directly after the Require line (lib/verif.py deps_of scans it) *)
Import ListNotations.
Open Scope N_scope.

(* ---------------------------------------------------------------------------------------------
   (b) bytes <-> tree *)
Theorem C08_cbor_decode_encode t rest :
  wf t = true -> decode (fuel_for t) (encode t ++ rest) = Some (t, rest).
Proof. exact (decode_encode t rest). Qed.

Theorem C08_cbor_decode_all t : wf t = true -> decode_all (encode t) = Some t.
Proof. exact (decode_all_encode t). Qed.

Theorem C08_cbor_encode_injective t1 t2 : wf t1 = true -> wf t2 = true -> encode t1 = encode t2 -> t1 = t2.
Proof. exact (encode_injective t1 t2). Qed.

Theorem C08_cbor_prefix_free t1 t2 r1 r2 :
  wf t1 = true -> wf t2 = true -> encode t1 ++ r1 = encode t2 ++ r2 -> t1 = t2 /\ r1 = r2.
Proof. exact (encode_prefix_free t1 t2 r1 r2). Qed.

(* Go maps marshalled under atlas.KeySortMode_RFC7049: the emitted order is a function of the
   key/value SET, not of the order in which the runtime iterates the map *)
Theorem C08_canon_map_order_independent (V : Type) (l l' : list (bytes * V)) :
  NoDup (map fst l) -> Permutation l l' -> canon_map l = canon_map l'.
Proof. exact (canon_map_perm_invariant V l l'). Qed.

Theorem C08_hex_roundtrip bs : is_bytes bs = true -> hex_decode (hex_encode bs) = Some bs.
Proof. exact (hex_roundtrip bs). Qed.

(* ---------------------------------------------------------------------------------------------
   (a) entry <-> tree, default codec *)
Section Default.
  Variable cidok : bytes -> bool.      (* go-cid accepts the binary form of the link (cid.Cast) *)

  (* every well-formed entry can be written, and reading the written tree back yields [normal h e]:
     e with its hash set to the identifier read, AdditionalData reduced to the two stored link
     strings (if any), refs dropped when v <= 1 *)
  Theorem C08_roundtrip e h : wf_entry cidok e = true ->
    exists t, to_tree e = Ok t /\ wf t = true /\ of_tree_plain cidok h t = Ok (normal h e).
  Proof. exact (entry_roundtrip cidok e h). Qed.

  (* ... which is e itself (every field, nil-vs-empty link lists included) for entries without
     AdditionalData whose refs are absent unless v >= 2 - what Append / CreateEntry produce *)
  Theorem C08_roundtrip_exact e h : wf_entry cidok e = true -> plain_entry e = true ->
    exists t, to_tree e = Ok t /\ of_tree_plain cidok h t = Ok (set_hash h e).
  Proof.
    intros H P. destruct (entry_roundtrip cidok e h H) as (t & Et & _ & Dt).
    exists t. now rewrite <- (normal_exact h e P).
  Qed.

  (* through the bytes *)
  Theorem C08_bytes_roundtrip e h : wf_entry cidok e = true ->
    exists b, entry_block e = Ok b /\ of_block_plain cidok h b = Ok (normal h e).
  Proof. exact (entry_bytes_roundtrip cidok e h). Qed.

  (* re-encoding the decoded entry gives the same block - every well-formed entry, also one that
     carries the link strings (repaired by 7c07d71; regression witness at the end) *)
  Theorem C08_reencode e h : wf_entry cidok e = true ->
    exists b e', entry_block e = Ok b /\ of_block_plain cidok h b = Ok e' /\ entry_block e' = Ok b.
  Proof. exact (entry_reencode_bytes cidok e h). Qed.

  (* v1 blocks: same theorem; what is not written is refs *)
  Theorem C08_v1_refs_not_written e h : e_v e = 1 -> e_refs (normal h e) = None \/ e_refs (normal h e) = Some [].
  Proof.
    intros V. unfold normal. cbn [e_refs]. rewrite V. destruct (has_enc e); [now right|now left].
  Qed.

  (* manifests *)
  Theorem C08_manifest_roundtrip id heads : wf_cids cidok heads = true -> small id = true ->
    exists t, manifest_to_tree id heads = Ok t /\
              match decode_all (encode t) with Some t' => manifest_of_tree cidok t' | None => Err EUnmarshal end
              = Ok (id, heads).
  Proof. exact (manifest_bytes_roundtrip cidok id heads). Qed.
End Default.

(* determinism: [entry_block] and [manifest_to_tree] are functions of the logical value; the only
   Go map on the write path (AdditionalData) is consulted by key, so its iteration order - here the
   order of the association list - cannot matter *)
Theorem C08_deterministic e add' :
  NoDup (map fst (e_additional e)) -> Permutation (e_additional e) add' ->
  to_tree {| e_v := e_v e; e_logid := e_logid e; e_payload := e_payload e; e_next := e_next e; e_refs := e_refs e;
             e_clock := e_clock e; e_key := e_key e; e_sig := e_sig e; e_identity := e_identity e;
             e_hash := e_hash e; e_additional := add' |} = to_tree e.
Proof. exact (to_tree_additional_order e add'). Qed.

Section Cid.
  Variable H : bytes -> bytes.          (* multihash of the block; the identifier is a function of it *)
  Theorem C08_same_bytes_same_cid b b' : b = b' -> H b = H b'.
  Proof. intros ->. reflexivity. Qed.
End Cid.

(* nil and empty link lists are different values on the wire (null / empty array) and both survive
   the round trip (C08_roundtrip keeps [e_next], [e_refs] as they are) *)
Theorem C08_nil_and_empty_lists_encode_differently :
  encode (CMap [([110;101;120;116], CNull)]) <> encode (CMap [([110;101;120;116], CArray [])]).
Proof. vm_compute. discriminate. Qed.

(* ---------------------------------------------------------------------------------------------
   link-encrypting codec *)
Section LinkKey.
  Variable cidok : bytes -> bool.
  Variable K : Type.
  Variable seal : K -> bytes -> bytes -> bytes.
  Variable open_ : K -> bytes -> bytes -> option bytes.
  Variable nonce_of : entry -> bytes.
  Variable b64enc : bytes -> bytes.
  Variable b64dec : bytes -> option bytes.
  Hypothesis open_seal : forall k n m, open_ k n (seal k n m) = Some m.     (* secretbox *)
  Hypothesis b64_inv : forall x, b64dec (b64enc x) = Some x.               (* encoding/base64 *)

  (* e is what PreSign returns (C08_presign_shape): links still in place, the two strings attached.
     Written with the key and read back with the same key: every field - links recovered,
     AdditionalData = the two stored strings ([strip_additional]) - and the entry read back encodes
     to the same tree again. *)
  Theorem C08_linkkey_roundtrip k e h lt nonce :
    wf_entry cidok e = true -> (1 <? e_v e) = true ->
    links_tree (e_next e) (e_refs e) = Ok lt ->
    assoc key_enc_links (e_additional e) = Some (b64enc (seal k nonce (encode lt))) ->
    assoc key_enc_nonce (e_additional e) = Some (b64enc nonce) ->
    is_nil (b64enc (seal k nonce (encode lt))) = false -> is_nil (b64enc nonce) = false ->
    exists t, to_tree e = Ok t /\ wf t = true /\
              of_tree cidok K open_ b64dec (Some k) h t = Ok (strip_additional h e) /\
              to_tree (strip_additional h e) = Ok t.
  Proof. exact (link_roundtrip_core cidok K seal open_ b64enc b64dec open_seal b64_inv k e h lt nonce). Qed.

  (* "equal in every field": when AdditionalData holds nothing but the two strings (what PreSign
     produces from an entry without AdditionalData), the entry read back IS the entry written *)
  Theorem C08_linkkey_roundtrip_exact k e h lt nonce :
    wf_entry cidok e = true -> (1 <? e_v e) = true ->
    links_tree (e_next e) (e_refs e) = Ok lt ->
    e_additional e = [(key_enc_nonce, b64enc nonce); (key_enc_links, b64enc (seal k nonce (encode lt)))] ->
    is_nil (b64enc (seal k nonce (encode lt))) = false -> is_nil (b64enc nonce) = false ->
    exists t e', to_tree e = Ok t /\ of_tree cidok K open_ b64dec (Some k) h t = Ok e' /\
      e_v e' = e_v e /\ e_logid e' = e_logid e /\ e_payload e' = e_payload e /\ e_next e' = e_next e /\
      e_refs e' = e_refs e /\ e_clock e' = e_clock e /\ e_key e' = e_key e /\ e_sig e' = e_sig e /\
      e_identity e' = e_identity e /\ e_hash e' = Some h /\
      Permutation (e_additional e') (e_additional e).
  Proof.
    intros W V L A N1 N2.
    assert (A1 : assoc key_enc_links (e_additional e) = Some (b64enc (seal k nonce (encode lt)))) by (rewrite A; reflexivity).
    assert (A2 : assoc key_enc_nonce (e_additional e) = Some (b64enc nonce)) by (rewrite A; reflexivity).
    destruct (link_roundtrip_core cidok K seal open_ b64enc b64dec open_seal b64_inv k e h lt nonce W V L A1 A2 N1 N2)
      as (t & Et & _ & Dt & _).
    exists t, (strip_additional h e). split; [exact Et|]. split; [exact Dt|].
    unfold strip_additional, enc_pair. cbn [e_v e_logid e_payload e_next e_refs e_clock e_key e_sig e_identity e_hash e_additional].
    rewrite A1, A2, V, N1. cbn [andb]. repeat split. rewrite A. apply perm_swap.
  Qed.

  Theorem C08_presign_shape k e e' :
    presign K seal nonce_of b64enc (Some k) e = Ok e' ->
    (len0 (e_next e) && len0 (e_refs e) = true /\ e' = e) \/
    exists lt, let c := copy_entry e in
      links_tree (e_next c) (e_refs c) = Ok lt /\
      e_next e' = e_next c /\ e_refs e' = e_refs c /\ e_v e' = e_v e /\
      assoc key_enc_links (e_additional e') = Some (b64enc (seal k (nonce_of c) (encode lt))) /\
      assoc key_enc_nonce (e_additional e') = Some (b64enc (nonce_of c)).
  Proof. exact (presign_shape K seal nonce_of b64enc k e e'). Qed.

  (* REGRESSION witness for the defect repaired by 7c07d71 (former finding
     C08:readback-field:additional-data): the reader as it was ([of_tree_before_fix]) returned an
     empty AdditionalData for every link-encrypted entry. *)
  Theorem C08_regression_linkkey_additional_data_was_dropped k e h lt nonce :
    wf_entry cidok e = true -> (1 <? e_v e) = true ->
    links_tree (e_next e) (e_refs e) = Ok lt ->
    assoc key_enc_links (e_additional e) = Some (b64enc (seal k nonce (encode lt))) ->
    assoc key_enc_nonce (e_additional e) = Some (b64enc nonce) ->
    is_nil (b64enc (seal k nonce (encode lt))) = false -> is_nil (b64enc nonce) = false ->
    exists t e', to_tree e = Ok t /\ of_tree_before_fix cidok K open_ b64dec (Some k) h t = Ok e' /\
                 e_additional e' = [] /\ e_additional e <> [].
  Proof. exact (link_roundtrip_before_fix cidok K seal open_ b64enc b64dec open_seal b64_inv k e h lt nonce). Qed.
End LinkKey.

(* REGRESSION witness, same root cause, default codec (former finding
   C08:reencode-cid:enc-additional-data): an entry whose AdditionalData carries both strings used
   to decode to an entry that re-encoded to a different block; now it re-encodes to the same one. *)
Theorem C08_regression_reencode_with_enc_strings :
  exists e h t e_old e_new b b', wf_entry (fun _ => true) e = true /\ has_enc e = true /\
    to_tree e = Ok t /\ entry_block e = Ok b /\
    of_tree_before_fix (fun _ => true) unit (fun _ _ _ => None) (fun _ => None) None h t = Ok e_old /\
    entry_block e_old = Ok b' /\ b <> b' /\
    of_tree_plain (fun _ => true) h t = Ok e_new /\ entry_block e_new = Ok b.
Proof.
  destruct reencode_with_enc_strings_before_fix as (W & E & t & eo & en & b & b' & H1 & H2 & H3 & H4 & H5 & H6 & H7).
  eexists. exists [9], t, eo, en, b, b'. repeat split; eauto.
Qed.

(* ---------------------------------------------------------------------------------------------
   legacy v0: struct level (JSON and protobuf parsing are third party, exercised by the harness) *)
Section Legacy.
  Variable cid_parse : bytes -> option bytes.
  Variable cid_string : bytes -> bytes.
  Hypothesis parse_string : forall c, cid_parse (cid_string c) = Some c.
  Theorem C08_v0_struct_roundtrip e c h :
    e_clock e = Some c -> is_bytes (clk_id c) = true -> is_bytes (e_key e) = true -> is_bytes (e_sig e) = true ->
    exists j, to_jsonable_v0 cid_string e = Ok j /\ v0_to_plain cid_parse h j = Ok (normal_v0 h e).
  Proof. exact (v0_roundtrip cid_parse cid_string parse_string e c h). Qed.
End Legacy.

(* the default codec cannot write a v0 entry at all (jsonable.EntryV0 has no atlas entry) *)
Theorem C08_v0_not_writable_as_cbor e : e_v e = 0 -> forall t, to_tree e <> Ok t.
Proof.
  intros V t. unfold to_tree, normalize. destruct (e_clock e) as [c|]; [|discriminate].
  cbn [bind]. unfold to_jsonable. cbn [e_identity e_clock e_v]. rewrite V.
  destruct (match e_identity e with Some i => bind (to_jidentity i) (fun ji => Ok (Some ji)) | None => Ok None end);
    cbn; discriminate.
Qed.

(* ---------------------------------------------------------------------------------------------
   the hypotheses are satisfiable *)
Example C08_nonvacuous :
  let e := toy_entry [] in
  wf_entry (fun _ => true) e = true /\ plain_entry e = true /\ has_enc e = false /\
  exists b, entry_block e = Ok b /\ of_block_plain (fun _ => true) [9] b = Ok (set_hash [9] e).
Proof. cbv zeta. repeat split. eexists. split; [vm_compute; reflexivity|]. vm_compute. reflexivity. Qed.

Example C08_linkkey_nonvacuous :
  (* toy instance of the oracles: identity "encryption" and identity "base64" *)
  let seal := fun (_ : unit) (_ m : bytes) => m in
  let open_ := fun (_ : unit) (_ c : bytes) => Some c in
  let b64 := fun x : bytes => x in
  exists e', presign unit seal (fun _ => [7]) b64 (Some tt) (toy_entry []) = Ok e' /\
             wf_entry (fun _ => true) e' = true /\
             exists t, to_tree e' = Ok t /\
                       of_tree (fun _ => true) unit open_ (fun x => Some x) (Some tt) [9] t = Ok (strip_additional [9] e').
Proof. cbv zeta. eexists. split; [vm_compute; reflexivity|]. split; [reflexivity|]. eexists. split; [vm_compute; reflexivity|]. vm_compute. reflexivity. Qed.

Print Assumptions C08_cbor_decode_encode.
Print Assumptions C08_cbor_decode_all.
Print Assumptions C08_cbor_encode_injective.
Print Assumptions C08_cbor_prefix_free.
Print Assumptions C08_canon_map_order_independent.
Print Assumptions C08_hex_roundtrip.
Print Assumptions C08_roundtrip.
Print Assumptions C08_roundtrip_exact.
Print Assumptions C08_bytes_roundtrip.
Print Assumptions C08_reencode.
Print Assumptions C08_v1_refs_not_written.
Print Assumptions C08_manifest_roundtrip.
Print Assumptions C08_deterministic.
Print Assumptions C08_same_bytes_same_cid.
Print Assumptions C08_nil_and_empty_lists_encode_differently.
Print Assumptions C08_linkkey_roundtrip.
Print Assumptions C08_presign_shape.
Print Assumptions C08_linkkey_roundtrip_exact.
Print Assumptions C08_regression_linkkey_additional_data_was_dropped.
Print Assumptions C08_regression_reencode_with_enc_strings.
Print Assumptions C08_v0_struct_roundtrip.
Print Assumptions C08_v0_not_writable_as_cbor.
Print Assumptions C08_nonvacuous.
Print Assumptions C08_linkkey_nonvacuous.
