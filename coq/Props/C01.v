(* C01  Replicas that merged the same entries converge (join is a CRDT merge).
   On the entry sets of logs satisfying the invariant (every replica of every well-formed history)
   an accepted unbounded Join is set union; heads and - for a total ordering - the linearised values
   are functions of the entry set.  Hence any two replicas that merged, directly or transitively,
   the same appended entries expose the same entries, heads and values, whatever the order,
   grouping or repetition of the merges. *)
From Coq Require Import List ZArith Bool Lia Permutation Sorted.
From IpfsLog Require Import Model.System Model.CheckLog Proofs.OmapProofs Proofs.SortProofs Proofs.Inv Proofs.JoinProofs
     Proofs.SysProofs Proofs.StepProofs Proofs.TravProofs Proofs.TimeProofs Proofs.ValuesProofs.
Import ListNotations.
Open Scope Z_scope.

Definition same_entries (a b : log) : Prop := forall k v, In (k, v) (l_entries a) <-> In (k, v) (l_entries b).

(* ---- Join is union ---- *)
Theorem C01_join_is_union U l o size l' :
  univ_ok U -> linv U l -> linv U o -> l_id l = l_id o -> size < 0 ->
  join l o false size = (l', Ok tt) ->
  (forall k v, In (k, v) (l_entries l') <-> In (k, v) (l_entries l) \/ In (k, v) (l_entries o)) /\ linv U l'.
Proof.
  intros UO Il Io Hid Hs J. split; [exact (join_union U l o UO Il Io Hid size l' Hs J)|].
  exact (join_linv U l o false size l' (Ok tt) UO Il Io Hs J).
Qed.

(* commutative, associative, idempotent - on what the replicas hold *)
Theorem C01_commutative U a b ab ba :
  univ_ok U -> linv U a -> linv U b -> l_id a = l_id b ->
  join a b false (-1) = (ab, Ok tt) -> join b a false (-1) = (ba, Ok tt) -> same_entries ab ba.
Proof.
  intros UO Ia Ib Hid J1 J2 k v.
  rewrite (join_union U a b UO Ia Ib Hid (-1) ab ltac:(lia) J1), (join_union U b a UO Ib Ia (eq_sym Hid) (-1) ba ltac:(lia) J2). tauto.
Qed.

Theorem C01_idempotent U a b ab ab' :
  univ_ok U -> linv U a -> linv U b -> l_id a = l_id b ->
  join a b false (-1) = (ab, Ok tt) -> join ab b false (-1) = (ab', Ok tt) -> same_entries ab' ab.
Proof.
  intros UO Ia Ib Hid J1 J2 k v.
  pose proof (join_linv U a b false (-1) ab (Ok tt) UO Ia Ib ltac:(lia) J1) as Iab.
  assert (Hid' : l_id ab = l_id b).
  { unfold join, join_reads in J1. destruct (negb (N.eqb (l_id a) (l_id b))); [injection J1 as <-; exact Hid|].
    destruct (difference _ _ _); [|discriminate]. destruct (negb _); [discriminate|]. cbn [Z.ltb Z.compare] in J1.
    injection J1 as <-. exact Hid. }
  rewrite (join_union U ab b UO Iab Ib Hid' (-1) ab' ltac:(lia) J2), (join_union U a b UO Ia Ib Hid (-1) ab ltac:(lia) J1). tauto.
Qed.

Theorem C01_associative U a b c ab ab_c bc a_bc :
  univ_ok U -> linv U a -> linv U b -> linv U c -> l_id a = l_id b -> l_id b = l_id c ->
  join a b false (-1) = (ab, Ok tt) -> join ab c false (-1) = (ab_c, Ok tt) ->
  join b c false (-1) = (bc, Ok tt) -> join a bc false (-1) = (a_bc, Ok tt) ->
  l_id ab = l_id c -> l_id a = l_id bc ->
  same_entries ab_c a_bc.
Proof.
  intros UO Ia Ib Ic H1 H2 J1 J2 J3 J4 H3 H4 k v.
  pose proof (join_linv U a b false (-1) ab (Ok tt) UO Ia Ib ltac:(lia) J1) as Iab.
  pose proof (join_linv U b c false (-1) bc (Ok tt) UO Ib Ic ltac:(lia) J3) as Ibc.
  rewrite (join_union U ab c UO Iab Ic H3 (-1) ab_c ltac:(lia) J2), (join_union U a b UO Ia Ib H1 (-1) ab ltac:(lia) J1).
  rewrite (join_union U a bc UO Ia Ibc H4 (-1) a_bc ltac:(lia) J4), (join_union U b c UO Ib Ic H2 (-1) bc ltac:(lia) J3). tauto.
Qed.

(* ---- equal entries => equal heads and (total ordering) equal values ---- *)
Theorem C01_same_entries_same_view ops r1 r2 l1 l2 :
  wf ops -> hist_bound ops < two63 ->
  nth_error (s_logs (run ops)) r1 = Some l1 -> nth_error (s_logs (run ops)) r2 = Some l2 ->
  same_entries l1 l2 ->
  (forall k e, In (k, e) (l_heads l1) <-> In (k, e) (l_heads l2)) /\
  (order_total l1 -> order_total l2 -> values l1 = values l2).
Proof.
  intros W Hlen L1 L2 Same. destruct (sinv_run ops W) as [UO IL]. split.
  - intros k e. rewrite (li_heads _ _ (IL r1 l1 L1)), (li_heads _ _ (IL r2 l2 L2)), (Same k e).
    assert (N : named_in (ents l1) k <-> named_in (ents l2) k).
    { apply named_in_perm. intros x. rewrite !ents_In. split; intros [k' H]; exists k'; now apply Same. }
    tauto.
  - intros O1 O2.
    pose proof (times_in_range ops r1 l1 W Hlen L1) as T1. pose proof (times_in_range ops r2 l2 W Hlen L2) as T2.
    destruct (values_spec _ l1 UO (IL r1 l1 L1) T1 O1) as [v1 [V1 [A1 [B1 [_ D1]]]]].
    destruct (values_spec _ l2 UO (IL r2 l2 L2) T2 O2) as [v2 [V2 [A2 [B2 [_ D2]]]]].
    rewrite V1, V2. f_equal.
    exact (values_unique _ l1 l2 v1 v2 UO (IL r1 l1 L1) (IL r2 l2 L2) T1 Same A1 A2 B1 B2 D1 D2).
Qed.

(* ---- neutral merges ---- *)
Theorem C01_join_self_changes_nothing l o size : join l o true size = (l, Ok tt).
Proof. exact (join_self l o size). Qed.

Theorem C01_join_other_id_changes_nothing l o size : l_id l <> l_id o -> join l o false size = (l, Ok tt).
Proof. exact (join_foreign_id l o size). Qed.

Theorem C01_join_empty_changes_nothing ops r src l o l' :
  wf ops -> nth_error (s_logs (run ops)) r = Some l -> nth_error (s_logs (run ops)) src = Some o ->
  l_id l = l_id o -> l_entries o = [] ->
  join l o false (-1) = (l', Ok tt) ->
  l_entries l' = l_entries l /\ (forall k e, In (k, e) (l_heads l') <-> In (k, e) (l_heads l)) /\ l_time l' = l_time l.
Proof.
  intros W L O Hid He J. destruct (sinv_run ops W) as [UO IL]. pose proof (IL r l L) as Il. pose proof (IL src o O) as Io.
  destruct (tbound_run ops W) as [_ TL]. destruct (TL r l L) as [T0 _].
  pose proof (join_linv _ l o false (-1) l' (Ok tt) UO Il Io ltac:(lia) J) as Il'.
  assert (E : l_entries l' = l_entries l /\ (l_time l' = Z.max (l_time l) (max_time (oslice (l_heads l')) 0))).
  { unfold join, join_reads in J.
    assert (E0 : N.eqb (l_id l) (l_id o) = true) by (apply N.eqb_eq; exact Hid). rewrite E0 in J. cbn [negb] in J.
    unfold difference in J. rewrite He in J. cbn [olen length Z.of_nat Z.eqb orb] in J.
    cbn [oslice map forallb negb fold_left Z.ltb Z.compare] in J. injection J as <-. cbn [l_entries l_time l_heads]. auto. }
  destruct E as [E1 E2]. split; [exact E1|]. split.
  - intros k e. rewrite (li_heads _ _ Il'), (li_heads _ _ Il). unfold ents. rewrite E1. tauto.
  - rewrite E2. apply Z.max_l. apply max_time_bound; [lia|].
    intros x Hx. apply In_oslice in Hx. destruct Hx as [k Hx]. apply (li_heads _ _ Il') in Hx. destruct Hx as [Hx _].
    rewrite E1 in Hx. apply (li_time _ _ Il). apply ents_In. eauto.
Qed.

From IpfsLog Require Import Model.ExampleHist Proofs.WfBool.
Example C01_nonvacuous :
  (* in ex_hist the three replicas exchanged everything in different orders (one merge repeated, one
     self merge) and expose the same entry set, the same heads and the same values *)
  wf ex_hist /\
  map (fun l => (CheckLog.nsort (okeys (l_entries l)), okeys (l_heads l), option_map okeys (values l))) (s_logs (run ex_hist)) =
  let v := ([101; 102; 201; 301; 302]%N, [302]%N, Some [101; 201; 301; 102; 302]%N) in [v; v; v].
Proof. split; [apply wfb_wf; vm_compute; reflexivity|vm_compute; reflexivity]. Qed.

(* Why "Join = union" is stated for the histories C01 quantifies over (appends and unbounded merges of logs
   that hold the whole past of their entries) and not for logs re-opened over a part of a log: a causally
   open log stops at the entries it already knows.  In ex_hist_open replica 1 was opened over {102,103};
   when it merges replica 0 = {101,102,103} it finds 103 and 102 known and never reaches 101 - the model
   reproduces what the implementation does (the harness compares exactly these histories).  Heads,
   reverse index, linearisation and everything else of the C16_reopened theorems hold for such a log. *)
Example C01_union_is_for_closed_logs :
  match nth_error (s_logs (run (firstn 8 ex_hist_open))) 0, nth_error (s_logs (run (firstn 8 ex_hist_open))) 1 with
  | Some l0, Some l1 =>
      (CheckLog.nsort (okeys (l_entries l0)), CheckLog.nsort (okeys (l_entries l1))) =
      ([101; 102; 103]%N, [102; 103; 201]%N)
  | _, _ => False
  end.
Proof. vm_compute. reflexivity. Qed.

Print Assumptions C01_join_is_union.
Print Assumptions C01_commutative.
Print Assumptions C01_idempotent.
Print Assumptions C01_associative.
Print Assumptions C01_same_entries_same_view.
Print Assumptions C01_join_self_changes_nothing.
Print Assumptions C01_join_other_id_changes_nothing.
Print Assumptions C01_join_empty_changes_nothing.
Print Assumptions C01_nonvacuous.
Print Assumptions C01_union_is_for_closed_logs.
