(* C06  Merge admits only verified, authorised entries and is all-or-nothing.
   [entry_ok l e] = the access controller of l allows e, e's signature verifies (oracle bit
   e_sigok, see C07 for what it covers) and e carries a key.  The first three theorems hold for
   ARBITRARY logs (no invariant assumed): they follow from the control flow of Join alone.
   "Every entry produced by Append verifies ... under every codec configuration" is C07
   (C07_created_entry_verifies, default codec) and C18 (link-encrypting codec). *)
From Coq Require Import List ZArith Bool Lia Permutation.
From IpfsLog Require Import Model.System Proofs.OmapProofs Proofs.Inv Proofs.JoinProofs Proofs.SysProofs Proofs.StepProofs
     Proofs.PInv Proofs.PJoin Proofs.PSys.
From IpfsLog Require Import Proofs.POpen.
Import ListNotations.
Open Scope Z_scope.

Theorem C06_join_error_leaves_log_unchanged l o same size l' k :
  join l o same size = (l', Err k) -> l' = l.
Proof. exact (join_error_unchanged l o same size l' k). Qed.

Theorem C06_join_admits_only_valid l o size l' :
  size < 0 -> join l o false size = (l', Ok tt) ->
  forall k v, In (k, v) (l_entries l') -> In (k, v) (l_entries l) \/
     (e_logid v = l_id l /\ entry_ok l v = true /\ e_hash v = k /\ exists k', oget (l_entries o) k' = Some v).
Proof. exact (join_admits_only_valid l o size l'). Qed.

Theorem C06_invalid_candidate_rejects_join l o size ni :
  l_id l = l_id o -> difference (l_entries o) (oslice (l_heads o)) l = Some ni ->
  (exists e, In e (oslice ni) /\ entry_ok l e = false) ->
  join l o false size = (l, Err EJoin).
Proof. exact (join_invalid_candidate_errors l o size ni). Qed.

(* under the invariant the candidates are exactly the entries of the source the destination lacks,
   so: the join succeeds iff every one of them is valid *)
Theorem C06_join_succeeds_iff_all_missing_valid ops r src l o size :
  wf ops -> nth_error (s_logs (run ops)) r = Some l -> nth_error (s_logs (run ops)) src = Some o ->
  l_id l = l_id o -> size < 0 ->
  ((exists l', join l o false size = (l', Ok tt)) <->
   (forall k v, In (k, v) (l_entries o) -> ~ In k (okeys (l_entries l)) -> entry_ok l v = true) /\
   difference (l_entries o) (oslice (l_heads o)) l <> None).
Proof.
  intros W L O Hid Hs. destruct (sinv_run ops W) as [UO IL].
  exact (join_ok_iff_all_valid _ l o UO (IL r l L) (IL src o O) Hid size Hs).
Qed.

(* what a merge exposes as heads (and hence linearises) are the log's own entries - entries it held
   or entries that passed the checks above - WHATEVER the other log presents as its heads: [o] is an
   arbitrary object here (forged head objects, heads of another log id, unknown hashes, entries
   filed under keys that are not their hashes).  [l] is any replica of any history. *)
Theorem C06_heads_are_own_verified_entries ops r l o size l' :
  pwf ops -> nth_error (s_logs (run ops)) r = Some l -> size < 0 ->
  join l o false size = (l', Ok tt) ->
  forall k v, In (k, v) (l_heads l') ->
    In (k, v) (l_entries l') /\
    (In (k, v) (l_entries l) \/ (e_logid v = l_id l /\ entry_ok l v = true)).
Proof.
  intros W L Hs J k v Hh. destruct (psinv_run ops W) as [_ IL].
  pose proof (join_heads_are_own_entries _ l o size l' (IL r l L) Hs J k v Hh) as He.
  split; [exact He|].
  destruct (join_admits_only_valid l o size l' Hs J k v He) as [?|[A [B _]]]; auto.
Qed.

(* with ANY bound, between any two replicas of any history (earlier truncations included): what the
   log holds afterwards it held before, or it comes from the other log, carries the log's id, is
   allowed by the access controller, verifies and carries a key *)
Theorem C06_any_merge_admits_only_valid ops r src l o size l' :
  pwf ops -> nth_error (s_logs (run ops)) r = Some l -> nth_error (s_logs (run ops)) src = Some o ->
  join l o false size = (l', Ok tt) ->
  forall k v, In (k, v) (l_entries l') ->
    In (k, v) (l_entries l) \/
    (e_logid v = l_id l /\ entry_ok l v = true /\ In (k, v) (l_entries o) /\ ~ In k (okeys (l_entries l))).
Proof.
  intros W L O J. destruct (psinv_run ops W) as [UO IL].
  exact (join_any_bound_admits_only_valid _ l o size l' UO (IL r l L) (IL src o O) J).
Qed.

(* the same two facts for replicas of histories in which logs are re-opened over selections of entries
   ([owf], Proofs/POpen.v) *)
Theorem C06_heads_are_own_verified_entries_reopened ops r l o size l' :
  owf ops -> nth_error (s_logs (run ops)) r = Some l -> size < 0 ->
  join l o false size = (l', Ok tt) ->
  forall k v, In (k, v) (l_heads l') ->
    In (k, v) (l_entries l') /\
    (In (k, v) (l_entries l) \/ (e_logid v = l_id l /\ entry_ok l v = true)).
Proof. intros W L. exact (ojoin_heads_are_own_verified_entries ops r l W L o size l'). Qed.

Theorem C06_any_merge_admits_only_valid_reopened ops r src l o size l' :
  owf ops -> nth_error (s_logs (run ops)) r = Some l -> nth_error (s_logs (run ops)) src = Some o ->
  join l o false size = (l', Ok tt) ->
  forall k v, In (k, v) (l_entries l') ->
    In (k, v) (l_entries l) \/
    (e_logid v = l_id l /\ entry_ok l v = true /\ In (k, v) (l_entries o) /\ ~ In k (okeys (l_entries l))).
Proof. intros W L. exact (ojoin_any_bound_admits_only_valid ops r l W L src o size l'). Qed.

(* a denied append changes neither entries nor heads (only the clock has ticked) *)
Theorem C06_denied_append_unchanged l payload pc h l' :
  append l payload pc h = (l', Err EDenied) ->
  l_entries l' = l_entries l /\ l_heads l' = l_heads l /\ l_next l' = l_next l.
Proof.
  unfold append. destruct (append_entry l payload pc h) as [e|]; [|discriminate].
  destruct (allowed l e); [discriminate|]. intros H. injection H as <-. auto.
Qed.

Theorem C06_append_denied_iff l payload pc h e :
  append_entry l payload pc h = Some e ->
  (snd (append l payload pc h) = Err EDenied <-> allowed l e = false).
Proof.
  intros AE. unfold append. rewrite AE. destruct (allowed l e); cbn [snd]; split; congruence.
Qed.

From IpfsLog Require Import Model.ExampleHist Proofs.WfBool.
(* non-vacuity: a destination refusing key 20 rejects the merge of a log holding an entry by 20 *)
Example C06_nonvacuous :
  let ops := [ONew 1 10 SHash [20] 0; ONew 1 20 SHash [] 0; OAppend 0 1 1 101; OJoin 1 0 (-1);
              OAppend 1 2 1 201]%N in
  wf ops /\
  exists l o, nth_error (s_logs (run ops)) 0 = Some l /\ nth_error (s_logs (run ops)) 1 = Some o /\
              join l o false (-1) = (l, Err EJoin).
Proof. split; [apply wfb_wf; vm_compute; reflexivity|]. vm_compute. do 2 eexists. repeat split; reflexivity. Qed.

Print Assumptions C06_join_error_leaves_log_unchanged.
Print Assumptions C06_join_admits_only_valid.
Print Assumptions C06_invalid_candidate_rejects_join.
Print Assumptions C06_join_succeeds_iff_all_missing_valid.
Print Assumptions C06_heads_are_own_verified_entries.
Print Assumptions C06_any_merge_admits_only_valid.
Print Assumptions C06_denied_append_unchanged.
Print Assumptions C06_append_denied_iff.
Print Assumptions C06_nonvacuous.
Print Assumptions C06_heads_are_own_verified_entries_reopened.
Print Assumptions C06_any_merge_admits_only_valid_reopened.
