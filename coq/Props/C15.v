(* C15  Iteration returns the requested causal range, newest first, and always ends.
   For every reachable log (forked ones included) and every option combination.
   The functional half is proved for every total ordering (hash-tiebreak always; default ordering on
   tie-free logs) and any upper bounds, causally related or not: LastWriteWins answers "less" on
   identical arguments, but sorts exactly like its irreflexive twin, duplicates included
   (TravProofs.gosort_twin).  Never-panics, closes-the-channel and error-on-unknown-bound hold for
   every ordering. *)
From Coq Require Import List ZArith Bool Lia Permutation Sorted.
From IpfsLog Require Import Model.System Proofs.OmapProofs Proofs.SortProofs Proofs.Inv Proofs.SysProofs
     Proofs.TravProofs Proofs.TimeProofs Proofs.ValuesProofs Proofs.IterProofs.
Import ListNotations.
Open Scope Z_scope.

(* the emitted entries = the causal past of the upper bound, newest first, each once, then cut *)
Theorem C15_iterator_range ops r l o st :
  wf ops -> hist_bound ops < two63 -> nth_error (s_logs (run ops)) r = Some l ->
  order_total l ->                                (* hash-tiebreak ordering, or default ordering without ties *)
  it_amount o <> Some 0 ->
  iter_start l o = Ok st ->                       (* the upper bounds are entries of the log *)
  let roots := oslice (from_entries st) in
  exists R,
    NoDup (okeys R) /\
    (forall k v, In (k, v) R <-> In (k, v) (l_entries l) /\ treach (l_entries l) roots k) /\
    StronglySorted (gt SHash) (oslice R) /\
    iterator l o = Ok (iter_post o (oslice (cut (iter_count o) (iter_end o) 0 R)), true).
Proof.
  intros W Hlen L OT Ha S. destruct (sinv_run ops W) as [UO IL].
  exact (iterator_spec_total _ l o st UO (IL r l L) (times_in_range ops r l W Hlen L) OT Ha S).
Qed.

(* how the cut reads for each kind of request (R as above) *)
Theorem C15_view_everything o R : it_gt o = None -> it_gte o = None -> it_amount o = None ->
  iter_post o (oslice (cut (iter_count o) (iter_end o) 0 R)) = oslice R.
Proof. exact (iter_view_all o R). Qed.

Theorem C15_view_newest_k o R k : it_gt o = None -> it_gte o = None -> it_amount o = Some k -> 0 <= k ->
  iter_post o (oslice (cut (iter_count o) (iter_end o) 0 R)) = firstn (Z.to_nat k) (oslice R).
Proof. exact (iter_view_newest o R k). Qed.

Theorem C15_view_down_to_inclusive o R h : it_gte o = Some h -> it_gt o = None -> it_amount o = None ->
  iter_post o (oslice (cut (iter_count o) (iter_end o) 0 R)) = oslice (upto h R).
Proof. exact (iter_view_gte o R h). Qed.

Theorem C15_view_down_to_exclusive o R h : it_gt o = Some h -> it_gte o = None -> it_amount o = None ->
  iter_post o (oslice (cut (iter_count o) (iter_end o) 0 R)) = removelast (oslice (upto h R)).
Proof. exact (iter_view_gt o R h). Qed.

Theorem C15_view_nearest_lower_bound_inclusive o R h k :
  it_gte o = Some h -> it_gt o = None -> it_amount o = Some k -> 0 <= k ->
  let seg := oslice (upto h R) in
  iter_post o (oslice (cut (iter_count o) (iter_end o) 0 R)) =
  if k <? Z.of_nat (length seg) then skipn (Z.to_nat (Z.of_nat (length seg) - k)) seg else seg.
Proof. exact (iter_view_gte_amount o R h k). Qed.

Theorem C15_view_nearest_lower_bound_exclusive o R h k :
  it_gt o = Some h -> it_gte o = None -> it_amount o = Some k -> 0 <= k ->
  let seg := removelast (oslice (upto h R)) in
  iter_post o (oslice (cut (iter_count o) (iter_end o) 0 R)) =
  if k <? Z.of_nat (length seg) then skipn (Z.to_nat (Z.of_nat (length seg) - k)) seg else seg.
Proof. exact (iter_view_gt_amount o R h k). Qed.

(* it never panics, for every ordering and every option combination (amounts 0, negative, huge) *)
Theorem C15_never_panics ops r l o :
  wf ops -> nth_error (s_logs (run ops)) r = Some l -> iterator l o <> Panic.
Proof. intros W L. destruct (sinv_run ops W) as [_ IL]. exact (iterator_no_panic l _ (IL r l L) o). Qed.

(* ... and on every replica of every history with bounded merges and re-opened logs ([owf], Proofs/POpen.v) *)
From IpfsLog Require Import Proofs.PInv Proofs.POpen.
Theorem C15_never_panics_in_every_history ops r l o :
  owf ops -> nth_error (s_logs (run ops)) r = Some l -> iterator l o <> Panic.
Proof.
  intros W L. destruct (osinv_run ops W) as [_ IL]. pose proof (IL r l L) as I.
  exact (iterator_no_panic_raw l (pi_nodup _ _ I) (pinv_well_keyed _ _ I) o).
Qed.

(* ... where every entry it emits is an entry of the log, the
   soundness half of the range theorem needs neither the closure of the log nor a total ordering, so it
   holds on truncated and re-opened replicas too (Proofs/IterSound.v) *)
From IpfsLog Require Import Proofs.IterSound.
Theorem C15_emits_only_log_entries_in_every_history ops r l o es c :
  owf ops -> nth_error (s_logs (run ops)) r = Some l ->
  iterator l o = Ok (es, c) -> forall e, In e es -> In e (oslice (l_entries l)).
Proof.
  intros W L. destruct (osinv_run ops W) as [_ IL]. pose proof (IL r l L) as I.
  apply iterator_sound. intros k e H. now apply (pi_heads _ _ I) in H.
Qed.

(* ... and only entries from the causal past - inside the log - of the bounds it started from: the soundness
   half of [C15_iterator_range] on truncated and re-opened replicas, under every ordering, ties included
   (Proofs/IterPast.v; completeness needs the closure of the log) *)
From IpfsLog Require Import Proofs.IterPast.
Theorem C15_emits_only_the_past_of_the_bounds_in_every_history ops r l o st es c :
  owf ops -> nth_error (s_logs (run ops)) r = Some l ->
  iter_start l o = Ok st -> iterator l o = Ok (es, c) ->
  forall e, In e es -> treach (l_entries l) (oslice (from_entries st)) (e_hash e).
Proof.
  intros W L. destruct (osinv_run ops W) as [_ IL]. pose proof (IL r l L) as I.
  apply iterator_within_past; [exact (pi_nodup _ _ I)|exact (pinv_well_keyed _ _ I)|].
  intros k e H. now apply (pi_heads _ _ I) in H.
Qed.

(* ... and no entry (no hash) is emitted twice - on any log whatsoever, under any ordering and any options:
   the traversal records an entry under its own hash and only when that hash is not recorded yet
   (Proofs/IterNoDup.v; no invariant of the log is needed) *)
From IpfsLog Require Import Proofs.IterNoDup.
Theorem C15_never_emits_an_entry_twice l o es c :
  iterator l o = Ok (es, c) -> NoDup (map e_hash es) /\ NoDup es.
Proof. intros I. split; [exact (iterator_nodup l o es c I)|exact (iterator_nodup_entries l o es c I)]. Qed.

(* on success the output channel is closed - also for amount 0 *)
Theorem C15_success_closes_channel l o es c : iterator l o = Ok (es, c) -> c = true.
Proof. exact (iterator_closes l o es c). Qed.

Theorem C15_amount_zero l o : it_amount o = Some 0 -> iterator l o = Ok ([], true).
Proof. intros H. unfold iterator. now rewrite H. Qed.

(* unknown upper bounds are reported as errors *)
Theorem C15_unknown_upper_bound_is_error l o hs : it_amount o <> Some 0 -> it_lte o = Some hs ->
  (exists h, In h hs /\ oget (l_entries l) h = None) -> iterator l o = Err ELteNotFound.
Proof. exact (iterator_unknown_lte l o hs). Qed.

From IpfsLog Require Import Model.ExampleHist Proofs.WfBool.
Example C15_nonvacuous :
  (* replica 0 of ex_hist: two causally related inclusive bounds (302 and its predecessor 102), lower
     bound 201 exclusive, amount 2: the two entries nearest the lower bound *)
  wf ex_hist /\
  option_map (fun l => match iterator l (mkIter (Some 201%N) None None (Some [302; 102]%N) (Some 2)) with
                       | Ok (es, c) => Some (map e_hash es, c) | _ => None end)
             (nth_error (s_logs (run ex_hist)) 0) = Some (Some ([102; 301]%N, true)).
Proof. split; [apply wfb_wf; vm_compute; reflexivity|vm_compute; reflexivity]. Qed.

Print Assumptions C15_iterator_range.
Print Assumptions C15_view_everything.
Print Assumptions C15_view_newest_k.
Print Assumptions C15_view_down_to_inclusive.
Print Assumptions C15_view_down_to_exclusive.
Print Assumptions C15_view_nearest_lower_bound_inclusive.
Print Assumptions C15_view_nearest_lower_bound_exclusive.
Print Assumptions C15_never_panics.
Print Assumptions C15_success_closes_channel.
Print Assumptions C15_amount_zero.
Print Assumptions C15_unknown_upper_bound_is_error.
Print Assumptions C15_nonvacuous.
Print Assumptions C15_never_panics_in_every_history.
Print Assumptions C15_emits_only_log_entries_in_every_history.
Print Assumptions C15_never_emits_an_entry_twice.
Print Assumptions C15_emits_only_the_past_of_the_bounds_in_every_history.
