(* C13  A log shared between goroutines behaves atomically.
   Statements only.  The general theorems (Proofs/ConcProofs.v) hold for every program given as
   event paths; the facts about today's code are boolean computations over Gen/Locks.v, which
   tools/genlocks regenerates from log.go / log_io.go / entry/entry_map.go on every check.    *)
From Coq Require Import List String Bool NArith.
From IpfsLog Require Import Model.Conc Proofs.ConcProofs Gen.Locks.
Import ListNotations.
Open Scope string_scope.

Definition WL := well_locked ops obj_readonly_fields returns_field.
Definition NN := no_nested_acquire ops returns_field.

(* operations that are compositions of other exported operations and make no atomicity claim *)
Definition composite_ops : list string := ["ToString"].
Definition atomic_ops := filter (fun o : string * list path => negb (mem_str (fst o) composite_ops)) ops.

(* 1. facts about the program text ----------------------------------------------------- *)

(* every access to a guarded field of the log happens under the log's lock in the required mode;
   locals shared with spawned goroutines are written under a mutex taken by the goroutine itself *)
Theorem C13_ops_well_locked : all_paths WL ops = true.
Proof. vm_compute. reflexivity. Qed.

(* no operation takes a lock (its own, or another log's through a Foreign call) while holding one,
   except the leaf mutex around the shared error variable *)
Theorem C13_no_nested_acquire : all_paths NN ops = true.
Proof. vm_compute. reflexivity. Qed.

(* every operation touches the guarded state inside one critical section: it is one atomic step *)
Theorem C13_single_section : all_paths (single_section obj_readonly_fields) atomic_ops = true.
Proof. vm_compute. reflexivity. Qed.

(* the licence used for reads of a published heads map outside the lock *)
Theorem C13_heads_never_mutated_in_place : no_objwr_heads = true /\ mem_str "heads" obj_readonly_fields = true.
Proof. vm_compute. split; reflexivity. Qed.

(* the ordered map protects its own fields with its own lock *)
Theorem C13_omap_well_locked : all_paths (well_locked omap_ops [] []) omap_ops = true.
Proof. vm_compute. reflexivity. Qed.

(* 2. what follows for every execution -------------------------------------------------- *)

(* any number of goroutines; the k-th runs some path of some exported operation on log iv_self
   with argument log iv_other (a different instance) *)
Definition valid_invocation (iv : invocation) : Prop :=
  iv_self iv <> iv_other iv /\
  exists name ps p, In (name, ps) ops /\ In p ps /\ In (iv_code iv) (expand ops returns_field p).

Notation creach := (reach clock cloc clock_eqb).
Notation cinit := (init clock cloc).

Lemma valid_wl iv : valid_invocation iv -> iv_wl obj_readonly_fields iv.
Proof.
  intros [N [name [ps [p [I1 [I2 I3]]]]]]. split; auto.
  pose proof (all_paths_In _ _ _ _ _ C13_ops_well_locked I1 I2) as H.
  unfold WL, well_locked in H. apply andb_true_iff in H as [_ H]. rewrite forallb_forall in H. now apply H.
Qed.

Lemma valid_nn iv : valid_invocation iv -> iv_nn iv.
Proof.
  intros [N [name [ps [p [I1 [I2 I3]]]]]]. split; auto.
  pose proof (all_paths_In _ _ _ _ _ C13_no_nested_acquire I1 I2) as H.
  unfold NN, no_nested_acquire in H. apply andb_true_iff in H as [_ H]. rewrite forallb_forall in H. now apply H.
Qed.

(* no data race: never are a write and another access to the same field variable / map object /
   shared local, by two different goroutines, simultaneously enabled *)
Theorem C13_data_race_free : forall ivs, (forall iv, In iv ivs -> valid_invocation iv) ->
  forall s, creach (cinit (progs_of ivs)) s ->
  forall i j ti tj x ki kj, i <> j -> nth_error s i = Some ti -> nth_error s j = Some tj ->
    code ti = EB (AWr x) :: ki -> (code tj = EB (AWr x) :: kj \/ code tj = EB (ARd x) :: kj) -> False.
Proof.
  intros ivs V s R.
  apply (drf clock cloc clock_eqb clock_eqb_spec cguard (cro obj_readonly_fields) cpriv cowner cleaf (progs_of ivs) s); auto.
  apply good_progs. intros iv I. apply valid_wl; auto.
Qed.

(* no deadlock: while some goroutine has not finished, some goroutine can move *)
Theorem C13_deadlock_free : forall ivs, (forall iv, In iv ivs -> valid_invocation iv) ->
  forall s, creach (cinit (progs_of ivs)) s ->
  (exists i t, nth_error s i = Some t /\ code t <> []) -> can_step clock cloc clock_eqb s.
Proof.
  intros ivs V s R.
  apply (deadlock_free clock cloc clock_eqb clock_eqb_spec cleaf (progs_of ivs) s); auto.
  apply nn_progs. intros iv I. apply valid_nn; auto.
Qed.

(* writers are atomic: while a goroutine holds log n's lock for writing, any other goroutine about
   to touch log n's guarded state is one of the verification workers it spawned itself *)
Theorem C13_writer_sections_exclusive : forall ivs, (forall iv, In iv ivs -> valid_invocation iv) ->
  forall s, creach (cinit (progs_of ivs)) s ->
  forall i j ti tj n a x k, i <> j -> nth_error s i = Some ti -> nth_error s j = Some tj ->
    In (CLog n, W) (held ti) -> code tj = EB a :: k -> acc_of clock cloc a x ->
    cguard x = CLog n -> cro obj_readonly_fields x = false -> parent tj = Some i.
Proof.
  intros ivs V s R i j ti tj n a x k N Hi Hj Hw Hc Ha Hg Hro.
  assert (G : good clock cloc clock_eqb cguard (cro obj_readonly_fields) cpriv cowner (progs_of ivs)).
  { apply good_progs. intros iv I. apply valid_wl; auto. }
  assert (P : cpriv x = false) by (destruct x; simpl in *; auto; congruence).
  exact (serialised_W clock cloc clock_eqb clock_eqb_spec cguard (cro obj_readonly_fields) cpriv cowner cleaf
                      (progs_of ivs) s G R i j ti tj (CLog n) a x k N Hi Hj Hw Hc Ha Hg Hro P).
Qed.

(* readers see the state between whole writer sections: while a goroutine holds log n's lock for
   reading, nobody is about to write log n's guarded state *)
Theorem C13_reader_sections_stable : forall ivs, (forall iv, In iv ivs -> valid_invocation iv) ->
  forall s, creach (cinit (progs_of ivs)) s ->
  forall i j ti tj n x k, nth_error s i = Some ti -> nth_error s j = Some tj ->
    In (CLog n, R) (held ti) -> code tj = EB (AWr x) :: k -> cguard x = CLog n -> False.
Proof.
  intros ivs V s R i j ti tj n x k Hi Hj Hr Hc Hg.
  assert (G : good clock cloc clock_eqb cguard (cro obj_readonly_fields) cpriv cowner (progs_of ivs)).
  { apply good_progs. intros iv I. apply valid_wl; auto. }
  assert (P : cpriv x = false) by (destruct x; simpl in *; auto; congruence).
  exact (serialised_R clock cloc clock_eqb clock_eqb_spec cguard (cro obj_readonly_fields) cpriv cowner cleaf
                      (progs_of ivs) s G R i j ti tj (CLog n) x k Hi Hj Hr Hc Hg P).
Qed.

(* the premise of deadlock freedom is needed: a goroutine that re-acquires a read lock it already
   holds (as OrderedMap.UnsafeGet/Slice/At do on the map's own lock) deadlocks against one writer *)
Theorem C13_recursive_rlock_can_deadlock :
  exists s, reach nat nat Nat.eqb (init nat nat [p_unsafeget; p_set]) s /\
            (exists i t, nth_error s i = Some t /\ code t <> []) /\ ~ can_step nat nat Nat.eqb s.
Proof. exact recursive_rlock_can_deadlock. Qed.

(* the hypotheses are satisfiable: Append on log 0 || Join(log 0 <- log 1) || Values on log 0 *)
Definition code_of (name : string) (k : nat) : list (ev rlock rloc) :=
  match assoc name ops with
  | Some ps => hd [] (expand ops returns_field (nth k ps []))
  | None => []
  end.

Example C13_invocations_exist :
  exists ivs, List.length ivs = 3 /\ forall iv, In iv ivs -> valid_invocation iv.
Proof.
  exists [mkInv 0 1 (code_of "Append" 0); mkInv 0 1 (code_of "Join" 2); mkInv 0 1 (code_of "Values" 0)].
  split; [reflexivity|].
  assert (H : forall name k ps, assoc name ops = Some ps -> k < List.length ps ->
                expand ops returns_field (nth k ps []) <> [] -> valid_invocation (mkInv 0 1 (code_of name k))).
  { intros name k ps E L NE. split; [discriminate|]. exists name, ps, (nth k ps []).
    split; [now apply assoc_In|]. split; [now apply nth_In|].
    change (iv_code (mkInv 0 1 (code_of name k))) with (code_of name k). unfold code_of. rewrite E. destruct (expand ops returns_field (nth k ps [])); [congruence|now left]. }
  intros iv [<-|[<-|[<-|[]]]]; eapply H; try (vm_compute; reflexivity); vm_compute; try discriminate; auto with arith.
Qed.

Print Assumptions C13_ops_well_locked.
Print Assumptions C13_no_nested_acquire.
Print Assumptions C13_single_section.
Print Assumptions C13_heads_never_mutated_in_place.
Print Assumptions C13_omap_well_locked.
Print Assumptions C13_data_race_free.
Print Assumptions C13_deadlock_free.
Print Assumptions C13_writer_sections_exclusive.
Print Assumptions C13_reader_sections_stable.
Print Assumptions C13_recursive_rlock_can_deadlock.
Print Assumptions C13_invocations_exist.
