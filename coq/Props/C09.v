(* C09  A log rebuilt (without length limit) from its published heads equals the original.

   The original log is given by its entry set S, its heads and its id, stored in the block store
   of the configuration ([log_wf], Proofs/LoaderProofs.v):
     - every entry of S is retrievable under its hash, hashes are distinct;
     - S is exactly the next-closure of the heads, refs point into S,
       heads = the entries of S that no entry of S names in next          (structural clauses:
       invariants I2/I4 of logs built by NewLog / Append / unbounded Join, proved for reachable
       logs in the core development, hypotheses here);
     - every entry carries the log's id.
   The theorems quantify over ALL executions of the fetcher (every schedule, every concurrency)
   that end without the timeout firing, and over all four loaders.                            *)
From Coq Require Import List ZArith NArith Bool Lia Permutation Sorted.
From IpfsLog Require Import Model.Order Model.Fetcher Proofs.SortProofs Proofs.FetcherBasics
  Proofs.FetcherProofs Proofs.LoaderProofs.
Import ListNotations.
Open Scope Z_scope.

Section C09.
  Variable cfg : config.
  Variable S : list fentry.
  Variable heads : list fentry.
  Variable id : N.
  Hypothesis WF : log_wf cfg S heads id.
  (* (nothing of the log is excluded: [wf_closure] is stated with the configuration's own
     exclusion predicate, so an excluded hash cannot be an entry of S) *)
  Hypothesis Hunbounded : cf_length cfg < 0.                (* no length limit *)

  Notation same := (same_log S heads id).

  (* the fetch started from the head hashes (in any order, with repetitions) returns exactly
     the entries of the log, each once: the next+refs closure is the log itself *)
  Theorem C09_fetch_closure starts s :
    (forall h, In h starts <-> In h (map fe_hash heads)) ->
    reachable_state cfg starts s -> terminal s -> st_timedout s = false ->
    Permutation (st_results s) S.
  Proof. intros Hs Hr T Ht. now apply (wf_fetch_perm cfg S heads id WF starts s). Qed.

  (* NewFromMultihash: mheads = the heads recorded in the manifest *)
  Theorem C09_reload_manifest mheads s :
    (forall h, In h mheads <-> In h (map fe_hash heads)) ->
    reachable_state cfg mheads s -> terminal s -> st_timedout s = false ->
    same (load_multihash id mheads (-1) (st_results s)).
  Proof.
    intros Hm Hr T Ht. apply (reload_multihash cfg S heads id WF); [|exact Hm].
    now apply (C09_fetch_closure mheads s).
  Qed.

  (* NewFromJSON *)
  Theorem C09_reload_json jheads s :
    (forall h, In h jheads <-> In h (map fe_hash heads)) ->
    reachable_state cfg jheads s -> terminal s -> st_timedout s = false ->
    same (load_json id (-1) (st_results s)).
  Proof.
    intros Hm Hr T Ht. apply (reload_json cfg S heads id WF). now apply (C09_fetch_closure jheads s).
  Qed.

  (* NewFromEntryHash, single-headed log (the caller passes the log id in LogOptions.ID) *)
  Theorem C09_reload_entryhash h s :
    heads = [h] ->
    reachable_state cfg [fe_hash h] s -> terminal s -> st_timedout s = false ->
    same (load_entryhash id (-1) (st_results s)).
  Proof.
    intros Hh Hr T Ht. apply (reload_entryhash cfg S heads id WF).
    apply (C09_fetch_closure [fe_hash h] s); auto. intros x. now rewrite Hh.
  Qed.

  (* NewFromEntry with the head entries as source *)
  Theorem C09_reload_entries source s :
    (forall e, In e source <-> In e heads) -> heads <> [] ->
    reachable_state cfg (map fe_hash source) s -> terminal s -> st_timedout s = false ->
    exists l', load_entry (-1) source (st_results s) = Some l' /\ same l'.
  Proof.
    intros Hsrc Hne Hr T Ht. apply (reload_entry cfg S heads id WF); auto.
    apply (C09_fetch_closure (map fe_hash source) s); auto.
    intros x. rewrite !in_map_iff. split; intros [e [He Hin]]; exists e; split; auto; now apply Hsrc.
  Qed.

  (* same linearised values: for every comparator that is a strict total order on the entries
     of the log (C19: the hash-tiebreak order always, the default order on tie-free logs), the
     sorted enumeration of the reloaded entries is the sorted enumeration of the original *)
  Theorem C09_values (l' : loaded) (cmp : fentry -> fentry -> cres) (val : fentry -> fentry -> Z)
      (P : fentry -> Prop) rev :
    same l' ->
    (forall a b, P a -> P b -> a <> b -> cmp a b = COk (val a b)) ->
    (forall a, P a -> cmp a a = CErr \/ cmp a a = COk 0) ->
    (forall a b, P a -> P b -> val b a = - val a b) ->
    (forall a b c, P a -> P b -> P c -> val a b < 0 -> val b c < 0 -> val a c < 0) ->
    (forall a b, P a -> P b -> a <> b -> val a b <> 0) ->
    Forall P S ->
    sort_go cmp rev (lg_entries l') = sort_go cmp rev S.
  Proof.
    intros [_ [Hp _]] H1 H2 H3 H4 H5 HP. symmetry.
    apply (sort_go_deterministic fentry val cmp P H1 H2 H3 H4 H5 rev S (lg_entries l') HP).
    - apply NoDup_hashes_NoDup. apply (wf_nodup _ _ _ _ WF).
    - now symmetry.
  Qed.
End C09.

(* The hypotheses are satisfiable: a forked log with two heads and a skip reference.
     1 <- 2 <- 4 (refs 1)      heads {3, 4}
     1 <- 3                                                                                   *)
Definition c09_S : list fentry :=
  [ Build_fentry 1 [] [] 1 1 7; Build_fentry 2 [1%N] [] 2 1 7;
    Build_fentry 3 [1%N] [] 2 2 7; Build_fentry 4 [2%N] [1%N] 3 1 7 ].
Definition c09_heads : list fentry := [ Build_fentry 3 [1%N] [] 2 2 7; Build_fentry 4 [2%N] [1%N] 3 1 7 ].
Definition c09_cfg : config :=
  {| cf_store := map (fun e => (fe_hash e, e)) c09_S; cf_excl := fun _ => false;
     cf_length := -1; cf_conc := 3; cf_timeout := false |}.

Example C09_example_wf : log_wf c09_cfg c09_S c09_heads 7.
Proof.
  split.
  - cbn. repeat constructor; cbn; intuition discriminate.
  - intros e He. cbn in He. repeat destruct He as [<-|He]; try reflexivity. contradiction.
  - intros h. split.
    + intros Hin. cbn in Hin.
      assert (W : forall x, x <> 0%N -> wanted c09_cfg x) by (intros x Hx; split; [assumption|reflexivity]).
      assert (R3 : next_reach c09_cfg (map fe_hash c09_heads) 3) by (apply nr_start; [cbn; auto|apply W; discriminate]).
      assert (R4 : next_reach c09_cfg (map fe_hash c09_heads) 4) by (apply nr_start; [cbn; auto|apply W; discriminate]).
      assert (R2 : next_reach c09_cfg (map fe_hash c09_heads) 2).
      { eapply (nr_link _ _ 4%N); [exact R4|reflexivity|cbn; auto|apply W; discriminate]. }
      assert (R1 : next_reach c09_cfg (map fe_hash c09_heads) 1).
      { eapply (nr_link _ _ 2%N); [exact R2|reflexivity|cbn; auto|apply W; discriminate]. }
      repeat destruct Hin as [<-|Hin]; try assumption. contradiction.
    + intros Hr. induction Hr as [h Hin _|h e h' _ IH Hg Hin _].
      * cbn in Hin. cbn. intuition.
      * cbn in IH. repeat destruct IH as [<-|IH]; try contradiction;
          vm_compute in Hg; injection Hg as <-; cbn in Hin; cbn; intuition.
  - intros e h He Hh Hne. cbn in He. repeat destruct He as [<-|He]; try contradiction;
      cbn in Hh; cbn; intuition.
  - intros e. split.
    + intros He. cbn in He. repeat destruct He as [<-|He]; try contradiction;
        (split; [cbn; auto|cbn; intuition discriminate]).
    + intros [He Hn]. cbn in He. repeat destruct He as [<-|He]; try contradiction;
        cbn; auto; exfalso; apply Hn; cbn; auto.
  - intros e He. cbn in He. repeat destruct He as [<-|He]; try reflexivity. contradiction.
Qed.

(* and the conclusion is not vacuous: a complete execution exists, and reloading its result
   through the manifest loader gives back entries 1-4 and the heads 3,4 *)
Example C09_example_reload :
  exists s, run_seq c09_cfg 100 (init_state c09_cfg [4%N; 3%N]) = Some s /\ terminalb s = true /\
    let l' := load_multihash 7 [4%N; 3%N] (-1) (st_results s) in
    map fe_hash (lg_entries l') = [4%N; 2%N; 1%N; 3%N] /\ map fe_hash (lg_heads l') = [4%N; 3%N].
Proof. eexists. vm_compute. repeat split. Qed.

(* ------------------------------------------------------------------------------------------ *)
(* C09 for every reachable log state.  The log model (Model/Log.v, Model/System.v) and the
   invariant [linv] proved for every replica of every well-formed history (Proofs/SysProofs.v:
   [sinv_run]) are connected to the stored-log hypotheses above by Proofs/BridgeProofs.v
   ([bridge_log_wf]).  Remaining explicit hypotheses: [store_has] (every entry of the log is
   retrievable under its hash: C17 + no faults), [refs_in_log] (skip references point into the
   log), nothing excluded, no length limit.  [fentries_of l] / [fheads_of l] are the log's entries
   and heads seen as blocks. *)
From IpfsLog Require Import Model.System Proofs.Inv Proofs.SysProofs Proofs.BridgeProofs.

Theorem C09_reload_reachable_state (ops : list op) (r : nat) (l : log) (cfg : config) :
  wf ops -> nth_error (s_logs (run ops)) r = Some l ->
  store_has cfg l -> refs_in_log l ->
  (forall h, cf_excl cfg h = false) -> cf_length cfg < 0 ->
  let same := same_log (fentries_of l) (fheads_of l) (l_id l) in
  (* NewFromMultihash from the published manifest: any list with the head hashes ... *)
  (forall mheads s, (forall h, In h mheads <-> In h (map fe_hash (fheads_of l))) ->
     reachable_state cfg mheads s -> terminal s -> st_timedout s = false ->
     same (load_multihash (l_id l) mheads (-1) (st_results s))) /\
  (* ... which the heads written by ToJSONLog / ToMultihash are *)
  (forall h, In h (json_heads l) <-> In h (map fe_hash (fheads_of l))) /\
  (* NewFromJSON *)
  (forall jheads s, (forall h, In h jheads <-> In h (map fe_hash (fheads_of l))) ->
     reachable_state cfg jheads s -> terminal s -> st_timedout s = false ->
     same (load_json (l_id l) (-1) (st_results s))) /\
  (* NewFromEntryHash, single-headed state *)
  (forall h s, fheads_of l = [h] ->
     reachable_state cfg [fe_hash h] s -> terminal s -> st_timedout s = false ->
     same (load_entryhash (l_id l) (-1) (st_results s))) /\
  (* NewFromEntry from the head entries, non-empty log *)
  (forall source s, (forall e, In e source <-> In e (fheads_of l)) -> l_entries l <> [] ->
     reachable_state cfg (map fe_hash source) s -> terminal s -> st_timedout s = false ->
     exists l', load_entry (-1) source (st_results s) = Some l' /\ same l').
Proof.
  intros W Hr Hst Hrefs Hex Hlen same.
  destruct (replica_linv ops r l W Hr) as [UO I].
  pose proof (bridge_log_wf (s_univ (run ops)) l cfg UO I Hrefs Hst Hex) as WF.
  split; [|split; [|split; [|split]]].
  - intros mheads s Hm Hs T Ht. exact (C09_reload_manifest cfg _ _ _ WF Hlen mheads s Hm Hs T Ht).
  - intros h. exact (json_heads_iff l h).
  - intros jheads s Hm Hs T Ht. exact (C09_reload_json cfg _ _ _ WF Hlen jheads s Hm Hs T Ht).
  - intros h s Hh Hs T Ht. exact (C09_reload_entryhash cfg _ _ _ WF Hlen h s Hh Hs T Ht).
  - intros source s Hsrc Hne Hs T Ht.
    exact (C09_reload_entries cfg _ _ _ WF Hlen source s Hsrc
             (fheads_nonempty (s_univ (run ops)) l UO I Hne) Hs T Ht).
Qed.

(* ---- ... and the reloaded log is a replica: the history goes on with it.
   Whatever a complete reload returns (any of the four loaders, any fetch schedule: [same_log] by the
   theorem above) is the replica the step [OOpen] makes from the loaded entries, in the order in which
   the loader hands them to NewLog, and the loaded heads; that step is admissible ([owf],
   Proofs/POpen.v), so every theorem about histories with re-opened logs (C16_reopened_*,
   C04_append_on_reopened_log, C05/C06 *_reopened) applies to what is appended to and merged with the
   reloaded log afterwards.  Stated for the manifest loader and, generically, for any loaded log that
   is the same log. *)
From IpfsLog Require Import Proofs.PSys Proofs.POpen Proofs.ReloadBridge.

Theorem C09_reloaded_log_is_a_replica (ops : list op) (r : nat) (l : log) (l' : loaded) key sf deny :
  wf ops -> nth_error (s_logs (run ops)) r = Some l ->
  same_log (fentries_of l) (fheads_of l) (l_id l) l' ->
  let reopen := OOpen r (map fe_hash (lg_entries l')) (map fe_hash (lg_heads l')) (l_id l) key sf deny in
  owf (ops ++ [reopen]) /\
  exists lr, nth_error (s_logs (run (ops ++ [reopen]))) (length (s_logs (run ops))) = Some lr /\
    map fentry_of (ents lr) = lg_entries l' /\ l_id lr = lg_id l' /\
    (forall e, In e (fheads_of lr) <-> In e (lg_heads l')).
Proof.
  intros W L S. exact (reloaded_log_is_a_replica ops r l l' key sf deny (pwf_owf _ (wf_pwf _ W)) L S).
Qed.

Theorem C09_manifest_reload_continues_the_history (ops : list op) (r : nat) (l : log) (cfg : config) key sf deny :
  wf ops -> nth_error (s_logs (run ops)) r = Some l ->
  store_has cfg l -> refs_in_log l ->
  (forall h, cf_excl cfg h = false) -> cf_length cfg < 0 ->
  forall mheads s, (forall h, In h mheads <-> In h (map fe_hash (fheads_of l))) ->
    reachable_state cfg mheads s -> terminal s -> st_timedout s = false ->
    let l' := load_multihash (l_id l) mheads (-1) (st_results s) in
    owf (ops ++ [OOpen r (map fe_hash (lg_entries l')) (map fe_hash (lg_heads l')) (l_id l) key sf deny]).
Proof.
  intros W L Hst Hrefs Hex Hlen mheads s Hm Hs T Ht l'.
  destruct (C09_reload_reachable_state ops r l cfg W L Hst Hrefs Hex Hlen) as [M _].
  exact (proj1 (C09_reloaded_log_is_a_replica ops r l l' key sf deny W L (M mheads s Hm Hs T Ht))).
Qed.

Print Assumptions C09_fetch_closure.
Print Assumptions C09_reload_manifest.
Print Assumptions C09_reload_json.
Print Assumptions C09_reload_entryhash.
Print Assumptions C09_reload_entries.
Print Assumptions C09_values.
Print Assumptions C09_example_wf.
Print Assumptions C09_example_reload.
Print Assumptions C09_reload_reachable_state.
Print Assumptions C09_reloaded_log_is_a_replica.
Print Assumptions C09_manifest_reload_continues_the_history.
