(* C20  Key material and identities are stable and self-consistent.
   Statements only; proofs are direct uses of Proofs/KeystoreProofs.v.

   Model: one datastore, any number of Keystore instances (each an LRU cache of capacity [cap] in
   front of it), operations CreateKey / GetKey / HasKey / NewKeystore / get-or-create, arbitrary
   interleavings of whole operations (Model/Keystore.v).  [step]/[run] follow the code as it is;
   [step_fixed]/[run_fixed] contain the repaired HasKey.

   Premise of the property ("each id is created at most once"): [ops_ok cap st ops] - every raw
   CreateKey in the sequence is applied to an id that is not in the datastore at that moment
   (ids made by get-or-create count as created; get-or-create itself may repeat freely).
   [syn_ok] is the syntactic form of the same condition.  Nothing is assumed about [cap]
   (golang-lru insists on cap >= 1; the theorems hold for 0 as well). *)
From Coq Require Import PeanoNat.
From IpfsLog Require Import Model.Keystore Proofs.KeystoreProofs.
Open Scope N_scope.

Section C20.
  Variable cap : nat.

  (* ---- premise ---- *)
  Theorem C20_syntactic_condition_suffices ops :
    syn_ok [] ops -> ops_ok cap init_state ops /\ ops_ok_fixed cap init_state ops.
  Proof.
    intros H. split.
    - apply (syn_ok_ops_ok cap (has_key cap) ops init_state []); [intros x F; now elim F|exact H].
    - apply (syn_ok_ops_ok cap (has_key_fixed cap) ops init_state []); [intros x F; now elim F|exact H].
  Qed.

  (* ---- 1. cache coherence: in every reachable state every instance's cache holds distinct ids,
          at most [cap] of them, and only (id, key) pairs that are in the datastore ---- *)
  Theorem C20_cache_coherent st c :
    reachable cap st -> In c (st_caches st) ->
    NoDup (map fst c) /\ (length c <= cap)%nat /\
    (forall id v, alookup id c = Some v -> alookup id (st_ds st) = Some v).
  Proof. intros H. apply inv_caches. exact (reachable_gen_inv cap _ (has_key_ok cap) st H). Qed.

  Theorem C20_cache_coherent_after_fix st c :
    reachable_fixed cap st -> In c (st_caches st) ->
    NoDup (map fst c) /\ (length c <= cap)%nat /\
    (forall id v, alookup id c = Some v -> alookup id (st_ds st) = Some v).
  Proof. intros H. apply inv_caches. exact (reachable_gen_inv cap _ (has_key_fixed_ok cap) st H). Qed.

  Theorem C20_reachable_inv st : reachable cap st -> inv cap st.
  Proof. exact (reachable_gen_inv cap _ (has_key_ok cap) st). Qed.

  Theorem C20_invariant_preserved st ops :
    inv cap st -> ops_ok cap st ops -> inv cap (fst (run cap st ops)).
  Proof. intros H1 H2. apply (run_facts cap _ (has_key_ok cap) ops st H1 H2). Qed.

  (* ---- 2. GetKey returns exactly the datastore's key ---- *)
  Theorem C20_getkey_is_datastore st i id :
    inv cap st -> (i < length (st_caches st))%nat ->
    snd (step cap st (KGet i id)) =
      match alookup id (st_ds st) with Some k => KOut_key k | None => KOut_err end.
  Proof. exact (get_now cap _ (has_key_ok cap) st i id). Qed.

  Theorem C20_getkey_same_on_every_instance st i j id :
    inv cap st -> (i < length (st_caches st))%nat -> (j < length (st_caches st))%nat ->
    snd (step cap st (KGet i id)) = snd (step cap st (KGet j id)).
  Proof.
    intros H Hi Hj. now rewrite !C20_getkey_is_datastore.
  Qed.

  (* CreateKey stores the generated key ... *)
  Theorem C20_create_stores st i id k :
    (i < length (st_caches st))%nat ->
    snd (step cap st (KCreate i id k)) = KOut_key k /\
    alookup id (st_ds (fst (step cap st (KCreate i id k)))) = Some k.
  Proof. exact (create_stored cap _ st i id k). Qed.

  (* ... and a stored key is returned identically by every instance - old ones, whose cache has
     long evicted it, and ones created later (restart) - after any further operations *)
  Theorem C20_key_stable st ops i id k :
    inv cap st -> ops_ok cap st ops -> alookup id (st_ds st) = Some k ->
    let st' := fst (run cap st ops) in
    (i < length (st_caches st'))%nat ->
    snd (step cap st' (KGet i id)) = KOut_key k.
  Proof. exact (get_later cap _ (has_key_ok cap) st ops i id k). Qed.

  Theorem C20_never_created_getkey_fails st i id :
    inv cap st -> (i < length (st_caches st))%nat -> alookup id (st_ds st) = None ->
    snd (step cap st (KGet i id)) = KOut_err.
  Proof. intros H Hi Hn. rewrite C20_getkey_is_datastore by assumption. now rewrite Hn. Qed.

  (* ---- refinement of the datastore-map specification ---- *)
  (* the code as it is: states refine, and all outputs other than HasKey's agree *)
  Theorem C20_refine_partial st ops :
    inv cap st -> ops_ok cap st ops ->
    abs (fst (run cap st ops)) = fst (spec_run (abs st) ops) /\
    erase_has ops (snd (run cap st ops)) = erase_has ops (snd (spec_run (abs st) ops)).
  Proof.
    intros H1 H2. destruct (run_facts cap _ (has_key_ok cap) ops st H1 H2) as (_ & A & B & _). auto.
  Qed.

  (* with the repaired HasKey: full refinement, every output *)
  Theorem C20_refine_after_fix st ops :
    inv cap st -> ops_ok_fixed cap st ops ->
    spec_run (abs st) ops = (abs (fst (run_fixed cap st ops)), snd (run_fixed cap st ops)).
  Proof.
    intros H1 H2.
    destruct (run_facts cap _ (has_key_fixed_ok cap) ops st H1 H2) as (_ & A & _ & B & _).
    specialize (B (has_key_fixed_exact cap)). unfold run_fixed. rewrite A, B.
    now destruct (spec_run (abs st) ops).
  Qed.

  (* ---- 3. HasKey ---- *)
  (* what does hold for the current code: "true" is never wrong, never-created ids are reported
     absent (as an error) *)
  Theorem C20_haskey_sound_partial st i id :
    inv cap st -> (i < length (st_caches st))%nat ->
    (snd (step cap st (KHas i id)) = KOut_bool true -> alookup id (st_ds st) <> None) /\
    (alookup id (st_ds st) = None -> snd (step cap st (KHas i id)) = KOut_err).
  Proof. exact (has_key_current_sound cap st i id). Qed.

  (* what does not: a created key is reported ABSENT by an instance that does not have it cached.
     Witness for every capacity: create on instance 0, ask a second instance (restart). *)
  Theorem C20_haskey_refuted :
    exists ops i id k,
      syn_ok [] ops /\
      let st := fst (run cap init_state ops) in
      (i < length (st_caches st))%nat /\
      alookup id (st_ds st) = Some k /\
      snd (step cap st (KGet i id)) = KOut_key k /\       (* the key is there and GetKey finds it *)
      snd (step cap st (KHas i id)) = KOut_bool false.    (* HasKey says (false, nil) *)
  Proof.
    exists [KNewInstance; KCreate 0 1 7; KNewInstance], 1%nat, 1, 7.
    split; [simpl; tauto|]. cbv zeta. split; [simpl; lia|].
    split; [reflexivity|]. split; reflexivity.
  Qed.

  (* the repaired HasKey is exact ... *)
  Theorem C20_haskey_after_fix st i id :
    inv cap st -> (i < length (st_caches st))%nat ->
    snd (step_fixed cap st (KHas i id)) =
      match alookup id (st_ds st) with Some _ => KOut_bool true | None => KOut_err end.
  Proof. exact (has_now cap _ (has_key_fixed_ok cap) st i id (has_key_fixed_exact cap)). Qed.

  (* ... so a created key is reported present by every instance at every later time *)
  Theorem C20_haskey_stable_after_fix st ops i id k :
    inv cap st -> ops_ok_fixed cap st ops -> alookup id (st_ds st) = Some k ->
    let st' := fst (run_fixed cap st ops) in
    (i < length (st_caches st'))%nat ->
    snd (step_fixed cap st' (KHas i id)) = KOut_bool true /\
    snd (step_fixed cap st' (KGet i id)) = KOut_key k.
  Proof.
    intros H1 H2 H3 st' Hi. split.
    - exact (has_later cap _ (has_key_fixed_ok cap) st ops i id k (has_key_fixed_exact cap) H1 H2 H3 Hi).
    - exact (get_later cap _ (has_key_fixed_ok cap) st ops i id k H1 H2 H3 Hi).
  Qed.
End C20.

(* The same defect through eviction, at the real capacity: one keystore, 129 keys, the first one
   has left the cache: GetKey still returns it, HasKey denies it. *)
Definition c20_many (n : nat) : list op :=
  KNewInstance :: map (fun x => KCreate 0 (N.of_nat x) (1000 + N.of_nat x)) (seq 1 n).

Theorem C20_haskey_refuted_eviction :
  let ops := c20_many 129 in
  syn_ok [] ops /\
  let st := fst (run 128 init_state ops) in
  length (st_caches st) = 1%nat /\
  alookup 1 (st_ds st) = Some 1001 /\
  snd (step 128 st (KGet 0 1)) = KOut_key 1001 /\
  snd (step 128 st (KHas 0 1)) = KOut_bool false /\
  snd (step 128 st (KHas 0 2)) = KOut_bool true /\
  snd (step_fixed 128 st (KHas 0 1)) = KOut_bool true.
Proof.
  split; [apply syn_okb_ok; vm_compute; reflexivity|].
  vm_compute. repeat split; reflexivity.
Qed.

(* The premise is needed: a second raw CreateKey of the same id leaves the first instance's cache
   stale, and two keystores over one datastore then return different keys. *)
Theorem C20_recreate_breaks_stability :
  exists ops,
    let st := fst (run 128 init_state ops) in
    ~ syn_ok [] ops /\
    snd (step 128 st (KGet 0 1)) = KOut_key 7 /\ snd (step 128 st (KGet 1 1)) = KOut_key 8.
Proof.
  exists [KNewInstance; KNewInstance; KCreate 0 1 7; KCreate 1 1 8].
  cbv zeta. split; [simpl; tauto|]. split; reflexivity.
Qed.

(* ---- 4. identities, modulo the signature scheme ---- *)
Section C20_identity.
  Variable cap : nat.
  Variable pk : Type.                                 (* secp256k1 public keys *)
  Variable pub : key -> pk.                           (* PrivKey.GetPublic *)
  Variable pkc : pk -> list N.                        (* compressed serialisation (PubKey.Raw) *)
  Variable pku : pk -> list N.                        (* uncompressed serialisation *)
  Variable sign : key -> list N -> list N.            (* PrivKey.Sign: a FUNCTION of key and
     message, i.e. signing is deterministic (libp2p secp256k1 = RFC 6979; pinned by the suite) *)
  Variable idnum : list N -> kid.                     (* numbering of id strings; arbitrary *)
  Variable verify : pk -> list N -> list N -> bool.   (* PubKey.Verify(data, sig) *)
  Variable parse_pk : list N -> option pk.            (* crypto.UnmarshalSecp256k1PublicKey *)

  Hypothesis verify_sign : forall s m, verify (pub s) m (sign s m) = true.
  Hypothesis parse_pkc : forall p, parse_pk (pkc p) = Some p.   (* both forms parse back *)
  Hypothesis parse_pku : forall p, parse_pk (pku p) = Some p.
  Hypothesis pkc_bytes : forall p, bytes (pkc p).               (* a serialisation is bytes *)

  Notation create_identity := (create_identity cap pk pub pkc pku sign idnum).
  Notation sign_with := (sign_with cap sign idnum).

  (* CreateIdentity succeeds on every keystore in every reachable state *)
  Theorem C20_identity_created st i uid k1 k2 :
    inv cap st -> (i < length (st_caches st))%nat ->
    exists idn, snd (create_identity st i uid k1 k2) = Some idn.
  Proof. exact (create_identity_total cap pk pub pkc pku sign idnum st i uid k1 k2). Qed.

  (* Creating an identity for the same id again - on the same or any other keystore over the
     datastore (also one opened later), after any operations that respect the premise, whatever
     keys the generator would offer this time - yields the identical identity. *)
  Theorem C20_identity_idempotent st i uid k1 k2 st1 idn ops j k1' k2' :
    inv cap st -> (i < length (st_caches st))%nat ->
    create_identity st i uid k1 k2 = (st1, Some idn) ->
    ops_ok cap st1 ops ->
    let st2 := fst (run cap st1 ops) in
    (j < length (st_caches st2))%nat ->
    snd (create_identity st2 j uid k1' k2') = Some idn.
  Proof.
    exact (create_identity_idem cap pk pub pkc pku sign idnum _ (has_key_ok cap)
             st i uid k1 k2 st1 idn ops j k1' k2').
  Qed.

  Theorem C20_identity_idempotent_after_fix st i uid k1 k2 st1 idn ops j k1' k2' :
    inv cap st -> (i < length (st_caches st))%nat ->
    create_identity st i uid k1 k2 = (st1, Some idn) ->
    ops_ok_fixed cap st1 ops ->
    let st2 := fst (run_fixed cap st1 ops) in
    (j < length (st_caches st2))%nat ->
    snd (create_identity st2 j uid k1' k2') = Some idn.
  Proof.
    exact (create_identity_idem cap pk pub pkc pku sign idnum _ (has_key_fixed_ok cap)
             st i uid k1 k2 st1 idn ops j k1' k2').
  Qed.

  (* the id signature verifies under the published public key (over the ID text, which is what
     signID signs) *)
  Theorem C20_id_sig_ok st i uid k1 k2 st1 idn :
    inv cap st -> (i < length (st_caches st))%nat ->
    create_identity st i uid k1 k2 = (st1, Some idn) ->
    exists p, parse_pk (i_pub idn) = Some p /\ verify p (i_id idn) (i_sig_id idn) = true.
  Proof.
    exact (created_id_sig_ok cap pk pub pkc pku sign idnum verify parse_pk verify_sign parse_pku
             st i uid k1 k2 st1 idn).
  Qed.

  (* the public-key signature verifies under the key the id denotes: ID is the hex text of a
     public key, which is the public key of the key stored under the user-supplied id; the signed
     message is the hex TEXT of (public key bytes ++ id signature), as SignIdentity really does *)
  Theorem C20_pk_sig_ok st i uid k1 k2 st1 idn :
    inv cap st -> (i < length (st_caches st))%nat ->
    create_identity st i uid k1 k2 = (st1, Some idn) ->
    exists ka raw,
      alookup (idnum uid) (st_ds st1) = Some ka /\
      unhex (i_id idn) = Some raw /\ parse_pk raw = Some (pub ka) /\
      verify (pub ka) (hex (i_pub idn ++ i_sig_id idn)) (i_sig_pub idn) = true.
  Proof.
    exact (created_pk_sig_ok cap pk pub pkc pku sign idnum verify parse_pk verify_sign parse_pkc
             pkc_bytes st i uid k1 k2 st1 idn).
  Qed.

  (* whatever is signed with the identity (Provider.Sign, used for entries), by any keystore over
     the datastore at any later time, verifies under the published key bytes *)
  Theorem C20_entry_sig_ok st i uid k1 k2 st1 idn ops j data :
    inv cap st -> (i < length (st_caches st))%nat ->
    create_identity st i uid k1 k2 = (st1, Some idn) ->
    ops_ok cap st1 ops ->
    let st2 := fst (run cap st1 ops) in
    (j < length (st_caches st2))%nat ->
    exists s p, snd (sign_with st2 j idn data) = Some s /\
                parse_pk (i_pub idn) = Some p /\ verify p data s = true.
  Proof.
    exact (created_entry_sig_ok cap pk pub pkc pku sign idnum verify parse_pk verify_sign parse_pku
             _ (has_key_ok cap) st i uid k1 k2 st1 idn ops j data).
  Qed.
End C20_identity.

(* ---- non-vacuity ---- *)

(* a history with three keystores, more keys than the capacity (2), restarts and get-or-create
   meets the premise, and its outputs are what the specification says *)
Example C20_nonvacuous_history :
  let ops := [KNewInstance; KCreate 0 1 11; KCreate 0 2 12; KNewInstance; KCreate 1 3 13;
              KGetOrCreate 1 1 99; KGetOrCreate 0 4 14; KGet 0 1; KNewInstance; KGet 2 3;
              KGet 2 9; KGetOrCreate 2 4 98; KHas 0 4; KHas 2 9] in
  syn_ok [] ops /\ ops_ok 2 init_state ops /\
  snd (run 2 init_state ops) =
    [KOut_unit; KOut_key 11; KOut_key 12; KOut_unit; KOut_key 13; KOut_key 11; KOut_key 14;
     KOut_key 11; KOut_unit; KOut_key 13; KOut_err; KOut_key 14; KOut_bool true; KOut_err] /\
  snd (run 2 init_state ops) = snd (spec_run (abs init_state) ops).
Proof.
  cbv zeta. split; [simpl; intuition (try discriminate; try lia)|].
  split; [apply (syn_ok_ops_ok 2 (has_key 2) _ init_state []);
          [intros x F; now elim F | simpl; intuition (try discriminate; try lia)]|].
  split; vm_compute; reflexivity.
Qed.

(* the crypto hypotheses are satisfiable (a toy scheme), and with it an identity created on one
   keystore is recreated identically on a keystore opened later *)
Definition toy_pub (k : key) : bool := N.odd k.
Definition toy_pkc (p : bool) : list N := [if p then 3 else 2].
Definition toy_pku (p : bool) : list N := [4; if p then 1 else 0].
Definition toy_sign (k : key) (m : list N) : list N := (if N.odd k then 1 else 0) :: m.
Definition toy_verify (p : bool) (m s : list N) : bool :=
  match s with
  | t :: m' => N.eqb t (if p then 1 else 0) && (if list_eq_dec N.eq_dec m m' then true else false)
  | [] => false
  end.
Definition toy_parse (b : list N) : option bool :=
  match b with
  | [2] => Some false | [3] => Some true | [4; 0] => Some false | [4; 1] => Some true
  | _ => None
  end.
Definition toy_idnum (s : list N) : kid := fold_left (fun a c => 256 * a + c) s 1.

Example C20_nonvacuous_crypto :
  (forall s m, toy_verify (toy_pub s) m (toy_sign s m) = true) /\
  (forall p, toy_parse (toy_pkc p) = Some p) /\ (forall p, toy_parse (toy_pku p) = Some p) /\
  (forall p, bytes (toy_pkc p)).
Proof.
  split; [|split; [|split]].
  - intros s m. unfold toy_verify, toy_sign, toy_pub. rewrite N.eqb_refl.
    destruct (list_eq_dec N.eq_dec m m); [reflexivity|congruence].
  - intros []; reflexivity.
  - intros []; reflexivity.
  - intros []; repeat constructor.
Qed.

Example C20_nonvacuous_identity :
  let ci := create_identity 2 bool toy_pub toy_pkc toy_pku toy_sign toy_idnum in
  let st0 := fst (run 2 init_state [KNewInstance]) in
  inv 2 st0 /\
  let '(st1, r1) := ci st0 0%nat [117] 5 8 in
  let st2 := fst (run 2 st1 [KCreate 0 70 1; KCreate 0 71 2; KCreate 0 72 3; KNewInstance]) in
  let '(_, r2) := ci st2 1%nat [117] 6 9 in
  ops_ok 2 st1 [KCreate 0 70 1; KCreate 0 71 2; KCreate 0 72 3; KNewInstance] /\
  r1 = Some (mkIdentity [48; 51] [4; 0] [0; 48; 51] [1; 48; 52; 48; 48; 48; 48; 51; 48; 51; 51]) /\
  r2 = r1.
Proof.
  cbv zeta. split.
  - apply (C20_invariant_preserved 2 init_state [KNewInstance]); [apply inv_init|simpl; repeat split].
  - vm_compute. repeat split; reflexivity.
Qed.

Print Assumptions C20_syntactic_condition_suffices.
Print Assumptions C20_cache_coherent.
Print Assumptions C20_cache_coherent_after_fix.
Print Assumptions C20_reachable_inv.
Print Assumptions C20_invariant_preserved.
Print Assumptions C20_getkey_is_datastore.
Print Assumptions C20_getkey_same_on_every_instance.
Print Assumptions C20_create_stores.
Print Assumptions C20_key_stable.
Print Assumptions C20_never_created_getkey_fails.
Print Assumptions C20_refine_partial.
Print Assumptions C20_refine_after_fix.
Print Assumptions C20_haskey_sound_partial.
Print Assumptions C20_haskey_refuted.
Print Assumptions C20_haskey_after_fix.
Print Assumptions C20_haskey_stable_after_fix.
Print Assumptions C20_haskey_refuted_eviction.
Print Assumptions C20_recreate_breaks_stability.
Print Assumptions C20_identity_created.
Print Assumptions C20_identity_idempotent.
Print Assumptions C20_identity_idempotent_after_fix.
Print Assumptions C20_id_sig_ok.
Print Assumptions C20_pk_sig_ok.
Print Assumptions C20_entry_sig_ok.
Print Assumptions C20_nonvacuous_history.
Print Assumptions C20_nonvacuous_crypto.
Print Assumptions C20_nonvacuous_identity.
