(* Correspondence checker for the fetcher (C11; reused by C09/C10): replays the event trace the
   harness recorded from a real entry.FetchAll run on the model and compares the result list. *)
From IpfsLog Require Import Model.Order Model.Fetcher.
Open Scope Z_scope.

Fixpoint nlist_eqb (a b : list N) : bool :=
  match a, b with
  | [], [] => true
  | x :: a', y :: b' => N.eqb x y && nlist_eqb a' b'
  | _, _ => false
  end.

Definition subset (a b : list N) : bool := forallb (fun x => mem x b) a.
Definition same_set (a b : list N) : bool := subset a b && subset b a.

(* blocks made unretrievable by fault injection (absent / error / undecodable) *)
Definition store_without (st : store) (faulty : list N) : store :=
  filter (fun kv => negb (mem (fst kv) faulty)) st.

Record fetch_case := {
  fc_store : store;            (* every entry block of the DAG store *)
  fc_faulty : list N;          (* hashes with an injected fault *)
  fc_excl : list N;            (* ShouldExclude answers true exactly on these *)
  fc_len : Z;
  fc_conc : nat;
  fc_timeout : bool;
  fc_starts : list N;
  fc_trace : list event;       (* observed events, in the order the hooks saw them *)
  fc_results : list N;         (* hashes of the returned entries, in order *)
  fc_gets : list N             (* Dag().Get calls for entry blocks seen by the store *)
}.

Definition fc_config (c : fetch_case) : config :=
  {| cf_store := store_without (fc_store c) (fc_faulty c);
     cf_excl := fun h => mem h (fc_excl c);
     cf_length := fc_len c; cf_conc := fc_conc c; cf_timeout := fc_timeout c |}.

Definition check_fetch (c : fetch_case) : bool :=
  match run_trace (fc_config c) (fc_starts c) (fc_trace c) with
  | Some s => terminalb s
              && nlist_eqb (map fe_hash (st_results s)) (fc_results c)
              && same_set (st_requests s) (fc_gets c)
  | None => false
  end.

(* diagnosis for replays: number of events accepted, and the state reached *)
Fixpoint run_diag (cfg : config) (s : fstate) (evs : list event) (k : nat) : nat * fstate :=
  match evs with
  | [] => (k, s)
  | ev :: evs' => match exec_step cfg s ev with
                  | Some s' => run_diag cfg s' evs' (S k)
                  | None => (k, s)
                  end
  end.
Definition fetch_diag (c : fetch_case) :=
  let '(k, s) := run_diag (fc_config c) (init_state (fc_config c) (fc_starts c)) (fc_trace c) 0 in
  (k, length (fc_trace c), terminalb s, map fe_hash (st_results s), st_queue s, st_fetching s,
   map fst (st_pending s)).

Fixpoint mismatches_from {A} (chk : A -> bool) (i : nat) (l : list A) : list nat :=
  match l with
  | [] => []
  | c :: l' => if chk c then mismatches_from chk (S i) l' else i :: mismatches_from chk (S i) l'
  end.

Definition mismatches_fetch := mismatches_from check_fetch 0.
