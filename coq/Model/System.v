(* A system: several log replicas over one block store, driven by a history of operations.
   [s_univ] is ghost state: every entry an append ever produced (used only by the proofs).
   [s_store] is the write trace of the block store: (cid, links of the block), oldest first. *)
From IpfsLog Require Export Model.Log.
Open Scope Z_scope.

Record sys := mkSys {
  s_logs : list log;
  s_univ : list entry;
  s_store : list (hash * list hash);
}.

Definition empty_sys : sys := mkSys [] [] [].

(* a block store is content addressed: writing a block that is already there changes nothing *)
Definition add_block (st : list (hash * list hash)) (h : hash) (links : list hash) :=
  if existsb (fun b => N.eqb (fst b) h) st then st else st ++ [(h, links)].

Inductive op :=
| ONew (id key : N) (s : sortfn) (deny : list N) (t0 : Z) (* a new empty replica, index = length s_logs; t0 = time of the clock it is opened with *)
| OAppend (r : nat) (payload : N) (pc : Z) (h : hash)    (* h: the CID the implementation produced *)
| OJoin (r src : nat) (size : Z)
| OSetIdentity (r : nat) (key : N)
| OPublish (r : nat) (mh : hash)                         (* ToMultihash: writes the manifest block mh *)
| OIter (r : nat) (o : iter_opts)                        (* read only *)
| OAppendFail (r : nat) (payload : N) (pc : Z) (h : hash) (* an append during a store outage: the entry (CID h) is built, its block write refused *)
| OFail (r : nat)                                        (* a publication during a store outage: the manifest write is refused *)
| OOpen (src : nat) (keep hh : list hash) (id key : N) (s : sortfn) (deny : list N).
                                                         (* a new replica opened over a selection of replica src's entries (NewLog with
                                                            LogOptions.Entries; the loaders after a complete or limited load), index = length s_logs *)

Fixpoint set_nth {A} (n : nat) (x : A) (l : list A) : list A :=
  match n, l with
  | O, _ :: l' => x :: l'
  | S n', y :: l' => y :: set_nth n' x l'
  | _, [] => []
  end.

(* result classes shared with the harness *)
Inductive rclass := RcOk | RcErrJoin | RcErrDenied | RcPanic | RcErrLte | RcErrLt | RcErrOther | RcBadIndex.

Definition class_of {A} (o : outcome A) : rclass :=
  match o with
  | Ok _ => RcOk | Panic => RcPanic
  | Err EJoin => RcErrJoin | Err EDenied => RcErrDenied
  | Err ELteNotFound => RcErrLte | Err ELtNotFound => RcErrLt | Err EOther => RcErrOther
  end.

(* what an operation returns to its caller *)
Inductive opres :=
| ResNone (c : rclass)
| ResEntry (e : entry)
| ResIter (es : list entry) (closed : bool).

Definition set_time (l : log) (t : Z) : log :=
  mkLog (l_id l) (l_entries l) (l_heads l) (l_next l) t (l_cid l) (l_key l) (l_sort l) (l_deny l).

Definition step (s : sys) (o : op) : sys * opres :=
  match o with
  | ONew id key sf deny t0 =>
      (mkSys (s_logs s ++ [new_log id key sf deny t0]) (s_univ s) (s_store s), ResNone RcOk)
  | OAppend r payload pc h =>
      match nth_error (s_logs s) r with
      | None => (s, ResNone RcBadIndex)
      | Some l =>
        let '(l', out) := append l payload pc h in
        match out with
        | Ok e => (mkSys (set_nth r l' (s_logs s)) (s_univ s ++ [e])
                         (add_block (s_store s) h (e_next e ++ e_refs e)), ResEntry e)
        | Err EDenied =>
            (* the block is written before the access controller is asked *)
            match append_entry l payload pc h with
            | Some e => (mkSys (set_nth r l' (s_logs s)) (s_univ s ++ [e])
                               (add_block (s_store s) h (e_next e ++ e_refs e)), ResNone RcErrDenied)
            | None => (s, ResNone RcPanic)
            end
        | other => (mkSys (set_nth r l' (s_logs s)) (s_univ s) (s_store s), ResNone (class_of other))
        end
      end
  | OJoin r src size =>
      match nth_error (s_logs s) r, nth_error (s_logs s) src with
      | Some l, Some o =>
        let '(l', out) := join l o (Nat.eqb r src) size in
        (mkSys (set_nth r l' (s_logs s)) (s_univ s) (s_store s), ResNone (class_of out))
      | _, _ => (s, ResNone RcBadIndex)
      end
  | OSetIdentity r key =>
      match nth_error (s_logs s) r with
      | None => (s, ResNone RcBadIndex)
      | Some l => (mkSys (set_nth r (set_identity l key) (s_logs s)) (s_univ s) (s_store s), ResNone RcOk)
      end
  | OPublish r mh =>
      match nth_error (s_logs s) r with
      | None => (s, ResNone RcBadIndex)
      | Some l =>
        if olen (l_heads l) =? 0 then (s, ResNone RcErrOther)
        else (mkSys (s_logs s) (s_univ s) (add_block (s_store s) mh (json_heads l)), ResNone RcOk)
      end
  | OIter r io =>
      match nth_error (s_logs s) r with
      | None => (s, ResNone RcBadIndex)
      | Some l =>
        match iterator l io with
        | Ok (es, closed) => (s, ResIter es closed)
        | other => (s, ResNone (class_of other))
        end
      end
  | OAppendFail r payload pc h =>
      (* Append moves the log's clock, builds and signs the entry, and only then writes the block:
         when the write is refused the clock has moved and nothing else has changed *)
      match nth_error (s_logs s) r with
      | None => (s, ResNone RcBadIndex)
      | Some l =>
        match append_entry l payload pc h with
        | Some e => (mkSys (set_nth r (set_time l (e_time e)) (s_logs s)) (s_univ s ++ [e]) (s_store s), ResNone RcErrOther)
        | None => (s, ResNone RcPanic)
        end
      end
  | OFail _ => (s, ResNone RcErrOther)
  | OOpen src keep hh id key sf deny =>
      match nth_error (s_logs s) src with
      | None => (s, ResNone RcBadIndex)
      | Some l => (mkSys (s_logs s ++ [open_from l keep hh id key sf deny]) (s_univ s) (s_store s), ResNone RcOk)
      end
  end.

Definition run_from (s : sys) (ops : list op) : sys := fold_left (fun s o => fst (step s o)) ops s.
Definition run (ops : list op) : sys := run_from empty_sys ops.
