(* Model of entry/lamportclock.go (Compare) and entry/sorting/sorting.go.
   Definitions only; proofs are in Proofs/OrderProofs.v.

   Sort keys.  The comparators only ever look at three things of an entry: its clock time
   (a Go int, 64 bit), its clock id (bytes, compared with bytes.Compare) and its hash (CID string,
   compared with strings.Compare).  We model ids and hashes by an abstract type with a Z-valued
   three-way comparison [kcmp] returning -1/0/1 like bytes.Compare/strings.Compare.  *)
From Coq Require Export List ZArith Bool Lia.
Export ListNotations.
Open Scope Z_scope.

(* Go int arithmetic: two's complement 64 bit. *)
Definition two63 : Z := 9223372036854775808.
Definition two64 : Z := 18446744073709551616.
Definition wrap64 (x : Z) : Z := (x + two63) mod two64 - two63.
Definition int64_range (x : Z) : Prop := - two63 <= x < two63.

(* Result of a Go (int, error) comparator. *)
Inductive cres := COk (z : Z) | CErr.

Section Comparators.
  Variable K : Type.                     (* clock ids and hashes *)
  Variable kcmp : K -> K -> Z.           (* bytes.Compare / strings.Compare: -1, 0, 1 *)

  Record skey := { sk_time : Z; sk_id : K; sk_hash : K }.

  (* LamportClock.Compare (after the saturation fix):
       if l.Time == other { return bytes.Compare(ids) }
       dist := l.Time - other                      (wraps in Go int arithmetic)
       if l.Time > other && dist <= 0 { return MaxInt }
       if l.Time < other && (dist >= 0 || dist == MinInt) { return -MaxInt }
       return dist *)
  Definition max_int : Z := two63 - 1.
  Definition time_dist (t1 t2 : Z) : Z :=
    let dist := wrap64 (t1 - t2) in
    if (t2 <? t1) && (dist <=? 0) then max_int
    else if (t1 <? t2) && ((0 <=? dist) || (dist =? - two63)) then - max_int
    else dist.
  Definition clock_compare (t1 : Z) (i1 : K) (t2 : Z) (i2 : K) : Z :=
    if t1 =? t2 then kcmp i1 i2 else time_dist t1 t2.

  (* sorting.SortByClocks a b resolve *)
  Definition sort_by_clocks (a b : skey) (resolve : skey -> skey -> cres) : cres :=
    let diff := clock_compare (sk_time a) (sk_id a) (sk_time b) (sk_id b) in
    if diff =? 0 then resolve a b else COk diff.

  (* sorting.SortByClockID a b resolve *)
  Definition sort_by_clock_id (a b : skey) (resolve : skey -> skey -> cres) : cres :=
    let c := kcmp (sk_id a) (sk_id b) in
    if c =? 0 then resolve a b else COk c.

  Definition first (_ _ : skey) : cres := COk 1.

  (* sorting.LastWriteWins *)
  Definition last_write_wins (a b : skey) : cres :=
    sort_by_clocks a b (fun a b => sort_by_clock_id a b first).

  (* sorting.FirstWriteWins: res * -1 in Go int arithmetic *)
  Definition first_write_wins (a b : skey) : cres :=
    match last_write_wins a b with
    | COk r => COk (wrap64 (r * -1))
    | CErr => CErr
    end.

  (* sorting.SortByEntryHash *)
  Definition sort_by_entry_hash (a b : skey) : cres :=
    sort_by_clocks a b (fun a b => sort_by_clock_id a b
        (fun a b => COk (kcmp (sk_hash a) (sk_hash b)))).

  (* sorting.Compare (both entries defined) *)
  Definition compare_clocks (a b : skey) : cres :=
    COk (clock_compare (sk_time a) (sk_id a) (sk_time b) (sk_id b)).

  (* sorting.NoZeroes *)
  Definition no_zeroes (f : skey -> skey -> cres) (a b : skey) : cres :=
    match f a b with
    | CErr => CErr
    | COk r => if r =? 0 then CErr else COk r
    end.
End Comparators.

Arguments sk_time {K}. Arguments sk_id {K}. Arguments sk_hash {K}.
Arguments Build_skey {K}.

(* The same orderings over an application-defined clock type: sorting.SortByClocks calls the Compare
   METHOD of the entries' clocks ([cc]) and compares the ids itself only when that answers 0.
   With [cc] = the built-in clock these are the definitions above (Proofs/OrderAnyClock.v). *)
Section AnyClockDefs.
  Variable K : Type.
  Variable kcmp : K -> K -> Z.
  Variable cc : skey K -> skey K -> Z.

  Definition by_clocks (a b : skey K) (resolve : skey K -> skey K -> cres) : cres :=
    let diff := cc a b in if diff =? 0 then resolve a b else COk diff.
  Definition hash_g (a b : skey K) : cres :=
    by_clocks a b (fun a b => sort_by_clock_id K kcmp a b (fun a b => COk (kcmp (sk_hash a) (sk_hash b)))).
  Definition lww_g (a b : skey K) : cres :=
    by_clocks a b (fun a b => sort_by_clock_id K kcmp a b (first K)).
  Definition fww_g (a b : skey K) : cres :=
    match lww_g a b with COk r => COk (wrap64 (r * -1)) | CErr => CErr end.
  Definition compare_g (a b : skey K) : cres := COk (cc a b).
End AnyClockDefs.

(* a clock type whose Compare looks at the times only (returns -1, 0, 1) *)
Definition time_only_cc {K} (a b : skey K) : Z :=
  match Z.compare (sk_time a) (sk_time b) with Lt => -1 | Eq => 0 | Gt => 1 end.

(* sort.SliceStable for fewer than 21 elements is insertionSort(data, 0, n):
     for i := 1; i < n; i++ { for j := i; j > 0 && less(j, j-1); j-- { swap(j, j-1) } }
   [ins] inserts x into the already processed prefix, kept REVERSED (head = last element). *)
Section GoSort.
  Variable A : Type.
  Variable less : A -> A -> bool.

  Fixpoint ins (x : A) (rp : list A) : list A :=
    match rp with
    | [] => [x]
    | y :: rp' => if less x y then y :: ins x rp' else x :: rp
    end.

  Definition gosort (l : list A) : list A :=
    rev (fold_left (fun rp x => ins x rp) l []).
End GoSort.
Arguments ins {A}. Arguments gosort {A}.

(* sorting.Sort(compFunc, values, reverse): an error from compFunc counts as "not less". *)
Definition sort_less {A} (cmp : A -> A -> cres) (reverse : bool) (a b : A) : bool :=
  match cmp a b with
  | COk r => if reverse then 0 <? r else r <? 0
  | CErr => false
  end.

Definition sort_go {A} (cmp : A -> A -> cres) (reverse : bool) (l : list A) : list A :=
  gosort (sort_less cmp reverse) l.

(* Concrete instance used for execution: ids and hashes are natural-number ranks. *)
Definition ncmp (a b : N) : Z :=
  match N.compare a b with Lt => -1 | Eq => 0 | Gt => 1 end.
