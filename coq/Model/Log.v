(* Executable model of the log core: entry/entry_map.go (OrderedMap), entry/utils.go (FindHeads),
   log.go (NewLog, traverse, getEveryPow2, Append, Join, difference, Iterator, Values, Heads,
   ToJSONLog, SetIdentity).  One Gallina function per Go function, same control flow and same
   data order.  Definitions only; proofs live in Proofs/.

   Hashes (CID strings), clock ids / keys (public key bytes), log ids and payloads are natural
   numbers: the implementation only compares them (the harness maps every real string to its
   rank, order preserving).  Go ints that are clock times / amounts / sizes are unbounded Z here;
   the only machine arithmetic the log core performs on them is max and +1 (see DESIGN 3.1). *)
From Coq Require Export List ZArith Bool Lia.
From IpfsLog Require Export Model.Order.
Export ListNotations.
Open Scope Z_scope.

Definition hash := N.

Record entry := mkEntry {
  e_hash : hash;
  e_logid : N;
  e_payload : N;
  e_next : list hash;
  e_refs : list hash;
  e_time : Z;          (* Clock.Time *)
  e_cid : N;           (* Clock.ID: public key of the log's identity when the entry was made *)
  e_key : N;           (* Key: public key the signature is checked against; 0 = no key *)
  e_sigok : bool;      (* oracle: Verify succeeds (signature present and valid over the content) *)
}.

Definition key_of (e : entry) : skey N := Build_skey (e_time e) (e_cid e) (e_hash e).

(* ---- outcome of an operation that can fail or crash ---- *)
Inductive errkind := EJoin | EDenied | ELteNotFound | ELtNotFound | EOther.
Inductive outcome (A : Type) := Ok (a : A) | Err (k : errkind) | Panic.
Arguments Ok {A}. Arguments Err {A}. Arguments Panic {A}.

(* ---- OrderedMap: association list in insertion order ---- *)
Definition omap := list (hash * entry).

Fixpoint oget (m : omap) (k : hash) : option entry :=
  match m with
  | [] => None
  | (k', v) :: m' => if N.eqb k k' then Some v else oget m' k
  end.

Definition ohas (m : omap) (k : hash) : bool :=
  match oget m k with Some _ => true | None => false end.

(* Set: value replaced in place when the key exists, else appended at the end *)
Fixpoint oset (m : omap) (k : hash) (v : entry) : omap :=
  match m with
  | [] => [(k, v)]
  | (k', v') :: m' => if N.eqb k k' then (k', v) :: m' else (k', v') :: oset m' k v
  end.

Definition okeys (m : omap) : list hash := map fst m.
Definition oslice (m : omap) : list entry := map snd m.
Definition olen (m : omap) : Z := Z.of_nat (length m).
Definition oat (m : omap) (i : Z) : option entry :=
  if i <? 0 then None else nth_error (oslice m) (Z.to_nat i).

(* NewOrderedMapFromEntries (nil entries are modelled by [option]: see [from_opt_entries]) *)
Definition from_entries (l : list entry) : omap :=
  fold_left (fun m e => oset m (e_hash e) e) l [].
Definition from_opt_entries (l : list (option entry)) : omap :=
  fold_left (fun m oe => match oe with Some e => oset m (e_hash e) e | None => m end) l [].

(* OrderedMap.Merge *)
Definition omerge (a b : omap) : omap :=
  fold_left (fun m kv => oset m (fst kv) (snd kv)) b (fold_left (fun m kv => oset m (fst kv) (snd kv)) a []).

Fixpoint mem (h : hash) (l : list hash) : bool :=
  match l with [] => false | x :: l' => N.eqb h x || mem h l' end.

(* uniqueCIDs (Entry.Copy) *)
Fixpoint uniq_aux (seen : list hash) (l : list hash) : list hash :=
  match l with
  | [] => []
  | x :: l' => if mem x seen then uniq_aux seen l' else x :: uniq_aux (x :: seen) l'
  end.
Definition uniq (l : list hash) : list hash := uniq_aux [] l.

(* ---- sorting entries with the log's SortFn = NoZeroes(sortfn) ---- *)
Inductive sortfn := SLww | SFww | SHash.
Definition raw_cmp (s : sortfn) (a b : entry) : cres :=
  match s with
  | SLww => last_write_wins N ncmp (key_of a) (key_of b)
  | SFww => first_write_wins N ncmp (key_of a) (key_of b)
  | SHash => sort_by_entry_hash N ncmp (key_of a) (key_of b)
  end.
Definition log_cmp (s : sortfn) (a b : entry) : cres :=
  match raw_cmp s a b with
  | CErr => CErr
  | COk r => if r =? 0 then CErr else COk r
  end.
Definition sort_desc (s : sortfn) (l : list entry) : list entry := sort_go (log_cmp s) true l.
Definition sort_asc (s : sortfn) (l : list entry) : list entry := sort_go (log_cmp s) false l.

(* FindHeads: entries of the map nobody in the map names in next, in key order, then stably
   sorted by clock id (sort.SliceStable with bytes.Compare(idA, idB) < 0). *)
Definition all_nexts (l : list entry) : list hash := flat_map e_next l.
Definition find_heads (m : omap) : list entry :=
  let nexts := all_nexts (oslice m) in
  let res := filter (fun e => negb (mem (e_hash e) nexts)) (oslice m) in
  gosort (fun a b => ncmp (e_cid a) (e_cid b) <? 0) res.
(* note: FindHeads looks the key up ([items[h]], h the map key) and returns UnsafeGet(h); for maps
   built by from_entries key and e_hash coincide *)

(* ---- the log ---- *)
Record log := mkLog {
  l_id : N;
  l_entries : omap;
  l_heads : omap;
  l_next : omap;          (* reverse index: next hash -> an entry naming it *)
  l_time : Z;             (* Clock.Time *)
  l_cid : N;              (* Clock.ID *)
  l_key : N;              (* Identity.PublicKey *)
  l_sort : sortfn;
  l_deny : list N;        (* access controller: signer keys it refuses (empty = Default) *)
}.

Definition max_time (l : list entry) (def : Z) : Z := fold_left (fun m e => Z.max (e_time e) m) l def.

(* NewLog with no entries *)
(* t0: the time of the clock handed to NewLog (LogOptions.Clock), 0 when none is given *)
Definition new_log (id key : N) (s : sortfn) (deny : list N) (t0 : Z) : log :=
  mkLog id [] [] [] t0 key key s deny.

(* NewLog from loaded entries (heads given explicitly or found) *)
Definition build_next_index (entries : omap) : omap :=
  fold_left (fun nx e => fold_left (fun nx n => oset nx n e) (e_next e) nx) (oslice entries) [].
Definition new_log_from (id key : N) (s : sortfn) (deny : list N) (entries : omap) (heads : list entry) : log :=
  let maxt := max_time heads 0 in
  let heads' := match heads with
                | [] => if 0 <? olen entries then find_heads entries else []
                | _ => heads end in
  mkLog id entries (from_entries heads') (build_next_index entries) maxt key key s deny.

(* A log opened over a selection of another log's entries: what NewLog does with LogOptions.Entries
   and no LogOptions.Heads (and what NewFromEntryHash / NewFromEntry / NewFromJSON hand to NewLog after
   a complete or a length-limited load).  [keep] names the selected entries by hash, in the order in
   which they are put into the ordered map; a hash the source does not hold selects nothing.  The
   clock of such a log starts at 0 - NewLog looks at LogOptions.Heads only, before it finds the heads. *)
Definition pick (m : omap) (keep : list hash) : list entry :=
  flat_map (fun h => match oget m h with Some e => [e] | None => [] end) (uniq keep).
Definition open_from (src : log) (keep hh : list hash) (id key : N) (s : sortfn) (deny : list N) : log :=
  new_log_from id key s deny (from_entries (pick (l_entries src) keep)) (pick (l_entries src) hh).
(* [hh]: LogOptions.Heads, named by hash among the source's entries (empty: NewLog finds the heads itself).
   NewLog installs the head objects it is given - it does not look them up among LogOptions.Entries - and
   starts the clock at their newest time; this is what NewFromMultihash does with the heads of the manifest *)
(* [id]: LogOptions.ID - the loaders take it from the caller's options, so a log may be opened under an id
   other than the one its entries carry (such a log is outside the invariants: POpen.v [owf]) *)

(* ---- traverse ---- *)
Definition push_next (entries : omap) (st : list entry * list hash * bool) (c : hash) :=
  let '(stack, seen, md) := st in
  match oget entries c with
  | None => (stack, seen, md)
  | Some n => if mem (e_hash n) seen then (stack, seen, md)
              else (n :: stack, e_hash n :: seen, true)
  end.
Definition push_nexts (entries : omap) (nexts : list hash) (st : list entry * list hash * bool) :=
  fold_left (push_next entries) nexts st.

Fixpoint trav (fuel : nat) (entries : omap) (s : sortfn) (amount : Z) (endh : option hash)
         (stack : list entry) (seen : list hash) (res : omap) (cnt : Z) : option omap :=
  match stack with
  | [] => Some res
  | e :: stack' =>
    if (0 <=? amount) && (amount <=? cnt) then Some res else
    match fuel with
    | O => None                                   (* out of fuel: excluded by [trav_fuel_ok] *)
    | S f =>
      (* a root that is also a predecessor of another root is on the stack twice: skipped *)
      if ohas res (e_hash e) then trav f entries s amount endh stack' seen res cnt else
      let res' := oset res (e_hash e) e in
      let seen' := e_hash e :: seen in
      if match endh with Some h => N.eqb (e_hash e) h | None => false end then Some res' else
      let '(stack'', seen'', md) := push_nexts entries (e_next e) (stack', seen', false) in
      let stack3 := if md then sort_desc s stack'' else stack'' in
      trav f entries s amount endh stack3 seen'' res' (cnt + 1)
    end
  end.

Definition trav_fuel (entries : omap) (roots : list entry) : nat := S (length roots + length entries).

Definition traverse (entries : omap) (s : sortfn) (roots : omap) (amount : Z) (endh : option hash) : option omap :=
  let stack := sort_desc s (oslice roots) in
  trav (trav_fuel entries stack) entries s amount endh stack [] [] 0.

Definition values (l : log) : option omap :=
  match traverse (l_entries l) (l_sort l) (l_heads l) (-1) None with
  | Some res => Some (rev res)
  | None => None
  end.

(* ---- getEveryPow2 ---- *)
Fixpoint pow2_loop (fuel : nat) (i maxd : Z) (all : omap) (acc : list entry) : list entry :=
  match fuel with
  | O => acc
  | S f => if i <=? maxd then
             let idx := Z.min (olen all - 1) (i - 1) in
             let acc' := match oat all idx with Some e => acc ++ [e] | None => acc end in
             pow2_loop f (2 * i) maxd all acc'
           else acc
  end.
Definition get_every_pow2 (all : omap) (maxd : Z) : list entry := pow2_loop 64 1 maxd all [].

Definition sorted_heads (l : log) : omap := from_entries (sort_desc (l_sort l) (oslice (l_heads l))).

(* ---- Append ----  [h] is the CID the implementation computed for the new block (oracle). *)
Definition append_entry (l : log) (payload : N) (pc0 : Z) (h : hash) : option entry :=
  let heads := sorted_heads l in
  let pc := if pc0 =? 0 then 1 else pc0 in
  let newtime := Z.max (l_time l) (max_time (oslice heads) 0) + 1 in
  match traverse (l_entries l) (l_sort l) heads (Z.max pc (olen heads)) None with
  | None => None
  | Some all =>
    let refs0 := get_every_pow2 all (Z.min pc (olen all)) in
    let refs1 := if olen all <? pc then
                   match oat all (olen all - 1) with Some r => refs0 ++ [r] | None => refs0 end
                 else refs0 in
    let next := rev (map e_hash (oslice heads)) in
    let refs := filter (fun r => negb (mem r next)) (map e_hash refs1) in
    Some (mkEntry h (l_id l) payload (uniq next) (uniq refs) newtime (l_cid l) (l_key l) true)
  end.

Definition allowed (l : log) (e : entry) : bool := negb (mem (e_key e) (l_deny l)).

(* returns the new log and the outcome; on denial only the clock has moved *)
Definition append (l : log) (payload : N) (pc0 : Z) (h : hash) : log * outcome entry :=
  match append_entry l payload pc0 h with
  | None => (l, Panic)
  | Some e =>
    let l1 := mkLog (l_id l) (l_entries l) (l_heads l) (l_next l) (e_time e) (l_cid l) (l_key l) (l_sort l) (l_deny l) in
    if allowed l e then
      (mkLog (l_id l) (oset (l_entries l) h e) (from_entries [e])
             (fold_left (fun nx n => oset nx n e) (e_next e) (l_next l))
             (e_time e) (l_cid l) (l_key l) (l_sort l) (l_deny l), Ok e)
    else (l1, Err EDenied)
  end.

(* ---- difference ---- *)
Definition diff_push (lb : log) (st_sn : list hash * list hash) (n : hash) : list hash * list hash :=
  let '(st, sn) := st_sn in
  if negb (mem n sn) && negb (ohas (l_entries lb) n) then (st ++ [n], n :: sn) else (st, sn).

Fixpoint diff_loop (fuel : nat) (ea : omap) (lb : log) (stack : list hash) (seen : list hash) (res : omap) : option omap :=
  match stack with
  | [] => Some res
  | h :: stack' =>
    match fuel with
    | O => None
    | S f =>
      match oget ea h with
      | Some eA =>
        (* an entry is only taken under its own hash *)
        if negb (ohas (l_entries lb) h) && N.eqb (e_logid eA) (l_id lb) && N.eqb (e_hash eA) h then
          let res' := oset res h eA in
          let seen' := h :: seen in
          let '(stack'', seen'') := fold_left (diff_push lb) (e_next eA) (stack', seen') in
          diff_loop f ea lb stack'' seen'' res'
        else diff_loop f ea lb stack' seen res
      | None => diff_loop f ea lb stack' seen res
      end
    end
  end.

Definition difference (ea : omap) (headsa : list entry) (lb : log) : option omap :=
  if (olen ea =? 0) || (Z.of_nat (length headsa) =? 0) then Some []
  else diff_loop (S (length headsa + length (all_nexts (oslice ea)))) ea lb (map e_hash headsa) [] [].

(* ---- Join ----
   [src_entries], [src_heads1], [src_heads2]: what otherLog.GetEntries(), the first and the second
   otherLog.RawHeads() returned (for a quiescent source all three come from one state). *)
Definition entry_ok (l : log) (e : entry) : bool := allowed l e && e_sigok e && negb (N.eqb (e_key e) 0).

(* the other log's heads only name candidates: Join looks them up among the entries the log holds
   after the merge and takes ITS OWN objects (an unknown key is dropped) *)
Definition own_heads (ents : omap) (src_heads : omap) : omap :=
  fold_left (fun m kv => match oget ents (fst kv) with Some own => oset m (fst kv) own | None => m end) src_heads [].

Definition join_reads (l : log) (src_id : N) (same_instance : bool)
           (src_entries : omap) (src_heads1 src_heads2 : omap) (size : Z) : log * outcome unit :=
  if same_instance then (l, Ok tt) else
  if negb (N.eqb (l_id l) src_id) then (l, Ok tt) else
  match difference src_entries (oslice src_heads1) l with
  | None => (l, Panic)
  | Some newitems =>
    if negb (forallb (entry_ok l) (oslice newitems)) then (l, Err EJoin) else
    let nx := fold_left (fun nx e => fold_left (fun nx n => oset nx n e) (e_next e) nx) (oslice newitems) (l_next l) in
    let ents := fold_left (fun m e => oset m (e_hash e) e) (oslice newitems) (l_entries l) in
    let nexts_new := all_nexts (oslice newitems) in
    let merged := find_heads (omerge (l_heads l) (own_heads ents src_heads2)) in
    let merged' := map (fun e => if mem (e_hash e) nexts_new || ohas nx (e_hash e) then None else Some e) merged in
    let heads := from_opt_entries merged' in
    let l1 := mkLog (l_id l) ents heads nx (l_time l) (l_cid l) (l_key l) (l_sort l) (l_deny l) in
    let finish (l2 : log) :=
      mkLog (l_id l2) (l_entries l2) (l_heads l2) (l_next l2)
            (Z.max (l_time l2) (max_time (oslice (l_heads l2)) 0)) (l_cid l2) (l_key l2) (l_sort l2) (l_deny l2) in
    if size <? 0 then (finish l1, Ok tt)
    else
      match values l1 with
      | None => (l, Panic)
      | Some vals =>
          let tmp := if size <? olen vals then skipn (Z.to_nat (olen vals - size)) (oslice vals)
                     else oslice vals in
          let ents2 := from_entries tmp in
          let heads2 := from_entries (find_heads (from_entries tmp)) in
          (* the next index is rebuilt from the kept entries *)
          let nx2 := fold_left (fun nx e => fold_left (fun nx n => oset nx n e) (e_next e) nx) tmp [] in
          (finish (mkLog (l_id l) ents2 heads2 nx2 (l_time l) (l_cid l) (l_key l) (l_sort l) (l_deny l)), Ok tt)
      end
  end.

Definition join (l other : log) (same_instance : bool) (size : Z) : log * outcome unit :=
  join_reads l (l_id other) same_instance (l_entries other) (l_heads other) (l_heads other) size.

(* ---- Heads / ToJSONLog / SetIdentity ---- *)
Definition heads (l : log) : list entry := oslice (sorted_heads l).
Definition json_heads (l : log) : list hash := map e_hash (sort_desc (l_sort l) (oslice (l_heads l))).
Definition set_identity (l : log) (key : N) : log :=
  mkLog (l_id l) (l_entries l) (l_heads l) (l_next l) (Z.max (l_time l) (max_time (oslice (l_heads l)) (l_time l)))
        key key (l_sort l) (l_deny l).

(* ---- Iterator ---- *)
Record iter_opts := mkIter {
  it_gt : option hash; it_gte : option hash;
  it_lt : option (list hash); it_lte : option (list hash);
  it_amount : option Z;
}.

Fixpoint get_all (m : omap) (hs : list hash) : option (list entry) :=
  match hs with
  | [] => Some []
  | h :: hs' => match oget m h, get_all m hs' with
                | Some e, Some r => Some (e :: r)
                | _, _ => None
                end
  end.

(* the start set: the sorted heads, or the given LTE entries, or the predecessors of the last LT entry *)
Definition iter_start (l : log) (o : iter_opts) : outcome (list entry) :=
  let start0 := oslice (sorted_heads l) in
  match it_lte o with
  | Some hs => match get_all (l_entries l) hs with Some es => Ok es | None => Err ELteNotFound end
  | None =>
    match it_lt o with
    | Some hs =>
      fold_left (fun acc c =>
          match acc with
          | Ok _ => match oget (l_entries l) c with
                    | None => Err ELtNotFound
                    | Some e => match get_all (l_entries l) (e_next e) with
                                | Some es => Ok es | None => Err ELtNotFound end
                    end
          | other => other
          end) hs (Ok start0)
    | None => Ok start0
    end
  end.

Definition iter_end (o : iter_opts) : option hash :=
  match it_gte o with Some h => Some h | None => it_gt o end.
Definition iter_amount (o : iter_opts) : Z := match it_amount o with Some a => a | None => -1 end.
Definition iter_count (o : iter_opts) : Z :=
  match iter_end o, it_amount o with None, Some _ => iter_amount o | _, _ => -1 end.

(* what happens to the traversed entries before they are emitted *)
Definition iter_post (o : iter_opts) (es : list entry) : list entry :=
  let es1 := match it_gt o with Some _ => removelast es | None => es end in
  let bounded := match it_gt o, it_gte o with None, None => false | _, _ => true end in
  if bounded && (-1 <? iter_amount o) && (iter_amount o <? Z.of_nat (length es1))
  then skipn (Z.to_nat (Z.of_nat (length es1) - iter_amount o)) es1 else es1.

(* result: emitted entries (in order) and whether the output channel was closed *)
Definition iterator (l : log) (o : iter_opts) : outcome (list entry * bool) :=
  match it_amount o with
  | Some 0 => Ok ([], true)                   (* closes the channel and returns nil *)
  | _ =>
    match iter_start l o with
    | Err k => Err k
    | Panic => Panic
    | Ok st =>
      match traverse (l_entries l) (l_sort l) (from_entries st) (iter_count o) (iter_end o) with
      | None => Panic
      | Some m => Ok (iter_post o (oslice m), true)
      end
    end
  end.
