(* Correspondence checker for C07: runs the signing-bytes model on the entries the harness created
   with the real entry.CreateEntryWithIO and compares with the bytes the implementation signed
   (validated in the harness against the real signature), byte for byte.  CIDs are given as their
   base58btc strings, so [cid := bytes] and [cid_str := id]. *)
From Coq Require Import List NArith ZArith Bool.
From IpfsLog Require Import Model.Json Model.Signing.   (* deps *)
Import ListNotations.
Open Scope N_scope.

Record sign_case := {
  sc_logid : bytes; sc_payload : bytes; sc_next : list bytes; sc_refs : list bytes; sc_v : N;
  sc_clock_id : bytes; sc_clock_time : Z; sc_ad : list (bytes * bytes);
  sc_signed : bytes;          (* the bytes Go signed *)
  sc_valid : bool             (* utf8.Valid(payload) *)
}.

Definition sc_entry (c : sign_case) : entry bytes :=
  Build_entry bytes (sc_logid c) (sc_payload c) (sc_next c) (sc_refs c) (sc_v c) (sc_clock_id c)
              (sc_clock_time c) (sc_ad c) [] [].

Definition json_str_eqb (a b : json) : bool := bytes_eqb (print a) (print b).

Definition check_sign (c : sign_case) : bool :=
  let e := sc_entry c in
  bytes_eqb (signing_bytes bytes (fun x => x) e) (sc_signed c)
  && Bool.eqb (valid_utf8 (sc_payload c)) (sc_valid c)
  (* the reader of Proofs/JsonProofs.v accepts Go's bytes and returns the sanitised view *)
  && match parse (jfuel (sig_view bytes (fun x => x) e)) (sc_signed c) with
     | Some (j, []) => json_str_eqb j (sanitize (sig_view bytes (fun x => x) e))
     | _ => false
     end.

(* sanitisation cases: Go's []byte(string([]rune(string(p)))) *)
Record san_case := { sn_in : bytes; sn_out : bytes; sn_quoted : bytes (* json.Marshal(string(p)) *) }.
Definition check_san (c : san_case) : bool :=
  bytes_eqb (sanitize_str (sn_in c)) (sn_out c) && bytes_eqb (print_str (sn_in c)) (sn_quoted c).

Fixpoint mismatches07 {A} (chk : A -> bool) (i : nat) (l : list A) : list nat :=
  match l with
  | [] => []
  | c :: l' => if chk c then mismatches07 chk (S i) l' else i :: mismatches07 chk (S i) l'
  end.

Definition mismatches_sign := mismatches07 check_sign 0.
Definition mismatches_san := mismatches07 check_san 0.
