(* Correspondence checker for C18: (1) cbor.NonceRefForEntry vs [nonce_ref_current]; (2) stored blocks of
   entries written with a link key: strict decode, no tagged item, next = refs = [], and the model's
   own block for the created entry is byte-identical; (3) pairs of blocks of entries that differ
   only in their links: equal clear parts. *)
From Coq Require Import List NArith ZArith Bool String.
From IpfsLog Require Import Model.Cbor Model.EntryCodec Model.Check08 Model.LinkVerify.
(* deps *)
Import ListNotations.
Local Open Scope string_scope.
Open Scope N_scope.

Record nref_case := { nr_entry : entry; nr_text : list (bytes * bytes) (* cid -> Cid.String() *); nr_obs : bytes }.
Definition check_nref (c : nref_case) : bool :=
  bytes_eqb (nonce_ref_current (fun x => match assoc x (nr_text c) with Some s => s | None => [] end) (nr_entry c)) (nr_obs c).

Definition is_empty_array (o : option cbor) : bool := match o with Some (CArray []) => true | _ => false end.

Record block_case := { bc_entry : entry (* as returned by CreateEntryWithIO *); bc_block : bytes }.
Definition check_block (c : block_case) : bool :=
  match decode_all (bc_block c), to_tree (bc_entry c) with
  | Some t, Ok t' =>
    bytes_eqb (encode t') (bc_block c) && no_tag t &&
    is_empty_array (field_of "jsonable.Entry" "Next" t) && is_empty_array (field_of "jsonable.Entry" "Refs" t)
  | _, _ => false
  end.

Record pair_case := { pc_block1 : bytes; pc_block2 : bytes }.
Definition check_pair (c : pair_case) : bool :=
  match decode_all (pc_block1 c), decode_all (pc_block2 c) with
  | Some t1, Some t2 => bytes_eqb (encode (CMap (clear_part t1))) (encode (CMap (clear_part t2))) &&
                        negb (is_nil (clear_part t1))
  | _, _ => false
  end.

Definition mismatches_nref := mismatches check_nref 0.
Definition mismatches_block := mismatches check_block 0.
Definition mismatches_pair := mismatches check_pair 0.
