(* Model of the fragment of Go's encoding/json (go1.23) that entry.toBuffer exercises:
   json.Marshal of map[string]interface{} holding nil, strings, uint64/int, []string,
   map[string]interface{} and map[string]string.

     appendString (encode.go)      -> chunks / esc_chunk / print_str
     utf8.DecodeRune               -> lead_info / chunks  (one chunk per loop iteration of appendString)
     mapEncoder.encode             -> sort_kvs (keys sorted bytewise, strings.Compare) / print (JObj ..)
     uint/int encoders (strconv)   -> print_Z

   Bytes are N (only values < 256 occur in cases; every byte >= 0x80 that does not start a
   well-formed UTF-8 sequence - including any value >= 256 - is an invalid byte, as in Go).
   Definitions only; the lemmas are in Proofs/JsonProofs.v. *)
From Coq Require Import List NArith ZArith Bool Ascii String.
Import ListNotations.
Open Scope N_scope.

Definition bytes := list N.

Fixpoint bytes_of_string (s : string) : bytes :=
  match s with
  | EmptyString => []
  | String a s' => N_of_ascii a :: bytes_of_string s'
  end.

Fixpoint bytes_eqb (a b : bytes) : bool :=
  match a, b with
  | [], [] => true
  | x :: a', y :: b' => (x =? y) && bytes_eqb a' b'
  | _, _ => false
  end.

(* ------------------------------------------------------------------------------------------ *)
(* UTF-8 decoding as done by utf8.DecodeRune(InString)                                         *)

(* one iteration of the loop in appendString:
   CAscii b       src[i] < utf8.RuneSelf
   CMulti cp bs   DecodeRune accepted the 2..4 bytes bs as code point cp
   CBad b         DecodeRune returned (RuneError, 1): the byte b is not part of a valid sequence *)
Inductive chunk :=
| CAscii (b : N)
| CMulti (cp : N) (bs : bytes)
| CBad (b : N).

Definition is_cont (b : N) : bool := (0x80 <=? b) && (b <=? 0xBF).   (* locb..hicb *)

(* utf8.first[] + acceptRanges[] for a leading byte >= 0x80: (size, lo, hi of the second byte) *)
Definition lead_info (b0 : N) : option (N * N * N) :=
  if (0xC2 <=? b0) && (b0 <=? 0xDF) then Some (2, 0x80, 0xBF)
  else if b0 =? 0xE0 then Some (3, 0xA0, 0xBF)
  else if (0xE1 <=? b0) && (b0 <=? 0xEC) then Some (3, 0x80, 0xBF)
  else if b0 =? 0xED then Some (3, 0x80, 0x9F)
  else if (0xEE <=? b0) && (b0 <=? 0xEF) then Some (3, 0x80, 0xBF)
  else if b0 =? 0xF0 then Some (4, 0x90, 0xBF)
  else if (0xF1 <=? b0) && (b0 <=? 0xF3) then Some (4, 0x80, 0xBF)
  else if b0 =? 0xF4 then Some (4, 0x80, 0x8F)
  else None.

Fixpoint chunks (bs : bytes) : list chunk :=
  match bs with
  | [] => []
  | b0 :: r0 =>
    if b0 <? 0x80 then CAscii b0 :: chunks r0 else
    match lead_info b0 with
    | None => CBad b0 :: chunks r0
    | Some (sz, lo, hi) =>
      match r0 with
      | [] => CBad b0 :: chunks r0
      | b1 :: r1 =>
        if negb ((lo <=? b1) && (b1 <=? hi)) then CBad b0 :: chunks r0
        else if sz =? 2 then CMulti ((b0 - 0xC0) * 64 + (b1 - 0x80)) [b0; b1] :: chunks r1
        else
          match r1 with
          | [] => CBad b0 :: chunks r0
          | b2 :: r2 =>
            if negb (is_cont b2) then CBad b0 :: chunks r0
            else if sz =? 3
                 then CMulti ((b0 - 0xE0) * 4096 + (b1 - 0x80) * 64 + (b2 - 0x80)) [b0; b1; b2] :: chunks r2
            else
              match r2 with
              | [] => CBad b0 :: chunks r0
              | b3 :: r3 =>
                if negb (is_cont b3) then CBad b0 :: chunks r0
                else CMulti ((b0 - 0xF0) * 262144 + (b1 - 0x80) * 4096 + (b2 - 0x80) * 64 + (b3 - 0x80))
                            [b0; b1; b2; b3] :: chunks r3
              end
          end
      end
    end
  end.

Definition chunk_bytes (c : chunk) : bytes :=
  match c with CAscii b => [b] | CMulti _ bs => bs | CBad b => [b] end.
Definition chunk_valid (c : chunk) : bool :=
  match c with CBad _ => false | _ => true end.

(* utf8.Valid *)
Definition valid_utf8 (bs : bytes) : bool := forallb chunk_valid (chunks bs).

(* what a JSON reader gets back: every invalid byte has become U+FFFD *)
Definition fffd : bytes := [0xEF; 0xBF; 0xBD].
Definition san_chunk (c : chunk) : bytes :=
  match c with CBad _ => fffd | _ => chunk_bytes c end.
Definition sanitize_str (bs : bytes) : bytes := flat_map san_chunk (chunks bs).

(* ------------------------------------------------------------------------------------------ *)
(* appendString with escapeHTML = true (json.Marshal's default)                                *)

Definition hexdigit (d : N) : N := if d <? 10 then 48 + d else 87 + d.   (* "0123456789abcdef"[d] *)

(* htmlSafeSet, for b < 0x80 *)
Definition html_safe (b : N) : bool :=
  (0x20 <=? b) && negb (b =? 0x22) && negb (b =? 0x26) && negb (b =? 0x3C) && negb (b =? 0x3E)
  && negb (b =? 0x5C).

Definition esc_ascii (b : N) : bytes :=
  if html_safe b then [b]
  else if (b =? 0x5C) || (b =? 0x22) then [0x5C; b]
  else if b =? 0x08 then [0x5C; 0x62]      (* \b *)
  else if b =? 0x0C then [0x5C; 0x66]      (* \f *)
  else if b =? 0x0A then [0x5C; 0x6E]      (* \n *)
  else if b =? 0x0D then [0x5C; 0x72]      (* \r *)
  else if b =? 0x09 then [0x5C; 0x74]      (* \t *)
  else [0x5C; 0x75; 0x30; 0x30; hexdigit (b / 16); hexdigit (b mod 16)].   (* \u00XX: < 0x20, <, >, & *)

Definition esc_chunk (c : chunk) : bytes :=
  match c with
  | CAscii b => esc_ascii b
  | CMulti cp bs =>
    if cp =? 0x2028 then [0x5C; 0x75; 0x32; 0x30; 0x32; 0x38]
    else if cp =? 0x2029 then [0x5C; 0x75; 0x32; 0x30; 0x32; 0x39]
    else bs
  | CBad _ => [0x5C; 0x75; 0x66; 0x66; 0x66; 0x64]       (* \ufffd *)
  end.

Definition print_str (bs : bytes) : bytes := 0x22 :: flat_map esc_chunk (chunks bs) ++ [0x22].

(* ------------------------------------------------------------------------------------------ *)
(* numbers: strconv.AppendUint / AppendInt base 10                                             *)

Fixpoint dec_digits (fuel : nat) (n : N) : bytes :=
  match fuel with
  | O => []                                     (* out of fuel: excluded by dec_digits_value *)
  | S f => if n <? 10 then [48 + n] else dec_digits f (n / 10) ++ [48 + n mod 10]
  end.
Definition print_N (n : N) : bytes := dec_digits (S (N.to_nat (N.size n))) n.
Definition print_Z (z : Z) : bytes :=
  match z with
  | Z0 => [48]
  | Zpos p => print_N (Npos p)
  | Zneg p => 45 :: print_N (Npos p)
  end.

(* ------------------------------------------------------------------------------------------ *)
(* values                                                                                      *)

Inductive json :=
| JNull
| JNum (z : Z)
| JStr (bs : bytes)                       (* the raw bytes of the Go string *)
| JArr (l : list json)
| JObj (kvs : list (bytes * json)).       (* a Go map: keys are pairwise distinct *)

(* strings.Compare(a, b) <= 0 *)
Fixpoint bytes_leb (a b : bytes) : bool :=
  match a, b with
  | [], _ => true
  | _ :: _, [] => false
  | x :: a', y :: b' => if x <? y then true else if y <? x then false else bytes_leb a' b'
  end.

Fixpoint insert_kv {V} (kv : bytes * V) (l : list (bytes * V)) : list (bytes * V) :=
  match l with
  | [] => [kv]
  | h :: t => if bytes_leb (fst kv) (fst h) then kv :: l else h :: insert_kv kv t
  end.
(* slices.SortFunc on the keys of a map (pairwise distinct, so the result does not depend on the
   algorithm); insertion sort here *)
Definition sort_kvs {V} (l : list (bytes * V)) : list (bytes * V) := fold_right insert_kv [] l.

Definition join_comma (l : list bytes) : bytes :=
  match l with
  | [] => []
  | x :: t => x ++ flat_map (fun y => 44 :: y) t
  end.

Definition print_member (kv : bytes * bytes) : bytes := print_str (fst kv) ++ 58 :: snd kv.

Fixpoint print (j : json) : bytes :=
  match j with
  | JNull => [110; 117; 108; 108]
  | JNum z => print_Z z
  | JStr bs => print_str bs
  | JArr l => 91 :: join_comma (map print l) ++ [93]
  | JObj kvs =>
    123 :: join_comma (map print_member
                           (sort_kvs (map (fun kv => let '(k, v) := kv in (k, print v)) kvs))) ++ [125]
  end.

(* the value a JSON reader reconstructs from [print j]: strings sanitised, members in key order *)
Fixpoint sanitize (j : json) : json :=
  match j with
  | JNull => JNull
  | JNum z => JNum z
  | JStr bs => JStr (sanitize_str bs)
  | JArr l => JArr (map sanitize l)
  | JObj kvs =>
    JObj (map (fun kv => (sanitize_str (fst kv), snd kv))
              (sort_kvs (map (fun kv => let '(k, v) := kv in (k, sanitize v)) kvs)))
  end.

(* ------------------------------------------------------------------------------------------ *)
(* a reader for exactly the printed fragment (proof device: print is injective up to sanitize) *)

Definition push (pre : bytes) (r : option (bytes * bytes)) : option (bytes * bytes) :=
  match r with Some (bs, rest) => Some (pre ++ bs, rest) | None => None end.

Definition hexval (c : N) : option N :=
  if (48 <=? c) && (c <=? 57) then Some (c - 48)
  else if (97 <=? c) && (c <=? 102) then Some (c - 87)
  else None.

Definition utf8_encode (cp : N) : option bytes :=
  if cp <? 0x80 then Some [cp]
  else if cp <? 0x800 then Some [0xC0 + cp / 64; 0x80 + cp mod 64]
  else if (0xD800 <=? cp) && (cp <=? 0xDFFF) then None
  else Some [0xE0 + cp / 4096; 0x80 + (cp / 64) mod 64; 0x80 + cp mod 64].

Definition unescape_short (e : N) : option N :=
  if e =? 0x22 then Some 0x22 else if e =? 0x5C then Some 0x5C
  else if e =? 0x62 then Some 0x08 else if e =? 0x66 then Some 0x0C
  else if e =? 0x6E then Some 0x0A else if e =? 0x72 then Some 0x0D
  else if e =? 0x74 then Some 0x09 else None.

(* input: what follows the opening quote; result: decoded bytes and what follows the closing quote *)
Fixpoint parse_str (s : bytes) : option (bytes * bytes) :=
  match s with
  | [] => None
  | c :: rest =>
    if c =? 0x22 then Some ([], rest)
    else if c =? 0x5C then
      match rest with
      | [] => None
      | e :: rest1 =>
        if e =? 0x75 then
          match rest1 with
          | h1 :: h2 :: h3 :: h4 :: rest2 =>
            match hexval h1, hexval h2, hexval h3, hexval h4 with
            | Some a, Some b, Some c', Some d =>
              match utf8_encode (((a * 16 + b) * 16 + c') * 16 + d) with
              | Some enc => push enc (parse_str rest2)
              | None => None
              end
            | _, _, _, _ => None
            end
          | _ => None
          end
        else
          match unescape_short e with
          | Some b => push [b] (parse_str rest1)
          | None => None
          end
      end
    else push [c] (parse_str rest)
  end.

Definition is_digit (c : N) : bool := (48 <=? c) && (c <=? 57).

Fixpoint parse_digits (s : bytes) (acc : N) : N * bytes :=
  match s with
  | [] => (acc, s)
  | c :: rest => if is_digit c then parse_digits rest (acc * 10 + (c - 48)) else (acc, s)
  end.

Definition parse_num (s : bytes) : option (Z * bytes) :=
  match s with
  | [] => None
  | c :: rest =>
    if c =? 45 then
      match rest with
      | [] => None
      | d :: _ => if is_digit d then let (n, r) := parse_digits rest 0 in Some (Z.opp (Z.of_N n), r) else None
      end
    else if is_digit c then let (n, r) := parse_digits s 0 in Some (Z.of_N n, r)
    else None
  end.

Fixpoint parse_elems (p : bytes -> option (json * bytes)) (n : nat) (s : bytes) : option (list json * bytes) :=
  match n with
  | O => None
  | S n' =>
    match p s with
    | Some (v, c :: r) =>
      if c =? 44 then
        match parse_elems p n' r with
        | Some (vs, r') => Some (v :: vs, r')
        | None => None
        end
      else if c =? 93 then Some ([v], r) else None
    | _ => None
    end
  end.

Fixpoint parse_members (p : bytes -> option (json * bytes)) (n : nat) (s : bytes)
  : option (list (bytes * json) * bytes) :=
  match n with
  | O => None
  | S n' =>
    match s with
    | [] => None
    | q :: s1 =>
      if q =? 0x22 then
        match parse_str s1 with
        | Some (k, col :: s2) =>
          if col =? 58 then
            match p s2 with
            | Some (v, c :: r) =>
              if c =? 44 then
                match parse_members p n' r with
                | Some (kvs, r') => Some ((k, v) :: kvs, r')
                | None => None
                end
              else if c =? 125 then Some ([(k, v)], r) else None
            | _ => None
            end
          else None
        | _ => None
        end
      else None
    end
  end.

Fixpoint parse (fuel : nat) (s : bytes) : option (json * bytes) :=
  match fuel with
  | O => None                                   (* out of fuel: excluded by parse_print *)
  | S f =>
    match s with
    | [] => None
    | c :: rest =>
      if c =? 110 then
        match rest with
        | c1 :: c2 :: c3 :: r =>
          if (c1 =? 117) && (c2 =? 108) && (c3 =? 108) then Some (JNull, r) else None
        | _ => None
        end
      else if c =? 0x22 then
        match parse_str rest with
        | Some (bs, r) => Some (JStr bs, r)
        | None => None
        end
      else if c =? 91 then
        match rest with
        | [] => None
        | c1 :: r1 =>
          if c1 =? 93 then Some (JArr [], r1)
          else match parse_elems (parse f) f rest with
               | Some (vs, r) => Some (JArr vs, r)
               | None => None
               end
        end
      else if c =? 123 then
        match rest with
        | [] => None
        | c1 :: r1 =>
          if c1 =? 125 then Some (JObj [], r1)
          else match parse_members (parse f) f rest with
               | Some (kvs, r) => Some (JObj kvs, r)
               | None => None
               end
        end
      else
        match parse_num s with
        | Some (z, r) => Some (JNum z, r)
        | None => None
        end
    end
  end.

(* enough fuel for [parse] on [print j] *)
Fixpoint jfuel (j : json) : nat :=
  match j with
  | JArr l => S (List.length l + list_sum (map jfuel l))
  | JObj kvs => S (List.length kvs + list_sum (map (fun kv => let '(_, v) := kv in jfuel v) kvs))
  | _ => 1
  end.

(* lookup in a Go map *)
Fixpoint jlookup {V} (k : bytes) (kvs : list (bytes * V)) : option V :=
  match kvs with
  | [] => None
  | (k', v) :: t => if bytes_eqb k k' then Some v else jlookup k t
  end.
