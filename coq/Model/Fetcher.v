(* Model of entry/fetcher.go + entry/queue.go (the concurrent closure fetch) and of the four
   loaders of log_io.go / log.go (fromMultihash, fromEntryHash, fromJSON, fromEntry followed by
   NewLog).  Definitions only; lemmas are in Proofs/FetcherProofs.v, LoaderProofs.v.

   Hashes (CIDs), clock ids and log ids are ranks in N; hash 0 is the undefined CID.

   What one run of Fetcher.processQueue can do is described twice:
     (a) [step]      an inductive labelled transition relation, the object of the theorems, and
     (b) [exec_step] / [run_trace]  an executable validator that replays an observed event list
         and checks that every event is enabled ([exec_step_iff] relates the two).

   Events.  The worker loop of processQueue holds muProcess all the time except inside
   condProcess.Wait(); a worker goroutine does
        entry, _ := fetchEntry(..)      -- Dag().Get, no lock held
        f.processDone()                 -- gives the semaphore slot back, STILL no lock held
        f.muProcess.Lock(); ..process..; taskInProgress--; Signal; Unlock
   so the semaphore bounds the number of outstanding Get calls, not the number of dispatched and
   not yet processed tasks (with concurrency 1 and three start hashes all three are dispatched
   before the first one is processed).  The model therefore has three events per task:
        EvDispatch h      main loop: acquireProcessSlot succeeded, queue.Next() = h
        EvReturn h ok     the Get of h returned (ok = an entry was decoded); slot released
        EvComplete h      the worker of h ran its critical section
   plus EvTimeout (the context expires; acquireProcessSlot fails from then on).

   NOT modelled (exercised by the harness only): real time, the condition variable / semaphore
   implementation (lost wake-ups), and whether the store honours ctx (after a timeout a Get may
   return either its block or an error: both are allowed by [step]).  Go int arithmetic on
   priorities and clock times is modelled in Z without wrap-around.                              *)
From Coq Require Export List ZArith NArith Bool Lia.
From IpfsLog Require Export Model.Order.
Export ListNotations.
Open Scope Z_scope.

(* ------------------------------------------------------------------------------------------ *)
(* entries and the block store                                                                 *)

Record fentry := {
  fe_hash : N;            (* CID of the block (set by DecodeRawEntry to the requested CID) *)
  fe_next : list N;
  fe_refs : list N;
  fe_time : Z;            (* clock time *)
  fe_id : N;              (* clock id (rank of the key bytes) *)
  fe_logid : N            (* log id (rank), used by fromEntry for the snapshot id *)
}.

Definition set_hash (h : N) (e : fentry) : fentry :=
  {| fe_hash := h; fe_next := fe_next e; fe_refs := fe_refs e; fe_time := fe_time e;
     fe_id := fe_id e; fe_logid := fe_logid e |}.

Definition fe_links (e : fentry) : list N := fe_next e ++ fe_refs e.

(* A store is a finite map; a block that is absent, fails with an I/O error or does not decode
   is simply not in the map (FromMultihashWithIO returns (nil, err) in all three cases and the
   fetcher drops the error). *)
Definition store := list (N * fentry).

Fixpoint store_find (st : store) (h : N) : option fentry :=
  match st with
  | [] => None
  | (k, e) :: st' => if N.eqb k h then Some e else store_find st' h
  end.

(* FromMultihashWithIO: DecodeRawEntry does e.SetHash(hash) *)
Definition store_get (st : store) (h : N) : option fentry :=
  match store_find st h with Some e => Some (set_hash h e) | None => None end.

(* ------------------------------------------------------------------------------------------ *)
(* fetcher state                                                                               *)

Inductive tkind := TAdded | TInProgress | TDone.

Definition cache := list (N * tkind).      (* tasksCache; newest binding first *)
Fixpoint cache_get (c : cache) (h : N) : option tkind :=
  match c with
  | [] => None
  | (k, v) :: c' => if N.eqb k h then Some v else cache_get c' h
  end.
Definition cache_set (c : cache) (h : N) (k : tkind) : cache := (h, k) :: c.
Definition cached (c : cache) (h : N) : bool :=
  match cache_get c h with Some _ => true | None => false end.

Definition queue := list (Z * N).          (* items of the priority queue: (index, hash) *)

Record config := {
  cf_store : store;
  cf_excl : N -> bool;       (* options.ShouldExclude *)
  cf_length : Z;             (* Fetcher.length: < 0 = no limit *)
  cf_conc : nat;             (* semaphore weight (options.Concurrency, 32 when <= 0) *)
  cf_timeout : bool          (* a timeout (or a cancellable parent context) is configured *)
}.

Record fstate := {
  st_queue : queue;
  st_cache : cache;
  st_fetching : list N;                    (* dispatched, Get not yet returned: hold a slot *)
  st_pending : list (N * option fentry);   (* Get returned, critical section not yet run *)
  st_results : list fentry;
  st_min : Z;
  st_max : Z;
  st_timedout : bool;
  st_requests : list N                     (* every hash handed to a worker, in dispatch order *)
}.

(* Fetcher.exclude *)
Definition excluded (cfg : config) (c : cache) (h : N) : bool :=
  N.eqb h 0 || cached c h || cf_excl cfg h.

(* Fetcher.addHashToQueue *)
Definition add_hash (cfg : config) (idx : Z) (h : N) (qc : queue * cache) : queue * cache :=
  if excluded cfg (snd qc) h then qc
  else (fst qc ++ [(idx, h)], cache_set (snd qc) h TAdded).

(* for i, h := range hs { addHashToQueue(queue, prio(i), h) }, starting at index i *)
Fixpoint add_indexed (cfg : config) (prio : Z -> Z) (i : Z) (hs : list N) (qc : queue * cache)
  : queue * cache :=
  match hs with
  | [] => qc
  | h :: hs' => add_indexed cfg prio (i + 1) hs' (add_hash cfg (prio i) h qc)
  end.

(* Fetcher.addHashesToQueue: the priority is the position in the slice *)
Definition add_hashes (cfg : config) (hs : list N) (qc : queue * cache) : queue * cache :=
  add_indexed cfg (fun i => i) 0 hs qc.

Definition init_state (cfg : config) (starts : list N) : fstate :=
  let qc := add_hashes cfg starts ([], []) in
  {| st_queue := fst qc; st_cache := snd qc; st_fetching := []; st_pending := [];
     st_results := []; st_min := 0; st_max := 0; st_timedout := false; st_requests := [] |}.

(* ---- the queue: container/heap pops SOME element of minimal index ---- *)
Fixpoint queue_find (q : queue) (h : N) : option Z :=
  match q with
  | [] => None
  | (p, k) :: q' => if N.eqb k h then Some p else queue_find q' h
  end.
Fixpoint queue_remove (q : queue) (h : N) : queue :=
  match q with
  | [] => []
  | (p, k) :: q' => if N.eqb k h then q' else (p, k) :: queue_remove q' h
  end.
Definition queue_min (q : queue) (p : Z) : bool := forallb (fun x => p <=? fst x) q.

Fixpoint remove_first (l : list N) (h : N) : list N :=
  match l with
  | [] => []
  | k :: l' => if N.eqb k h then l' else k :: remove_first l' h
  end.
Definition mem (h : N) (l : list N) : bool := existsb (N.eqb h) l.

Fixpoint pending_find (p : list (N * option fentry)) (h : N) : option (option fentry) :=
  match p with
  | [] => None
  | (k, r) :: p' => if N.eqb k h then Some r else pending_find p' h
  end.
Fixpoint pending_remove (p : list (N * option fentry)) (h : N) : list (N * option fentry) :=
  match p with
  | [] => []
  | (k, r) :: p' => if N.eqb k h then p' else (k, r) :: pending_remove p' h
  end.

(* ---- main loop: hash := queue.Next(); tasksCache[hash] = InProgress; go worker ---- *)
Definition dispatch_state (s : fstate) (h : N) : fstate :=
  {| st_queue := queue_remove (st_queue s) h;
     st_cache := cache_set (st_cache s) h TInProgress;
     st_fetching := st_fetching s ++ [h];
     st_pending := st_pending s;
     st_results := st_results s; st_min := st_min s; st_max := st_max s;
     st_timedout := st_timedout s;
     st_requests := st_requests s ++ [h] |}.

(* ---- worker: fetchEntry returned r; processDone() ---- *)
Definition return_state (s : fstate) (h : N) (r : option fentry) : fstate :=
  {| st_queue := st_queue s; st_cache := st_cache s;
     st_fetching := remove_first (st_fetching s) h;
     st_pending := st_pending s ++ [(h, r)];
     st_results := st_results s; st_min := st_min s; st_max := st_max s;
     st_timedout := st_timedout s; st_requests := st_requests s |}.

(* Fetcher.updateClock entry lastEntry: returns (minClock, maxClock) *)
Definition last_opt {A} (l : list A) : option A :=
  match rev l with [] => None | x :: _ => Some x end.

Definition update_clock (mn mx : Z) (e : fentry) (last : option fentry) : Z * Z :=
  let ts := fe_time e in
  let mx' := if mx <? ts then ts else mx in
  let mn' := match last with
             | Some l => if fe_time l <? mn then fe_time l else mn
             | None => mx'
             end in
  (mn', mx').

Definition zlen {A} (l : list A) : Z := Z.of_nat (length l).

(* admission test of processQueue l.147-149 *)
Definition admits (len : Z) (results : list fentry) (mn : Z) (e : fentry) : bool :=
  let is_later := (len <=? zlen results) && (mn <=? fe_time e) in
  (len <? 0) || (zlen results <? len) || is_later.

(* Fetcher.addNextEntry (results = the result slice AFTER the possible append) *)
Definition add_next (cfg : config) (mn mx : Z) (e : fentry) (results : list fentry)
  (qc : queue * cache) : queue * cache :=
  let len := cf_length cfg in
  let ts := fe_time e in
  if len <? 0 then add_hashes cfg (fe_refs e) (add_hashes cfg (fe_next e) qc)
  else
    let qc1 := if (zlen results <? len) || (mn <? ts) || (ts =? mn)
               then add_indexed cfg (fun _ => mx - ts) 0 (fe_next e) qc else qc in
    if zlen results + zlen (fe_refs e) <=? len
    then add_indexed cfg (fun i => mx - ts + (i + 1) * i) 0 (fe_refs e) qc1 else qc1.

(* the critical section of a worker whose fetch produced the entry e *)
Definition process (cfg : config) (s : fstate) (e : fentry) : fstate :=
  let '(mn, mx) := update_clock (st_min s) (st_max s) e (last_opt (st_results s)) in
  match cache_get (st_cache s) (fe_hash e) with
  | Some TDone =>
      {| st_queue := st_queue s; st_cache := st_cache s; st_fetching := st_fetching s;
         st_pending := st_pending s; st_results := st_results s; st_min := mn; st_max := mx;
         st_timedout := st_timedout s; st_requests := st_requests s |}
  | _ =>   (* taskKindAdded (also the zero value of a missing key) or taskKindInProgress *)
      let results' := if admits (cf_length cfg) (st_results s) mn e
                      then st_results s ++ [e] else st_results s in
      let c1 := cache_set (st_cache s) (fe_hash e) TDone in
      let qc := add_next cfg mn mx e results' (st_queue s, c1) in
      {| st_queue := fst qc; st_cache := snd qc; st_fetching := st_fetching s;
         st_pending := st_pending s; st_results := results'; st_min := mn; st_max := mx;
         st_timedout := st_timedout s; st_requests := st_requests s |}
  end.

Definition drop_pending (s : fstate) (h : N) : fstate :=
  {| st_queue := st_queue s; st_cache := st_cache s; st_fetching := st_fetching s;
     st_pending := pending_remove (st_pending s) h;
     st_results := st_results s; st_min := st_min s; st_max := st_max s;
     st_timedout := st_timedout s; st_requests := st_requests s |}.

Definition complete_state (cfg : config) (s : fstate) (h : N) (r : option fentry) : fstate :=
  let s1 := drop_pending s h in
  match r with
  | Some e => process cfg s1 e
  | None => s1
  end.

Definition timeout_state (s : fstate) : fstate :=
  {| st_queue := st_queue s; st_cache := st_cache s; st_fetching := st_fetching s;
     st_pending := st_pending s; st_results := st_results s; st_min := st_min s;
     st_max := st_max s; st_timedout := true; st_requests := st_requests s |}.

(* ------------------------------------------------------------------------------------------ *)
(* (a) the transition relation                                                                 *)

Inductive event := EvDispatch (h : N) | EvReturn (h : N) (ok : bool) | EvComplete (h : N) | EvTimeout.

(* What a Get may answer: the stored entry; nothing when the block is absent / failing /
   undecodable; and once the context has expired possibly an error although the block exists. *)
Definition return_value (cfg : config) (s : fstate) (h : N) (ok : bool) (r : option fentry) : Prop :=
  if ok then r = store_get (cf_store cfg) h /\ r <> None
  else r = None /\ (store_get (cf_store cfg) h = None \/ st_timedout s = true).

Inductive step (cfg : config) : fstate -> event -> fstate -> Prop :=
| StepDispatch s h p :
    st_timedout s = false ->                                  (* acquireProcessSlot(ctx) = nil *)
    (length (st_fetching s) < cf_conc cfg)%nat ->             (* a semaphore slot is free *)
    queue_find (st_queue s) h = Some p ->
    (forall p' h', In (p', h') (st_queue s) -> p <= p') ->    (* ANY element of minimal index *)
    step cfg s (EvDispatch h) (dispatch_state s h)
| StepReturn s h ok r :
    In h (st_fetching s) ->
    return_value cfg s h ok r ->
    step cfg s (EvReturn h ok) (return_state s h r)
| StepComplete s h r :
    pending_find (st_pending s) h = Some r ->
    step cfg s (EvComplete h) (complete_state cfg s h r)
| StepTimeout s :
    cf_timeout cfg = true -> st_timedout s = false ->
    step cfg s EvTimeout (timeout_state s).

(* processQueue returns when the loop has ended (queue empty, or acquire failed after the
   timeout) and taskInProgress = 0 *)
Definition terminal (s : fstate) : Prop :=
  st_fetching s = [] /\ st_pending s = [] /\ (st_queue s = [] \/ st_timedout s = true).

Inductive exec (cfg : config) : fstate -> list event -> fstate -> Prop :=
| ExecNil s : exec cfg s [] s
| ExecCons s ev s1 evs s2 : step cfg s ev s1 -> exec cfg s1 evs s2 -> exec cfg s (ev :: evs) s2.

Definition reachable_state (cfg : config) (starts : list N) (s : fstate) : Prop :=
  exists evs, exec cfg (init_state cfg starts) evs s.

(* ------------------------------------------------------------------------------------------ *)
(* (b) the executable validator                                                                *)

Definition exec_step (cfg : config) (s : fstate) (ev : event) : option fstate :=
  match ev with
  | EvDispatch h =>
      if st_timedout s then None
      else if negb (Nat.ltb (length (st_fetching s)) (cf_conc cfg)) then None
      else match queue_find (st_queue s) h with
           | Some p => if queue_min (st_queue s) p then Some (dispatch_state s h) else None
           | None => None
           end
  | EvReturn h ok =>
      if negb (mem h (st_fetching s)) then None
      else match store_get (cf_store cfg) h, ok with
           | Some e, true => Some (return_state s h (Some e))
           | None, true => None
           | None, false => Some (return_state s h None)
           | Some _, false => if st_timedout s then Some (return_state s h None) else None
           end
  | EvComplete h =>
      match pending_find (st_pending s) h with
      | Some r => Some (complete_state cfg s h r)
      | None => None
      end
  | EvTimeout =>
      if cf_timeout cfg && negb (st_timedout s) then Some (timeout_state s) else None
  end.

Fixpoint run_from (cfg : config) (s : fstate) (evs : list event) : option fstate :=
  match evs with
  | [] => Some s
  | ev :: evs' => match exec_step cfg s ev with
                  | Some s' => run_from cfg s' evs'
                  | None => None
                  end
  end.

Definition run_trace (cfg : config) (starts : list N) (evs : list event) : option fstate :=
  run_from cfg (init_state cfg starts) evs.

Definition terminalb (s : fstate) : bool :=
  match st_fetching s, st_pending s with
  | [], [] => match st_queue s with [] => true | _ => st_timedout s end
  | _, _ => false
  end.

(* A deterministic schedule, used by examples and by the loader models when only SOME execution
   is needed: dispatch the first minimal element when a slot is free, else return / complete
   the oldest task.  [fuel] bounds the number of events. *)
Definition first_min_of (q : queue) : option N :=
  (fix go (l : queue) := match l with
                         | [] => None
                         | (p, h) :: l' => if queue_min q p then Some h else go l'
                         end) q.

Definition next_event (cfg : config) (s : fstate) : option event :=
  match st_pending s with
  | (h, _) :: _ => Some (EvComplete h)
  | [] =>
    match st_fetching s with
    | h :: _ => Some (EvReturn h (match store_get (cf_store cfg) h with Some _ => true | None => false end))
    | [] => if st_timedout s then None
            else match first_min_of (st_queue s) with
                 | Some h => Some (EvDispatch h)
                 | None => None
                 end
    end
  end.

Fixpoint run_seq (cfg : config) (fuel : nat) (s : fstate) : option fstate :=
  match next_event cfg s with
  | None => Some s
  | Some ev =>
      match fuel with
      | O => None                                   (* out of fuel *)
      | S fuel' => match exec_step cfg s ev with
                   | Some s' => run_seq cfg fuel' s'
                   | None => None
                   end
      end
  end.

(* ------------------------------------------------------------------------------------------ *)
(* termination measure: 4 * unseen + 3 * queued + 2 * fetching + pending, doubled, plus one
   for the timeout that has not yet happened                                                   *)

Definition store_links (st : store) : list N := flat_map (fun kv => fe_links (snd kv)) st.
Definition universe (cfg : config) (starts : list N) : list N :=
  nodup N.eq_dec (starts ++ store_links (cf_store cfg)).
Definition unseen (cfg : config) (starts : list N) (c : cache) : nat :=
  length (filter (fun h => negb (cached c h)) (universe cfg starts)).
Definition fmeasure (cfg : config) (starts : list N) (s : fstate) : nat :=
  2 * (4 * unseen cfg starts (st_cache s) + 3 * length (st_queue s)
       + 2 * length (st_fetching s) + length (st_pending s))
  + (if st_timedout s then 0 else 1).

(* ------------------------------------------------------------------------------------------ *)
(* reachability in the store                                                                   *)

Definition wanted (cfg : config) (h : N) : Prop := h <> 0%N /\ cf_excl cfg h = false.

(* hashes the fetcher has a reason to request: the start hashes and the links of every
   retrievable requested block, except undefined and excluded ones *)
Inductive requested (cfg : config) (starts : list N) : N -> Prop :=
| req_start h : In h starts -> wanted cfg h -> requested cfg starts h
| req_link h e h' : requested cfg starts h -> store_get (cf_store cfg) h = Some e ->
    In h' (fe_links e) -> wanted cfg h' -> requested cfg starts h'.

(* entries reachable from the start hashes along paths of retrievable, non-excluded entries *)
Definition reachable (cfg : config) (starts : list N) (h : N) : Prop :=
  requested cfg starts h /\ store_get (cf_store cfg) h <> None.

(* the same along [next] links only (the log's own predecessor relation) *)
Inductive next_reach (cfg : config) (starts : list N) : N -> Prop :=
| nr_start h : In h starts -> wanted cfg h -> next_reach cfg starts h
| nr_link h e h' : next_reach cfg starts h -> store_get (cf_store cfg) h = Some e ->
    In h' (fe_next e) -> wanted cfg h' -> next_reach cfg starts h'.

(* ------------------------------------------------------------------------------------------ *)
(* loaders                                                                                     *)

Definition fkey (e : fentry) : skey N :=
  {| sk_time := fe_time e; sk_id := fe_id e; sk_hash := fe_hash e |}.

(* sorting.NoZeroes(sorting.LastWriteWins), sorting.Compare on entries *)
Definition cmp_lww (a b : fentry) : cres := no_zeroes N (last_write_wins N ncmp) (fkey a) (fkey b).
Definition cmp_clock (a b : fentry) : cres := compare_clocks N ncmp (fkey a) (fkey b).

(* log_io.go entrySlice *)
Definition entry_slice {A} (l : list A) (index : Z) : list A :=
  let len := zlen l in
  if (len =? 0) || (len <=? index) then []
  else if (index =? 0) || ((index <? 0) && (len <=? - index)) then l
  else if 0 <? index then skipn (Z.to_nat index) l
  else skipn (Z.to_nat (len + index)) l.

(* log_io.go entrySliceRange *)
Definition entry_slice_range {A} (l : list A) (from to : Z) : list A :=
  let len := zlen l in
  if len =? 0 then []
  else
    let from := if from <? 0 then (if len + from <? 0 then 0 else len + from) else from in
    let to := if to <? 0 then len + to else to in
    if len <=? from then []
    else
      let to := if len <? to then len else to in
      if to <=? from then []
      else firstn (Z.to_nat (to - from)) (skipn (Z.to_nat from) l).

Definition has_hash (h : N) (l : list fentry) : bool := existsb (fun e => N.eqb (fe_hash e) h) l.
Fixpoint find_hash (h : N) (l : list fentry) : option fentry :=
  match l with
  | [] => None
  | e :: l' => if N.eqb (fe_hash e) h then Some e else find_hash h l'
  end.

(* entry.NewOrderedMapFromEntries(..).Slice(): first occurrence of every hash, in order.
   (Set on an existing key replaces the value in place; equal hashes carry equal entries.) *)
Fixpoint uniq_from (seen : list N) (l : list fentry) : list fentry :=
  match l with
  | [] => []
  | e :: l' => if mem (fe_hash e) seen then uniq_from seen l'
               else e :: uniq_from (fe_hash e :: seen) l'
  end.
Definition ordered_map (l : list fentry) : list fentry := uniq_from [] l.

(* entry.Difference a b: the entries of b that are not in a, each once *)
Fixpoint difference_from (a : list fentry) (processed : list N) (b : list fentry) : list fentry :=
  match b with
  | [] => []
  | v :: b' => if has_hash (fe_hash v) a || mem (fe_hash v) processed
               then difference_from a processed b'
               else v :: difference_from a (fe_hash v :: processed) b'
  end.
Definition difference (a b : list fentry) : list fentry := difference_from a [] b.

(* entry.FindHeads (entry/utils.go): entries no entry names in next, stably sorted by clock id *)
Definition find_heads (entries : list fentry) : list fentry :=
  let named := flat_map fe_next entries in
  gosort (fun a b => N.ltb (fe_id a) (fe_id b))
         (filter (fun e => negb (mem (fe_hash e) named)) entries).

(* the part of an IPFSLog a loader determines *)
Record loaded := {
  lg_id : N;
  lg_entries : list fentry;      (* Entries, in insertion order *)
  lg_heads : list fentry         (* heads, in insertion order *)
}.

(* NewLog(ID, Entries, Heads): heads default to FindHeads when none are given *)
Definition new_log (id : N) (entries heads : list fentry) : loaded :=
  let entries := ordered_map entries in
  let heads := match heads, entries with
               | [], _ :: _ => find_heads entries
               | _, _ => heads
               end in
  {| lg_id := id; lg_entries := entries; lg_heads := ordered_map heads |}.

(* Each loader is a function of the fetch result [fetched] (any terminal result list of the
   fetcher started with [*_starts] and length [*_fetch_len]); [n < 0] stands for "no limit"
   (Length = nil or negative).  The definitions follow log_io.go as of commit ba56479 (the
   length-limited loaders repair); the behaviour before that commit is kept below as
   [*_before_fix] for the regression witnesses of Props/C10.v. *)

(* log_io.go lastEntries: the last n entries (none when n <= 0, all when n >= len) *)
Definition last_n {A} (n : Z) (l : list A) : list A :=
  skipn (Nat.sub (length l) (Z.to_nat n)) l.

(* the head selection of fromMultihash + NewFromMultihash: manifest heads that were loaded *)
Definition multihash_heads (mheads : list N) (entries : list fentry) : list fentry :=
  let heads := flat_map (fun e => map (fun _ => fe_hash e)
                                      (filter (fun h => N.eqb h (fe_hash e)) mheads)) entries in
  let emap := ordered_map entries in
  flat_map (fun h => match find_hash h emap with Some e => [e] | None => [] end) heads.

(* fromMultihash + NewFromMultihash.  mheads = heads in the manifest *)
Definition multihash_fetch_len (n : Z) : Z := if n <? 0 then -1 else n.
Definition load_multihash (id : N) (mheads : list N) (n : Z) (fetched : list fentry) : loaded :=
  let entries := if -1 <? n then last_n n (sort_go cmp_lww false fetched) else fetched in
  new_log id entries (multihash_heads mheads entries).

(* fromEntryHash + NewFromEntryHash.  the fetcher gets options.Length, the trim max(n,1) *)
Definition entryhash_fetch_len (n : Z) : Z := if n <? 0 then -1 else n.
Definition load_entryhash (id : N) (n : Z) (fetched : list fentry) : loaded :=
  let length := if -1 <? n then Z.max n 1 else -1 in
  let entries := if -1 <? length then last_n length (sort_go cmp_lww false fetched)
                 else fetched in
  new_log id entries [].

(* fromJSON + NewFromJSON: sorts, trims to Length, ignores the JSON heads *)
Definition json_fetch_len (n : Z) : Z := if n <? 0 then -1 else n.
Definition load_json (id : N) (n : Z) (fetched : list fentry) : loaded :=
  let sorted := sort_go cmp_clock false fetched in
  new_log id (if -1 <? n then last_n n sorted else sorted) [].

(* fromEntry + NewFromEntry: every supplied entry, then the most recent of the others *)
Definition entry_fetch_len (n : Z) (source : list fentry) : Z :=
  if -1 <? n then Z.max n (zlen source) else -1.
Definition from_entry_values (n : Z) (source fetched : list fentry) : list fentry :=
  let length := entry_fetch_len n source in
  let src := ordered_map source in
  let others := sort_go cmp_clock false
                  (filter (fun e => negb (has_hash (fe_hash e) src)) (ordered_map fetched)) in
  if -1 <? length then src ++ last_n (length - zlen src) others else src ++ others.
Definition load_entry (n : Z) (source fetched : list fentry) : option loaded :=
  let result := from_entry_values n source fetched in
  match last_opt result with
  | Some l => Some (new_log (fe_logid l) result [])
  | None => None                        (* result[len(result)-1] panics: index out of range *)
  end.

(* ---- the loaders BEFORE commit ba56479 (regression witnesses only; not the current code) ---- *)

(* entrySlice(sorted, -n): n = 0 returned everything *)
Definition load_multihash_before_fix (id : N) (mheads : list N) (n : Z) (fetched : list fentry) : loaded :=
  let entries := if -1 <? n then entry_slice (sort_go cmp_lww false fetched) (- n) else fetched in
  new_log id entries (multihash_heads mheads entries).

(* never trimmed *)
Definition load_json_before_fix (id : N) (n : Z) (fetched : list fentry) : loaded :=
  new_log id (sort_go cmp_clock false fetched) [].

(* last-n window of everything, then missing sources put back in place of the oldest elements *)
Definition from_entry_values_before_fix (n : Z) (source fetched : list fentry) : list fentry :=
  let length := entry_fetch_len n source in
  let uniques := sort_go cmp_clock false (ordered_map (source ++ fetched)) in
  let sliced := if -1 <? length then entry_slice uniques (- length) else uniques in
  let missing := difference sliced source in
  missing ++ entry_slice_range sliced (zlen missing) (zlen sliced).
