(* Correspondence checker for C20: replays the operation histories the harness ran against real
   keystore.Keystore instances (and identityprovider.CreateIdentity / Provider.Sign) on the model
   of Model/Keystore.v and reports the indices of the histories on which an observed output
   differs from the model's.

   Canonical numbering used by the harness:
     ids      plain ids "id-<n>" -> n (1 <= n < hexbase); the hex id of the public key of the
              key with generation index k -> hexbase + k
     keys     generation index (1, 2, ...) of the key as CreateKey produced it in this history
   For executing [create_identity]/[sign_with] the abstract crypto is instantiated by a symbolic
   scheme in which a public key IS the key index, a signature starts with the signer's index and
   the id numbering maps the hex text of a public key to hexbase + index. *)
From IpfsLog Require Import Model.Keystore.
Open Scope N_scope.

Definition hexbase : N := 1000000.

Definition sym_pub (k : key) : N := k.
Definition sym_pkc (p : N) : list N := [p / 256; p mod 256].
Definition sym_pku (p : N) : list N := 4 :: sym_pkc p.
Definition sym_sign (k : key) (m : list N) : list N := k :: m.
Definition sym_idnum (s : list N) : kid :=
  match unhex s with
  | Some [a; b] => hexbase + (256 * a + b)
  | _ => match s with [u] => u | _ => 0 end
  end.

Definition output_eqb (a b : output) : bool :=
  match a, b with
  | KOut_key x, KOut_key y => x =? y
  | KOut_bool x, KOut_bool y => Bool.eqb x y
  | KOut_err, KOut_err => true
  | KOut_unit, KOut_unit => true
  | _, _ => false
  end.

(* The transition function the implementation is compared with.  The tree as it is: [step] (HasKey
   with its defect).  After the HasKey fix is committed switch this to [step_fixed]. *)
Definition step_under_test : nat -> state -> op -> state * output := step_fixed.

Inductive hitem :=
| HOp (o : op) (out : output)
    (* a primitive operation and what the implementation answered *)
| HIdent (i : nat) (uid : N) (k1 k2 : key) (a b : N)
    (* CreateIdentity on keystore i for plain id uid; k1/k2: the keys generated inside the call for
       uid / for the hex id (0 when none was generated); observed: Identity.ID is the hex of the
       compressed public key of key a, Identity.PublicKey the uncompressed public key of key b *)
| HSign (i : nat) (a b : N) (signer : N).
    (* Provider.Sign(identity (a,b), data) on keystore i; observed: the signature verifies under
       the public key of key [signer] (0: error / no known key) *)

Definition sym_identity (a b : N) : identity :=
  identity_of_keys N sym_pub sym_pkc sym_pku sym_sign a b.

Fixpoint list_N_eqb (x y : list N) : bool :=
  match x, y with
  | [], [] => true
  | a :: x', b :: y' => (a =? b) && list_N_eqb x' y'
  | _, _ => false
  end.

(* one item: new state and whether model and implementation agree *)
Definition replay_item (cap : nat) (st : state) (h : hitem) : state * bool :=
  match h with
  | HOp o out => let (st', mout) := step_under_test cap st o in (st', output_eqb mout out)
  | HIdent i uid k1 k2 a b =>
      let (st', r) := create_identity cap N sym_pub sym_pkc sym_pku sym_sign sym_idnum st i [uid] k1 k2 in
      (st', match r with
            | Some idn => list_N_eqb (i_id idn) (hex (sym_pkc a)) && list_N_eqb (i_pub idn) (sym_pku b)
            | None => false
            end)
  | HSign i a b signer =>
      let (st', r) := sign_with cap sym_sign sym_idnum st i (sym_identity a b) [] in
      (st', match r with
            | Some (s :: _) => s =? signer
            | _ => signer =? 0
            end)
  end.

Fixpoint replay (cap : nat) (st : state) (n : nat) (hs : list hitem) : list nat :=
  match hs with
  | [] => []
  | h :: r => let (st', ok) := replay_item cap st h in
              if ok then replay cap st' (S n) r else n :: replay cap st' (S n) r
  end.

(* the primitive view of a history, for checking the premise *)
Definition item_ops (h : hitem) : list op :=
  match h with
  | HOp o _ => [o]
  | HIdent i uid k1 k2 a _ => [KGetOrCreate i uid k1; KGetOrCreate i (hexbase + a) k2]
  | HSign _ _ _ _ => []
  end.

Record hist_case := {
  hc_cap : nat;            (* capacity of the LRU in the code under test *)
  hc_once : bool;          (* the generator claims: every id raw-created at most once *)
  hc_items : list hitem
}.

Definition check_hist (c : hist_case) : bool :=
  match replay (hc_cap c) init_state 0 (hc_items c) with
  | [] => if hc_once c then syn_okb [] (flat_map item_ops (hc_items c)) else true
  | _ => false
  end.

Fixpoint mismatches20 {A} (chk : A -> bool) (i : nat) (l : list A) : list nat :=
  match l with
  | [] => []
  | c :: l' => if chk c then mismatches20 chk (S i) l' else i :: mismatches20 chk (S i) l'
  end.

Definition mismatches_hist := mismatches20 check_hist 0.

(* first disagreeing positions of one history (for replay/debugging) *)
Definition disagreements (c : hist_case) : list nat := replay (hc_cap c) init_state 0 (hc_items c).
