(* Concurrency model for C13 / C14 (DESIGN.md section 6).

   1. The event language emitted by tools/genlocks (coq/Gen/Locks.v is data of these types).
   2. A small-step semantics for any number of goroutines, each running a list of events over
      any number of locks/locations, with the semantics of Go's sync.RWMutex including writer
      preference (a writer first announces itself; from then on new readers block).
   3. Executable checkers on event lists (well_locked [wl], no nested acquisition [nn], ...)
      which the theorems of Proofs/ConcProofs.v show to be sufficient for data-race freedom,
      deadlock freedom and serialisation of critical sections, once and for all programs.
   4. The expansion of generated paths (relative names: self / other / local mutex) into
      semantic programs, and the renaming to concrete instances.
   5. A self-contained model of the source log seen by Join (C14 snapshot theorem).

   Definitions only; everything here is executable (vm_compute friendly).                  *)
From Coq Require Import List String Bool Arith NArith Lia.
Import ListNotations.
Open Scope string_scope.
Open Scope list_scope.

(* ------------------------------------------------------------------------------------- *)
(** * 1. Generated event language *)

Inductive mode := R | W.
Inductive lk := LSelf | LLocal (name : string).

Inductive bev :=
| Acq (l : lk) (m : mode)          (* X.lock.Lock()/RLock(), mu.Lock() *)
| Rel (l : lk) (m : mode)
| PtrRd (f : string)               (* read of the field variable l.f *)
| PtrWr (f : string)               (* assignment to l.f *)
| ObjRd (f : string)               (* read-only method call on the ordered map held in l.f (or an alias) *)
| ObjWr (f : string)               (* mutating call (Set / Reverse) *)
| Foreign (m : string)             (* call of method m on ANOTHER log *)
| ForeignObjRd (m : string)        (* read of the map returned by other.m() *)
| CapRd (x : string)               (* access to a local shared with spawned closures *)
| CapWr (x : string)
| Send (c : string) | Close (c : string)
| Hook (h : string).               (* verifhook.Yield point *)

Inductive gev :=
| B (e : bev)
| Spawn (alts : list (list bev))   (* go func(){..}() : the child runs one of the alternatives *)
| WaitChildren.

Definition path := list gev.

Definition mode_eqb (a b : mode) : bool :=
  match a, b with R, R => true | W, W => true | _, _ => false end.

(* ------------------------------------------------------------------------------------- *)
(** * 2. Semantics *)

Section Sem.
  Variable lock loc : Type.

  Inductive act :=
  | AAcq (l : lock) (m : mode)
  | ARel (l : lock) (m : mode)
  | ARd (x : loc)
  | AWr (x : loc)
  | ANop.

  Inductive ev :=
  | EB (a : act)
  | ESpawn (alts : list (list act))
  | EWait.

  Record thread := mkT {
    code   : list ev;
    held   : list (lock * mode);       (* locks this goroutine holds (a read lock may occur twice) *)
    ann    : option lock;              (* announced as pending writer of this lock *)
    frozen : option (list lock);       (* Some F: locks shared with the family while children may be live
                                          (parent: held at the first spawn; child: held by the parent at spawn) *)
    parent : option nat }.

  Definition state := list thread.

  Fixpoint upd {A} (s : list A) (i : nat) (t : A) : list A :=
    match s, i with
    | [], _ => []
    | _ :: r, O => t :: r
    | x :: r, S j => x :: upd r j t
    end.

  Variable lock_eqb : lock -> lock -> bool.

  Definition hm_eqb (a b : lock * mode) := lock_eqb (fst a) (fst b) && mode_eqb (snd a) (snd b).

  Fixpoint rm1 (x : lock * mode) (h : list (lock * mode)) :=
    match h with
    | [] => []
    | y :: r => if hm_eqb x y then r else y :: rm1 x r
    end.

  Definition locks (h : list (lock * mode)) : list lock := map fst h.
  Definition froz (F : option (list lock)) : list lock := match F with Some l => l | None => [] end.

  Definition is_acc (a : act) : bool :=
    match a with ARd _ | AWr _ | ANop => true | _ => false end.

  Inductive lab := Tau | Do (a : act) | DoSpawn | DoWait.

  (* Go's sync.RWMutex:
     Lock  = take the writer mutex and announce (st_ann; possible when no other writer has announced
             or holds), then wait until no reader is left (st_acqW);
     RLock = possible only while no writer holds or has announced (writer preference);
     a goroutine that already holds the lock gets no special treatment (no re-entrancy). *)
  Inductive step (s : state) : nat -> lab -> state -> Prop :=
  | st_ann i t l k :
      nth_error s i = Some t -> code t = EB (AAcq l W) :: k -> ann t = None ->
      (forall j u, nth_error s j = Some u -> ann u <> Some l /\ ~ In (l, W) (held u)) ->
      step s i Tau (upd s i (mkT (code t) (held t) (Some l) (frozen t) (parent t)))
  | st_acqW i t l k :
      nth_error s i = Some t -> code t = EB (AAcq l W) :: k -> ann t = Some l ->
      (forall j u, nth_error s j = Some u -> forall m, ~ In (l, m) (held u)) ->
      step s i (Do (AAcq l W)) (upd s i (mkT k ((l, W) :: held t) None (frozen t) (parent t)))
  | st_acqR i t l k :
      nth_error s i = Some t -> code t = EB (AAcq l R) :: k ->
      (forall j u, nth_error s j = Some u -> ann u <> Some l /\ ~ In (l, W) (held u)) ->
      step s i (Do (AAcq l R)) (upd s i (mkT k ((l, R) :: held t) (ann t) (frozen t) (parent t)))
  | st_rel i t l m k :
      nth_error s i = Some t -> code t = EB (ARel l m) :: k -> In (l, m) (held t) ->
      step s i (Do (ARel l m)) (upd s i (mkT k (rm1 (l, m) (held t)) (ann t) (frozen t) (parent t)))
  | st_acc i t a k :
      nth_error s i = Some t -> code t = EB a :: k -> is_acc a = true ->
      step s i (Do a) (upd s i (mkT k (held t) (ann t) (frozen t) (parent t)))
  | st_spawn i t alts body k :
      nth_error s i = Some t -> code t = ESpawn alts :: k -> In body alts ->
      step s i DoSpawn
           (upd s i (mkT k (held t) (ann t)
                         (Some (match frozen t with Some F => F | None => locks (held t) end)) (parent t))
            ++ [mkT (map EB body) [] None (Some (locks (held t))) (Some i)])
  | st_wait i t k :
      nth_error s i = Some t -> code t = EWait :: k ->
      (forall j u, nth_error s j = Some u -> parent u = Some i -> code u = []) ->
      step s i DoWait (upd s i (mkT k (held t) (ann t) None (parent t))).

  Inductive reach (s0 : state) : state -> Prop :=
  | reach_refl : reach s0 s0
  | reach_step s i l s' : reach s0 s -> step s i l s' -> reach s0 s'.

  Definition init (progs : list (list ev)) : state :=
    map (fun p => mkT p [] None None None) progs.

  (* --------------------------------------------------------------------------------- *)
  (** ** Checkers *)
  Variable guard : loc -> lock.     (* the lock meant to protect a location *)
  Variable ro : loc -> bool.        (* locations that are never written (reads need no lock) *)
  Variable priv : loc -> bool.      (* locations private to one invocation (locals shared with its goroutines) *)
  Variable owner : loc -> nat.      (* ... and the top-level goroutine they belong to *)
  Variable leaf : lock -> bool.     (* leaf locks: nothing is acquired/awaited while holding one *)

  Definition has (l : lock) (h : list (lock * mode)) : bool :=
    existsb (fun p => lock_eqb (fst p) l) h.
  Definition hasW (l : lock) (h : list (lock * mode)) : bool :=
    existsb (fun p => lock_eqb (fst p) l && mode_eqb (snd p) W) h.
  Definition memh (x : lock * mode) (h : list (lock * mode)) : bool := existsb (hm_eqb x) h.
  Definition infroz (l : lock) (F : option (list lock)) : bool := existsb (lock_eqb l) (froz F).
  Definition is_nil {A} (l : list A) : bool := match l with [] => true | _ => false end.
  Definition is_none {A} (o : option A) : bool := match o with None => true | _ => false end.
  Fixpoint list_eqb (a b : list lock) : bool :=
    match a, b with
    | [], [] => true
    | x :: a', y :: b' => lock_eqb x y && list_eqb a' b'
    | _, _ => false
    end.

  (* an access is covered: a write needs the guard in W mode, taken by this goroutine itself and
     not shared with its family; a read needs the guard in any mode, held by this goroutine or
     (for a spawned child / a parent with live children) by the family; a private location may
     also be accessed by its top-level goroutine while it has no live children (before the first
     spawn / after the wait: ordered by go-statement and WaitGroup happens-before) *)
  Definition alone (child : bool) (F : option (list lock)) (x : loc) : bool :=
    priv x && negb child && is_none F.
  Definition acc_ok (child : bool) (h : list (lock * mode)) (F : option (list lock)) (a : act) : bool :=
    match a with
    | ARd x => ro x || has (guard x) h || infroz (guard x) F || alone child F x
    | AWr x => negb (ro x) && ((hasW (guard x) h && negb (infroz (guard x) F)) || alone child F x)
    | _ => true
    end.

  (* private locations mentioned by a program belong to goroutine r *)
  Definition pv_act (r : nat) (a : act) : bool :=
    match a with
    | ARd x | AWr x => negb (priv x) || Nat.eqb (owner x) r
    | _ => true
    end.
  Definition pv_ev (r : nat) (e : ev) : bool :=
    match e with
    | EB a => pv_act r a
    | ESpawn alts => forallb (forallb (pv_act r)) alts
    | EWait => true
    end.
  Definition pv (r : nat) (c : list ev) : bool := forallb (pv_ev r) c.

  (* spawned bodies (basic events only) *)
  Fixpoint wlb (h : list (lock * mode)) (F : option (list lock)) (c : list act) : bool :=
    match c with
    | [] => is_nil h
    | AAcq l m :: k => wlb ((l, m) :: h) F k
    | ARel l m :: k => memh (l, m) h && negb (infroz l F) && wlb (rm1 (l, m) h) F k
    | a :: k => acc_ok true h F a && wlb h F k
    end.

  (* well_locked: balanced lock usage, every access covered, no release of a family lock while
     children may be live, every spawn is eventually awaited *)
  Fixpoint wl (child : bool) (h : list (lock * mode)) (F : option (list lock)) (c : list ev) : bool :=
    match c with
    | [] => is_nil h && (child || is_none F)
    | EB (AAcq l m) :: k => wl child ((l, m) :: h) F k
    | EB (ARel l m) :: k => memh (l, m) h && negb (infroz l F) && wl child (rm1 (l, m) h) F k
    | EB a :: k => acc_ok child h F a && wl child h F k
    | ESpawn alts :: k =>
        negb child
        && (match F with None => true | Some F' => list_eqb (locks h) F' end)
        && forallb (fun body => wlb [] (Some (locks h)) body) alts
        && wl child h (Some (match F with Some F' => F' | None => locks h end)) k
    | EWait :: k => negb child && wl child h None k
    end.

  Definition has_leaf (h : list (lock * mode)) : bool := existsb (fun p => leaf (fst p)) h.

  (* no nested acquisition: a non-leaf lock is only acquired by a top-level goroutine holding
     nothing; a leaf lock only while holding no other leaf lock; while a leaf lock is held the
     goroutine only accesses and releases *)
  Fixpoint nnb (h : list (lock * mode)) (c : list act) : bool :=
    match c with
    | [] => is_nil h
    | AAcq l m :: k => (if leaf l then negb (has_leaf h) else false) && nnb ((l, m) :: h) k
    | ARel l m :: k => memh (l, m) h && nnb (rm1 (l, m) h) k
    | _ :: k => nnb h k
    end.

  Fixpoint nn (child : bool) (h : list (lock * mode)) (c : list ev) : bool :=
    match c with
    | [] => is_nil h
    | EB (AAcq l m) :: k =>
        (if leaf l then negb (has_leaf h) else negb child && is_nil h) && nn child ((l, m) :: h) k
    | EB (ARel l m) :: k => memh (l, m) h && nn child (rm1 (l, m) h) k
    | EB _ :: k => nn child h k
    | ESpawn alts :: k =>
        negb child && negb (has_leaf h) && negb (is_nil alts)
        && forallb (fun body => nnb [] body) alts && nn child h k
    | EWait :: k => negb child && negb (has_leaf h) && nn child h k
    end.

End Sem.

Arguments AAcq {lock loc}. Arguments ARel {lock loc}. Arguments ARd {lock loc}. Arguments AWr {lock loc}.
Arguments ANop {lock loc}. Arguments EB {lock loc}. Arguments ESpawn {lock loc}. Arguments EWait {lock loc}.
Arguments mkT {lock loc}. Arguments code {lock loc}. Arguments held {lock loc}. Arguments ann {lock loc}.
Arguments frozen {lock loc}. Arguments parent {lock loc}.
Arguments Tau {lock loc}. Arguments Do {lock loc}. Arguments DoSpawn {lock loc}. Arguments DoWait {lock loc}.

(* ------------------------------------------------------------------------------------- *)
(** * 3. Renaming of locks and locations *)
Section Rename.
  Variables lock1 loc1 lock2 loc2 : Type.
  Variable fl : lock1 -> lock2.
  Variable fx : loc1 -> loc2.
  Definition ren_act (a : act lock1 loc1) : act lock2 loc2 :=
    match a with
    | AAcq l m => AAcq (fl l) m
    | ARel l m => ARel (fl l) m
    | ARd x => ARd (fx x)
    | AWr x => AWr (fx x)
    | ANop => ANop
    end.
  Definition ren_ev (e : ev lock1 loc1) : ev lock2 loc2 :=
    match e with
    | EB a => EB (ren_act a)
    | ESpawn alts => ESpawn (map (map ren_act) alts)
    | EWait => EWait
    end.
  Definition ren_code (c : list (ev lock1 loc1)) := map ren_ev c.
End Rename.

(* ------------------------------------------------------------------------------------- *)
(** * 4. From generated paths to semantic programs *)

(* relative names, as one invocation sees them *)
Inductive rlock := RSelf | ROther | RLocal.
Inductive rloc :=
| RPtr (other : bool) (f : string)
| RObj (other : bool) (f : string)
| RCap (x : string).

Definition rlock_eqb (a b : rlock) : bool :=
  match a, b with RSelf, RSelf | ROther, ROther | RLocal, RLocal => true | _, _ => false end.
Definition rguard (x : rloc) : rlock :=
  match x with
  | RPtr false _ | RObj false _ => RSelf
  | RPtr true _ | RObj true _ => ROther
  | RCap _ => RLocal
  end.
Definition rleaf (l : rlock) : bool := match l with RLocal => true | _ => false end.
Definition rpriv (x : rloc) : bool := match x with RCap _ => true | _ => false end.

Definition mem_str (s : string) (l : list string) : bool := existsb (String.eqb s) l.

Section Expand.
  Variable table : list (string * list path).          (* the generated [ops] *)
  Variable ro_fields : list string.                     (* the generated [obj_readonly_fields] *)
  Variable ret_field : list (string * string).          (* the generated [returns_field] *)

  Definition rro (x : rloc) : bool :=
    match x with RObj _ f => mem_str f ro_fields | _ => false end.

  Fixpoint assoc {A} (k : string) (l : list (string * A)) : option A :=
    match l with
    | [] => None
    | (k', v) :: r => if String.eqb k k' then Some v else assoc k r
    end.

  Definition rl (other : bool) (l : lk) : rlock :=
    match l with LSelf => if other then ROther else RSelf | LLocal _ => RLocal end.

  (* one basic event seen from instance [other=false] (self) or from the callee of a Foreign call *)
  Definition simple_act (other : bool) (e : bev) : act rlock rloc :=
    match e with
    | Acq l m => AAcq (rl other l) m
    | Rel l m => ARel (rl other l) m
    | PtrRd f => ARd (RPtr other f)
    | PtrWr f => AWr (RPtr other f)
    | ObjRd f => ARd (RObj other f)
    | ObjWr f => AWr (RObj other f)
    | ForeignObjRd m =>
        match assoc m ret_field with Some f => ARd (RObj (negb other) f) | None => ANop end
    | CapRd x => ARd (RCap x)
    | CapWr x => AWr (RCap x)
    | Foreign _ | Send _ | Close _ | Hook _ => ANop
    end.

  (* a method may be the target of a Foreign call if its paths are flat lock/access sequences *)
  Definition foreign_simple_ev (e : gev) : bool :=
    match e with
    | B (Acq LSelf _) | B (Rel LSelf _) | B (PtrRd _) | B (PtrWr _) | B (ObjRd _) | B (ObjWr _) | B (Hook _) => true
    | _ => false
    end.
  Definition foreign_ok (m : string) : bool :=
    match assoc m table with
    | Some ps => negb (is_nil ps) && forallb (forallb foreign_simple_ev) ps
    | None => false
    end.
  Definition gev_bev (e : gev) : list bev := match e with B b => [b] | _ => [] end.

  (* alternatives for one event of a top-level path *)
  Definition expand_gev (e : gev) : list (list (ev rlock rloc)) :=
    match e with
    | B (Foreign m) =>
        match assoc m table with
        | Some ps => map (fun p => map (fun b => EB (simple_act true b)) (flat_map gev_bev p)) ps
        | None => [[]]
        end
    | B b => [[EB (simple_act false b)]]
    | Spawn alts => [[ESpawn (map (map (simple_act false)) alts)]]
    | WaitChildren => [[EWait]]
    end.

  Fixpoint expand (p : path) : list (list (ev rlock rloc)) :=
    match p with
    | [] => [[]]
    | e :: k => flat_map (fun pre => map (fun suf => pre ++ suf) (expand k)) (expand_gev e)
    end.

  (* every Foreign target is expandable, and spawned bodies contain no Foreign call *)
  Definition foreigns_of (p : path) : list string :=
    flat_map (fun e => match e with B (Foreign m) => [m] | _ => [] end) p.
  Definition spawn_foreign_free (p : path) : bool :=
    forallb (fun e => match e with
                      | Spawn alts => forallb (forallb (fun b => match b with Foreign _ => false | _ => true end)) alts
                      | _ => true end) p.
  Definition expandable (p : path) : bool :=
    forallb foreign_ok (foreigns_of p) && spawn_foreign_free p.

  Definition wl_r := wl rlock rloc rlock_eqb rguard rro rpriv.
  Definition nn_r := nn rlock rloc rlock_eqb rleaf.

  Definition well_locked (p : path) : bool :=
    expandable p && forallb (wl_r false [] None) (expand p).
  Definition no_nested_acquire (p : path) : bool :=
    expandable p && forallb (nn_r false []) (expand p).

End Expand.

(* --- purely textual facts on generated paths --- *)

(* number of Acq LSelf events, and are all guarded accesses inside the (single) section? *)
Definition is_self_acq (e : gev) : bool := match e with B (Acq LSelf _) => true | _ => false end.
Definition is_guarded_access (ro_fields : list string) (e : bev) : bool :=
  match e with
  | PtrRd _ | PtrWr _ | ObjWr _ => true
  | ObjRd f => negb (mem_str f ro_fields)
  | _ => false
  end.
Fixpoint sections_ok (ro_fields : list string) (depth : nat) (p : path) : bool :=
  match p with
  | [] => true
  | B (Acq LSelf _) :: k => sections_ok ro_fields (S depth) k
  | B (Rel LSelf _) :: k => sections_ok ro_fields (pred depth) k
  | B b :: k => (negb (is_guarded_access ro_fields b) || negb (Nat.eqb depth 0)) && sections_ok ro_fields depth k
  | _ :: k => sections_ok ro_fields depth k
  end.
(* at most one critical section on the receiver's lock, containing every guarded access:
   the operation is one atomic step with respect to the log's state *)
Definition single_section (ro_fields : list string) (p : path) : bool :=
  Nat.leb (List.length (filter is_self_acq p)) 1 && sections_ok ro_fields 0 p.

(* no Foreign call (a call that takes another log's lock) while the receiver's lock is held *)
Fixpoint no_foreign_under_lock_from (depth : nat) (p : path) : bool :=
  match p with
  | [] => true
  | B (Acq LSelf _) :: k => no_foreign_under_lock_from (S depth) k
  | B (Rel LSelf _) :: k => no_foreign_under_lock_from (pred depth) k
  | B (Foreign _) :: k => Nat.eqb depth 0 && no_foreign_under_lock_from depth k
  | _ :: k => no_foreign_under_lock_from depth k
  end.
Definition no_foreign_under_lock := no_foreign_under_lock_from 0.

Definition foreign_seq (p : path) : list string :=
  flat_map (fun e => match e with B (Foreign m) => [m] | _ => [] end) p.

Definition str_list_eqb (a b : list string) : bool :=
  (fix go a b := match a, b with
                 | [], [] => true
                 | x :: a', y :: b' => String.eqb x y && go a' b'
                 | _, _ => false end) a b.

(* the reads of the source log made by a merge, in textual order, must be: nothing (early
   return), the id only, or the id, then the heads exactly once, then the entries *)
Definition join_reads_ok (p : path) : bool :=
  let s := foreign_seq p in
  str_list_eqb s [] || str_list_eqb s ["GetID"] || str_list_eqb s ["GetID"; "RawHeads"; "GetEntries"].

(* every path that does not return before taking the lock closes the channel (used by C15) *)

(* report: (operation, path index, first offending event index or description) *)
Definition failing (chk : path -> bool) (ops : list (string * list path)) : list (string * nat) :=
  flat_map (fun '(name, ps) =>
              flat_map (fun '(i, p) => if chk p then [] else [(name, i)])
                       (combine (seq 0 (List.length ps)) ps)) ops.

Definition all_paths (chk : path -> bool) (ops : list (string * list path)) : bool :=
  forallb (fun '(_, ps) => forallb chk ps) ops.

Definition first_some {A B} (f : A -> option B) (l : list A) : option B :=
  fold_right (fun a acc => match f a with Some b => Some b | None => acc end) None l.

(* first offending event of a semantic program under wl / nn, for diagnostics *)
Section Diagnose.
  Variable lock loc : Type.
  Variable lock_eqb : lock -> lock -> bool.
  Variable guard : loc -> lock.
  Variable ro : loc -> bool.
  Variable priv : loc -> bool.
  Variable leaf : lock -> bool.
  Notation wlb := (wlb lock loc lock_eqb guard ro priv).
  Notation nnb := (nnb lock loc lock_eqb leaf).

  (* first offending event of a spawned body *)
  Fixpoint wlb_first_bad (h : list (lock * mode)) (F : option (list lock)) (c : list (act lock loc)) : option (act lock loc) :=
    match c with
    | [] => if is_nil h then None else Some ANop
    | AAcq l m :: k => wlb_first_bad ((l, m) :: h) F k
    | ARel l m :: k =>
        if memh lock lock_eqb (l, m) h && negb (infroz lock lock_eqb l F)
        then wlb_first_bad (rm1 lock lock_eqb (l, m) h) F k else Some (ARel l m)
    | a :: k => if acc_ok lock loc lock_eqb guard ro priv true h F a then wlb_first_bad h F k else Some a
    end.

  (* index of the first event at which the checker fails, with the event *)
  Fixpoint wl_first_bad (child : bool) (h : list (lock * mode)) (F : option (list lock))
           (c : list (ev lock loc)) (n : nat) : option (nat * option (ev lock loc)) :=
    match c with
    | [] => if is_nil h && (child || is_none F) then None else Some (n, None)
    | EB (AAcq l m) :: k => wl_first_bad child ((l, m) :: h) F k (S n)
    | EB (ARel l m) :: k =>
        if memh lock lock_eqb (l, m) h && negb (infroz lock lock_eqb l F)
        then wl_first_bad child (rm1 lock lock_eqb (l, m) h) F k (S n) else Some (n, Some (EB (ARel l m)))
    | EB a :: k =>
        if acc_ok lock loc lock_eqb guard ro priv child h F a then wl_first_bad child h F k (S n) else Some (n, Some (EB a))
    | ESpawn alts :: k =>
        if negb child
           && (match F with None => true | Some F' => list_eqb lock lock_eqb (locks lock h) F' end)
           && forallb (fun body => wlb [] (Some (locks lock h)) body) alts
        then wl_first_bad child h (Some (match F with Some F' => F' | None => locks lock h end)) k (S n)
        else Some (n, Some (match first_some (wlb_first_bad [] (Some (locks lock h))) alts with
                            | Some a => ESpawn [[a]]       (* the offending event inside the spawned body *)
                            | None => ESpawn alts end))
    | EWait :: k => if negb child then wl_first_bad child h None k (S n) else Some (n, Some EWait)
    end.

  Fixpoint nn_first_bad (child : bool) (h : list (lock * mode)) (c : list (ev lock loc)) (n : nat)
    : option (nat * option (ev lock loc)) :=
    match c with
    | [] => if is_nil h then None else Some (n, None)
    | EB (AAcq l m) :: k =>
        if (if leaf l then negb (has_leaf lock leaf h) else negb child && is_nil h)
        then nn_first_bad child ((l, m) :: h) k (S n) else Some (n, Some (EB (AAcq l m)))
    | EB (ARel l m) :: k =>
        if memh lock lock_eqb (l, m) h then nn_first_bad child (rm1 lock lock_eqb (l, m) h) k (S n)
        else Some (n, Some (EB (ARel l m)))
    | EB _ :: k => nn_first_bad child h k (S n)
    | ESpawn alts :: k =>
        if negb child && negb (has_leaf lock leaf h) && negb (is_nil alts)
           && forallb (fun body => nnb [] body) alts
        then nn_first_bad child h k (S n) else Some (n, Some (ESpawn alts))
    | EWait :: k =>
        if negb child && negb (has_leaf lock leaf h) then nn_first_bad child h k (S n) else Some (n, Some EWait)
    end.
End Diagnose.

Section Report.
  Variable table : list (string * list path).
  Variable ro_fields : list string.
  Variable ret_field : list (string * string).

  (* (operation, path index, which check, index of the offending event in the expanded program, event) *)
  Definition failing_paths (ops : list (string * list path))
    : list (string * nat * string * option (nat * option (ev rlock rloc))) :=
    flat_map (fun '(name, ps) =>
      flat_map (fun '(i, p) =>
        (if expandable table p then [] else [(name, i, "not-expandable", None)])
        ++ (match first_some (fun c => wl_first_bad rlock rloc rlock_eqb rguard (rro ro_fields) rpriv false [] None c 0)
                             (expand table ret_field p) with
            | Some b => [(name, i, "well_locked", Some b)] | None => [] end)
        ++ (match first_some (fun c => nn_first_bad rlock rloc rlock_eqb rleaf false [] c 0)
                             (expand table ret_field p) with
            | Some b => [(name, i, "no_nested_acquire", Some b)] | None => [] end))
        (combine (seq 0 (List.length ps)) ps)) ops.

  Definition show_lock (l : rlock) : string :=
    match l with RSelf => "own lock" | ROther => "other log's lock" | RLocal => "local mutex" end.
  Definition show_mode (m : mode) : string := match m with R => "R" | W => "W" end.
  Definition show_loc (x : rloc) : string :=
    match x with
    | RPtr o f => (if o then "other." else "l.") ++ f ++ " (field variable)"
    | RObj o f => (if o then "other." else "l.") ++ f ++ " (map object)"
    | RCap y => "captured local " ++ y
    end.
  Definition show_act (a : act rlock rloc) : string :=
    match a with
    | AAcq l m => "acquire " ++ show_lock l ++ " " ++ show_mode m
    | ARel l m => "release " ++ show_lock l ++ " " ++ show_mode m
    | ARd x => "read " ++ show_loc x
    | AWr x => "write " ++ show_loc x
    | ANop => "end of path with a lock held"
    end.
  Definition show_ev (e : option (ev rlock rloc)) : string :=
    match e with
    | None => "end of path (lock still held / spawn not awaited)"
    | Some (EB a) => show_act a
    | Some (ESpawn [[a]]) => "in spawned goroutine: " ++ show_act a
    | Some (ESpawn _) => "spawn"
    | Some EWait => "wait"
    end.

  (* (operation, check, offending event, number of paths on which it is the first offence) *)
  Fixpoint bump (k : string * string * string) (l : list (string * string * string * nat)) :=
    match l with
    | [] => [(k, 1)]
    | (k', n) :: r =>
        let '(a, b, c) := k in let '(a', b', c') := k' in
        if String.eqb a a' && String.eqb b b' && String.eqb c c' then (k', S n) :: r else (k', n) :: bump k r
    end.
  Definition failing_summary (ops : list (string * list path)) : list (string * string * string * nat) :=
    fold_left (fun acc '(name, _, chk, ev) =>
                 bump (name, chk, match ev with Some (_, e) => show_ev e | None => "not expandable" end) acc)
              (failing_paths ops) [].
End Report.

(* concrete instances: log instances and invocations are numbered *)
Inductive clock := CLog (i : N) | CLocal (inv : N).
Inductive cloc :=
| CPtr (i : N) (f : string)
| CObj (i : N) (f : string)
| CCap (inv : N) (x : string).
Definition clock_eqb (a b : clock) : bool :=
  match a, b with
  | CLog i, CLog j => N.eqb i j
  | CLocal i, CLocal j => N.eqb i j
  | _, _ => false
  end.
Definition cguard (x : cloc) : clock :=
  match x with CPtr i _ | CObj i _ => CLog i | CCap inv _ => CLocal inv end.
Definition cro (ro_fields : list string) (x : cloc) : bool :=
  match x with CObj _ f => mem_str f ro_fields | _ => false end.
Definition cleaf (l : clock) : bool := match l with CLocal _ => true | _ => false end.
Definition cpriv (x : cloc) : bool := match x with CCap _ _ => true | _ => false end.
Definition cowner (x : cloc) : nat := match x with CCap inv _ => N.to_nat inv | _ => 0 end.

(* invocation number [inv] of an operation on log [self] with argument log [other] *)
Definition inst_lock (inv self other : N) (l : rlock) : clock :=
  match l with RSelf => CLog self | ROther => CLog other | RLocal => CLocal inv end.
Definition inst_loc (inv self other : N) (x : rloc) : cloc :=
  match x with
  | RPtr o f => CPtr (if o then other else self) f
  | RObj o f => CObj (if o then other else self) f
  | RCap x => CCap inv x
  end.
Definition instantiate (inv self other : N) (c : list (ev rlock rloc)) : list (ev clock cloc) :=
  ren_code _ _ _ _ (inst_lock inv self other) (inst_loc inv self other) c.

(* ------------------------------------------------------------------------------------- *)
(** * 5. The source log as seen by a concurrent Join (C14) *)

Record entry := mkE { e_hash : N; e_next : list N }.

Fixpoint lookup (E : list entry) (h : N) : option entry :=
  match E with
  | [] => None
  | e :: r => if N.eqb (e_hash e) h then Some e else lookup r h
  end.

Definition memN (x : N) (l : list N) : bool := existsb (N.eqb x) l.

Record lstate := mkL { ents : list entry; hds : list N }.

(* log.go difference(): walk from the source's heads through `next`, collecting what the
   destination (membership test inB) does not have.  [trav] = the `traversed` set. *)
Fixpoint push_nexts (inB : N -> bool) (ns : list N) (stack trav : list N) : list N * list N :=
  match ns with
  | [] => (stack, trav)
  | n :: r =>
      if negb (memN n trav) && negb (inB n)
      then push_nexts inB r (stack ++ [n]) (n :: trav)
      else push_nexts inB r stack trav
  end.

Fixpoint diff_walk (fuel : nat) (A : list entry) (inB : N -> bool)
         (stack trav : list N) (res : list entry) : option (list entry) :=
  match fuel with
  | O => None
  | S f =>
      match stack with
      | [] => Some (rev res)
      | h :: st =>
          match lookup A h with
          | Some e =>
              if inB h then diff_walk f A inB st trav res
              else let '(st', trav') := push_nexts inB (e_next e) st (h :: trav) in
                   diff_walk f A inB st' trav' (e :: res)
          | None => diff_walk f A inB st trav res
          end
      end
  end.

Definition difference (fuel : nat) (A : list entry) (heads : list N) (inB : N -> bool) :=
  diff_walk fuel A inB heads [] [].
