(* Model of what an entry's signature covers (entry/entry.go):

     ToHashable + toBuffer   -> sig_view   (the map handed to json.Marshal), built by folding over the
                                            GENERATED table Gen/Signed.v (signed_fields)
     json.Marshal(data)      -> signing_bytes = print (sig_view e)
     CreateEntryWithIO       -> create_entry  (Copy/uniqueCIDs, default clock, v := 2, PreSign, Sign,
                                               SetKey, SetSig)
     Entry.Verify            -> verify_entry  (key/sig presence, PreSign, UnmarshalPublicKey, Verify)

   Codec configuration: only the default codec (cbor.IO without link key), whose PreSign returns
   the entry unchanged (io/cbor/cbor.go l.277-280).  Definitions only. *)
From Coq Require Import List NArith ZArith Bool String.
From IpfsLog Require Import Model.Json Model.SignedTags Gen.Signed.   (* deps *)
Import ListNotations.
Open Scope N_scope.

(* hex.EncodeToString *)
Definition hex_encode (bs : bytes) : bytes :=
  flat_map (fun b => [hexdigit (b / 16); hexdigit (b mod 16)]) bs.

Definition bytes_ok (bs : bytes) : bool := forallb (fun b => b <? 256) bs.

Section Signing.
  Variable cid : Type.
  Variable cid_str : cid -> bytes.          (* cidB58: base58btc multibase text of a CID *)

  Record entry := {
    e_logid : bytes;                        (* LogID (a Go string: arbitrary bytes) *)
    e_payload : bytes;                      (* Payload []byte *)
    e_next : list cid;
    e_refs : list cid;
    e_v : N;                                (* uint64 *)
    e_clock_id : bytes;                     (* Clock.ID; [] stands for "clock not Defined()" at creation *)
    e_clock_time : Z;                       (* Clock.Time, a Go int *)
    e_ad : list (bytes * bytes);            (* AdditionalData map[string]string: distinct keys *)
    e_key : bytes;
    e_sig : bytes
  }.

  Definition clock_member (e : entry) (c : clock_field) : bytes * json :=
    match c with
    | SC_id_hex k => (bytes_of_string k, JStr (hex_encode (e_clock_id e)))
    | SC_time k => (bytes_of_string k, JNum (e_clock_time e))
    end.

  Definition cids_json (l : list cid) : json := JArr (map (fun c => JStr (cid_str c)) l).

  Definition field_member (e : entry) (f : signed_field) : bytes * json :=
    match f with
    | SF_null k => (bytes_of_string k, JNull)
    | SF_id k => (bytes_of_string k, JStr (e_logid e))
    | SF_payload k => (bytes_of_string k, JStr (e_payload e))          (* string(e.Payload) *)
    | SF_next k => (bytes_of_string k, cids_json (e_next e))
    | SF_refs k => (bytes_of_string k, cids_json (e_refs e))
    | SF_v k => (bytes_of_string k, JNum (Z.of_N (e_v e)))
    | SF_clock k sub => (bytes_of_string k, JObj (map (clock_member e) sub))
    end.

  Definition ad_json (ad : list (bytes * bytes)) : json :=
    JObj (map (fun kv => (fst kv, JStr (snd kv))) ad).

  (* if e.AdditionalData != nil && len(e.AdditionalData) > 0 { data[k] = e.AdditionalData } *)
  Definition ad_member (adk : option string) (e : entry) : list (bytes * json) :=
    match adk with
    | None => []
    | Some k => match e_ad e with [] => [] | _ :: _ => [(bytes_of_string k, ad_json (e_ad e))] end
    end.

  Definition view_members (fields : list signed_field) (adk : option string) (e : entry) :=
    map (field_member e) fields ++ ad_member adk e.

  Definition sig_view (e : entry) : json := JObj (view_members signed_fields signed_additional_data e).

  Definition signing_bytes (e : entry) : bytes := print (sig_view e).

  (* a Go map read back from its JSON text: members in key order, strings sanitised *)
  Definition ad_canon (ad : list (bytes * bytes)) : list (bytes * bytes) :=
    map (fun kv => (sanitize_str (fst kv), sanitize_str (snd kv))) (sort_kvs ad).

  (* the byte strings of an entry that the theorems need to be text: payload and log id valid
     UTF-8 (what K1 is about), clock id made of bytes (always true of a real []byte; an artefact
     of modelling bytes as N) *)
  Definition text_ok (e : entry) : Prop :=
    valid_utf8 (e_payload e) = true /\ valid_utf8 (e_logid e) = true /\ bytes_ok (e_clock_id e) = true.

  (* ---- suggested repair for K1 (NOT what /repo does today; see notes/C07.md): when the payload
     is not valid UTF-8, a hex copy of it is added to the signed map ---- *)
  Definition sig_view_fixed (e : entry) : json :=
    JObj (view_members signed_fields signed_additional_data e
          ++ if valid_utf8 (e_payload e) then [] else [(bytes_of_string "payload_hex", JStr (hex_encode (e_payload e)))]).
  Definition signing_bytes_fixed (e : entry) : bytes := print (sig_view_fixed e).

  (* ---- creation and verification ---- *)
  Definition set_payload e x := Build_entry (e_logid e) x (e_next e) (e_refs e) (e_v e) (e_clock_id e) (e_clock_time e) (e_ad e) (e_key e) (e_sig e).
  Definition set_logid e x := Build_entry x (e_payload e) (e_next e) (e_refs e) (e_v e) (e_clock_id e) (e_clock_time e) (e_ad e) (e_key e) (e_sig e).
  Definition set_next e x := Build_entry (e_logid e) (e_payload e) x (e_refs e) (e_v e) (e_clock_id e) (e_clock_time e) (e_ad e) (e_key e) (e_sig e).
  Definition set_refs e x := Build_entry (e_logid e) (e_payload e) (e_next e) x (e_v e) (e_clock_id e) (e_clock_time e) (e_ad e) (e_key e) (e_sig e).
  Definition set_v e x := Build_entry (e_logid e) (e_payload e) (e_next e) (e_refs e) x (e_clock_id e) (e_clock_time e) (e_ad e) (e_key e) (e_sig e).
  Definition set_clock_id e x := Build_entry (e_logid e) (e_payload e) (e_next e) (e_refs e) (e_v e) x (e_clock_time e) (e_ad e) (e_key e) (e_sig e).
  Definition set_clock_time e x := Build_entry (e_logid e) (e_payload e) (e_next e) (e_refs e) (e_v e) (e_clock_id e) x (e_ad e) (e_key e) (e_sig e).
  Definition set_ad e x := Build_entry (e_logid e) (e_payload e) (e_next e) (e_refs e) (e_v e) (e_clock_id e) (e_clock_time e) x (e_key e) (e_sig e).
  Definition set_key e x := Build_entry (e_logid e) (e_payload e) (e_next e) (e_refs e) (e_v e) (e_clock_id e) (e_clock_time e) (e_ad e) x (e_sig e).
  Definition set_sig e x := Build_entry (e_logid e) (e_payload e) (e_next e) (e_refs e) (e_v e) (e_clock_id e) (e_clock_time e) (e_ad e) (e_key e) x.

  (* uniqueCIDs: first occurrence of every CID, compared by c.String() *)
  Fixpoint unique_cids_aux (seen : list bytes) (l : list cid) : list cid :=
    match l with
    | [] => []
    | c :: t => if existsb (bytes_eqb (cid_str c)) seen then unique_cids_aux seen t
                else c :: unique_cids_aux (cid_str c :: seen) t
    end.
  Definition unique_cids := unique_cids_aux [].

  (* IOCbor.PreSign with linkKey == nil *)
  Definition presign_default (e : entry) : entry := e.

  Section Crypto.
    Variables skey pkey : Type.
    Variable pub : skey -> pkey.                   (* the public key of a private key *)
    Variable pub_bytes : skey -> bytes.            (* identity.PublicKey *)
    Variable unmarshal : bytes -> option pkey.     (* crypto.UnmarshalSecp256k1PublicKey *)
    Variable sign : skey -> bytes -> bytes.        (* keystore key .Sign *)
    Variable verify : pkey -> bytes -> bytes -> bool.   (* pubKey.Verify; an error counts as false *)

    (* CreateEntryWithIO, default codec; None = one of its argument errors *)
    Definition create_entry (sk : skey) (data : entry) : option entry :=
      match e_logid data with
      | [] => None                                   (* ErrLogIDNotDefined *)
      | _ :: _ =>
        (* data.Copy() *)
        let d := set_refs (set_next data (unique_cids (e_next data))) (unique_cids (e_refs data)) in
        (* clock: copy if Defined() (non-empty id), else NewLamportClock(identity.PublicKey, 0) *)
        let d := match e_clock_id d with
                 | [] => set_clock_time (set_clock_id d (pub_bytes sk)) 0%Z
                 | _ :: _ => d
                 end in
        let d := set_v d 2 in
        let d := presign_default d in
        let sg := sign sk (signing_bytes d) in
        Some (set_sig (set_key d (pub_bytes sk)) sg)
      end.

    (* Entry.Verify, default codec; true = nil error *)
    Definition verify_entry (e : entry) : bool :=
      match e_key e with
      | [] => false                                  (* ErrKeyNotDefined *)
      | _ :: _ =>
        match e_sig e with
        | [] => false                                (* ErrSigNotDefined *)
        | _ :: _ =>
          let ve := presign_default e in
          match unmarshal (e_key e) with
          | None => false                            (* ErrInvalidPubKeyFormat *)
          | Some pk => verify pk (signing_bytes ve) (e_sig e)
          end
        end
      end.

    (* the entry carries sk's own signature over its own signing bytes, and sk's key *)
    Definition honest (sk : skey) (e : entry) : Prop :=
      e_sig e = sign sk (signing_bytes e) /\ e_key e = pub_bytes sk.

    (* the single-field modifications listed by C07 (plus additional data, which toBuffer also
       signs).  "different key": bytes that do not denote the signer's public key; "different
       signature": a signature honestly produced for other bytes or under another key. *)
    Inductive modify_one_signed_field (sk : skey) (e e' : entry) : Prop :=
    | Mod_payload p : p <> e_payload e -> e' = set_payload e p -> modify_one_signed_field sk e e'
    | Mod_logid x : x <> e_logid e -> e' = set_logid e x -> modify_one_signed_field sk e e'
    | Mod_next l : l <> e_next e -> e' = set_next e l -> modify_one_signed_field sk e e'   (* membership or order *)
    | Mod_refs l : l <> e_refs e -> e' = set_refs e l -> modify_one_signed_field sk e e'
    | Mod_v v : v <> e_v e -> e' = set_v e v -> modify_one_signed_field sk e e'
    | Mod_clock_id x : x <> e_clock_id e -> e' = set_clock_id e x -> modify_one_signed_field sk e e'
    | Mod_clock_time t : t <> e_clock_time e -> e' = set_clock_time e t -> modify_one_signed_field sk e e'
    | Mod_ad ad : ad_canon ad <> ad_canon (e_ad e) -> e' = set_ad e ad -> modify_one_signed_field sk e e'
    | Mod_key k : unmarshal k <> Some (pub sk) -> e' = set_key e k -> modify_one_signed_field sk e e'
    | Mod_sig sk2 m2 : pub sk2 <> pub sk \/ m2 <> signing_bytes e -> e' = set_sig e (sign sk2 m2) ->
                       modify_one_signed_field sk e e'.
  End Crypto.
End Signing.

Arguments e_logid {cid}. Arguments e_payload {cid}. Arguments e_next {cid}. Arguments e_refs {cid}.
Arguments e_v {cid}. Arguments e_clock_id {cid}. Arguments e_clock_time {cid}. Arguments e_ad {cid}.
Arguments e_key {cid}. Arguments e_sig {cid}.
