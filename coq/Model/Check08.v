(* Correspondence checker for C08: runs the codec model on the entries the harness wrote with the
   real implementation and compares (1) the block bytes, (2) the entry read back, (3) for the
   link-encrypting codec the plaintext PreSign sealed and the entries read with and without the key,
   (4) manifests.  Returns the indices of disagreeing cases. *)
From Coq Require Import List NArith ZArith Bool.
From IpfsLog Require Import Model.Cbor Model.EntryCodec.
(* deps: keep this comment line directly after the Require line (lib/verif.py deps_of scans it) *)
Import ListNotations.
Open Scope N_scope.

Definition opt_eqb {A} (eqb : A -> A -> bool) (a b : option A) : bool :=
  match a, b with
  | Some x, Some y => eqb x y
  | None, None => true
  | _, _ => false
  end.

Fixpoint list_eqb {A} (eqb : A -> A -> bool) (l1 l2 : list A) : bool :=
  match l1, l2 with
  | [], [] => true
  | x :: l1', y :: l2' => eqb x y && list_eqb eqb l1' l2'
  | _, _ => false
  end.

Definition clock_eqb (a b : clock_rec) : bool :=
  bytes_eqb (clk_id a) (clk_id b) && (clk_time a =? clk_time b)%Z.
Definition idsig_eqb (a b : idsig_rec) : bool :=
  bytes_eqb (ids_id a) (ids_id b) && bytes_eqb (ids_pub a) (ids_pub b).
Definition identity_eqb (a b : identity_rec) : bool :=
  bytes_eqb (idn_id a) (idn_id b) && bytes_eqb (idn_type a) (idn_type b) && bytes_eqb (idn_pub a) (idn_pub b) &&
  opt_eqb idsig_eqb (idn_sigs a) (idn_sigs b).
Definition kv_eqb (a b : bytes * bytes) : bool := bytes_eqb (fst a) (fst b) && bytes_eqb (snd a) (snd b).

Definition entry_eqb (a b : entry) : bool :=
  (e_v a =? e_v b) && bytes_eqb (e_logid a) (e_logid b) && bytes_eqb (e_payload a) (e_payload b) &&
  opt_eqb (list_eqb bytes_eqb) (e_next a) (e_next b) && opt_eqb (list_eqb bytes_eqb) (e_refs a) (e_refs b) &&
  opt_eqb clock_eqb (e_clock a) (e_clock b) && bytes_eqb (e_key a) (e_key b) && bytes_eqb (e_sig a) (e_sig b) &&
  opt_eqb identity_eqb (e_identity a) (e_identity b) && opt_eqb bytes_eqb (e_hash a) (e_hash b) &&
  list_eqb kv_eqb (e_additional a) (e_additional b).

(* go-cid's validation is third party; every cid the harness uses is a real one *)
Definition cidok_any (c : bytes) : bool := negb (is_nil c).

(* ---- default codec ---- *)
Record enc_case := {
  ec_entry : entry;            (* the entry handed to ToMultihashWithIO *)
  ec_werr : bool;              (* the write returned an error *)
  ec_hash : bytes;             (* binary form of the identifier returned *)
  ec_block : bytes;            (* raw block found in the store under that identifier *)
  ec_back : entry              (* FromMultihashWithIO of that identifier *)
}.

Definition check_enc (c : enc_case) : bool :=
  match entry_block (ec_entry c) with
  | Ok b =>
    negb (ec_werr c) && bytes_eqb b (ec_block c) &&
    match of_block_plain cidok_any (ec_hash c) (ec_block c) with
    | Ok e' => entry_eqb e' (ec_back c) && entry_eqb e' (normal (ec_hash c) (ec_entry c))
    | _ => false
    end
  | Err _ => ec_werr c
  | Panic => false
  end.

(* ---- link-encrypting codec ---- *)
Record link_case := {
  lc_entry : entry;                    (* what CreateEntryWithIO returned (PreSign output, signed) *)
  lc_hash : bytes;
  lc_block : bytes;
  lc_b64 : list (bytes * bytes);       (* base64 text -> bytes, for the strings stored in the block *)
  lc_plain : option bytes;             (* OpenWithNonce(stored box, stored nonce) with the key *)
  lc_back : entry;                     (* read back with the same key *)
  lc_back_nokey : entry                (* read back by the default codec *)
}.

Definition check_link (c : link_case) : bool :=
  match to_tree (lc_entry c) with
  | Ok t =>
    bytes_eqb (encode t) (lc_block c) &&
    (* what PreSign sealed is the encoding of the links struct (when there are links) *)
    match lc_plain c, links_tree (e_next (lc_entry c)) (e_refs (lc_entry c)) with
    | Some m, Ok lt => bytes_eqb m (encode lt)
    | None, _ => len0 (e_next (lc_entry c)) && len0 (e_refs (lc_entry c))
    | _, _ => false
    end &&
    match decode_all (lc_block c) with
    | Some t' =>
      match of_tree cidok_any unit (fun _ _ _ => lc_plain c) (fun s => assoc s (lc_b64 c)) (Some tt) (lc_hash c) t' with
      | Ok e' => entry_eqb e' (lc_back c) && entry_eqb e' (strip_additional (lc_hash c) (lc_entry c))
      | _ => false
      end &&
      match of_tree_plain cidok_any (lc_hash c) t' with
      | Ok e' => entry_eqb e' (lc_back_nokey c)
      | _ => false
      end
    | None => false
    end
  | _ => false
  end.

(* ---- manifests ---- *)
Record manifest_case := {
  mc_id : bytes; mc_heads : option (list bytes); mc_block : bytes;
  mc_back_id : bytes; mc_back_heads : option (list bytes)
}.

Definition check_manifest (c : manifest_case) : bool :=
  match manifest_to_tree (mc_id c) (mc_heads c) with
  | Ok t =>
    bytes_eqb (encode t) (mc_block c) &&
    match decode_all (mc_block c) with
    | Some t' => match manifest_of_tree cidok_any t' with
                 | Ok (i, h) => bytes_eqb i (mc_back_id c) && opt_eqb (list_eqb bytes_eqb) h (mc_back_heads c)
                 | _ => false
                 end
    | None => false
    end
  | _ => false
  end.

Fixpoint mismatches {A} (chk : A -> bool) (i : nat) (l : list A) : list nat :=
  match l with
  | [] => []
  | c :: l' => if chk c then mismatches chk (S i) l' else i :: mismatches chk (S i) l'
  end.

Definition mismatches_enc := mismatches check_enc 0.
Definition mismatches_link := mismatches check_link 0.
Definition mismatches_manifest := mismatches check_manifest 0.
