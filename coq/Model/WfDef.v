(* Boolean well-formedness of histories (definitions only; the soundness lemma wfb_wf is in
   Proofs/WfBool.v).  Used by the Examples and by the correspondence checker to confirm that the
   histories the harness ran on the implementation satisfy the hypotheses of the theorems. *)
From Coq Require Import List ZArith Bool.
From IpfsLog Require Import Model.System Model.Check19.
Import ListNotations.
Open Scope Z_scope.

Definition entry_eqb_full (a b : entry) : bool :=
  N.eqb (e_hash a) (e_hash b) && N.eqb (e_logid a) (e_logid b) && N.eqb (e_payload a) (e_payload b) &&
  list_eqb N.eqb (e_next a) (e_next b) && list_eqb N.eqb (e_refs a) (e_refs b) &&
  (e_time a =? e_time b) && N.eqb (e_cid a) (e_cid b) && N.eqb (e_key a) (e_key b) &&
  Bool.eqb (e_sigok a) (e_sigok b).

Definition wf_stepb (s : sys) (o : op) : bool :=
  match o with
  | OAppend r payload pc h =>
      match nth_error (s_logs s) r with
      | None => true
      | Some l => match append_entry l payload pc h with
                  | None => true
                  | Some e => forallb (fun a => negb (N.eqb (e_hash a) h) || entry_eqb_full a e) (s_univ s)
                  end
      end
  | OAppendFail r payload pc h =>
      match nth_error (s_logs s) r with
      | None => true
      | Some l => match append_entry l payload pc h with
                  | None => true
                  | Some e => forallb (fun a => negb (N.eqb (e_hash a) h) || entry_eqb_full a e) (s_univ s)
                  end
      end
  | OJoin _ _ size => size <? 0
  | ONew _ _ _ _ t0 => 0 <=? t0
  | OOpen _ _ _ _ _ _ _ => false
  | _ => true
  end.

Fixpoint wfb_from (s : sys) (ops : list op) : bool :=
  match ops with
  | [] => true
  | o :: ops' => wf_stepb s o && wfb_from (fst (step s o)) ops'
  end.
Definition wfb (ops : list op) : bool := wfb_from empty_sys ops.


(* the weaker hypothesis of the theorems about truncated logs (Proofs/PSys.v: pwf): hash-consistent
   appends, joins with any bound *)
Definition pwf_stepb (s : sys) (o : op) : bool :=
  match o with
  | OJoin _ _ _ => true
  | _ => wf_stepb s o
  end.

Fixpoint pwfb_from (s : sys) (ops : list op) : bool :=
  match ops with
  | [] => true
  | o :: ops' => pwf_stepb s o && pwfb_from (fst (step s o)) ops'
  end.
Definition pwfb (ops : list op) : bool := pwfb_from empty_sys ops.


(* the heads handed to NewLog are none, or exactly the entries of the selection that no entry of the selection names *)
Definition heads_consistentb (tmp hs : list entry) : bool :=
  match hs with
  | [] => true
  | _ => let fh := map e_hash (find_heads (from_entries tmp)) in
         forallb (fun e => mem (e_hash e) fh) hs && forallb (fun h => mem h (map e_hash hs)) fh
  end.

(* histories in which logs are also re-opened over selections of other replicas' entries
   (Proofs/POpen.v: owf): hash-consistent appends, joins with any bound, any selection *)
Definition owf_stepb (s : sys) (o : op) : bool :=
  match o with
  | OOpen src keep hh id _ _ _ =>
      match nth_error (s_logs s) src with
      | Some l => N.eqb id (l_id l) && heads_consistentb (pick (l_entries l) keep) (pick (l_entries l) hh)
      | None => true end
  | _ => pwf_stepb s o
  end.

Fixpoint owfb_from (s : sys) (ops : list op) : bool :=
  match ops with
  | [] => true
  | o :: ops' => owf_stepb s o && owfb_from (fst (step s o)) ops'
  end.
Definition owfb (ops : list op) : bool := owfb_from empty_sys ops.

(* what is demanded of EVERY history the harness runs, also of those that open a log under another id
   than its entries carry (outside [owf]): content-consistent appends *)
Definition hashes_consistent_stepb (s : sys) (o : op) : bool :=
  match o with
  | OOpen _ _ _ _ _ _ _ => true
  | _ => pwf_stepb s o
  end.
Fixpoint hashes_consistent_from (s : sys) (ops : list op) : bool :=
  match ops with
  | [] => true
  | o :: ops' => hashes_consistent_stepb s o && hashes_consistent_from (fst (step s o)) ops'
  end.
Definition hashes_consistent (ops : list op) : bool := hashes_consistent_from empty_sys ops.
(* does some step open a log under a foreign id? *)
Fixpoint foreign_open_from (s : sys) (ops : list op) : bool :=
  match ops with
  | [] => false
  | o :: ops' => negb (owf_stepb s o || negb (hashes_consistent_stepb s o)) || foreign_open_from (fst (step s o)) ops'
  end.
