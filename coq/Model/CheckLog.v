(* Correspondence checker for the log core (C01-C06, C15-C17): replays a history on the model and
   compares, after every operation, what the implementation reported for the touched replica. *)
From IpfsLog Require Import Model.System Model.Check19 Model.WfDef.
From Coq Require Import Sorting.Mergesort Orders.
Open Scope Z_scope.

Definition entry_eqb (a b : entry) : bool :=
  N.eqb (e_hash a) (e_hash b) && N.eqb (e_logid a) (e_logid b) && N.eqb (e_payload a) (e_payload b) &&
  list_eqb N.eqb (e_next a) (e_next b) && list_eqb N.eqb (e_refs a) (e_refs b) &&
  (e_time a =? e_time b) && N.eqb (e_cid a) (e_cid b) && N.eqb (e_key a) (e_key b).

(* insertion sort on N, for comparing sets *)
Fixpoint ninsert (x : N) (l : list N) : list N :=
  match l with [] => [x] | y :: l' => if N.leb x y then x :: l else y :: ninsert x l' end.
Definition nsort (l : list N) : list N := fold_right ninsert [] l.

Definition rclass_eqb (a b : rclass) : bool :=
  match a, b with
  | RcOk, RcOk | RcErrJoin, RcErrJoin | RcErrDenied, RcErrDenied | RcPanic, RcPanic
  | RcErrLte, RcErrLte | RcErrLt, RcErrLt | RcErrOther, RcErrOther | RcBadIndex, RcBadIndex => true
  | _, _ => false
  end.

(* observation of replica [ob_r] after an operation.  Sequences are compared exactly when
   [ob_exact] (the run has no (id,time) ties or every list is short enough for the sort model to be
   exact), otherwise as sets. *)
Record obs := mkObs {
  ob_r : nat;
  ob_class : rclass;
  ob_entry : option entry;         (* entry returned by Append *)
  ob_iter : option (list hash * bool);
  ob_skip_state : bool;            (* true: do not compare the state (implementation panicked) *)
  ob_exact : bool;
  ob_entries : list hash;          (* GetEntries().Keys(), as a set *)
  ob_heads : list hash;            (* Heads() *)
  ob_values : list hash;           (* Values() *)
  ob_time : Z;                     (* Clock time *)
  ob_store : list (hash * list hash);   (* blocks written by this op: (cid, links) *)
}.

Definition seq_eqb (exact : bool) (a b : list hash) : bool :=
  if exact then list_eqb N.eqb a b else list_eqb N.eqb (nsort a) (nsort b).

Definition res_matches (r : opres) (o : obs) : bool :=
  match r with
  | ResNone c => rclass_eqb c (ob_class o) && match ob_entry o, ob_iter o with None, None => true | _, _ => false end
  | ResEntry e => rclass_eqb RcOk (ob_class o) && match ob_entry o with Some e' => entry_eqb e e' | None => false end
  | ResIter es closed =>
      rclass_eqb RcOk (ob_class o) &&
      match ob_iter o with
      | Some (hs, c) => seq_eqb (ob_exact o) (map e_hash es) hs && Bool.eqb closed c
      | None => false end
  end.

Definition store_eqb (a b : list (hash * list hash)) : bool :=
  list_eqb (fun x y => N.eqb (fst x) (fst y) && list_eqb N.eqb (nsort (snd x)) (nsort (snd y))) a b.

Definition state_matches (s : sys) (o : obs) : bool :=
  if ob_skip_state o then true else
  match nth_error (s_logs s) (ob_r o) with
  | None => false
  | Some l =>
    list_eqb N.eqb (nsort (okeys (l_entries l))) (nsort (ob_entries o)) &&
    seq_eqb (ob_exact o) (map e_hash (heads l)) (ob_heads o) &&
    match values l with
    | Some v => seq_eqb (ob_exact o) (okeys v) (ob_values o)
    | None => false end &&
    (l_time l =? ob_time o)
  end.

(* returns the index of the first operation on which model and implementation disagree *)
Fixpoint check_ops (i : nat) (s : sys) (l : list (op * obs)) : option nat :=
  match l with
  | [] => None
  | (o, ob) :: l' =>
    let n0 := length (s_store s) in
    let '(s', r) := step s o in
    if res_matches r ob && state_matches s' ob && store_eqb (skipn n0 (s_store s')) (ob_store ob)
    then check_ops (S i) s' l' else Some i
  end.

Definition history := list (op * obs).
Definition check_history (h : history) : bool :=
  match check_ops 0 empty_sys h with None => true | Some _ => false end.
Definition mismatches_hist := mismatches check_history 0.
(* for diagnosis: the failing op index of each history *)
Definition first_bad (h : history) : option nat := check_ops 0 empty_sys h.

(* do the histories the harness ran satisfy the hypotheses of the theorems?  (only histories made of
   appends and UNBOUNDED joins are in the scope of [wf]) *)
Definition unbounded_history (h : history) : bool :=
  forallb (fun oo => match fst oo with OJoin _ _ size => size <? 0 | _ => true end) h.
(* every history must meet [pwf] (the hypothesis of the theorems about truncated logs); a history
   without bounded joins must meet [wf] *)
Definition has_open (h : history) : bool :=
  existsb (fun oo => match fst oo with OOpen _ _ _ _ _ _ _ => true | _ => false end) h.
(* ... and a history in which logs are re-opened over selections of entries must meet [owf] (POpen.v) *)
Definition check_wf (h : history) : bool :=
  hashes_consistent (map fst h) && (owfb (map fst h) || foreign_open_from empty_sys (map fst h)) &&
  (has_open h || (pwfb (map fst h) && (negb (unbounded_history h) || wfb (map fst h)))).
Definition mismatches_wf := mismatches check_wf 0.
