(* A small forked and re-merged three-replica history used by the non-vacuity Examples. *)
From IpfsLog Require Import Model.System.
Open Scope Z_scope.

Definition ex_hist : list op := [
  ONew 1%N 10%N SHash [] 0; ONew 1%N 20%N SHash [] 0; ONew 1%N 30%N SHash [] 0;
  OAppend 0 1%N 1 101%N; OAppend 0 2%N 2 102%N;
  OAppend 1 1%N 1 201%N;
  OJoin 1 0 (-1);                      (* replica 1 now has two heads: 102 and 201 *)
  OAppend 2 3%N 1 301%N;
  OJoin 2 1 (-1);                      (* replica 2: three heads *)
  OAppend 2 4%N 4 302%N;                   (* merges the three heads, with skip references *)
  OJoin 0 2 (-1); OJoin 0 2 (-1);      (* repeated merge *)
  OJoin 1 2 (-1); OJoin 1 1 (-1);      (* self merge *)
  OPublish 1 900%N ].

(* the same with the default ordering and one identity writing on two replicas (an (id,time) tie) *)
Definition ex_hist_lww : list op := [
  ONew 1%N 10%N SLww [] 0; ONew 1%N 10%N SLww [] 0;
  OAppend 0 1%N 1 101%N; OAppend 1 2%N 1 201%N;
  OJoin 0 1 (-1); OJoin 1 0 (-1) ].

(* state in the middle of ex_hist: after the first 9 operations *)
Definition ex_mid : sys := run (firstn 9 ex_hist).

(* a history with truncating merges: replica 1 keeps only the newest entry of replica 0's chain,
   replica 0 empties itself with bound 0 and then gets the old entry 101 back from replica 2 (which
   merged when the chain had one entry): after the repair of the stale next index 101 is its head *)
Definition ex_hist_trunc : list op := [
  ONew 1%N 10%N SHash [] 0; ONew 1%N 20%N SHash [] 0; ONew 1%N 30%N SHash [] 0;
  OAppend 0 1%N 1 101%N; OJoin 2 0 (-1);
  OAppend 0 2%N 1 102%N; OAppend 0 3%N 1 103%N;
  OJoin 1 0 1;                         (* replica 1 = {103}, a causally open log *)
  OJoin 0 1 0;                         (* replica 0 = {} *)
  OJoin 0 2 (-1);                      (* replica 0 = {101} *)
  OAppend 1 4%N 2 201%N;               (* on top of the truncated log *)
  OJoin 0 1 5 ].                       (* replica 0 = {101, 103, 201}: 102 is missing *)

(* replicas opened with a clock of their own (LogOptions.Clock): replica 0 resumes from a wall-clock
   style time beyond 2^53 (where float64 has gaps), replica 1 from 2^53, replica 2 from nothing; the
   appended entries continue from these times and from the merged heads *)
Definition ex_hist_seeded : list op := [
  ONew 1%N 10%N SHash [] 1700000000000000001; ONew 1%N 20%N SHash [] 9007199254740992; ONew 1%N 30%N SHash [] 0;
  OAppend 0 1%N 1 101%N; OAppend 0 2%N 1 102%N;    (* times ...002, ...003 *)
  OAppend 1 1%N 1 201%N;                            (* 2^53 + 1 *)
  OAppend 2 1%N 1 301%N;                            (* 1 *)
  OJoin 1 0 (-1); OAppend 1 3%N 1 202%N;            (* ...004, after both heads *)
  OJoin 2 1 (-1); OAppend 2 4%N 2 302%N;            (* ...005 *)
  OJoin 0 2 (-1) ].

(* logs re-opened over selections of another replica's entries (NewLog with LogOptions.Entries): replica 1
   is opened over the two newest entries of replica 0's chain, given newest first - a causally open log
   whose clock starts at 0 although it holds entries of time 2 and 3 -, is appended to (time 4, on top
   of 103), merges replica 0 and is merged back with a bound; replica 2 is opened over everything *)
Definition ex_hist_open : list op := [
  ONew 1%N 10%N SLww [] 0;
  OAppend 0 1%N 1 101%N; OAppend 0 2%N 1 102%N; OAppend 0 3%N 1 103%N;
  OOpen 0 [103; 102; 999]%N [] 1%N 20%N SLww [];
  OAppend 1 4%N 2 201%N;
  OOpen 0 [101; 102; 103; 102]%N [103]%N 1%N 30%N SLww [];
  OJoin 1 0 (-1);
  OJoin 0 1 2;
  OAppend 2 5%N 1 301%N ].
