(* Correspondence checker for C19: runs the comparator/sort model on the inputs the harness
   gave to the implementation and reports the indices of disagreeing cases. *)
From IpfsLog Require Import Model.Order.
Open Scope Z_scope.

Definition cres_eqb (a b : cres) : bool :=
  match a, b with
  | COk x, COk y => x =? y
  | CErr, CErr => true
  | _, _ => false
  end.

Definition skey_eqb (a b : skey N) : bool :=
  (sk_time a =? sk_time b) && N.eqb (sk_id a) (sk_id b) && N.eqb (sk_hash a) (sk_hash b).

Fixpoint list_eqb {A} (eqb : A -> A -> bool) (l1 l2 : list A) : bool :=
  match l1, l2 with
  | [], [] => true
  | x :: l1', y :: l2' => eqb x y && list_eqb eqb l1' l2'
  | _, _ => false
  end.

(* the eight comparator variants, in the order the harness uses *)
Definition cmp_fn (i : nat) : skey N -> skey N -> cres :=
  match i with
  | 0%nat => last_write_wins N ncmp
  | 1%nat => first_write_wins N ncmp
  | 2%nat => sort_by_entry_hash N ncmp
  | 3%nat => compare_clocks N ncmp
  | 4%nat => no_zeroes N (last_write_wins N ncmp)
  | 5%nat => no_zeroes N (first_write_wins N ncmp)
  | 6%nat => no_zeroes N (sort_by_entry_hash N ncmp)
  | _ => no_zeroes N (compare_clocks N ncmp)
  end.

Record pair_case := { pc_a : skey N; pc_b : skey N; pc_obs : list cres }.
Definition check_pair (c : pair_case) : bool :=
  list_eqb cres_eqb (map (fun i => cmp_fn i (pc_a c) (pc_b c)) (seq 0 8)) (pc_obs c).

Record sort_case := { sc_fn : nat; sc_rev : bool; sc_in : list (skey N); sc_out : list (skey N) }.
Definition check_sort (c : sort_case) : bool :=
  list_eqb skey_eqb (sort_go (cmp_fn (sc_fn c)) (sc_rev c) (sc_in c)) (sc_out c).

(* the same on entries of an application-defined type whose clock compares the times only *)
Definition cmp_fn_custom (i : nat) : skey N -> skey N -> cres :=
  match i with
  | 0%nat => lww_g N ncmp time_only_cc
  | 1%nat => fww_g N ncmp time_only_cc
  | 2%nat => hash_g N ncmp time_only_cc
  | 3%nat => compare_g N time_only_cc
  | 4%nat => no_zeroes N (lww_g N ncmp time_only_cc)
  | 5%nat => no_zeroes N (fww_g N ncmp time_only_cc)
  | 6%nat => no_zeroes N (hash_g N ncmp time_only_cc)
  | _ => no_zeroes N (compare_g N time_only_cc)
  end.
Definition check_pair_custom (c : pair_case) : bool :=
  list_eqb cres_eqb (map (fun i => cmp_fn_custom i (pc_a c) (pc_b c)) (seq 0 8)) (pc_obs c).

Fixpoint mismatches {A} (chk : A -> bool) (i : nat) (l : list A) : list nat :=
  match l with
  | [] => []
  | c :: l' => if chk c then mismatches chk (S i) l' else i :: mismatches chk (S i) l'
  end.

Definition mismatches_pairs := mismatches check_pair 0.
Definition mismatches_sorts := mismatches check_sort 0.
Definition mismatches_pairs_custom := mismatches check_pair_custom 0.
