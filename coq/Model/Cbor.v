(* CBOR data model, encoder and strict decoder for the subset of RFC 7049 that refmt's encoder
   (github.com/polydawn/refmt/cbor, cborEncoder.go / cborEncoderTerminals.go) emits for the values
   go-ipfs-log writes: unsigned / negative integers up to 64 bits, byte strings, text strings,
   definite-length arrays, definite-length maps with text keys, one tag, null, booleans.

   encode  follows  Encoder.emitMajorPlusLen / encodeString / encodeBytes / encodeInt64 / encodeBool:
           minimal-length heads (<=0x17 inline, then 1, 2, 4, 8 byte big endian argument),
           definite lengths only.
   decode  is STRICT: it accepts exactly the byte strings [encode] produces.  It rejects
             - non-minimal heads (e.g. 0x18 0x05 for 5), additional-information 28..31
               (reserved / indefinite length / break),
             - floats, undefined, simple values other than false/true/null,
             - map keys that are not text strings,
             - argument bytes >= 256 and truncated input.
           (refmt's own decoder is more liberal; on the image of [encode] they agree, which is
            what the round-trip theorems need and what the harness compares.)                  *)
From Coq Require Import List NArith Bool.
Import ListNotations.
Open Scope N_scope.

Definition bytes := list N.

Inductive cbor :=
| CUint (n : N)
| CNegint (n : N)                         (* the value -1 - n *)
| CText (bs : bytes)
| CBytes (bs : bytes)
| CArray (l : list cbor)
| CMap (kvs : list (bytes * cbor))        (* text keys, in emission order *)
| CTag (t : N) (v : cbor)
| CNull
| CBool (b : bool).

Definition two64 : N := 18446744073709551616.
Definition two32 : N := 4294967296.

Definition len {A} (l : list A) : N := N.of_nat (length l).

(* k big-endian bytes of n (n mod 256^k) *)
Fixpoint be_bytes (k : nat) (n : N) : bytes :=
  match k with
  | O => []
  | S k' => be_bytes k' (n / 256) ++ [n mod 256]
  end.

Definition be_value (bs : bytes) : N := fold_left (fun acc b => acc * 256 + b) bs 0.

(* emitMajorPlusLen *)
Definition head (major n : N) : bytes :=
  if n <? 24 then [major * 32 + n]
  else if n <? 256 then [major * 32 + 24; n]
  else if n <? 65536 then (major * 32 + 25) :: be_bytes 2 n
  else if n <? two32 then (major * 32 + 26) :: be_bytes 4 n
  else (major * 32 + 27) :: be_bytes 8 n.

Fixpoint encode (t : cbor) : bytes :=
  match t with
  | CUint n => head 0 n
  | CNegint n => head 1 n
  | CBytes bs => head 2 (len bs) ++ bs
  | CText bs => head 3 (len bs) ++ bs
  | CArray l => head 4 (len l) ++ (fix enc_list (l : list cbor) : bytes :=
                                    match l with [] => [] | x :: l' => encode x ++ enc_list l' end) l
  | CMap kvs => head 5 (len kvs) ++ (fix enc_kvs (l : list (bytes * cbor)) : bytes :=
                                    match l with
                                    | [] => []
                                    | (k, v) :: l' => (head 3 (len k) ++ k) ++ encode v ++ enc_kvs l'
                                    end) kvs
  | CTag t v => head 6 t ++ encode v
  | CNull => [246]
  | CBool b => [if b then 245 else 244]
  end.

Fixpoint encode_list (l : list cbor) : bytes :=
  match l with [] => [] | x :: l' => encode x ++ encode_list l' end.
Fixpoint encode_kvs (l : list (bytes * cbor)) : bytes :=
  match l with [] => [] | (k, v) :: l' => (head 3 (len k) ++ k) ++ encode v ++ encode_kvs l' end.

(* ---- decoding ---- *)
Fixpoint take (k : nat) (bs : bytes) : option (bytes * bytes) :=
  match k with
  | O => Some ([], bs)
  | S k' => match bs with
            | [] => None
            | b :: r => match take k' r with Some (x, r') => Some (b :: x, r') | None => None end
            end
  end.

(* take n elements, n : N, structurally on the input *)
Fixpoint take_n (n : N) (bs : bytes) (fuel : nat) {struct fuel} : option (bytes * bytes) :=
  if n =? 0 then Some ([], bs) else
  match fuel, bs with
  | S f, b :: r => match take_n (n - 1) r f with Some (x, r') => Some (b :: x, r') | None => None end
  | _, _ => None
  end.
Definition take_N (n : N) (bs : bytes) : option (bytes * bytes) := take_n n bs (length bs).

Definition all_bytes (bs : bytes) : bool := forallb (fun b => b <? 256) bs.

Definition read_be (k : nat) (lo : N) (bs : bytes) : option (N * bytes) :=
  match take k bs with
  | Some (x, r) => if all_bytes x && (lo <=? be_value x) then Some (be_value x, r) else None
  | None => None
  end.

(* argument of a head whose additional information is [ai]; only minimal encodings *)
Definition read_arg (ai : N) (bs : bytes) : option (N * bytes) :=
  if ai <? 24 then Some (ai, bs)
  else if ai =? 24 then read_be 1 24 bs
  else if ai =? 25 then read_be 2 256 bs
  else if ai =? 26 then read_be 4 65536 bs
  else if ai =? 27 then read_be 8 two32 bs
  else None.

(* (major, argument, rest) *)
Definition read_head (bs : bytes) : option (N * N * bytes) :=
  match bs with
  | [] => None
  | b :: r => if b <? 224 (* majors 0..6 *) then
                match read_arg (b mod 32) r with
                | Some (n, r') => Some (b / 32, n, r')
                | None => None
                end
              else None
  end.

(* one step of the decoder, given the decoders for sub-items (which run on less fuel) *)
Definition decode_body (dec : bytes -> option (cbor * bytes))
                       (dec_arr : N -> bytes -> option (list cbor * bytes))
                       (dec_map : N -> bytes -> option (list (bytes * cbor) * bytes))
                       (bs : bytes) : option (cbor * bytes) :=
  match bs with
  | [] => None
  | b :: r =>
    if b =? 246 then Some (CNull, r)
    else if b =? 245 then Some (CBool true, r)
    else if b =? 244 then Some (CBool false, r)
    else
    match read_head bs with
    | None => None
    | Some (major, n, r1) =>
      match major with
      | 0 => Some (CUint n, r1)
      | 1 => Some (CNegint n, r1)
      | 2 => match take_N n r1 with Some (x, r2) => Some (CBytes x, r2) | None => None end
      | 3 => match take_N n r1 with Some (x, r2) => Some (CText x, r2) | None => None end
      | 4 => match dec_arr n r1 with Some (l, r2) => Some (CArray l, r2) | None => None end
      | 5 => match dec_map n r1 with Some (l, r2) => Some (CMap l, r2) | None => None end
      | 6 => match dec r1 with Some (v, r2) => Some (CTag n v, r2) | None => None end
      | _ => None
      end
    end
  end.

Definition arr_body (dec : bytes -> option (cbor * bytes))
                    (dec_arr : N -> bytes -> option (list cbor * bytes))
                    (n : N) (bs : bytes) : option (list cbor * bytes) :=
  if n =? 0 then Some ([], bs) else
  match dec bs with
  | Some (x, r) => match dec_arr (n - 1) r with
                   | Some (xs, r') => Some (x :: xs, r')
                   | None => None
                   end
  | None => None
  end.

Definition map_body (dec : bytes -> option (cbor * bytes))
                    (dec_map : N -> bytes -> option (list (bytes * cbor) * bytes))
                    (n : N) (bs : bytes) : option (list (bytes * cbor) * bytes) :=
  if n =? 0 then Some ([], bs) else
  match read_head bs with
  | Some (3, kl, r0) =>
    match take_N kl r0 with
    | Some (k, r1) =>
      match dec r1 with
      | Some (v, r2) => match dec_map (n - 1) r2 with
                        | Some (kvs, r3) => Some ((k, v) :: kvs, r3)
                        | None => None
                        end
      | None => None
      end
    | None => None
    end
  | _ => None
  end.

Fixpoint decode (fuel : nat) (bs : bytes) : option (cbor * bytes) :=
  match fuel with
  | O => None
  | S f => decode_body (decode f) (decode_arr f) (decode_map f) bs
  end
with decode_arr (fuel : nat) (n : N) (bs : bytes) : option (list cbor * bytes) :=
  match fuel with
  | O => None
  | S f => arr_body (decode f) (decode_arr f) n bs
  end
with decode_map (fuel : nat) (n : N) (bs : bytes) : option (list (bytes * cbor) * bytes) :=
  match fuel with
  | O => None
  | S f => map_body (decode f) (decode_map f) n bs
  end.

(* whole-input decoding: all bytes must be consumed; 3 * length is always enough fuel
   (Proofs/CborProofs.v, size_le_bytes) *)
Definition decode_all (bs : bytes) : option cbor :=
  match decode (3 * length bs) bs with
  | Some (t, []) => Some t
  | _ => None
  end.

(* fuel sufficient for [decode] on [encode t] *)
Fixpoint size (t : cbor) : nat :=
  match t with
  | CArray l => S ((fix sz (l : list cbor) : nat := match l with [] => 1 | x :: l' => S (size x + sz l') end) l)
  | CMap kvs => S ((fix sz (l : list (bytes * cbor)) : nat :=
                      match l with [] => 1 | (_, v) :: l' => S (size v + sz l') end) kvs)
  | CTag _ v => S (size v)
  | _ => 1
  end%nat.
Fixpoint size_list (l : list cbor) : nat :=
  match l with [] => 1 | x :: l' => S (size x + size_list l') end%nat.
Fixpoint size_kvs (l : list (bytes * cbor)) : nat :=
  match l with [] => 1 | (_, v) :: l' => S (size v + size_kvs l') end%nat.
Definition fuel_for (t : cbor) : nat := size t.

(* well-formedness: every number and length fits in 64 bits (the range of the head argument) *)
Fixpoint wf (t : cbor) : bool :=
  match t with
  | CUint n | CNegint n => n <? two64
  | CText bs | CBytes bs => len bs <? two64
  | CArray l => (len l <? two64) && (fix wfl (l : list cbor) : bool :=
                                      match l with [] => true | x :: l' => wf x && wfl l' end) l
  | CMap kvs => (len kvs <? two64) && (fix wfk (l : list (bytes * cbor)) : bool :=
                                      match l with
                                      | [] => true
                                      | (k, v) :: l' => (len k <? two64) && wf v && wfk l'
                                      end) kvs
  | CTag t v => (t <? two64) && wf v
  | CNull | CBool _ => true
  end.
Fixpoint wf_list (l : list cbor) : bool :=
  match l with [] => true | x :: l' => wf x && wf_list l' end.
Fixpoint wf_kvs (l : list (bytes * cbor)) : bool :=
  match l with [] => true | (k, v) :: l' => (len k <? two64) && wf v && wf_kvs l' end.

(* ---- canonical key order for Go maps (atlas.KeySortMode_RFC7049, refmt marshalMapWildcard):
        shorter keys first, equal lengths bytewise.  Struct fields are NOT sorted by refmt: they
        are emitted in atlas order (see Model/EntryCodec.v). ---- *)
Fixpoint lex_leb (a b : bytes) : bool :=
  match a, b with
  | [], _ => true
  | _ :: _, [] => false
  | x :: a', y :: b' => if x <? y then true else if y <? x then false else lex_leb a' b'
  end.

Definition key_leb (a b : bytes) : bool :=
  match Nat.compare (length a) (length b) with
  | Lt => true
  | Gt => false
  | Eq => lex_leb a b
  end.

Fixpoint insert_kv {V} (kv : bytes * V) (l : list (bytes * V)) : list (bytes * V) :=
  match l with
  | [] => [kv]
  | kv' :: l' => if key_leb (fst kv) (fst kv') then kv :: l else kv' :: insert_kv kv l'
  end.

Definition canon_map {V} (kvs : list (bytes * V)) : list (bytes * V) := fold_right insert_kv [] kvs.

(* a Go map[string]T marshalled under KeySortMode_RFC7049 *)
Definition go_map_tree (kvs : list (bytes * cbor)) : cbor := CMap (canon_map kvs).
