(* Correspondence checker for the loaders (C09, C10): replays the fetch trace recorded inside a
   real NewFromMultihash / NewFromEntryHash / NewFromJSON / NewFromEntry call, applies the loader
   model to the model's fetch result and compares id, entries and heads of the loaded log.     *)
From IpfsLog Require Import Model.Order Model.Fetcher Model.Check11.
Open Scope Z_scope.

Record loader_case := {
  lc_kind : nat;               (* 0 manifest, 1 entry hash, 2 JSON, 3 entries *)
  lc_n : Z;                    (* FetchOptions.Length, -1 when nil *)
  lc_id : N;                   (* manifest / JSON id, or LogOptions.ID for the entry-hash loader *)
  lc_store : store;
  lc_faulty : list N;
  lc_conc : nat;
  lc_starts : list N;          (* manifest heads / JSON heads / [hash] / hashes of the supplied entries *)
  lc_trace : list event;
  lc_exact : bool;             (* compare the entry ORDER too (sort model exact: <= 20 entries or no ties) *)
  lc_out_ok : bool;            (* the loader returned a log *)
  lc_out_id : N;
  lc_out_entries : list N;     (* GetEntries().Keys() *)
  lc_out_heads : list N
}.

Definition lc_fetch_len (c : loader_case) (source : list fentry) : Z :=
  match lc_kind c with
  | 0%nat => multihash_fetch_len (lc_n c)
  | 1%nat => entryhash_fetch_len (lc_n c)
  | 2%nat => json_fetch_len (lc_n c)
  | _ => entry_fetch_len (lc_n c) source
  end.

Definition lookup_all (st : store) (hs : list N) : list fentry :=
  flat_map (fun h => match store_get st h with Some e => [e] | None => [] end) hs.

Definition lc_source (c : loader_case) : list fentry := lookup_all (lc_store c) (lc_starts c).

Definition lc_config (c : loader_case) : config :=
  {| cf_store := store_without (lc_store c) (lc_faulty c);
     cf_excl := fun _ => false;
     cf_length := lc_fetch_len c (lc_source c); cf_conc := lc_conc c; cf_timeout := false |}.

Definition lc_load (c : loader_case) (fetched : list fentry) : option loaded :=
  match lc_kind c with
  | 0%nat => Some (load_multihash (lc_id c) (lc_starts c) (lc_n c) fetched)
  | 1%nat => Some (load_entryhash (lc_id c) (lc_n c) fetched)
  | 2%nat => Some (load_json (lc_id c) (lc_n c) fetched)
  | _ => load_entry (lc_n c) (lc_source c) fetched
  end.

Definition check_loader (c : loader_case) : bool :=
  match run_trace (lc_config c) (lc_starts c) (lc_trace c) with
  | Some s =>
      terminalb s &&
      match lc_load c (st_results s) with
      | Some lg =>
          lc_out_ok c && N.eqb (lg_id lg) (lc_out_id c)
          && (if lc_exact c then nlist_eqb (map fe_hash (lg_entries lg)) (lc_out_entries c)
              else same_set (map fe_hash (lg_entries lg)) (lc_out_entries c))
          && same_set (map fe_hash (lg_heads lg)) (lc_out_heads c)
      | None => negb (lc_out_ok c)
      end
  | None => false
  end.

Definition loader_diag (c : loader_case) :=
  let '(k, s) := run_diag (lc_config c) (init_state (lc_config c) (lc_starts c)) (lc_trace c) 0 in
  (k, length (lc_trace c), terminalb s, map fe_hash (st_results s),
   match lc_load c (st_results s) with
   | Some lg => Some (lg_id lg, map fe_hash (lg_entries lg), map fe_hash (lg_heads lg))
   | None => None
   end).

Definition mismatches_loader := mismatches_from check_loader 0.
