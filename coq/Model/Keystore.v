(* Model of keystore/keystore.go (Keystore over a datastore with a hashicorp/golang-lru v1.0.2
   cache in front) and of identityprovider/{identities,orbitdb}.go (CreateIdentity, signID, GetID,
   SignIdentity, Sign).  Definitions only; proofs are in Proofs/KeystoreProofs.v.

   Ids (Go strings) and keys (raw private key bytes) are numbers: the implementation only ever
   compares ids for equality (map key of the LRU, datastore key) and never inspects key bytes in
   the keystore.  The harness numbers ids, and numbers each generated key by its generation index.

   Scope: ids are datastore keys in normal form ("x" and "/x" name the same datastore slot but
   different cache slots; the harness only uses ids that [datastore.NewKey] maps to "/"+id). *)
From Coq Require Export List NArith Bool Lia.
Export ListNotations.
Open Scope N_scope.

Definition kid := N.      (* key id *)
Definition key := N.      (* private key material *)

(* ---- association lists ---- *)
Definition amap := list (kid * key).

Fixpoint alookup (i : kid) (m : amap) : option key :=
  match m with
  | [] => None
  | (j, v) :: m' => if i =? j then Some v else alookup i m'
  end.

Fixpoint aremove (i : kid) (m : amap) : amap :=
  match m with
  | [] => []
  | (j, v) :: m' => if i =? j then aremove i m' else (j, v) :: aremove i m'
  end.

(* ---- the datastore: a map (MapDatastore); Put overwrites, Get of an absent key is ErrNotFound ---- *)
Definition ds_get (i : kid) (ds : amap) : option key := alookup i ds.
Definition ds_put (i : kid) (v : key) (ds : amap) : amap := (i, v) :: aremove i ds.

(* ---- simplelru.LRU: the evict list, most recently used first (list.PushFront/MoveToFront),
        [items] is the lookup into it ---- *)
Definition cache := amap.

(* Peek: value without touching recency *)
Definition lru_peek (i : kid) (c : cache) : option key := alookup i c.

(* Get: MoveToFront on a hit *)
Definition lru_get (i : kid) (c : cache) : option key * cache :=
  match alookup i c with
  | Some v => (Some v, (i, v) :: aremove i c)
  | None => (None, c)
  end.

(* Add: existing key -> MoveToFront and overwrite; else PushFront and, when the list is now longer
   than [size], remove the back element *)
Definition lru_add (cap : nat) (i : kid) (v : key) (c : cache) : cache :=
  match alookup i c with
  | Some _ => (i, v) :: aremove i c
  | None =>
      let c' := (i, v) :: c in
      if Nat.ltb cap (length c') then removelast c' else c'
  end.

(* ---- observable results, canonical form shared with the harness ---- *)
Inductive output :=
| KOut_key (k : key)       (* a private key was returned *)
| KOut_bool (b : bool)     (* HasKey returned (b, nil) *)
| KOut_err                 (* a non-nil error was returned *)
| KOut_unit.               (* NewKeystore *)

Definition is_some {A} (o : option A) : bool := match o with Some _ => true | None => false end.

Section Keystore.
  Variable cap : nat.       (* lru.New(128); every theorem is for an arbitrary capacity *)

  (* Keystore.GetKey:
       cachedKey, ok := k.cache.Get(id)
       if !ok || cachedKey == nil { keyBytes, err = k.store.Get(id); if err != nil { return nil, err }
                                    k.cache.Add(id, keyBytes) }
       else { keyBytes = decode(cachedKey) }
       return Unmarshal(keyBytes)                                  (decoding is total on stored keys) *)
  Definition get_key (ds : amap) (c : cache) (i : kid) : cache * output :=
    match lru_get i c with
    | (Some v, c') => (c', KOut_key v)
    | (None, _) =>
        match ds_get i ds with
        | None => (c, KOut_err)
        | Some v => (lru_add cap i v c, KOut_key v)
        end
    end.

  (* Keystore.HasKey, as it is:
       storedKey, ok := k.cache.Peek(id)
       if ok == false {
         value, err := k.store.Get(id)
         if err != nil { return false, err }
         if storedKey != nil { k.cache.Add(id, value) }      // storedKey is nil here: dead code
       }
       return storedKey != nil, nil                          // false on every cache miss *)
  Definition has_key (ds : amap) (c : cache) (i : kid) : cache * output :=
    let storedKey := lru_peek i c in
    match storedKey with
    | None =>
        match ds_get i ds with
        | None => (c, KOut_err)
        | Some value =>
            let c' := if is_some storedKey then lru_add cap i value c else c in
            (c', KOut_bool (is_some storedKey))
        end
    | Some _ => (c, KOut_bool (is_some storedKey))
    end.

  (* Repaired HasKey (suggested patch, notes/C20.md): on a cache miss the datastore decides;
     a found key is cached and reported present. *)
  Definition has_key_fixed (ds : amap) (c : cache) (i : kid) : cache * output :=
    match lru_peek i c with
    | Some _ => (c, KOut_bool true)
    | None =>
        match ds_get i ds with
        | None => (c, KOut_err)
        | Some value => (lru_add cap i value c, KOut_bool true)
        end
    end.

  (* ---- system state: one datastore, any number of Keystore instances over it ---- *)
  Record state := mkState { st_ds : amap; st_caches : list cache }.
  Definition init_state : state := mkState [] [].

  Fixpoint set_nth {A} (n : nat) (x : A) (l : list A) {struct l} : list A :=
    match l, n with
    | [], _ => []
    | _ :: t, O => x :: t
    | h :: t, S n' => h :: set_nth n' x t
    end.

  Inductive op :=
  | KCreate (i : nat) (id : kid) (k : key)       (* CreateKey on instance i; k = the key generated *)
  | KGet (i : nat) (id : kid)                    (* GetKey *)
  | KHas (i : nat) (id : kid)                    (* HasKey *)
  | KNewInstance                                 (* NewKeystore(store): restart / second keystore *)
  | KGetOrCreate (i : nat) (id : kid) (k : key). (* GetKey, on error CreateKey (GetID / signID) *)

  (* Keystore.CreateKey: generate, store.Put, cache.Add, return the key.
     An instance number that does not exist yields KOut_err and no change (not a Go behaviour;
     theorems assume valid instance numbers). *)
  Definition do_create (st : state) (i : nat) (id : kid) (k : key) : state * output :=
    match nth_error (st_caches st) i with
    | None => (st, KOut_err)
    | Some c => (mkState (ds_put id k (st_ds st)) (set_nth i (lru_add cap id k c) (st_caches st)), KOut_key k)
    end.

  Definition do_get (st : state) (i : nat) (id : kid) : state * output :=
    match nth_error (st_caches st) i with
    | None => (st, KOut_err)
    | Some c => let (c', out) := get_key (st_ds st) c id in
                (mkState (st_ds st) (set_nth i c' (st_caches st)), out)
    end.

  (* get-or-create as written in OrbitDBIdentityProvider.GetID and Identities.signID *)
  Definition get_or_create (st : state) (i : nat) (id : kid) (k : key) : state * option key :=
    let (st1, o1) := do_get st i id in
    match o1 with
    | KOut_key k' => (st1, Some k')
    | _ => let (st2, o2) := do_create st1 i id k in
           match o2 with KOut_key k' => (st2, Some k') | _ => (st2, None) end
    end.

  Section Step.
    Variable hk : amap -> cache -> kid -> cache * output.     (* which HasKey *)

    Definition do_has (st : state) (i : nat) (id : kid) : state * output :=
      match nth_error (st_caches st) i with
      | None => (st, KOut_err)
      | Some c => let (c', out) := hk (st_ds st) c id in
                  (mkState (st_ds st) (set_nth i c' (st_caches st)), out)
      end.

    Definition step_gen (st : state) (o : op) : state * output :=
      match o with
      | KCreate i id k => do_create st i id k
      | KGet i id => do_get st i id
      | KHas i id => do_has st i id
      | KNewInstance => (mkState (st_ds st) (st_caches st ++ [[]]), KOut_unit)
      | KGetOrCreate i id k =>
          let (st', r) := get_or_create st i id k in
          (st', match r with Some k' => KOut_key k' | None => KOut_err end)
      end.

    Fixpoint run_gen (st : state) (ops : list op) : state * list output :=
      match ops with
      | [] => (st, [])
      | o :: r => let (st1, out) := step_gen st o in
                  let (st2, outs) := run_gen st1 r in (st2, out :: outs)
      end.
  End Step.

  Definition step := step_gen has_key.                 (* the code as it is *)
  Definition run := run_gen has_key.
  Definition step_fixed := step_gen has_key_fixed.     (* with the repaired HasKey *)
  Definition run_fixed := run_gen has_key_fixed.

  (* ---- specification: the datastore map alone (plus the number of instances) ---- *)
  Definition spec := (amap * nat)%type.
  Definition abs (st : state) : spec := (st_ds st, length (st_caches st)).

  Definition spec_step (s : spec) (o : op) : spec * output :=
    let (ds, n) := s in
    match o with
    | KNewInstance => ((ds, S n), KOut_unit)
    | KCreate i id k => if Nat.ltb i n then ((ds_put id k ds, n), KOut_key k) else (s, KOut_err)
    | KGet i id =>
        if Nat.ltb i n then (s, match alookup id ds with Some k => KOut_key k | None => KOut_err end)
        else (s, KOut_err)
    | KHas i id =>
        (* present -> (true, nil); absent -> reported absent (the code's way: (false, error)) *)
        if Nat.ltb i n then (s, match alookup id ds with Some _ => KOut_bool true | None => KOut_err end)
        else (s, KOut_err)
    | KGetOrCreate i id k =>
        if Nat.ltb i n then
          match alookup id ds with
          | Some k' => (s, KOut_key k')
          | None => ((ds_put id k ds, n), KOut_key k)
          end
        else (s, KOut_err)
    end.

  Fixpoint spec_run (s : spec) (ops : list op) : spec * list output :=
    match ops with
    | [] => (s, [])
    | o :: r => let (s1, out) := spec_step s o in
                let (s2, outs) := spec_run s1 r in (s2, out :: outs)
    end.

  (* A raw CreateKey overwrites the datastore slot; the property is about ids created at most once,
     i.e. every raw CreateKey hits an id that is not in the datastore at that moment (an id made by
     get-or-create counts as created).  [hk] does not matter: HasKey never changes the datastore. *)
  Definition op_ok (st : state) (o : op) : Prop :=
    match o with KCreate _ id _ => alookup id (st_ds st) = None | _ => True end.
  Fixpoint ops_ok_gen hk (st : state) (ops : list op) : Prop :=
    match ops with
    | [] => True
    | o :: r => op_ok st o /\ ops_ok_gen hk (fst (step_gen hk st o)) r
    end.
  Definition ops_ok := ops_ok_gen has_key.
  Definition ops_ok_fixed := ops_ok_gen has_key_fixed.

  (* syntactic sufficient condition: no raw create of an id that was created (raw or by
     get-or-create) earlier in the sequence or is in [seen] *)
  Fixpoint syn_ok (seen : list kid) (ops : list op) : Prop :=
    match ops with
    | [] => True
    | KCreate _ id _ :: r => ~ In id seen /\ syn_ok (id :: seen) r
    | KGetOrCreate _ id _ :: r => syn_ok (id :: seen) r
    | _ :: r => syn_ok seen r
    end.

  Fixpoint syn_okb (seen : list kid) (ops : list op) : bool :=
    match ops with
    | [] => true
    | KCreate _ id _ :: r => negb (existsb (N.eqb id) seen) && syn_okb (id :: seen) r
    | KGetOrCreate _ id _ :: r => syn_okb (id :: seen) r
    | _ :: r => syn_okb seen r
    end.

  (* outputs with the HasKey answers blanked (used to state what holds for the unrepaired code) *)
  Fixpoint erase_has (ops : list op) (outs : list output) : list output :=
    match ops, outs with
    | o :: r, x :: xs => (match o with KHas _ _ => KOut_unit | _ => x end) :: erase_has r xs
    | _, _ => []
    end.
End Keystore.


(* ---- encoding/hex on byte strings (bytes are numbers below 256; hex text is ASCII) ---- *)
Definition hexdigit (d : N) : N := if d <? 10 then 48 + d else 87 + d.      (* '0'.. / 'a'.. *)
Fixpoint hex (bs : list N) : list N :=
  match bs with
  | [] => []
  | b :: r => hexdigit (b / 16) :: hexdigit (b mod 16) :: hex r
  end.
Definition unhexdigit (c : N) : option N :=
  if (48 <=? c) && (c <=? 57) then Some (c - 48)
  else if (97 <=? c) && (c <=? 102) then Some (c - 87)
  else if (65 <=? c) && (c <=? 70) then Some (c - 55)
  else None.
Fixpoint unhex (cs : list N) : option (list N) :=
  match cs with
  | [] => Some []
  | c1 :: c2 :: r =>
      match unhexdigit c1, unhexdigit c2, unhex r with
      | Some a, Some b, Some t => Some (16 * a + b :: t)
      | _, _, _ => None
      end
  | _ => None
  end.

(* ---- identities ---- *)
Record identity := mkIdentity {
  i_id : list N;        (* Identity.ID: a string (hex text) *)
  i_pub : list N;       (* Identity.PublicKey *)
  i_sig_id : list N;    (* Identity.Signatures.ID *)
  i_sig_pub : list N    (* Identity.Signatures.PublicKey *)
}.                      (* Type is the constant "orbitdb"; Provider is not data *)

Section Identity.
  Variable cap : nat.
  (* secp256k1 (external): public keys, their two serialisations, signing of byte strings *)
  Variable pk : Type.
  Variable pub : key -> pk.                          (* PrivKey.GetPublic *)
  Variable pkc : pk -> list N.                       (* PubKey.Raw(): compressed, 33 bytes *)
  Variable pku : pk -> list N.                       (* SerializeUncompressed, 65 bytes *)
  Variable sign : key -> list N -> list N.           (* PrivKey.Sign; a function: signing is
                                                        deterministic (RFC 6979) *)
  Variable idnum : list N -> kid.                    (* numbering of id strings (see top) *)

  (* Identities.CreateIdentity with the "orbitdb" provider:
       id := provider.GetID(options)          = hex(Raw(pub(get-or-create(options.ID))))
       publicKey, idSignature := signID(id)   : key2 := get-or-create(id); Sign(key2, []byte(id))
       publicKeyBytes := uncompressed(publicKey)
       pubKeyIDSignature := provider.SignIdentity(publicKeyBytes ++ idSignature, options.ID)
                                              = GetKey(options.ID).Sign([]byte(hex(data)))
     k1, k2: the keys CreateKey would generate for options.ID and for id (oracle input) *)
  Definition create_identity (st : state) (i : nat) (uid : list N) (k1 k2 : key) : state * option identity :=
    let (st1, r1) := get_or_create cap st i (idnum uid) k1 in
    match r1 with
    | None => (st1, None)
    | Some key1 =>
        let id := hex (pkc (pub key1)) in
        let (st2, r2) := get_or_create cap st1 i (idnum id) k2 in
        match r2 with
        | None => (st2, None)
        | Some key2 =>
            let idSignature := sign key2 id in
            let publicKeyBytes := pku (pub key2) in
            let (st3, o3) := do_get cap st2 i (idnum uid) in
            match o3 with
            | KOut_key key3 =>
                (st3, Some (mkIdentity id publicKeyBytes idSignature
                                       (sign key3 (hex (publicKeyBytes ++ idSignature)))))
            | _ => (st3, None)
            end
        end
    end.

  (* OrbitDBIdentityProvider.Sign(identity, data) = GetKey(identity.ID).Sign(data)
     (what Entry signing calls) *)
  Definition sign_with (st : state) (i : nat) (idn : identity) (data : list N) : state * option (list N) :=
    let (st1, o) := do_get cap st i (idnum (i_id idn)) in
    match o with
    | KOut_key k => (st1, Some (sign k data))
    | _ => (st1, None)
    end.

  (* the identity a datastore determines for a user-supplied id *)
  Definition identity_of_keys (ka kb : key) : identity :=
    let id := hex (pkc (pub ka)) in
    let pb := pku (pub kb) in
    let s := sign kb id in
    mkIdentity id pb s (sign ka (hex (pb ++ s))).
  Definition identity_of_ds (ds : amap) (uid : list N) : option identity :=
    match alookup (idnum uid) ds with
    | None => None
    | Some ka =>
        match alookup (idnum (hex (pkc (pub ka)))) ds with
        | None => None
        | Some kb => Some (identity_of_keys ka kb)
        end
    end.
End Identity.
