(* Correspondence checker for C12: outcome class (entry / error / panic) of the conversion layer on
   structured blocks the harness fed to IOCbor.DecodeRawEntry and DecodeRawJSONLog. *)
From Coq Require Import List NArith ZArith Bool String.
From IpfsLog Require Import Model.Cbor Model.EntryCodec Model.Check08.
(* deps *)
Import ListNotations.
Open Scope N_scope.

(* 0 = a value was returned, 1 = an error was returned, 2 = panic *)
Definition class {A} (r : res A) : N := match r with Ok _ => 0 | Err _ => 1 | Panic => 2 end.

Record dec_case := {
  dc_manifest : bool;          (* decoded as a manifest rather than as an entry *)
  dc_block : bytes;
  dc_class : N                 (* what the implementation did *)
}.

Definition check_dec (c : dec_case) : bool :=
  match decode_all (dc_block c) with
  | Some t =>
    if dc_manifest c then class (manifest_of_tree cidok_any t) =? dc_class c
    else class (of_tree_plain cidok_any [1] t) =? dc_class c
  | None => false              (* the harness only records blocks written by go-ipld-cbor's canonical encoder *)
  end.

Definition mismatches_dec := mismatches check_dec 0.
