(* Vocabulary of the generated signed-field table (coq/Gen/Signed.v, written by tools/gensigned from
   entry/entry.go).  A [signed_field] is one key of the map literal in [toBuffer] together with the
   shape of its value expression, after composing it with the field copies made by [ToHashable]. *)
From Coq Require Import String List.
Import ListNotations.

Inductive clock_field :=
| SC_id_hex (key : string)    (* hex.EncodeToString(e.Clock.GetID()) *)
| SC_time (key : string).     (* e.Clock.GetTime() *)

Inductive signed_field :=
| SF_null (key : string)                          (* nil *)
| SF_id (key : string)                            (* e.ID, ID: e.GetLogID() *)
| SF_payload (key : string)                       (* string(e.Payload), Payload: e.GetPayload() *)
| SF_next (key : string)                          (* e.Next = cidB58 of every e.GetNext(), in order *)
| SF_refs (key : string)                          (* e.Refs = cidB58 of every e.GetRefs(), in order *)
| SF_v (key : string)                             (* e.V, V: e.GetV() *)
| SF_clock (key : string) (sub : list clock_field). (* map[string]interface{}{...} over e.Clock *)

Inductive hashable_source :=
| HS_nil | HS_logid | HS_payload | HS_next_b58 | HS_refs_b58 | HS_v | HS_clock | HS_key | HS_additional_data.
