(* Link-encrypting codec, the parts C18 is about beyond Model/EntryCodec.v:

     what a stored block exposes    no_tag / links_of (tag-42 items anywhere in the tree),
                                    field_of (a top-level field), clear_part (the fields other than
                                    enc_links, enc_links_nonce, sig)
     cbor.NonceRefForEntry          nonce_ref        (as the code is: the entry's key is part of it)
                                    nonce_ref_nokey  (repaired: the key position is left empty)
     entry.CreateEntryWithIO        create_link      (Copy, default clock, v := 2, PreSign, sign,
                                                      SetKey, SetSig, SetIdentity)
     Entry.Verify                   verify_link      (key/sig presence, PreSign, UnmarshalPublicKey, Verify)

   The bytes that are signed are those of Model/Signing.v (C07: toBuffer over the generated
   signed-field table), through [to_signing].  Definitions only. *)
From Coq Require Import List NArith ZArith Bool String.
From IpfsLog Require Import Model.Cbor Model.EntryCodec Gen.Tables.
(* deps *)
From IpfsLog Require Model.Json Model.Signing.
(* deps *)
Import ListNotations.
Local Open Scope string_scope.
Open Scope N_scope.
Local Open Scope list_scope.

(* ---- what a block exposes ---- *)
Fixpoint links_of (t : cbor) : list cbor :=           (* every tagged item, outermost first *)
  match t with
  | CTag tg v => CTag tg v :: links_of v
  | CArray l => flat_map links_of l
  | CMap kvs => flat_map (fun kv => links_of (snd kv)) kvs
  | _ => []
  end.
Definition no_tag (t : cbor) : bool := is_nil (links_of t).

Definition serial_of (sname field : string) : option bytes :=
  match find (fun r => String.eqb (ar_struct r) sname && String.eqb (ar_field r) field) atlas_table with
  | Some r => Some (ar_serial r)
  | None => None
  end.

Definition field_of (sname field : string) (t : cbor) : option cbor :=
  match serial_of sname field, t with
  | Some k, CMap kvs => assoc k kvs
  | _, _ => None
  end.

Definition is_secret_key (k : bytes) : bool :=
  match serial_of "jsonable.Entry" "EncryptedLinks", serial_of "jsonable.Entry" "EncryptedLinksNonce",
        serial_of "jsonable.Entry" "Sig" with
  | Some a, Some b, Some c => bytes_eqb k a || bytes_eqb k b || bytes_eqb k c
  | _, _, _ => true
  end.

(* the block without enc_links, enc_links_nonce and sig *)
Definition clear_part (t : cbor) : list (bytes * cbor) :=
  match t with
  | CMap kvs => filter (fun kv => negb (is_secret_key (fst kv))) kvs
  | _ => []
  end.

Definition list_of (o : option (list bytes)) : list bytes := match o with Some l => l | None => [] end.

Section LinkVerify.
  Variable cid_text : bytes -> bytes.               (* Cid.String() *)
  Variable cid_b58 : bytes -> bytes.                (* cidB58, used by ToHashable *)

  (* fmt.Sprintf("%s,%s,%s,%s,%d,%s,%d", next, key, payload, clock id, clock time, log id, v)
     with next = "-" + c.String() for every c; a nil clock (a panic in Go) reads as id "", time 0 *)
  Definition nonce_ref_with (key : bytes) (e : entry) : bytes :=
    let c := match e_clock e with Some c => c | None => {| clk_id := []; clk_time := 0%Z |} end in
    flat_map (fun x => 45 :: cid_text x) (list_of (e_next e)) ++ 44 :: key ++ 44 :: e_payload e ++ 44 :: clk_id c ++
    44 :: Json.print_Z (clk_time c) ++ 44 :: e_logid e ++ 44 :: Json.print_N (e_v e).

  Definition nonce_ref (e : entry) : bytes := nonce_ref_with (e_key e) e.         (* the code *)
  Definition nonce_ref_nokey (e : entry) : bytes := nonce_ref_with [] e.          (* repaired *)
  (* SWITCH: what /repo computes today.  After the repair of notes/C18.md is committed this becomes
     [nonce_ref_nokey] (Model/Check18.v compares cbor.NonceRefForEntry with this one). *)
  Definition nonce_ref_current : entry -> bytes := nonce_ref_nokey.

  Definition to_signing (e : entry) : Signing.entry bytes :=
    let c := match e_clock e with Some c => c | None => {| clk_id := []; clk_time := 0%Z |} end in
    Signing.Build_entry bytes (e_logid e) (e_payload e) (list_of (e_next e)) (list_of (e_refs e)) (e_v e)
                        (clk_id c) (clk_time c) (e_additional e) (e_key e) (e_sig e).

  Definition signed_bytes (e : entry) : bytes := Signing.signing_bytes bytes cid_b58 (to_signing e).

  Section Crypto.
    Variable K : Type.
    Variable seal : K -> bytes -> bytes -> bytes.
    Variable derive : bytes -> bytes.                 (* SharedKey.DeriveNonce: sha3-256, first 24 bytes *)
    Variable b64enc : bytes -> bytes.
    Variables skey pkey : Type.
    Variable pub_bytes : skey -> bytes.               (* identity.PublicKey *)
    Variable unmarshal : bytes -> option pkey.
    Variable sign : skey -> bytes -> bytes.
    Variable verify : pkey -> bytes -> bytes -> bool.

    Variable ref : entry -> bytes.                    (* nonce_ref or nonce_ref_nokey *)

    Definition set_key_sig_identity (e : entry) (k s : bytes) (i : option identity_rec) : entry :=
      {| e_v := e_v e; e_logid := e_logid e; e_payload := e_payload e; e_next := e_next e; e_refs := e_refs e;
         e_clock := e_clock e; e_key := k; e_sig := s; e_identity := i; e_hash := e_hash e;
         e_additional := e_additional e |}.

    (* CreateEntryWithIO after its argument checks, up to (not including) the block write *)
    Definition create_link (k : option K) (sk : skey) (ident : option identity_rec) (data : entry) : res entry :=
      let d := copy_entry data in
      let clock := match e_clock d with
                   | Some c => if is_nil (clk_id c) then {| clk_id := pub_bytes sk; clk_time := 0%Z |} else c
                   | None => {| clk_id := pub_bytes sk; clk_time := 0%Z |}
                   end in
      let d := {| e_v := 2; e_logid := e_logid d; e_payload := e_payload d; e_next := e_next d; e_refs := e_refs d;
                  e_clock := Some clock; e_key := e_key d; e_sig := e_sig d; e_identity := e_identity d;
                  e_hash := e_hash d; e_additional := e_additional d |} in
      bind (presign K seal (fun x => derive (ref x)) b64enc k d) (fun p =>
      Ok (set_key_sig_identity p (pub_bytes sk) (sign sk (signed_bytes p)) ident)).

    (* Entry.Verify: Ok true = nil error *)
    Definition verify_link (k : option K) (e : entry) : res bool :=
      if is_nil (e_key e) then Ok false                  (* ErrKeyNotDefined *)
      else if is_nil (e_sig e) then Ok false             (* ErrSigNotDefined *)
      else bind (presign K seal (fun x => derive (ref x)) b64enc k e) (fun ve =>
           match unmarshal (e_key e) with
           | None => Ok false                            (* ErrInvalidPubKeyFormat *)
           | Some pk => Ok (verify pk (signed_bytes ve) (e_sig e))
           end).
  End Crypto.
End LinkVerify.
