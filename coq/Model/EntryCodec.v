(* Entry <-> CBOR tree, following the code as it is:

     writing   entry.ToMultihashWithIO = Normalize  ->  IOCbor.Write = jsonable.ToJsonableEntry
               -> cbornode.WrapObject (refmt marshal through the atlas of cbor.IO())
     reading   IOCbor.DecodeRawEntry = cbornode.DecodeInto (refmt unmarshal into jsonable.EntryV2)
               -> DecryptLinks -> Entry.ToPlain -> SetHash
     link-encrypting variant: IOCbor.PreSign / DecryptLinks
     manifests: iface.JSONLog through the same atlas
     legacy:   jsonable.EntryV0.ToPlain (the JSON / protobuf layers below it are third party)

   The atlas (serial names, omit-empty flags, ORDER of the fields, tag and multibase prefix of
   links) is not written here: it is read from Gen/Tables.v, which tools/gentables regenerates from
   io/cbor/cbor.go on every check.  refmt emits struct fields in atlas order (AddField order); the
   RFC 7049 key sort mode only applies to Go maps, and no Go map is marshalled on these paths.

   Byte strings are [list N]; Go's nil and empty []byte are identified (they encode identically:
   hex "" / text ""), nil and empty []cid.Cid are NOT (null vs empty array): [option (list _)].  *)
From Coq Require Import List NArith ZArith Bool String.
From IpfsLog Require Import Model.Cbor Gen.Tables Gen.Guards.
(* deps: keep this comment line directly after the Require line (lib/verif.py deps_of scans it) *)
Import ListNotations.
Local Open Scope string_scope.
Open Scope N_scope.

(* ---- outcomes ---- *)
Inductive err :=
| EMarshal        (* refmt marshal error: no atlas entry for the type, undefined cid *)
| EUnmarshal      (* ErrCBOROperationFailed: refmt unmarshal error (type mismatch, unknown key ...) *)
| EDecrypt        (* ErrDecrypt: anything DecryptLinks reports *)
| EDeserialize    (* ErrEntryDeserializationFailed: ToPlain reports (hex of key/sig/clock/identity) *)
| EModel.         (* Gen/Tables.v mentions a Go field this model does not know: tie broken *)

Inductive res (A : Type) :=
| Ok (a : A)
| Err (e : err)
| Panic.          (* nil pointer dereference in the Go code *)
Arguments Ok {A} a.
Arguments Err {A} e.
Arguments Panic {A}.

Definition bind {A B} (r : res A) (f : A -> res B) : res B :=
  match r with Ok a => f a | Err e => Err e | Panic => Panic end.

(* a nil pointer reaching a dereference: a panic where Gen/Guards.v (regenerated from
   io/jsonable/types.go) finds no dominating nil check, an error return where it finds one *)
Definition on_nil {A} (panics : bool) : res A := if panics then Panic else Err EDeserialize.

(* ---- small helpers ---- *)
Fixpoint bytes_eqb (a b : bytes) : bool :=
  match a, b with
  | [], [] => true
  | x :: a', y :: b' => (x =? y) && bytes_eqb a' b'
  | _, _ => false
  end.

Definition is_nil {A} (l : list A) : bool := match l with [] => true | _ => false end.

Fixpoint map_opt {A B} (f : A -> option B) (l : list A) : option (list B) :=
  match l with
  | [] => Some []
  | x :: l' => match f x, map_opt f l' with Some y, Some ys => Some (y :: ys) | _, _ => None end
  end.

(* Go map[string]string as an association list; lookup = first match.  [assoc] is the only way the
   written view depends on AdditionalData (ToJsonableEntry indexes the map, it never ranges over it) *)
Fixpoint assoc {V} (k : bytes) (l : list (bytes * V)) : option V :=
  match l with
  | [] => None
  | (k', v) :: l' => if bytes_eqb k k' then Some v else assoc k l'
  end.

Definition set_assoc {V} (k : bytes) (v : V) (l : list (bytes * V)) : list (bytes * V) :=
  (k, v) :: filter (fun kv => negb (bytes_eqb k (fst kv))) l.

(* ---- encoding/hex ---- *)
Definition hex_digit (d : N) : N := if d <? 10 then 48 + d else 87 + d.    (* "0123456789abcdef" *)

Fixpoint hex_encode (bs : bytes) : bytes :=
  match bs with
  | [] => []
  | b :: r => hex_digit (b / 16) :: hex_digit (b mod 16) :: hex_encode r
  end.

Definition hex_val (c : N) : option N :=            (* encoding/hex fromHexChar *)
  if (48 <=? c) && (c <=? 57) then Some (c - 48)
  else if (97 <=? c) && (c <=? 102) then Some (c - 87)
  else if (65 <=? c) && (c <=? 70) then Some (c - 55)
  else None.

Fixpoint hex_decode (s : bytes) : option bytes :=   (* hex.DecodeString; odd length = ErrLength *)
  match s with
  | [] => Some []
  | [_] => None
  | a :: b :: r => match hex_val a, hex_val b, hex_decode r with
                   | Some x, Some y, Some t => Some (x * 16 + y :: t)
                   | _, _, _ => None
                   end
  end.

(* ---- the logical entry (entry.Entry) ---- *)
Record clock_rec := { clk_id : bytes; clk_time : Z }.
Record idsig_rec := { ids_id : bytes; ids_pub : bytes }.
Record identity_rec := { idn_id : bytes; idn_type : bytes; idn_pub : bytes; idn_sigs : option idsig_rec }.
Record entry := {
  e_v : N;
  e_logid : bytes;
  e_payload : bytes;
  e_next : option (list bytes);            (* None = nil slice; a cid is its binary form *)
  e_refs : option (list bytes);
  e_clock : option clock_rec;              (* *LamportClock *)
  e_key : bytes;
  e_sig : bytes;
  e_identity : option identity_rec;
  e_hash : option bytes;                   (* None = cid.Undef *)
  e_additional : list (bytes * bytes)      (* AdditionalData *)
}.

(* iface.KeyEncryptedLinks = "encrypted_links", iface.KeyEncryptedLinksNonce = "encrypted_links_nonce" *)
Definition key_enc_links : bytes := [101;110;99;114;121;112;116;101;100;95;108;105;110;107;115].
Definition key_enc_nonce : bytes := [101;110;99;114;121;112;116;101;100;95;108;105;110;107;115;95;110;111;110;99;101].

(* ---- the serialisable structs (io/jsonable/types.go) ---- *)
Record jclock := { jc_id : bytes; jc_time : Z }.
Record jidsig := { js_id : bytes; js_pub : bytes }.
Record jidentity := { ji_id : bytes; ji_type : bytes; ji_pub : bytes; ji_sigs : option jidsig }.
Record jentry := {                               (* jsonable.Entry = EntryV2; EntryV1 is a prefix *)
  j_v : N; j_logid : bytes; j_key : bytes; j_sig : bytes;
  j_next : option (list bytes); j_refs : option (list bytes);
  j_clock : option jclock; j_payload : bytes; j_identity : option jidentity;
  j_enc_links : bytes; j_enc_nonce : bytes
}.
Definition zero_jentry : jentry :=
  {| j_v := 0; j_logid := []; j_key := []; j_sig := []; j_next := None; j_refs := None; j_clock := None;
     j_payload := []; j_identity := None; j_enc_links := []; j_enc_nonce := [] |}.
Definition zero_jclock : jclock := {| jc_id := []; jc_time := 0%Z |}.
Definition zero_jidsig : jidsig := {| js_id := []; js_pub := [] |}.
Definition zero_jidentity : jidentity := {| ji_id := []; ji_type := []; ji_pub := []; ji_sigs := None |}.

Inductive jsonable := JV0 | JV1 (j : jentry) | JV2 (j : jentry).

(* ---- Normalize (entry/entry.go), preSigned = false, includeHash = false ---- *)
Definition normalize (e : entry) : res entry :=
  match e_clock e with
  | None => Panic                                     (* CopyLamportClock(e.GetClock()) on a nil clock *)
  | Some c =>
    Ok {| e_v := e_v e; e_logid := e_logid e; e_payload := e_payload e; e_next := e_next e;
          e_refs := if 1 <? e_v e then e_refs e else None;
          e_clock := Some c; e_key := e_key e;
          e_sig := e_sig e;                           (* nil when len = 0: same byte string *)
          e_identity := e_identity e; e_hash := None; e_additional := e_additional e |}
  end.

(* ---- ToJsonableEntry ---- *)
Definition to_jclock (c : clock_rec) : jclock := {| jc_id := hex_encode (clk_id c); jc_time := clk_time c |}.

Definition to_jidentity (i : identity_rec) : res jidentity :=
  match idn_sigs i with
  | None => Panic                                     (* ToJsonableIdentitySignature(nil) *)
  | Some s => Ok {| ji_id := idn_id i; ji_type := idn_type i; ji_pub := hex_encode (idn_pub i);
                    ji_sigs := Some {| js_id := hex_encode (ids_id s); js_pub := hex_encode (ids_pub s) |} |}
  end.

Definition to_jsonable (e : entry) : res jsonable :=
  bind (match e_identity e with
        | None => Ok None
        | Some i => bind (to_jidentity i) (fun ji => Ok (Some ji))
        end) (fun ident =>
  match e_clock e with
  | None => Panic
  | Some c =>
    let base := {| j_v := e_v e; j_logid := e_logid e; j_key := hex_encode (e_key e);
                   j_sig := hex_encode (e_sig e); j_next := e_next e; j_refs := e_refs e;
                   j_clock := Some (to_jclock c); j_payload := e_payload e; j_identity := ident;
                   j_enc_links := []; j_enc_nonce := [] |} in
    if e_v e =? 0 then Ok JV0
    else if e_v e =? 1 then Ok (JV1 base)
    else match assoc key_enc_links (e_additional e), assoc key_enc_nonce (e_additional e) with
         | Some l, Some n =>
           Ok (JV2 {| j_v := j_v base; j_logid := j_logid base; j_key := j_key base; j_sig := j_sig base;
                      j_next := Some []; j_refs := Some [];
                      j_clock := j_clock base; j_payload := j_payload base; j_identity := j_identity base;
                      j_enc_links := l; j_enc_nonce := n |})
         | _, _ => Ok (JV2 base)
         end
  end).

(* ---- refmt marshal through the atlas ---- *)
Definition t_int (z : Z) : cbor :=                       (* encodeInt64 *)
  if (0 <=? z)%Z then CUint (Z.to_N z) else CNegint (Z.to_N (-1 - z)).

Definition t_cid (c : bytes) : option cbor :=            (* castCidToBytes + UseTag *)
  match c with
  | [] => None                                           (* !link.Defined() -> ErrEmptyLink *)
  | _ => Some (CTag cid_tag (CBytes (cid_multibase_prefix :: c)))
  end.

Definition t_cids (l : option (list bytes)) : option cbor :=
  match l with
  | None => Some CNull                                   (* nil slice -> TNull *)
  | Some cs => match map_opt t_cid cs with Some ts => Some (CArray ts) | None => None end
  end.

(* obj.isEmptyValue on the kinds that occur (string, slice, pointer, interface, uint), read off
   the marshalled form: "" / nil or empty slice / nil pointer or interface / 0 *)
Definition is_empty_tree (t : cbor) : bool :=
  match t with
  | CText [] | CNull | CArray [] | CUint 0 => true
  | _ => false
  end.

Definition rows_of (sname : string) : list atlas_row :=
  filter (fun r => String.eqb (ar_struct r) sname) atlas_table.

(* marshalMachineStructAtlas: the rows in atlas order; omit-empty rows are skipped when empty *)
Fixpoint marshal_rows (rows : list atlas_row) (fld : string -> res cbor) : res (list (bytes * cbor)) :=
  match rows with
  | [] => Ok []
  | r :: rs =>
    bind (fld (ar_field r)) (fun v =>
    bind (marshal_rows rs fld) (fun kvs =>
    Ok (if ar_omit r && is_empty_tree v then kvs else (ar_serial r, v) :: kvs)))
  end.

Definition marshal_struct (sname : string) (fld : string -> res cbor) : res cbor :=
  match rows_of sname with
  | [] => Err EMarshal                                   (* "missing an atlas entry describing how to marshal type" *)
  | rows => bind (marshal_rows rows fld) (fun kvs => Ok (CMap kvs))
  end.

Definition of_opt (o : option cbor) : res cbor := match o with Some t => Ok t | None => Err EMarshal end.

Definition marshal_jclock (c : jclock) : res cbor :=
  marshal_struct "jsonable.LamportClock" (fun f =>
    if String.eqb f "ID" then Ok (CText (jc_id c))
    else if String.eqb f "Time" then Ok (t_int (jc_time c))
    else Err EModel).

Definition marshal_jidsig (s : jidsig) : res cbor :=
  marshal_struct "jsonable.IdentitySignature" (fun f =>
    if String.eqb f "ID" then Ok (CText (js_id s))
    else if String.eqb f "PublicKey" then Ok (CText (js_pub s))
    else Err EModel).

Definition marshal_ptr {A} (m : A -> res cbor) (o : option A) : res cbor :=
  match o with None => Ok CNull | Some a => m a end.

Definition marshal_jidentity (i : jidentity) : res cbor :=
  marshal_struct "jsonable.Identity" (fun f =>
    if String.eqb f "ID" then Ok (CText (ji_id i))
    else if String.eqb f "Type" then Ok (CText (ji_type i))
    else if String.eqb f "PublicKey" then Ok (CText (ji_pub i))
    else if String.eqb f "Signatures" then marshal_ptr marshal_jidsig (ji_sigs i)
    else Err EModel).

Definition jentry_field (j : jentry) (f : string) : res cbor :=
  if String.eqb f "V" then Ok (CUint (j_v j))
  else if String.eqb f "LogID" then Ok (CText (j_logid j))
  else if String.eqb f "Key" then Ok (CText (j_key j))
  else if String.eqb f "Sig" then Ok (CText (j_sig j))
  else if String.eqb f "Hash" then Ok CNull                 (* Hash interface{} = nil *)
  else if String.eqb f "Next" then of_opt (t_cids (j_next j))
  else if String.eqb f "Refs" then of_opt (t_cids (j_refs j))
  else if String.eqb f "Clock" then marshal_ptr marshal_jclock (j_clock j)
  else if String.eqb f "Payload" then Ok (CText (j_payload j))   (* string(payload): raw bytes in a text string *)
  else if String.eqb f "Identity" then marshal_ptr marshal_jidentity (j_identity j)
  else if String.eqb f "EncryptedLinks" then Ok (CText (j_enc_links j))
  else if String.eqb f "EncryptedLinksNonce" then Ok (CText (j_enc_nonce j))
  else Err EModel.

Definition marshal_jentry (sname : string) (j : jentry) : res cbor := marshal_struct sname (jentry_field j).

Definition marshal_jsonable (x : jsonable) : res cbor :=
  match x with
  | JV0 => marshal_struct "jsonable.EntryV0" (fun _ => Err EModel)    (* not in the atlas *)
  | JV1 j => marshal_jentry "jsonable.EntryV1" j
  | JV2 j => marshal_jentry "jsonable.Entry" j
  end.

(* the tree / the block bytes written for an entry *)
Definition to_tree (e : entry) : res cbor :=
  bind (normalize e) (fun n => bind (to_jsonable n) marshal_jsonable).

Definition entry_block (e : entry) : res bytes := bind (to_tree e) (fun t => Ok (encode t)).

(* manifests: log.ToJSONLog -> Write *)
Definition manifest_to_tree (id : bytes) (heads : option (list bytes)) : res cbor :=
  marshal_struct "iface.JSONLog" (fun f =>
    if String.eqb f "ID" then Ok (CText id)
    else if String.eqb f "Heads" then of_opt (t_cids heads)
    else Err EModel).

(* ---- refmt unmarshal into the typed structs ---- *)
(* the CBOR decoder folds any chain of tags into the token of the tagged item, and typed targets
   never look at the tag *)
Fixpoint untag (t : cbor) : cbor := match t with CTag _ v => untag v | _ => t end.

Definition two63 : N := 9223372036854775808.

Section Decode.
  (* go-cid's structural validation of a binary cid (cid.Cast) is third party *)
  Variable cidok : bytes -> bool.

  Definition u_cid (t : cbor) : res bytes :=            (* []byte target + castBytesToCid *)
    match untag t with
    | CBytes (p :: c) => if (p =? cid_multibase_prefix) && cidok c then Ok c else Err EUnmarshal
    | _ => Err EUnmarshal                               (* null / empty -> ErrEmptyLink; other kinds *)
    end.

  Fixpoint u_list (l : list cbor) : res (list bytes) :=
    match l with
    | [] => Ok []
    | x :: l' => bind (u_cid x) (fun c => bind (u_list l') (fun cs => Ok (c :: cs)))
    end.

  Definition u_cids (t : cbor) : res (option (list bytes)) :=
    match untag t with
    | CNull => Ok None
    | CArray l => bind (u_list l) (fun cs => Ok (Some cs))
    | _ => Err EUnmarshal
    end.

  Definition u_text (t : cbor) : res bytes :=
    match untag t with CText s => Ok s | _ => Err EUnmarshal end.

  Definition u_uint (t : cbor) : res N :=
    match untag t with CUint n => Ok n | _ => Err EUnmarshal end.

  Definition u_int (t : cbor) : res Z :=                (* int target; "todo: overflow check" *)
    match untag t with
    | CUint n => Ok (if n <? two63 then Z.of_N n else (Z.of_N n - Z.of_N two64)%Z)
    | CNegint n => if n <? two63 then Ok (-1 - Z.of_N n)%Z else Err EUnmarshal
    | _ => Err EUnmarshal
    end.

  (* interface{} target: generic decode; a tag needs an atlas entry: only the link tag has one *)
  Fixpoint wild_ok (t : cbor) : bool :=
    match t with
    | CTag tg v => (tg =? cid_tag) && match u_cid v with Ok _ => true | _ => false end
    | CArray l => forallb wild_ok l
    | CMap kvs => forallb (fun kv => wild_ok (snd kv)) kvs
    | _ => true
    end.

  (* unmarshalMachineStructAtlas: keys in any order, unknown key = error, later duplicates win *)
  Fixpoint unmarshal_fields {S} (rows : list atlas_row) (setf : string -> cbor -> S -> res S)
           (kvs : list (bytes * cbor)) (st : S) : res S :=
    match kvs with
    | [] => Ok st
    | (k, v) :: kvs' =>
      match find (fun r => bytes_eqb (ar_serial r) k) rows with
      | None => Err EUnmarshal                            (* ErrNoSuchField *)
      | Some r => bind (setf (ar_field r) v st) (unmarshal_fields rows setf kvs')
      end
    end.

  (* pointer-to-struct field: null -> nil; map -> fill the existing struct or a fresh one *)
  Definition u_ptr {S} (sname : string) (setf : string -> cbor -> S -> res S) (zero : S)
             (cur : option S) (t : cbor) : res (option S) :=
    match untag t with
    | CNull => Ok None
    | CMap kvs => bind (unmarshal_fields (rows_of sname) setf kvs (match cur with Some c => c | None => zero end))
                       (fun s => Ok (Some s))
    | _ => Err EUnmarshal
    end.

  Definition set_jclock (f : string) (v : cbor) (c : jclock) : res jclock :=
    if String.eqb f "ID" then bind (u_text v) (fun s => Ok {| jc_id := s; jc_time := jc_time c |})
    else if String.eqb f "Time" then bind (u_int v) (fun z => Ok {| jc_id := jc_id c; jc_time := z |})
    else Err EModel.

  Definition set_jidsig (f : string) (v : cbor) (s : jidsig) : res jidsig :=
    if String.eqb f "ID" then bind (u_text v) (fun x => Ok {| js_id := x; js_pub := js_pub s |})
    else if String.eqb f "PublicKey" then bind (u_text v) (fun x => Ok {| js_id := js_id s; js_pub := x |})
    else Err EModel.

  Definition set_jidentity (f : string) (v : cbor) (i : jidentity) : res jidentity :=
    if String.eqb f "ID" then bind (u_text v) (fun x => Ok {| ji_id := x; ji_type := ji_type i; ji_pub := ji_pub i; ji_sigs := ji_sigs i |})
    else if String.eqb f "Type" then bind (u_text v) (fun x => Ok {| ji_id := ji_id i; ji_type := x; ji_pub := ji_pub i; ji_sigs := ji_sigs i |})
    else if String.eqb f "PublicKey" then bind (u_text v) (fun x => Ok {| ji_id := ji_id i; ji_type := ji_type i; ji_pub := x; ji_sigs := ji_sigs i |})
    else if String.eqb f "Signatures" then
      bind (u_ptr "jsonable.IdentitySignature" set_jidsig zero_jidsig (ji_sigs i) v)
           (fun x => Ok {| ji_id := ji_id i; ji_type := ji_type i; ji_pub := ji_pub i; ji_sigs := x |})
    else Err EModel.

  Definition set_jentry (f : string) (v : cbor) (j : jentry) : res jentry :=
    let upd (v' : N) lg ky sg nx rf ck pl idn el en :=
      {| j_v := v'; j_logid := lg; j_key := ky; j_sig := sg; j_next := nx; j_refs := rf; j_clock := ck;
         j_payload := pl; j_identity := idn; j_enc_links := el; j_enc_nonce := en |} in
    let '(Build_jentry v0 lg ky sg nx rf ck pl idn el en) := j in
    if String.eqb f "V" then bind (u_uint v) (fun x => Ok (upd x lg ky sg nx rf ck pl idn el en))
    else if String.eqb f "LogID" then bind (u_text v) (fun x => Ok (upd v0 x ky sg nx rf ck pl idn el en))
    else if String.eqb f "Key" then bind (u_text v) (fun x => Ok (upd v0 lg x sg nx rf ck pl idn el en))
    else if String.eqb f "Sig" then bind (u_text v) (fun x => Ok (upd v0 lg ky x nx rf ck pl idn el en))
    else if String.eqb f "Hash" then if wild_ok v then Ok j else Err EUnmarshal
    else if String.eqb f "Next" then bind (u_cids v) (fun x => Ok (upd v0 lg ky sg x rf ck pl idn el en))
    else if String.eqb f "Refs" then bind (u_cids v) (fun x => Ok (upd v0 lg ky sg nx x ck pl idn el en))
    else if String.eqb f "Clock" then
      bind (u_ptr "jsonable.LamportClock" set_jclock zero_jclock ck v) (fun x => Ok (upd v0 lg ky sg nx rf x pl idn el en))
    else if String.eqb f "Payload" then bind (u_text v) (fun x => Ok (upd v0 lg ky sg nx rf ck x idn el en))
    else if String.eqb f "Identity" then
      bind (u_ptr "jsonable.Identity" set_jidentity zero_jidentity idn v) (fun x => Ok (upd v0 lg ky sg nx rf ck pl x el en))
    else if String.eqb f "EncryptedLinks" then bind (u_text v) (fun x => Ok (upd v0 lg ky sg nx rf ck pl idn x en))
    else if String.eqb f "EncryptedLinksNonce" then bind (u_text v) (fun x => Ok (upd v0 lg ky sg nx rf ck pl idn el x))
    else Err EModel.

  (* cbornode.DecodeInto(raw, &jsonable.EntryV2{}) at tree level *)
  Definition unmarshal_jentry (t : cbor) : res jentry :=
    match t with
    | CNull => Ok zero_jentry
    | CMap kvs => unmarshal_fields (rows_of "jsonable.Entry") set_jentry kvs zero_jentry
    | _ => Err EUnmarshal
    end.

  Definition of_hex (e : err) (s : bytes) : res bytes :=
    match hex_decode s with Some b => Ok b | None => Err e end.

  (* Entry.ToPlain as it was before commit 7c07d71 (kept only for the regression witnesses in
     Props/C08.v): AdditionalData was never restored *)
  (* The conversions take the three "a nil pointer panics here" flags as parameters ([_g] versions);
     the versions without suffix are instantiated with what Gen/Guards.v reports for today's text. *)
  Section Guards.
    Variables pc pi ps : bool.     (* nil Clock in Entry.ToPlain / nil Identity / nil Signatures panic *)

    (* Identity.ToPlain (with IdentitySignature.ToPlain) under the nil check of Entry.ToPlain *)
    Definition to_plain_identity_g (o : option jidentity) : res (option identity_rec) :=
      match o with
      | None => if pi then Panic else Ok None                             (* if c.Identity != nil *)
      | Some i =>
        bind (of_hex EDeserialize (ji_pub i)) (fun pub =>
        match ji_sigs i with
        | None => on_nil ps                                               (* c.Signatures.ToPlain() *)
        | Some s =>
          bind (of_hex EDeserialize (js_pub s)) (fun spub =>
          bind (of_hex EDeserialize (js_id s)) (fun sid =>
          Ok (Some {| idn_id := ji_id i; idn_type := ji_type i; idn_pub := pub;
                      idn_sigs := Some {| ids_id := sid; ids_pub := spub |} |})))
        end)
      end.

    Definition to_plain_before_fix_g (h : bytes) (j : jentry) : res entry :=
      bind (of_hex EDeserialize (j_key j)) (fun key =>
      bind (of_hex EDeserialize (j_sig j)) (fun sig =>
      match j_clock j with
      | None => on_nil pc                                                 (* c.Clock.ToPlain(clock) *)
      | Some c =>
        bind (of_hex EDeserialize (jc_id c)) (fun cid =>
        bind (to_plain_identity_g (j_identity j)) (fun ident =>
        Ok {| e_v := j_v j; e_logid := j_logid j; e_payload := j_payload j; e_next := j_next j;
              e_refs := j_refs j; e_clock := Some {| clk_id := cid; clk_time := jc_time c |};
              e_key := key; e_sig := sig; e_identity := ident; e_hash := Some h;
              e_additional := [] |}))       (* AdditionalData was not restored *)
      end)).

    Definition to_plain_g (h : bytes) (j : jentry) : res entry :=
      bind (to_plain_before_fix_g h j) (fun e =>
      Ok {| e_v := e_v e; e_logid := e_logid e; e_payload := e_payload e; e_next := e_next e;
            e_refs := e_refs e; e_clock := e_clock e; e_key := e_key e; e_sig := e_sig e;
            e_identity := e_identity e; e_hash := e_hash e;
            e_additional := if is_nil (j_enc_links j) && is_nil (j_enc_nonce j) then []
                            else [(key_enc_links, j_enc_links j); (key_enc_nonce, j_enc_nonce j)] |}).
  End Guards.

  Definition guard_clock : bool := nil_panics "Entry.ToPlain" "Clock".
  Definition guard_identity : bool := nil_panics "Entry.ToPlain" "Identity".
  Definition guard_signatures : bool := nil_panics "Identity.ToPlain" "Signatures".

  Definition to_plain_identity := to_plain_identity_g guard_identity guard_signatures.
  (* Entry.ToPlain as it was before commit 7c07d71 (kept only for the regression witnesses in
     Props/C08.v): AdditionalData was never restored *)
  Definition to_plain_before_fix := to_plain_before_fix_g guard_clock guard_identity guard_signatures.

  (* Entry.ToPlain followed by SetHash(hash).  Since 7c07d71 the two link strings stored in the block
     are put back into AdditionalData (when at least one of them is non-empty). *)
  Definition to_plain (h : bytes) (j : jentry) : res entry :=
    bind (to_plain_before_fix h j) (fun e =>
    Ok {| e_v := e_v e; e_logid := e_logid e; e_payload := e_payload e; e_next := e_next e;
          e_refs := e_refs e; e_clock := e_clock e; e_key := e_key e; e_sig := e_sig e;
          e_identity := e_identity e; e_hash := e_hash e;
          e_additional := if is_nil (j_enc_links j) && is_nil (j_enc_nonce j) then []
                          else [(key_enc_links, j_enc_links j); (key_enc_nonce, j_enc_nonce j)] |}).

  (* ---- the link-encrypting variant ---- *)
  Section Links.
    Variable K : Type.
    Variable seal : K -> bytes -> bytes -> bytes.             (* SealWithNonce key nonce message *)
    Variable open_ : K -> bytes -> bytes -> option bytes.     (* OpenWithNonce key nonce box *)
    Variable nonce_of : entry -> bytes.                       (* DeriveNonce(NonceRefForEntry(e)) *)
    Variable b64enc : bytes -> bytes.                         (* base64.StdEncoding *)
    Variable b64dec : bytes -> option bytes.

    Fixpoint dedup (seen l : list bytes) : list bytes :=      (* uniqueCIDs *)
      match l with
      | [] => []
      | c :: l' => if existsb (bytes_eqb c) seen then dedup seen l' else c :: dedup (c :: seen) l'
      end.
    Definition unique_cids (l : option (list bytes)) : option (list bytes) :=
      Some (dedup [] (match l with Some x => x | None => [] end)).

    Definition copy_entry (e : entry) : entry :=              (* Entry.Copy *)
      {| e_v := e_v e; e_logid := e_logid e; e_payload := e_payload e; e_next := unique_cids (e_next e);
         e_refs := unique_cids (e_refs e); e_clock := e_clock e; e_key := e_key e; e_sig := e_sig e;
         e_identity := e_identity e; e_hash := e_hash e; e_additional := e_additional e |}.

    Definition len0 (l : option (list bytes)) : bool := match l with Some (_ :: _) => false | _ => true end.

    (* the struct PreSign marshals: a zero EntryV2 with only Next and Refs set *)
    Definition links_struct (next refs : option (list bytes)) : jentry :=
      {| j_v := 0; j_logid := []; j_key := []; j_sig := []; j_next := next; j_refs := refs; j_clock := None;
         j_payload := []; j_identity := None; j_enc_links := []; j_enc_nonce := [] |}.
    Definition links_tree (next refs : option (list bytes)) : res cbor :=
      marshal_jentry "jsonable.Entry" (links_struct next refs).

    Definition with_additional (e : entry) (a : list (bytes * bytes)) : entry :=
      {| e_v := e_v e; e_logid := e_logid e; e_payload := e_payload e; e_next := e_next e;
         e_refs := e_refs e; e_clock := e_clock e; e_key := e_key e; e_sig := e_sig e;
         e_identity := e_identity e; e_hash := e_hash e; e_additional := a |}.

    Definition presign (key : option K) (e : entry) : res entry :=   (* IOCbor.PreSign *)
      match key with
      | None => Ok e
      | Some k =>
        if len0 (e_next e) && len0 (e_refs e) then Ok e else
        let e' := copy_entry e in
        bind (links_tree (e_next e') (e_refs e')) (fun t =>
        let nonce := nonce_of e' in
        let box := seal k nonce (encode t) in
        Ok (with_additional e' (set_assoc key_enc_nonce (b64enc nonce)
                               (set_assoc key_enc_links (b64enc box) (e_additional e')))))
      end.

    Definition with_links (j : jentry) (next refs : option (list bytes)) : jentry :=
      {| j_v := j_v j; j_logid := j_logid j; j_key := j_key j; j_sig := j_sig j; j_next := next; j_refs := refs;
         j_clock := j_clock j; j_payload := j_payload j; j_identity := j_identity j;
         j_enc_links := j_enc_links j; j_enc_nonce := j_enc_nonce j |}.

    Definition decrypt_links (key : option K) (j : jentry) : res jentry :=   (* IOCbor.DecryptLinks *)
      match key with
      | None => Ok j
      | Some k =>
        if is_nil (j_enc_links j) || is_nil (j_enc_nonce j) then Ok j else
        match b64dec (j_enc_links j), b64dec (j_enc_nonce j) with
        | Some box, Some nonce =>
          match open_ k nonce box with
          | None => Err EDecrypt
          | Some m =>
            match decode_all m with                       (* refmt's decoder; strict one here *)
            | None => Err EDecrypt
            | Some t => match unmarshal_jentry t with
                        | Ok l => Ok (with_links j (j_next l) (j_refs l))
                        | _ => Err EDecrypt
                        end
            end
          end
        | _, _ => Err EDecrypt
        end
      end.

    (* IOCbor.DecodeRawEntry at tree level *)
    Definition of_tree (key : option K) (h : bytes) (t : cbor) : res entry :=
      bind (unmarshal_jentry t) (fun j => bind (decrypt_links key j) (to_plain h)).

    (* the reader as it was before 7c07d71 *)
    Definition of_tree_before_fix (key : option K) (h : bytes) (t : cbor) : res entry :=
      bind (unmarshal_jentry t) (fun j => bind (decrypt_links key j) (to_plain_before_fix h)).
    (* the reader with explicit guard flags (C12: [of_tree_g false false false] is the reader with
       every nil check in place) *)
    Definition of_tree_g (pc pi ps : bool) (key : option K) (h : bytes) (t : cbor) : res entry :=
      bind (unmarshal_jentry t) (fun j => bind (decrypt_links key j) (to_plain_g pc pi ps h)).
  End Links.

  (* default codec: no key; the crypto parameters are never consulted *)
  Definition of_tree_plain (h : bytes) (t : cbor) : res entry :=
    of_tree unit (fun _ _ _ => None) (fun _ => None) None h t.

  Definition of_block_plain (h : bytes) (block : bytes) : res entry :=
    match decode_all block with Some t => of_tree_plain h t | None => Err EUnmarshal end.

  (* manifests: cbornode.DecodeInto(raw, &iface.JSONLog{}) *)
  Definition set_manifest (f : string) (v : cbor) (m : bytes * option (list bytes)) : res (bytes * option (list bytes)) :=
    if String.eqb f "ID" then bind (u_text v) (fun x => Ok (x, snd m))
    else if String.eqb f "Heads" then bind (u_cids v) (fun x => Ok (fst m, x))
    else Err EModel.

  Definition manifest_of_tree (t : cbor) : res (bytes * option (list bytes)) :=
    match t with
    | CNull => Ok ([], None)
    | CMap kvs => unmarshal_fields (rows_of "iface.JSONLog") set_manifest kvs ([], None)
    | _ => Err EUnmarshal
    end.
End Decode.

(* ---- what a write followed by a read preserves: everything except
        - the hash, which is set to the identifier asked for,
        - refs of entries with v <= 1 (Normalize does not write them),
        - AdditionalData other than the two link strings (only those are stored, and only when
          both are present, v > 1, and at least one is non-empty); when both were present and
          the reader has no key, the links are gone as well (they were written as []). ---- *)
Definition has_enc (e : entry) : bool :=
  match assoc key_enc_links (e_additional e), assoc key_enc_nonce (e_additional e) with
  | Some _, Some _ => 1 <? e_v e
  | _, _ => false
  end.

(* the part of AdditionalData that is stored in the block and restored by ToPlain *)
Definition enc_pair (e : entry) : list (bytes * bytes) :=
  match assoc key_enc_links (e_additional e), assoc key_enc_nonce (e_additional e) with
  | Some l, Some n => if 1 <? e_v e then
                        if is_nil l && is_nil n then [] else [(key_enc_links, l); (key_enc_nonce, n)]
                      else []
  | _, _ => []
  end.

Definition normal (h : bytes) (e : entry) : entry :=
  {| e_v := e_v e; e_logid := e_logid e; e_payload := e_payload e;
     e_next := if has_enc e then Some [] else e_next e;
     e_refs := if has_enc e then Some [] else if 1 <? e_v e then e_refs e else None;
     e_clock := e_clock e; e_key := e_key e; e_sig := e_sig e; e_identity := e_identity e;
     e_hash := Some h; e_additional := enc_pair e |}.

(* what a read with the right link key preserves: the links too *)
Definition strip_additional (h : bytes) (e : entry) : entry :=
  {| e_v := e_v e; e_logid := e_logid e; e_payload := e_payload e; e_next := e_next e; e_refs := e_refs e;
     e_clock := e_clock e; e_key := e_key e; e_sig := e_sig e; e_identity := e_identity e;
     e_hash := Some h; e_additional := enc_pair e |}.

(* before 7c07d71: AdditionalData came back empty *)
Definition drop_additional (e : entry) : entry :=
  {| e_v := e_v e; e_logid := e_logid e; e_payload := e_payload e; e_next := e_next e; e_refs := e_refs e;
     e_clock := e_clock e; e_key := e_key e; e_sig := e_sig e; e_identity := e_identity e;
     e_hash := e_hash e; e_additional := [] |}.

(* ---- well-formed entries: what the round trip needs ---- *)
Definition is_bytes (bs : bytes) : bool := forallb (fun b => b <? 256) bs.
Definition small {A} (l : list A) : bool := len l <? two64.
Definition wf_cids (cidok : bytes -> bool) (l : option (list bytes)) : bool :=
  match l with
  | None => true
  | Some cs => small cs && forallb (fun c => negb (is_nil c) && cidok c && (N.succ (len c) <? two64)) cs
  end.
Definition int64_ok (z : Z) : bool := (- Z.of_N two63 <=? z)%Z && (z <? Z.of_N two63)%Z.

Definition wf_identity (i : identity_rec) : bool :=
  is_bytes (idn_pub i) && small (idn_id i) && small (idn_type i) && small (hex_encode (idn_pub i)) &&
  match idn_sigs i with
  | None => false
  | Some s => is_bytes (ids_id s) && is_bytes (ids_pub s) && small (hex_encode (ids_id s)) && small (hex_encode (ids_pub s))
  end.

Definition wf_entry (cidok : bytes -> bool) (e : entry) : bool :=
  (1 <=? e_v e) && (e_v e <? two64) &&
  small (e_logid e) && small (e_payload e) &&
  is_bytes (e_key e) && is_bytes (e_sig e) && small (hex_encode (e_key e)) && small (hex_encode (e_sig e)) &&
  wf_cids cidok (e_next e) && wf_cids cidok (e_refs e) &&
  match e_clock e with
  | None => false
  | Some c => is_bytes (clk_id c) && small (hex_encode (clk_id c)) && int64_ok (clk_time c)
  end &&
  match e_identity e with None => true | Some i => wf_identity i end &&
  match assoc key_enc_links (e_additional e), assoc key_enc_nonce (e_additional e) with
  | Some l, Some n => small l && small n
  | _, _ => true
  end.

(* ---- legacy v0 (io/pb): jsonable.EntryV0 and its ToPlain; JSON and protobuf are third party ---- *)
Record jentry_v0 := {
  v0_hash : option bytes;                 (* *string *)
  v0_id : bytes; v0_payload : bytes;
  v0_next : option (list bytes);          (* []string, cid strings *)
  v0_v : N; v0_clock : option jclock; v0_key : bytes; v0_sig : bytes
}.

Section V0.
  Variable cid_parse : bytes -> option bytes.   (* cid.Parse on a string *)
  Variable cid_string : bytes -> bytes.         (* Cid.String *)

  (* ToJsonableEntry, case 0 *)
  Definition to_jsonable_v0 (e : entry) : res jentry_v0 :=
    match e_clock e with
    | None => Panic
    | Some c =>
      Ok {| v0_hash := match e_hash e with Some h => Some (cid_string h) | None => None end;
            v0_id := e_logid e; v0_payload := e_payload e;
            v0_next := Some (map cid_string (match e_next e with Some l => l | None => [] end));
            v0_v := e_v e; v0_clock := Some (to_jclock c);
            v0_key := hex_encode (e_key e); v0_sig := hex_encode (e_sig e) |}
    end.

  (* EntryV0.ToPlain then pb.DecodeRawEntry's SetHash(hash); [ph pc0]: a nil Hash / nil Clock panics *)
  Definition v0_to_plain_g (ph pc0 : bool) (h : bytes) (j : jentry_v0) : res entry :=
    bind (match v0_hash j with
          | None => if ph then Panic else Ok tt                               (* if e.Hash != nil *)
          | Some s => match cid_parse s with Some _ => Ok tt | None => Err EDeserialize end
          end) (fun _ =>
    match v0_clock j with
    | None => on_nil pc0                                      (* e.Clock.ToPlain(clock) *)
    | Some c =>
      bind (of_hex EDeserialize (jc_id c)) (fun cid =>
      bind (of_hex EDeserialize (v0_sig j)) (fun sig =>
      bind (of_hex EDeserialize (v0_key j)) (fun key =>
      match map_opt cid_parse (match v0_next j with Some l => l | None => [] end) with
      | None => Err EDeserialize
      | Some nx =>
        Ok {| e_v := v0_v j; e_logid := v0_id j; e_payload := v0_payload j; e_next := Some nx;
              e_refs := None; e_clock := Some {| clk_id := cid; clk_time := jc_time c |};
              e_key := key; e_sig := sig; e_identity := None; e_hash := Some h; e_additional := [] |}
      end)))
    end).

  Definition v0_to_plain := v0_to_plain_g (nil_panics "EntryV0.ToPlain" "Hash") (nil_panics "EntryV0.ToPlain" "Clock").

  Definition normal_v0 (h : bytes) (e : entry) : entry :=
    {| e_v := e_v e; e_logid := e_logid e; e_payload := e_payload e;
       e_next := Some (match e_next e with Some l => l | None => [] end);
       e_refs := None; e_clock := e_clock e; e_key := e_key e; e_sig := e_sig e; e_identity := None;
       e_hash := Some h; e_additional := [] |}.
End V0.
