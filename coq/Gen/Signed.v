(* gensigned refused to translate the current /repo source; regenerated on the next run *)
Definition translator_refused : unit := tt.
