(* Laws of the comparator models (C19). *)
From Coq Require Import List ZArith Bool Lia Permutation Sorted ZifyBool.
From IpfsLog Require Import Model.Order Proofs.SortProofs.
Import ListNotations.
Open Scope Z_scope.

(* What bytes.Compare / strings.Compare guarantee: a three-way total order. *)
Record KOrd (K : Type) (kcmp : K -> K -> Z) : Prop := {
  k_range : forall a b, kcmp a b = -1 \/ kcmp a b = 0 \/ kcmp a b = 1;
  k_eq : forall a b, kcmp a b = 0 <-> a = b;
  k_anti : forall a b, kcmp b a = - kcmp a b;
  k_trans : forall a b c, kcmp a b < 0 -> kcmp b c < 0 -> kcmp a c < 0;
}.

Lemma wrap64_id x : - two63 <= x < two63 -> wrap64 x = x.
Proof.
  intros H. unfold wrap64. rewrite Z.mod_small; unfold two63, two64 in *; lia.
Qed.

Ltac Zify.zify_post_hook ::= Z.div_mod_to_equations.

Lemma wrap64_cases x : - two64 < x < two64 ->
  (- two63 <= x < two63 /\ wrap64 x = x) \/
  (two63 <= x /\ wrap64 x = x - two64) \/
  (x < - two63 /\ wrap64 x = x + two64).
Proof. unfold wrap64, two63, two64. intros H. lia. Qed.

Ltac td_cases :=
  unfold int64_range, time_dist, max_int;
  intros;
  match goal with
  | |- context [wrap64 ?x] =>
      let W := fresh "W" in
      assert (W : - two64 < x < two64) by (unfold two63, two64 in *; lia);
      destruct (wrap64_cases x W) as [[? ->]|[[? ->]|[? ->]]]
  end;
  try match goal with
  | |- context [wrap64 ?x] =>
      let W := fresh "W" in
      assert (W : - two64 < x < two64) by (unfold two63, two64 in *; lia);
      destruct (wrap64_cases x W) as [[? ->]|[[? ->]|[? ->]]]
  end;
  unfold two63, two64 in *;
  repeat match goal with
  | |- context [Z.ltb ?a ?b] => destruct (Z.ltb_spec a b)
  | |- context [Z.leb ?a ?b] => destruct (Z.leb_spec a b)
  | |- context [Z.eqb ?a ?b] => destruct (Z.eqb_spec a b)
  end; cbn [andb orb]; try lia.

Lemma time_dist_lt t1 t2 : int64_range t1 -> int64_range t2 -> t1 < t2 ->
  - two63 < time_dist t1 t2 < 0.
Proof. td_cases. Qed.

Lemma time_dist_gt t1 t2 : int64_range t1 -> int64_range t2 -> t2 < t1 ->
  0 < time_dist t1 t2 < two63.
Proof. td_cases. Qed.

Lemma time_dist_spec_lt t1 t2 : int64_range t1 -> int64_range t2 -> t1 < t2 ->
  time_dist t1 t2 = if t2 - t1 <? two63 then t1 - t2 else - max_int.
Proof. td_cases. Qed.

Lemma time_dist_spec_gt t1 t2 : int64_range t1 -> int64_range t2 -> t2 < t1 ->
  time_dist t1 t2 = if t1 - t2 <? two63 then t1 - t2 else max_int.
Proof. td_cases. Qed.

Lemma time_dist_anti t1 t2 : int64_range t1 -> int64_range t2 -> t1 <> t2 ->
  time_dist t2 t1 = - time_dist t1 t2.
Proof.
  intros H1 H2 Hne. destruct (Z_lt_ge_dec t1 t2) as [L|G].
  - rewrite (time_dist_spec_lt t1 t2 H1 H2 L), (time_dist_spec_gt t2 t1 H2 H1 L).
    destruct (t2 - t1 <? two63); unfold max_int; lia.
  - assert (L : t2 < t1) by lia.
    rewrite (time_dist_spec_gt t1 t2 H1 H2 L), (time_dist_spec_lt t2 t1 H2 H1 L).
    destruct (t1 - t2 <? two63); unfold max_int; lia.
Qed.

Lemma ncmp_ord : KOrd N ncmp.
Proof.
  split; unfold ncmp; intros.
  - destruct (N.compare a b); auto.
  - destruct (N.compare_spec a b); split; intros; subst; try lia; try discriminate.
  - rewrite (N.compare_antisym a b). destruct (N.compare a b); reflexivity.
  - destruct (N.compare_spec a b), (N.compare_spec b c), (N.compare_spec a c); subst; lia.
Qed.

(* bytes.Compare on byte strings: lexicographic, a proper prefix is smaller. *)
Fixpoint lexcmp (a b : list N) : Z :=
  match a, b with
  | [], [] => 0
  | [], _ :: _ => -1
  | _ :: _, [] => 1
  | x :: a', y :: b' => let c := ncmp x y in if c =? 0 then lexcmp a' b' else c
  end.

Lemma lexcmp_ord : KOrd (list N) lexcmp.
Proof.
  pose proof ncmp_ord as [nr ne na nt].
  split.
  - induction a as [|x a IH]; destruct b as [|y b]; cbn [lexcmp]; auto.
    destruct (ncmp x y =? 0) eqn:E; [apply IH|]. specialize (nr x y). lia.
  - induction a as [|x a IH]; destruct b as [|y b]; cbn [lexcmp]; split; intros H;
      try reflexivity; try discriminate; try lia.
    + destruct (ncmp x y =? 0) eqn:E.
      * apply Z.eqb_eq in E. apply ne in E. subst. f_equal. now apply IH.
      * apply Z.eqb_neq in E. contradiction.
    + inversion H; subst. assert (ncmp y y = 0) by now apply ne. rewrite H0. cbn. now apply IH.
  - induction a as [|x a IH]; destruct b as [|y b]; cbn [lexcmp]; try reflexivity.
    rewrite (na x y). destruct (ncmp x y =? 0) eqn:E.
    + apply Z.eqb_eq in E. rewrite E. cbn. apply IH.
    + apply Z.eqb_neq in E. assert (- ncmp x y =? 0 = false) by (apply Z.eqb_neq; lia).
      now rewrite H.
  - induction a as [|x a IH]; destruct b as [|y b]; destruct c as [|z c]; cbn [lexcmp]; try lia.
    destruct (ncmp x y =? 0) eqn:E1; destruct (ncmp y z =? 0) eqn:E2;
      rewrite ?Z.eqb_eq, ?Z.eqb_neq in *.
    + apply ne in E1, E2. subst. assert (ncmp z z = 0) by now apply ne. rewrite H. cbn. apply IH.
    + apply ne in E1. subst. apply Z.eqb_neq in E2. rewrite E2. auto.
    + apply ne in E2. subst. apply Z.eqb_neq in E1. rewrite E1. auto.
    + intros H1 H2. pose proof (nt x y z H1 H2).
      assert (ncmp x z =? 0 = false) by (apply Z.eqb_neq; lia). now rewrite H0.
Qed.

Section Laws.
  Variable K : Type.
  Variable kcmp : K -> K -> Z.
  Hypothesis KO : KOrd K kcmp.

  Notation skey := (skey K).
  Definition time_ok (a : skey) : Prop := int64_range (sk_time a).

  Definition lt_by (f : skey -> skey -> cres) (a b : skey) : Prop :=
    exists r, f a b = COk r /\ r < 0.

  Lemma kcmp_refl a : kcmp a a = 0.
  Proof. now apply (k_eq _ _ KO). Qed.

  (* ---- clock comparison ---- *)
  Lemma clock_compare_anti t1 i1 t2 i2 :
    int64_range t1 -> int64_range t2 ->
    clock_compare K kcmp t2 i2 t1 i1 = - clock_compare K kcmp t1 i1 t2 i2.
  Proof.
    intros H1 H2. unfold clock_compare. rewrite (Z.eqb_sym t2 t1).
    destruct (t1 =? t2) eqn:E; [apply (k_anti _ _ KO)|].
    apply Z.eqb_neq in E. now apply time_dist_anti.
  Qed.

  Lemma clock_compare_time t1 i1 t2 i2 :
    int64_range t1 -> int64_range t2 -> t1 < t2 -> clock_compare K kcmp t1 i1 t2 i2 < 0.
  Proof.
    intros H1 H2 H. unfold clock_compare.
    assert (t1 =? t2 = false) by (apply Z.eqb_neq; lia). rewrite H0.
    pose proof (time_dist_lt t1 t2 H1 H2 H). lia.
  Qed.

  Lemma clock_compare_neg_inv t1 i1 t2 i2 :
    int64_range t1 -> int64_range t2 -> clock_compare K kcmp t1 i1 t2 i2 < 0 ->
    t1 < t2 \/ (t1 = t2 /\ kcmp i1 i2 < 0).
  Proof.
    intros H1 H2. unfold clock_compare. destruct (t1 =? t2) eqn:E.
    - apply Z.eqb_eq in E. auto.
    - apply Z.eqb_neq in E. intros L. destruct (Z_lt_ge_dec t1 t2) as [|G]; [auto|].
      assert (t2 < t1) by lia. pose proof (time_dist_gt t1 t2 H1 H2 H). lia.
  Qed.

  Lemma clock_compare_trans t1 i1 t2 i2 t3 i3 :
    int64_range t1 -> int64_range t2 -> int64_range t3 ->
    clock_compare K kcmp t1 i1 t2 i2 < 0 -> clock_compare K kcmp t2 i2 t3 i3 < 0 ->
    clock_compare K kcmp t1 i1 t3 i3 < 0.
  Proof.
    intros H1 H2 H3 A B.
    apply clock_compare_neg_inv in A; auto. apply clock_compare_neg_inv in B; auto.
    destruct A as [A|[A A']], B as [B|[B B']]; subst;
      try (apply clock_compare_time; auto; lia).
    unfold clock_compare. rewrite Z.eqb_refl. eapply (k_trans _ _ KO); eauto.
  Qed.

  Lemma clock_compare_zero t1 i1 t2 i2 :
    int64_range t1 -> int64_range t2 ->
    (clock_compare K kcmp t1 i1 t2 i2 = 0 <-> t1 = t2 /\ i1 = i2).
  Proof.
    intros H1 H2. unfold clock_compare.
    destruct (t1 =? t2) eqn:E; rewrite ?Z.eqb_eq, ?Z.eqb_neq in *.
    - rewrite (k_eq _ _ KO). tauto.
    - split; [|tauto]. intros Z0. exfalso.
      destruct (Z_lt_ge_dec t1 t2) as [L|G].
      + pose proof (time_dist_lt t1 t2 H1 H2 L). lia.
      + assert (L : t2 < t1) by lia. pose proof (time_dist_gt t1 t2 H1 H2 L). lia.
  Qed.

  Lemma time_dist_nonzero t1 t2 : int64_range t1 -> int64_range t2 -> t1 <> t2 ->
    time_dist t1 t2 =? 0 = false.
  Proof.
    intros H1 H2 Hne. apply Z.eqb_neq. destruct (Z_lt_ge_dec t1 t2) as [L|G].
    - pose proof (time_dist_lt t1 t2 H1 H2 L). lia.
    - assert (L : t2 < t1) by lia. pose proof (time_dist_gt t1 t2 H1 H2 L). lia.
  Qed.

  (* ---- closed forms of the two orderings on valid times ---- *)
  Definition hash_val (a b : skey) : Z :=
    if sk_time a =? sk_time b then
      (if kcmp (sk_id a) (sk_id b) =? 0 then kcmp (sk_hash a) (sk_hash b)
       else kcmp (sk_id a) (sk_id b))
    else time_dist (sk_time a) (sk_time b).

  Lemma hash_spec a b : time_ok a -> time_ok b ->
    sort_by_entry_hash K kcmp a b = COk (hash_val a b).
  Proof.
    intros Ha Hb. unfold sort_by_entry_hash, sort_by_clocks, sort_by_clock_id, hash_val, clock_compare.
    destruct (sk_time a =? sk_time b) eqn:E.
    - destruct (kcmp (sk_id a) (sk_id b) =? 0) eqn:E2; reflexivity.
    - apply Z.eqb_neq in E. now rewrite time_dist_nonzero.
  Qed.

  Definition lww_val (a b : skey) : Z :=
    if sk_time a =? sk_time b then
      (if kcmp (sk_id a) (sk_id b) =? 0 then 1 else kcmp (sk_id a) (sk_id b))
    else time_dist (sk_time a) (sk_time b).

  Lemma lww_spec a b : time_ok a -> time_ok b ->
    last_write_wins K kcmp a b = COk (lww_val a b).
  Proof.
    intros Ha Hb. unfold last_write_wins, sort_by_clocks, sort_by_clock_id, first, lww_val, clock_compare.
    destruct (sk_time a =? sk_time b) eqn:E.
    - destruct (kcmp (sk_id a) (sk_id b) =? 0) eqn:E2; reflexivity.
    - apply Z.eqb_neq in E. now rewrite time_dist_nonzero.
  Qed.

  (* ---- the hash-tiebreak ordering is a strict total order ---- *)
  Theorem hash_irrefl a : time_ok a -> sort_by_entry_hash K kcmp a a = COk 0.
  Proof.
    intros Ha. rewrite hash_spec by assumption. unfold hash_val.
    rewrite Z.eqb_refl, !kcmp_refl. reflexivity.
  Qed.

  Theorem hash_anti a b : time_ok a -> time_ok b -> hash_val b a = - hash_val a b.
  Proof.
    intros Ha Hb. unfold hash_val. rewrite (Z.eqb_sym (sk_time b)).
    destruct (sk_time a =? sk_time b) eqn:T; [|apply Z.eqb_neq in T; now apply time_dist_anti].
    rewrite (k_anti _ _ KO (sk_id a) (sk_id b)).
    destruct (kcmp (sk_id a) (sk_id b) =? 0) eqn:E.
    - apply Z.eqb_eq in E. rewrite E. cbn. apply (k_anti _ _ KO).
    - apply Z.eqb_neq in E. assert (- kcmp (sk_id a) (sk_id b) =? 0 = false) by (apply Z.eqb_neq; lia).
      now rewrite H.
  Qed.

  (* lexicographic characterisation *)
  Lemma hash_val_neg a b : time_ok a -> time_ok b ->
    (hash_val a b < 0 <->
     sk_time a < sk_time b \/
     (sk_time a = sk_time b /\ (kcmp (sk_id a) (sk_id b) < 0 \/
        (sk_id a = sk_id b /\ kcmp (sk_hash a) (sk_hash b) < 0)))).
  Proof.
    intros Ha Hb. unfold hash_val.
    destruct (sk_time a =? sk_time b) eqn:E; rewrite ?Z.eqb_eq, ?Z.eqb_neq in *.
    - destruct (kcmp (sk_id a) (sk_id b) =? 0) eqn:E2; rewrite ?Z.eqb_eq, ?Z.eqb_neq in *.
      + pose proof (proj1 (k_eq _ _ KO _ _) E2). split; [intros; right; split; auto|].
        intros [L|[_ [L|[_ L]]]]; [lia|lia|exact L].
      + split; [intros; right; split; auto|]. intros [L|[_ [L|[Q _]]]]; [lia|exact L|].
        apply (k_eq _ _ KO) in Q. contradiction.
    - destruct (Z_lt_ge_dec (sk_time a) (sk_time b)) as [L|G].
      + pose proof (time_dist_lt _ _ Ha Hb L). split; [auto|lia].
      + assert (L : sk_time b < sk_time a) by lia. pose proof (time_dist_gt _ _ Ha Hb L).
        split; [lia|]. intros [?|[? _]]; lia.
  Qed.

  Theorem hash_zero a b : time_ok a -> time_ok b ->
    (hash_val a b = 0 <-> sk_time a = sk_time b /\ sk_id a = sk_id b /\ sk_hash a = sk_hash b).
  Proof.
    intros Ha Hb. unfold hash_val.
    destruct (sk_time a =? sk_time b) eqn:E; rewrite ?Z.eqb_eq, ?Z.eqb_neq in *.
    - destruct (kcmp (sk_id a) (sk_id b) =? 0) eqn:E2; rewrite ?Z.eqb_eq, ?Z.eqb_neq in *.
      + rewrite (k_eq _ _ KO) in *. tauto.
      + rewrite <- (k_eq _ _ KO (sk_id a)). tauto.
    - pose proof (time_dist_nonzero _ _ Ha Hb E) as NZ. apply Z.eqb_neq in NZ. tauto.
  Qed.

  Theorem hash_total a b : time_ok a -> time_ok b -> sk_hash a <> sk_hash b -> hash_val a b <> 0.
  Proof. intros Ha Hb Hne H. apply hash_zero in H; tauto. Qed.

  Theorem hash_trans a b c : time_ok a -> time_ok b -> time_ok c ->
    hash_val a b < 0 -> hash_val b c < 0 -> hash_val a c < 0.
  Proof.
    intros Ha Hb Hc. rewrite !hash_val_neg by assumption.
    pose proof (k_trans _ _ KO) as T.
    intros [L1|[E1 [I1|[J1 X1]]]] [L2|[E2 [I2|[J2 X2]]]]; try (left; lia); right; split; try lia.
    - left. eapply T; eauto.
    - left. now rewrite <- J2.
    - left. now rewrite J1.
    - right. split; [congruence|]. eapply T; eauto.
  Qed.

  Theorem hash_time a b : time_ok a -> time_ok b -> sk_time a < sk_time b -> hash_val a b < 0.
  Proof. intros Ha Hb H. apply hash_val_neg; auto. Qed.

  (* ---- default ordering ---- *)
  Theorem lww_eq_hash a b : time_ok a -> time_ok b ->
    (sk_time a, sk_id a) <> (sk_time b, sk_id b) -> lww_val a b = hash_val a b.
  Proof.
    intros Ha Hb Hne. unfold lww_val, hash_val.
    destruct (sk_time a =? sk_time b) eqn:E; [|reflexivity].
    destruct (kcmp (sk_id a) (sk_id b) =? 0) eqn:E2; [|reflexivity].
    exfalso. apply Hne. apply Z.eqb_eq in E, E2. apply (k_eq _ _ KO) in E2. congruence.
  Qed.

  Theorem lww_time a b : time_ok a -> time_ok b -> sk_time a < sk_time b -> lww_val a b < 0.
  Proof.
    intros Ha Hb H. unfold lww_val.
    assert (sk_time a =? sk_time b = false) by (apply Z.eqb_neq; lia). rewrite H0.
    pose proof (time_dist_lt _ _ Ha Hb H). lia.
  Qed.

  Theorem lww_nonzero a b : time_ok a -> time_ok b -> lww_val a b <> 0.
  Proof.
    intros Ha Hb. unfold lww_val. destruct (sk_time a =? sk_time b) eqn:E; rewrite ?Z.eqb_neq in *.
    - destruct (kcmp (sk_id a) (sk_id b) =? 0) eqn:E2; rewrite ?Z.eqb_neq in *; lia.
    - pose proof (time_dist_nonzero _ _ Ha Hb E) as NZ. now apply Z.eqb_neq in NZ.
  Qed.

  Lemma lww_val_range a b : time_ok a -> time_ok b -> - two63 < lww_val a b < two63.
  Proof.
    intros Ha Hb. unfold lww_val. destruct (sk_time a =? sk_time b) eqn:E; rewrite ?Z.eqb_neq in *.
    - pose proof (k_range _ _ KO (sk_id a) (sk_id b)). unfold two63.
      destruct (kcmp (sk_id a) (sk_id b) =? 0); lia.
    - destruct (Z_lt_ge_dec (sk_time a) (sk_time b)) as [L|G].
      + pose proof (time_dist_lt _ _ Ha Hb L). unfold two63 in *. lia.
      + assert (L : sk_time b < sk_time a) by lia. pose proof (time_dist_gt _ _ Ha Hb L).
        unfold two63 in *. lia.
  Qed.

  Theorem fww_reverse a b : time_ok a -> time_ok b ->
    first_write_wins K kcmp a b = COk (- lww_val a b).
  Proof.
    intros Ha Hb. unfold first_write_wins. rewrite lww_spec by assumption.
    f_equal. pose proof (lww_val_range a b Ha Hb). rewrite wrap64_id; unfold two63 in *; lia.
  Qed.

  (* NoZeroes is transparent on non-zero results and an error on zero *)
  Lemma no_zeroes_spec f a b r : f a b = COk r ->
    no_zeroes K f a b = if r =? 0 then CErr else COk r.
  Proof. intros H. unfold no_zeroes. now rewrite H. Qed.

End Laws.
