(* Lemmas about Model/Json.v: UTF-8 chunking, string escaping and its reader, numbers, and the main
   result [parse_print]: the reader applied to [print j] returns [sanitize j] - hence [print] is
   injective up to sanitisation of invalid UTF-8 ([print_injective]). *)
From Coq Require Import List NArith ZArith Bool Lia Permutation.
From IpfsLog Require Import Model.Json.   (* deps *)
Import ListNotations.
Open Scope N_scope.

(* lia (8.16) does not know N.div / N.modulo: name quotient and remainder and keep their laws *)
Ltac divmod n d :=
  let q := fresh "q" in let r := fresh "r" in
  let Hq := fresh "Hq" in let Hr := fresh "Hr" in
  let Hdm := fresh "Hdm" in let Hlt := fresh "Hlt" in
  assert (Hdm : n = d * (n / d) + n mod d) by (apply N.div_mod; lia);
  assert (Hlt : n mod d < d) by (apply N.mod_lt; lia);
  remember (n / d) as q eqn:Hq; remember (n mod d) as r eqn:Hr; clear Hq Hr.

(* ------------------------------------------------------------------------------------------ *)
(* chunks                                                                                      *)

Lemma lead_info_spec b0 sz lo hi :
  lead_info b0 = Some (sz, lo, hi) ->
  0x80 <= lo /\ hi <= 0xBF /\ 0xC2 <= b0 /\
  ((sz = 2 /\ b0 <= 0xDF) \/
   (sz = 3 /\ 0xE0 <= b0 <= 0xEF /\ (b0 = 0xE0 -> 0xA0 <= lo)) \/
   (sz = 4 /\ 0xF0 <= b0 <= 0xF4 /\ (b0 = 0xF0 -> 0x90 <= lo))).
Proof.
  unfold lead_info.
  repeat match goal with
         | |- context [if ?c then _ else _] => let E := fresh "E" in destruct c eqn:E
         end; intros H; inversion H; subst; clear H;
    repeat match goal with
           | H : (_ && _) = true |- _ => apply andb_true_iff in H; destruct H
           | H : (_ <=? _) = true |- _ => apply N.leb_le in H
           | H : (_ =? _) = true |- _ => apply N.eqb_eq in H
           | H : (_ =? _) = false |- _ => apply N.eqb_neq in H
           end; lia.
Qed.

(* what every multi-byte chunk satisfies *)
Definition multi_ok (cp : N) (seq : bytes) : Prop :=
  Forall (fun b => 0x80 <= b) seq /\
  (cp = 0x2028 -> seq = [0xE2; 0x80; 0xA8]) /\
  (cp = 0x2029 -> seq = [0xE2; 0x80; 0xA9]).

Lemma chunks_ind (P : bytes -> list chunk -> Prop) :
  P [] [] ->
  (forall b0 r0, b0 < 0x80 -> P r0 (chunks r0) -> P (b0 :: r0) (CAscii b0 :: chunks r0)) ->
  (forall b0 r0, 0x80 <= b0 -> P r0 (chunks r0) -> P (b0 :: r0) (CBad b0 :: chunks r0)) ->
  (forall cp seq r, multi_ok cp seq -> P r (chunks r) -> P (seq ++ r) (CMulti cp seq :: chunks r)) ->
  forall bs, P bs (chunks bs).
Proof.
  intros Hnil Hascii Hbad Hmulti bs.
  remember (length bs) as n eqn:Hn.
  assert (Hle : (length bs <= n)%nat) by lia. clear Hn.
  revert bs Hle. induction n as [|n IH]; intros bs Hle.
  - destruct bs; simpl in Hle; [exact Hnil|lia].
  - destruct bs as [|b0 r0]; [exact Hnil|]. simpl in Hle.
    assert (IH0 : P r0 (chunks r0)) by (apply IH; lia).
    cbn [chunks].
    destruct (b0 <? 0x80) eqn:Eb0.
    { apply N.ltb_lt in Eb0. now apply Hascii. }
    apply N.ltb_ge in Eb0.
    destruct (lead_info b0) as [[[sz lo] hi]|] eqn:Elead; [|now apply Hbad].
    apply lead_info_spec in Elead. destruct Elead as (Hlo & Hhi & Hb0 & Hsz).
    destruct r0 as [|b1 r1]; [now apply Hbad|].
    destruct ((lo <=? b1) && (b1 <=? hi)) eqn:Eb1; cbn [negb]; [|now apply Hbad].
    apply andb_true_iff in Eb1. destruct Eb1 as [Eb1a Eb1b].
    apply N.leb_le in Eb1a. apply N.leb_le in Eb1b.
    destruct (sz =? 2) eqn:Esz2.
    { apply N.eqb_eq in Esz2.
      apply (Hmulti _ [b0; b1] r1); [|apply IH; simpl in *; lia].
      split; [repeat constructor; lia|]. split; intros Hcp; exfalso; lia. }
    apply N.eqb_neq in Esz2.
    destruct r1 as [|b2 r2]; [now apply Hbad|].
    destruct (is_cont b2) eqn:Eb2; cbn [negb]; [|now apply Hbad].
    unfold is_cont in Eb2. apply andb_true_iff in Eb2. destruct Eb2 as [Eb2a Eb2b].
    apply N.leb_le in Eb2a. apply N.leb_le in Eb2b.
    destruct (sz =? 3) eqn:Esz3.
    { apply N.eqb_eq in Esz3.
      apply (Hmulti _ [b0; b1; b2] r2); [|apply IH; simpl in *; lia].
      split; [repeat constructor; lia|].
      split; intros Hcp.
      - assert (b0 = 0xE2 /\ b1 = 0x80 /\ b2 = 0xA8) as (-> & -> & ->) by lia. reflexivity.
      - assert (b0 = 0xE2 /\ b1 = 0x80 /\ b2 = 0xA9) as (-> & -> & ->) by lia. reflexivity. }
    apply N.eqb_neq in Esz3.
    destruct r2 as [|b3 r3]; [now apply Hbad|].
    destruct (is_cont b3) eqn:Eb3; cbn [negb]; [|now apply Hbad].
    unfold is_cont in Eb3. apply andb_true_iff in Eb3. destruct Eb3 as [Eb3a Eb3b].
    apply N.leb_le in Eb3a. apply N.leb_le in Eb3b.
    apply (Hmulti _ [b0; b1; b2; b3] r3); [|apply IH; simpl in *; lia].
    split; [repeat constructor; lia|].
    split; intros Hcp; exfalso; lia.
Qed.

Lemma chunks_bytes bs : flat_map chunk_bytes (chunks bs) = bs.
Proof.
  apply (chunks_ind (fun bs cs => flat_map chunk_bytes cs = bs)); simpl; intros; congruence.
Qed.

(* valid UTF-8 is left alone by the sanitisation *)
Theorem valid_utf8_sanitize bs : valid_utf8 bs = true -> sanitize_str bs = bs.
Proof.
  unfold valid_utf8, sanitize_str.
  apply (chunks_ind (fun bs cs => forallb chunk_valid cs = true -> flat_map san_chunk cs = bs)); simpl.
  - reflexivity.
  - intros b0 r0 _ IH H. now rewrite IH.
  - intros b0 r0 _ _ H. discriminate.
  - intros cp seq r _ IH H. now rewrite IH.
Qed.

Lemma chunks_ascii s : Forall (fun b => b < 0x80) s -> chunks s = map CAscii s.
Proof.
  induction 1 as [|b s Hb Hs IH]; [reflexivity|].
  cbn [chunks map]. apply N.ltb_lt in Hb. rewrite Hb. now rewrite IH.
Qed.

Lemma ascii_valid s : Forall (fun b => b < 0x80) s -> valid_utf8 s = true.
Proof.
  intros H. unfold valid_utf8. rewrite (chunks_ascii s H). clear H. induction s; simpl; auto.
Qed.

Lemma ascii_sanitize s : Forall (fun b => b < 0x80) s -> sanitize_str s = s.
Proof. intros H. apply valid_utf8_sanitize. now apply ascii_valid. Qed.

(* ------------------------------------------------------------------------------------------ *)
(* the string reader inverts appendString up to sanitisation                                   *)

Lemma push_push a b r : push a (push b r) = push (a ++ b) r.
Proof. destruct r as [[bs rest]|]; simpl; [now rewrite app_assoc|reflexivity]. Qed.

Lemma lt_128_cases b : b < 128 -> In b (map N.of_nat (seq 0 128)).
Proof.
  intros H. rewrite <- (N2Nat.id b). apply in_map. apply in_seq. lia.
Qed.

Lemma parse_str_ascii b tail :
  b < 0x80 -> parse_str (esc_ascii b ++ tail) = push [b] (parse_str tail).
Proof.
  intros H. apply lt_128_cases in H. simpl in H.
  repeat (destruct H as [H|H]; [subst b; reflexivity|]). destruct H.
Qed.

Lemma parse_str_verbatim seq tail :
  Forall (fun b => 0x80 <= b) seq -> parse_str (seq ++ tail) = push seq (parse_str tail).
Proof.
  induction 1 as [|c seq Hc Hs IH].
  - simpl. destruct (parse_str tail) as [[? ?]|]; reflexivity.
  - cbn [app parse_str].
    assert (E1 : (c =? 0x22) = false) by (apply N.eqb_neq; lia).
    assert (E2 : (c =? 0x5C) = false) by (apply N.eqb_neq; lia).
    rewrite E1, E2, IH, push_push. reflexivity.
Qed.

Lemma parse_str_multi cp seq tail :
  multi_ok cp seq -> parse_str (esc_chunk (CMulti cp seq) ++ tail) = push seq (parse_str tail).
Proof.
  intros (Hge & H28 & H29). cbn [esc_chunk].
  destruct (cp =? 0x2028) eqn:E28.
  { apply N.eqb_eq in E28. rewrite (H28 E28). reflexivity. }
  destruct (cp =? 0x2029) eqn:E29.
  { apply N.eqb_eq in E29. rewrite (H29 E29). reflexivity. }
  now apply parse_str_verbatim.
Qed.

Lemma parse_str_bad b tail : parse_str (esc_chunk (CBad b) ++ tail) = push fffd (parse_str tail).
Proof. reflexivity. Qed.

Lemma parse_str_chunks bs tail :
  parse_str (flat_map esc_chunk (chunks bs) ++ 0x22 :: tail) = Some (sanitize_str bs, tail).
Proof.
  unfold sanitize_str. revert tail.
  apply (chunks_ind (fun bs cs => forall tail,
           parse_str (flat_map esc_chunk cs ++ 0x22 :: tail) = Some (flat_map san_chunk cs, tail))).
  - reflexivity.
  - intros b0 r0 Hb IH tail. cbn [flat_map]. rewrite <- app_assoc.
    change (esc_chunk (CAscii b0)) with (esc_ascii b0).
    rewrite parse_str_ascii by assumption. rewrite IH. reflexivity.
  - intros b0 r0 _ IH tail. cbn [flat_map]. rewrite <- app_assoc.
    rewrite parse_str_bad, IH. reflexivity.
  - intros cp seq r Hm IH tail. cbn [flat_map]. rewrite <- app_assoc.
    rewrite parse_str_multi by assumption. rewrite IH. reflexivity.
Qed.

Lemma print_str_app bs rest :
  print_str bs ++ rest = 0x22 :: flat_map esc_chunk (chunks bs) ++ 0x22 :: rest.
Proof. unfold print_str. simpl. now rewrite <- app_assoc. Qed.

(* ------------------------------------------------------------------------------------------ *)
(* numbers                                                                                     *)

Definition rest_ok (rest : bytes) : Prop :=
  match rest with [] => True | c :: _ => is_digit c = false end.

Definition dstep (a c : N) : N := a * 10 + (c - 48).

Lemma dec_digits_S f n :
  dec_digits (S f) n = if n <? 10 then [48 + n] else dec_digits f (n / 10) ++ [48 + n mod 10].
Proof. reflexivity. Qed.

Lemma dec_digits_digits f n : Forall (fun c => is_digit c = true) (dec_digits f n).
Proof.
  revert n. induction f as [|f IH]; intros n; cbn [dec_digits]; [constructor|].
  destruct (n <? 10) eqn:E.
  - apply N.ltb_lt in E. constructor; [|constructor].
    unfold is_digit. apply andb_true_iff. split; apply N.leb_le; lia.
  - apply Forall_app. split; [apply IH|]. constructor; [|constructor].
    divmod n 10. unfold is_digit. apply andb_true_iff. split; apply N.leb_le; lia.
Qed.

Lemma dec_digits_nonempty f n : dec_digits (S f) n <> [].
Proof.
  cbn [dec_digits]. destruct (n <? 10); [discriminate|]. intros H. apply app_eq_nil in H. destruct H; discriminate.
Qed.

Lemma dec_digits_value f n :
  n < 2 ^ N.of_nat f -> fold_left dstep (dec_digits (S f) n) 0 = n.
Proof.
  revert n. induction f as [|f IH]; intros n Hn.
  - simpl in Hn. assert (n = 0) by lia. subst. reflexivity.
  - rewrite dec_digits_S. destruct (n <? 10) eqn:E.
    + apply N.ltb_lt in E. cbn [fold_left]. unfold dstep. lia.
    + apply N.ltb_ge in E. rewrite fold_left_app. cbn [fold_left].
      rewrite IH.
      * unfold dstep. divmod n 10. lia.
      * rewrite Nat2N.inj_succ, N.pow_succ_r' in Hn.
        apply N.div_lt_upper_bound; lia.
Qed.

Lemma print_N_value n : fold_left dstep (print_N n) 0 = n.
Proof.
  unfold print_N. apply dec_digits_value. rewrite N2Nat.id. apply N.size_gt.
Qed.

Lemma parse_digits_app ds rest acc :
  Forall (fun c => is_digit c = true) ds -> rest_ok rest ->
  parse_digits (ds ++ rest) acc = (fold_left dstep ds acc, rest).
Proof.
  intros Hd Hr. revert acc. induction Hd as [|c ds Hc Hds IH]; intros acc.
  - simpl. destruct rest as [|c r]; [reflexivity|]. simpl in *. now rewrite Hr.
  - cbn [app parse_digits fold_left]. rewrite Hc. apply IH.
Qed.

Lemma parse_num_print z rest : rest_ok rest -> parse_num (print_Z z ++ rest) = Some (z, rest).
Proof.
  intros Hr. destruct z as [|p|p].
  - cbn [print_Z app parse_num]. change (48 =? 45) with false. change (is_digit 48) with true. cbv iota.
    change (48 :: rest) with ([48] ++ rest).
    rewrite (parse_digits_app [48] rest 0) by (auto; repeat constructor). reflexivity.
  - cbn [print_Z]. pose proof (dec_digits_digits (S (N.to_nat (N.size (N.pos p)))) (N.pos p)) as Hd.
    pose proof (dec_digits_nonempty (N.to_nat (N.size (N.pos p))) (N.pos p)) as Hne.
    pose proof (print_N_value (N.pos p)) as Hv.
    unfold print_N in *. destruct (dec_digits _ _) as [|c t]; [congruence|].
    inversion Hd as [|? ? Hc Ht]; subst.
    cbn [app parse_num].
    assert (E : (c =? 45) = false).
    { unfold is_digit in Hc. apply andb_true_iff in Hc. destruct Hc as [Hc _]. apply N.leb_le in Hc.
      apply N.eqb_neq. lia. }
    rewrite E, Hc. change (c :: t ++ rest) with ((c :: t) ++ rest).
    rewrite parse_digits_app by assumption. rewrite Hv. reflexivity.
  - cbn [print_Z]. pose proof (dec_digits_digits (S (N.to_nat (N.size (N.pos p)))) (N.pos p)) as Hd.
    pose proof (dec_digits_nonempty (N.to_nat (N.size (N.pos p))) (N.pos p)) as Hne.
    pose proof (print_N_value (N.pos p)) as Hv.
    unfold print_N in *. destruct (dec_digits _ _) as [|c t]; [congruence|].
    inversion Hd as [|? ? Hc Ht]; subst.
    cbn [app parse_num]. change (45 =? 45) with true. cbv iota. rewrite Hc.
    change (c :: t ++ rest) with ((c :: t) ++ rest).
    rewrite parse_digits_app by assumption. rewrite Hv. reflexivity.
Qed.

(* first byte of a printed number *)
Lemma print_Z_head z : exists c t, print_Z z = c :: t /\ (c = 45 \/ is_digit c = true).
Proof.
  destruct z as [|p|p].
  - exists 48, []. split; [reflexivity|right; reflexivity].
  - cbn [print_Z]. unfold print_N.
    pose proof (dec_digits_digits (S (N.to_nat (N.size (N.pos p)))) (N.pos p)) as Hd.
    pose proof (dec_digits_nonempty (N.to_nat (N.size (N.pos p))) (N.pos p)) as Hne.
    destruct (dec_digits _ _) as [|c t]; [congruence|]. inversion Hd; subst. eauto.
  - exists 45, (print_N (N.pos p)). split; [reflexivity|left; reflexivity].
Qed.

(* ------------------------------------------------------------------------------------------ *)
(* sorting of members                                                                          *)

Lemma insert_kv_perm {V} (kv : bytes * V) l : Permutation (insert_kv kv l) (kv :: l).
Proof.
  induction l as [|h t IH]; simpl; [reflexivity|].
  destruct (bytes_leb (fst kv) (fst h)); [reflexivity|].
  rewrite IH. apply perm_swap.
Qed.

Lemma sort_kvs_perm {V} (l : list (bytes * V)) : Permutation (sort_kvs l) l.
Proof.
  induction l as [|h t IH]; simpl; [reflexivity|].
  unfold sort_kvs in *. simpl. rewrite insert_kv_perm. now constructor.
Qed.

Lemma insert_kv_map {V W} (g : bytes * V -> bytes * W) (Hg : forall kv, fst (g kv) = fst kv) kv l :
  insert_kv (g kv) (map g l) = map g (insert_kv kv l).
Proof.
  induction l as [|h t IH]; simpl; [reflexivity|].
  rewrite !Hg. destruct (bytes_leb (fst kv) (fst h)); simpl; [reflexivity|]. now rewrite IH.
Qed.

Lemma sort_kvs_map {V W} (g : bytes * V -> bytes * W) (Hg : forall kv, fst (g kv) = fst kv) l :
  sort_kvs (map g l) = map g (sort_kvs l).
Proof.
  unfold sort_kvs. induction l as [|h t IH]; simpl; [reflexivity|].
  rewrite IH. now apply insert_kv_map.
Qed.

Definition on_value {V W} (f : V -> W) (kv : bytes * V) : bytes * W := let '(k, v) := kv in (k, f v).
Lemma on_value_fst {V W} (f : V -> W) kv : fst (on_value f kv) = fst kv.
Proof. now destruct kv. Qed.
Lemma on_value_snd {V W} (f : V -> W) kv : snd (on_value f kv) = f (snd kv).
Proof. now destruct kv. Qed.

Lemma print_obj kvs :
  print (JObj kvs) = 123 :: join_comma (map print_member (map (on_value print) (sort_kvs kvs))) ++ [125].
Proof.
  cbn [print]. change (fun kv : bytes * json => let '(k, v) := kv in (k, print v)) with (on_value print).
  now rewrite (sort_kvs_map (on_value print) (on_value_fst print)).
Qed.

Definition san_key (kv : bytes * json) : bytes * json := (sanitize_str (fst kv), snd kv).

Lemma sanitize_obj kvs :
  sanitize (JObj kvs) = JObj (map san_key (map (on_value sanitize) (sort_kvs kvs))).
Proof.
  cbn [sanitize]. change (fun kv : bytes * json => let '(k, v) := kv in (k, sanitize v)) with (on_value sanitize).
  now rewrite (sort_kvs_map (on_value sanitize) (on_value_fst sanitize)).
Qed.

(* ------------------------------------------------------------------------------------------ *)
(* the reader inverts print                                                                    *)

Lemma json_ind' (P : json -> Prop) :
  P JNull -> (forall z, P (JNum z)) -> (forall bs, P (JStr bs)) ->
  (forall l, Forall P l -> P (JArr l)) ->
  (forall kvs, Forall (fun kv => P (snd kv)) kvs -> P (JObj kvs)) ->
  forall j, P j.
Proof.
  intros Hnull Hnum Hstr Harr Hobj.
  fix IH 1. intros [ | z | bs | l | kvs ].
  - exact Hnull.
  - apply Hnum.
  - apply Hstr.
  - apply Harr. induction l as [|x l IHl]; constructor; [apply IH|exact IHl].
  - apply Hobj. induction kvs as [|[k v] kvs IHk]; constructor; [apply IH|exact IHk].
Qed.

Definition value_start (c : N) : bool :=
  (c =? 110) || (c =? 0x22) || (c =? 91) || (c =? 123) || (c =? 45) || is_digit c.

Lemma print_head j : exists c t, print j = c :: t /\ value_start c = true.
Proof.
  destruct j as [ | z | bs | l | kvs ].
  - eexists _, _. split; reflexivity.
  - destruct (print_Z_head z) as (c & t & E & Hc); exists c, t; (split; [exact E|]).
    destruct Hc as [->|Hd].
    + reflexivity.
    + unfold value_start. rewrite Hd. now rewrite !orb_true_r.
  - eexists _, _. split; reflexivity.
  - eexists _, _. split; reflexivity.
  - eexists _, _. split; reflexivity.
Qed.

Lemma value_start_not c : value_start c = true -> (c =? 93) = false /\ (c =? 125) = false.
Proof.
  unfold value_start, is_digit. intros H.
  repeat (apply orb_true_iff in H; destruct H as [H|H]);
    try (apply N.eqb_eq in H; subst c; split; reflexivity).
  apply andb_true_iff in H. destruct H as [H1 H2]. apply N.leb_le in H1. apply N.leb_le in H2.
  split; apply N.eqb_neq; lia.
Qed.

Definition parses (j : json) : Prop :=
  forall n rest, (jfuel j <= n)%nat -> rest_ok rest -> parse n (print j ++ rest) = Some (sanitize j, rest).

Lemma list_sum_in {A} (f : A -> nat) x l : In x l -> (f x <= list_sum (map f l))%nat.
Proof.
  induction l as [|h t IH]; simpl; [tauto|]. intros [->|H]; [lia|]. apply IH in H. lia.
Qed.

Lemma parse_elems_ok f rest : forall l m,
  l <> [] -> Forall parses l -> (length l <= m)%nat -> (forall x, In x l -> (jfuel x <= f)%nat) ->
  parse_elems (parse f) m (join_comma (map print l) ++ 93 :: rest) = Some (map sanitize l, rest).
Proof.
  induction l as [|x l IH]; intros m Hne HP Hlen Hf; [congruence|].
  inversion HP as [|? ? Hx Hl]; subst.
  destruct m as [|m]; [simpl in Hlen; lia|].
  cbn [map join_comma parse_elems]. rewrite <- app_assoc.
  destruct l as [|y l].
  - cbn [map flat_map app].
    rewrite (Hx f (93 :: rest)); [|apply Hf; now left|reflexivity].
    reflexivity.
  - cbn [map flat_map]. rewrite <- !app_assoc. cbn [app].
    rewrite (Hx f); [|apply Hf; now left|reflexivity].
    change (44 =? 44) with true. cbv iota.
    specialize (IH m). cbn [map join_comma] in IH. rewrite <- app_assoc in IH.
    rewrite IH; [reflexivity|discriminate|assumption|simpl in *; lia|].
    intros z Hz. apply Hf. now right.
Qed.

Lemma parse_members_ok f rest : forall (l : list (bytes * json)) m,
  l <> [] -> Forall (fun kv => parses (snd kv)) l -> (length l <= m)%nat ->
  (forall kv, In kv l -> (jfuel (snd kv) <= f)%nat) ->
  parse_members (parse f) m (join_comma (map print_member (map (on_value print) l)) ++ 125 :: rest)
  = Some (map san_key (map (on_value sanitize) l), rest).
Proof.
  induction l as [|[k v] l IH]; intros m Hne HP Hlen Hf; [congruence|].
  inversion HP as [|? ? Hx Hl]; subst. cbn [snd] in Hx.
  destruct m as [|m]; [simpl in Hlen; lia|].
  cbn [map on_value join_comma]. unfold print_member at 1. cbn [fst snd].
  rewrite <- !app_assoc. rewrite print_str_app. cbn [parse_members].
  change (0x22 =? 0x22) with true. cbv iota.
  rewrite parse_str_chunks. cbn [app].
  change (58 =? 58) with true. cbv iota.
  destruct l as [|kv2 l].
  - cbn [map flat_map app].
    rewrite (Hx f (125 :: rest)); [|apply (Hf (k, v)); now left|reflexivity].
    reflexivity.
  - cbn [map flat_map]. rewrite <- !app_assoc. cbn [app].
    rewrite (Hx f); [|apply (Hf (k, v)); now left|reflexivity].
    change (44 =? 44) with true. cbv iota.
    specialize (IH m). cbn [map join_comma] in IH. rewrite <- app_assoc in IH.
    rewrite IH; [reflexivity|discriminate|assumption|simpl in *; lia|].
    intros z Hz. apply Hf. now right.
Qed.

Theorem parse_print j : parses j.
Proof.
  induction j as [ | z | bs | l IHl | kvs IHk ] using json_ind'; intros n rest Hn Hr.
  - destruct n as [|f]; [simpl in Hn; lia|]. reflexivity.
  - destruct n as [|f]; [simpl in Hn; lia|].
    cbn [print sanitize].
    destruct (print_Z_head z) as (c & t & E & Hc).
    pose proof (parse_num_print z rest Hr) as Hp. rewrite E in *. cbn [app] in *.
    cbn [parse].
    assert (Hs : value_start c = true).
    { unfold value_start. destruct Hc as [->|Hd]; [reflexivity|]. rewrite Hd. now rewrite !orb_true_r. }
    assert (E1 : (c =? 110) = false /\ (c =? 0x22) = false /\ (c =? 91) = false /\ (c =? 123) = false).
    { destruct Hc as [->|Hd]; [repeat split; reflexivity|].
      unfold is_digit in Hd. apply andb_true_iff in Hd. destruct Hd as [H1 H2].
      apply N.leb_le in H1. apply N.leb_le in H2. repeat split; apply N.eqb_neq; lia. }
    destruct E1 as (-> & -> & -> & ->). rewrite Hp. reflexivity.
  - destruct n as [|f]; [simpl in Hn; lia|].
    cbn [print sanitize]. rewrite print_str_app. cbn [parse].
    change (0x22 =? 110) with false. change (0x22 =? 0x22) with true. cbv iota.
    rewrite parse_str_chunks. reflexivity.
  - destruct n as [|f]; [simpl in Hn; lia|]. cbn [jfuel] in Hn.
    cbn [print sanitize]. cbn [app parse].
    change (91 =? 110) with false. change (91 =? 0x22) with false. change (91 =? 91) with true. cbv iota.
    destruct l as [|x l].
    + reflexivity.
    + rewrite <- app_assoc. cbn [app].
      destruct (print_head x) as (c & t & E & Hc).
      destruct (value_start_not c Hc) as [Hc1 _].
      assert (Hhd : exists t', join_comma (map print (x :: l)) ++ 93 :: rest = c :: t').
      { cbn [map join_comma]. rewrite E. eexists. reflexivity. }
      destruct Hhd as [t' Et']. rewrite Et'. rewrite Hc1. rewrite <- Et'.
      rewrite parse_elems_ok; [reflexivity|discriminate|assumption|lia|].
      intros y Hy. pose proof (list_sum_in jfuel y (x :: l) Hy). lia.
  - destruct n as [|f]; [simpl in Hn; lia|]. cbn [jfuel] in Hn.
    rewrite print_obj, sanitize_obj. cbn [app parse].
    change (123 =? 110) with false. change (123 =? 0x22) with false. change (123 =? 91) with false.
    change (123 =? 123) with true. cbv iota.
    pose proof (sort_kvs_perm kvs) as Hperm.
    assert (HP : Forall (fun kv => parses (snd kv)) (sort_kvs kvs)).
    { eapply Permutation_Forall; [symmetry; exact Hperm|exact IHk]. }
    assert (Hlen : length (sort_kvs kvs) = length kvs) by (now apply Permutation_length).
    assert (Hfu : forall kv, In kv (sort_kvs kvs) -> (jfuel (snd kv) <= f)%nat).
    { intros kv Hin. apply (Permutation_in _ Hperm) in Hin.
      pose proof (list_sum_in (fun kv : bytes * json => let '(_, v) := kv in jfuel v) kv kvs Hin) as Hs.
      destruct kv as [k v]. cbn [snd]. lia. }
    destruct (sort_kvs kvs) as [|[k v] skvs] eqn:Es.
    + reflexivity.
    + rewrite <- app_assoc. cbn [app].
      assert (Hhd : exists t', join_comma (map print_member (map (on_value print) ((k, v) :: skvs))) ++ 125 :: rest = 0x22 :: t').
      { cbn [map join_comma on_value]. unfold print_member at 1. cbn [fst]. unfold print_str. cbn [app]. eexists. reflexivity. }
      destruct Hhd as [t' Et']. rewrite Et'. change (0x22 =? 125) with false. cbv iota. rewrite <- Et'.
      rewrite parse_members_ok; [reflexivity|discriminate|assumption|lia|assumption].
Qed.

(* print is injective up to the sanitisation of invalid UTF-8 *)
Theorem print_injective j1 j2 : print j1 = print j2 -> sanitize j1 = sanitize j2.
Proof.
  intros H.
  pose proof (parse_print j1 (Nat.max (jfuel j1) (jfuel j2)) [] (Nat.le_max_l _ _) I) as H1.
  pose proof (parse_print j2 (Nat.max (jfuel j1) (jfuel j2)) [] (Nat.le_max_r _ _) I) as H2.
  rewrite H in H1. rewrite H1 in H2. now inversion H2.
Qed.
