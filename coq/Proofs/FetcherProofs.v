(* Invariants of the fetcher transition system (all executions, any store, any faults, any
   concurrency, with or without timeout), termination measure, exactness at terminal states. *)
From Coq Require Import List ZArith NArith Bool Lia Permutation.
From IpfsLog Require Import Model.Order Model.Fetcher Proofs.FetcherBasics.
Import ListNotations.
Open Scope Z_scope.

(* ---------------------------------------------------------------------------------------- *)
(* more list facts                                                                           *)

Lemma remove_first_perm l h : In h l -> Permutation l (h :: remove_first l h).
Proof.
  induction l as [|k l IH]; cbn; [tauto|]. intros Hin.
  destruct (N.eqb k h) eqn:E.
  - apply N.eqb_eq in E. now subst.
  - apply N.eqb_neq in E. destruct Hin as [->|Hin]; [congruence|].
    rewrite (IH Hin) at 1. apply perm_swap.
Qed.

Lemma NoDup_app_remove_r (a b : list N) h : NoDup (a ++ b) -> NoDup (a ++ remove_first b h).
Proof.
  induction a as [|x a IH]; cbn; intros H.
  - now apply remove_first_NoDup.
  - inversion H as [|? ? Hni Hnd]; subst. constructor; [|auto].
    intro Hin. apply Hni. apply in_app_or in Hin. apply in_or_app.
    destruct Hin as [Hin|Hin]; [now left|right; eapply remove_first_In; eauto].
Qed.

Lemma NoDup_app_not_in_r (a b : list N) h : NoDup (a ++ b) -> In h b ->
  ~ In h (a ++ remove_first b h).
Proof.
  intros Hnd Hin Hc. apply in_app_or in Hc. destruct Hc as [Hc|Hc].
  - revert Hnd Hc Hin. clear. induction a as [|x a IH]; cbn; [tauto|].
    intros Hnd [->|Hc] Hin.
    + inversion Hnd as [|? ? Hni ?]; subst. apply Hni. apply in_or_app. now right.
    + inversion Hnd; subst. eauto.
  - assert (NoDup b).
    { clear -Hnd. induction a; cbn in *; [assumption|]. inversion Hnd; auto. }
    eapply remove_first_not_In; eauto.
Qed.

Lemma NoDup_app_intro {A} (a b : list A) :
  NoDup a -> NoDup b -> (forall x, In x b -> ~ In x a) -> NoDup (a ++ b).
Proof.
  induction a as [|x a IH]; cbn; intros Ha Hb Hd; [assumption|].
  inversion Ha as [|? ? Hni Hnd]; subst. constructor.
  - intro Hin. apply in_app_or in Hin. destruct Hin as [Hin|Hin]; [contradiction|].
    apply (Hd x Hin). now left.
  - apply IH; auto. intros y Hy Hya. apply (Hd y Hy). now right.
Qed.

Lemma NoDup_app_l {A} (a b : list A) : NoDup (a ++ b) -> NoDup a.
Proof.
  induction a as [|x a IH]; cbn; intros H; [constructor|].
  inversion H as [|? ? Hni Hnd]; subst. constructor; [|auto].
  intro Hin. apply Hni. apply in_or_app. now left.
Qed.

Lemma NoDup_app_r {A} (a b : list A) : NoDup (a ++ b) -> NoDup b.
Proof. induction a as [|x a IH]; cbn; intros H; [assumption|]. inversion H; auto. Qed.

Lemma NoDup_app_disj {A} (a b : list A) x : NoDup (a ++ b) -> In x a -> In x b -> False.
Proof.
  induction a as [|y a IH]; cbn; intros H Ha Hb; [tauto|].
  inversion H as [|? ? Hni Hnd]; subst. destruct Ha as [->|Ha]; [|eauto].
  apply Hni. apply in_or_app. now right.
Qed.

Lemma filter_length_le {A} (p q : A -> bool) l :
  (forall x, In x l -> q x = true -> p x = true) ->
  (length (filter q l) <= length (filter p l))%nat.
Proof.
  induction l as [|x l IH]; cbn; intros H; [lia|].
  assert (IH' := IH (fun y Hy => H y (or_intror Hy))).
  destruct (q x) eqn:Eq.
  - rewrite (H x (or_introl eq_refl) Eq). cbn. lia.
  - destruct (p x); cbn; lia.
Qed.

Lemma filter_length_le_all {A} (p : A -> bool) l : (length (filter p l) <= length l)%nat.
Proof. induction l as [|x l IH]; cbn; [lia|]. destruct (p x); cbn; lia. Qed.

Lemma filter_length_lt {A} (p q : A -> bool) l h :
  (forall x, In x l -> q x = true -> p x = true) ->
  In h l -> p h = true -> q h = false ->
  (length (filter q l) < length (filter p l))%nat.
Proof.
  induction l as [|x l IH]; cbn; intros H Hin Hp Hq; [tauto|].
  assert (Hle := filter_length_le p q l (fun y Hy => H y (or_intror Hy))).
  destruct Hin as [->|Hin].
  - rewrite Hp, Hq. cbn. lia.
  - assert (IH' := IH (fun y Hy => H y (or_intror Hy)) Hin Hp Hq).
    destruct (q x) eqn:Eq.
    + rewrite (H x (or_introl eq_refl) Eq). cbn. lia.
    + destruct (p x); cbn; lia.
Qed.

Lemma last_opt_app {A} (l : list A) x : last_opt (l ++ [x]) = Some x.
Proof. unfold last_opt. rewrite rev_app_distr. reflexivity. Qed.

Lemma last_opt_In {A} (l : list A) x : last_opt l = Some x -> In x l.
Proof.
  unfold last_opt. destruct (rev l) eqn:E; [discriminate|]. intros [= ->].
  apply in_rev. rewrite E. now left.
Qed.

Lemma last_opt_nil {A} (l : list A) : last_opt l = None -> l = [].
Proof.
  unfold last_opt. destruct (rev l) eqn:E; [|discriminate]. intros _.
  rewrite <- (rev_involutive l), E. reflexivity.
Qed.

(* ---------------------------------------------------------------------------------------- *)
(* weak specification of addNextEntry (no completeness clause) and its composition           *)

Section AddW.
  Variable cfg : config.

  Record add_spec_w (hs : list N) (qc qc' : queue * cache) (added : queue) : Prop := {
    aw_queue : fst qc' = fst qc ++ added;
    aw_cache : forall x, cache_get (snd qc') x =
                         if mem x (map snd added) then Some TAdded else cache_get (snd qc) x;
    aw_nodup : NoDup (map snd added);
    aw_new : forall x, In x (map snd added) -> In x hs /\ wanted cfg x /\ cached (snd qc) x = false
  }.

  Lemma add_spec_weaken hs qc qc' added : add_spec cfg hs qc qc' added -> add_spec_w hs qc qc' added.
  Proof. intros [H1 H2 H3 H4 _]. split; assumption. Qed.

  Lemma add_spec_w_refl hs qc : add_spec_w hs qc qc [].
  Proof.
    split; cbn; [now rewrite app_nil_r|reflexivity|constructor|tauto].
  Qed.

  Lemma add_spec_w_incl hs hs' qc qc' added :
    incl hs hs' -> add_spec_w hs qc qc' added -> add_spec_w hs' qc qc' added.
  Proof.
    intros Hi [H1 H2 H3 H4]. split; auto.
    intros x Hx. destruct (H4 x Hx) as [Ha [Hb Hc]]. split; [apply Hi, Ha|split; assumption].
  Qed.

  Lemma add_spec_w_cached hs qc qc' added x : add_spec_w hs qc qc' added ->
    cached (snd qc') x = cached (snd qc) x || mem x (map snd added).
  Proof.
    intros [_ Hc _ _]. unfold cached. rewrite Hc.
    destruct (mem x (map snd added)); [now rewrite orb_true_r|now rewrite orb_false_r].
  Qed.

  Lemma add_spec_w_trans hs qc qc1 qc2 a1 a2 :
    add_spec_w hs qc qc1 a1 -> add_spec_w hs qc1 qc2 a2 -> add_spec_w hs qc qc2 (a1 ++ a2).
  Proof.
    intros S1 S2. pose proof (fun x => add_spec_w_cached _ _ _ _ x S1) as Hc1.
    destruct S1 as [Q1 C1 N1 W1]. destruct S2 as [Q2 C2 N2 W2].
    assert (Hdisj : forall x, In x (map snd a2) -> ~ In x (map snd a1)).
    { intros x H2 H1. destruct (W2 x H2) as [_ [_ Hc]]. rewrite (Hc1 x) in Hc.
      apply mem_In in H1. rewrite H1, orb_true_r in Hc. discriminate. }
    split.
    - rewrite Q2, Q1. now rewrite app_assoc.
    - intros x. rewrite C2, C1, map_app. unfold mem at 3. rewrite existsb_app.
      fold (mem x (map snd a1)). fold (mem x (map snd a2)).
      destruct (mem x (map snd a2)) eqn:E2; [now rewrite orb_true_r|].
      rewrite orb_false_r. reflexivity.
    - rewrite map_app. apply NoDup_app_intro; auto.
    - intros x Hx. rewrite map_app in Hx. apply in_app_or in Hx. destruct Hx as [Hx|Hx]; [auto|].
      destruct (W2 x Hx) as [Ha [Hb Hc]]. split; [assumption|split; [assumption|]].
      rewrite (Hc1 x) in Hc. apply orb_false_iff in Hc. tauto.
  Qed.
End AddW.

Lemma add_next_spec_w cfg mn mx e results qc :
  exists added, add_spec_w cfg (fe_links e) qc (add_next cfg mn mx e results qc) added.
Proof.
  unfold add_next, add_hashes.
  assert (In1 : incl (fe_next e) (fe_links e)) by (intros x Hx; apply in_or_app; now left).
  assert (In2 : incl (fe_refs e) (fe_links e)) by (intros x Hx; apply in_or_app; now right).
  destruct (cf_length cfg <? 0).
  - destruct (add_indexed_spec cfg (fun i => i) (fe_next e) 0 qc) as [a1 S1].
    destruct (add_indexed_spec cfg (fun i => i) (fe_refs e) 0
                (add_indexed cfg (fun i => i) 0 (fe_next e) qc)) as [a2 S2].
    exists (a1 ++ a2). eapply add_spec_w_trans.
    + eapply add_spec_w_incl; [exact In1|]. apply add_spec_weaken. exact S1.
    + eapply add_spec_w_incl; [exact In2|]. apply add_spec_weaken. exact S2.
  - set (qc1 := if (zlen results <? cf_length cfg) || (mn <? fe_time e) || (fe_time e =? mn)
                then add_indexed cfg (fun _ => mx - fe_time e) 0 (fe_next e) qc else qc).
    assert (H1 : exists a1, add_spec_w cfg (fe_links e) qc qc1 a1).
    { subst qc1. destruct ((zlen results <? cf_length cfg) || (mn <? fe_time e) || (fe_time e =? mn)).
      - destruct (add_indexed_spec cfg (fun _ => mx - fe_time e) (fe_next e) 0 qc) as [a1 S1].
        exists a1. eapply add_spec_w_incl; [exact In1|]. apply add_spec_weaken. exact S1.
      - exists []. apply add_spec_w_refl. }
    destruct H1 as [a1 S1].
    destruct (zlen results + zlen (fe_refs e) <=? cf_length cfg).
    + destruct (add_indexed_spec cfg (fun i => mx - fe_time e + (i + 1) * i) (fe_refs e) 0 qc1) as [a2 S2].
      exists (a1 ++ a2). eapply add_spec_w_trans; [exact S1|].
      eapply add_spec_w_incl; [exact In2|]. apply add_spec_weaken. exact S2.
    + exists a1. exact S1.
Qed.

Lemma add_next_all cfg mn mx e results qc x :
  cf_length cfg < 0 -> In x (fe_links e) -> wanted cfg x ->
  cached (snd (add_next cfg mn mx e results qc)) x = true.
Proof.
  intros Hlen Hin Hw. unfold add_next, add_hashes.
  assert (E : cf_length cfg <? 0 = true) by (apply Z.ltb_lt; lia). rewrite E.
  destruct (add_indexed_spec cfg (fun i => i) (fe_next e) 0 qc) as [a1 S1].
  destruct (add_indexed_spec cfg (fun i => i) (fe_refs e) 0
              (add_indexed cfg (fun i => i) 0 (fe_next e) qc)) as [a2 S2].
  apply in_app_or in Hin. destruct Hin as [Hin|Hin].
  - rewrite (add_spec_cached cfg _ _ _ _ x S2). rewrite (as_all _ _ _ _ _ S1 x Hin Hw). reflexivity.
  - exact (as_all _ _ _ _ _ S2 x Hin Hw).
Qed.

(* ---------------------------------------------------------------------------------------- *)
(* the invariant                                                                             *)

Section Invariant.
  Variable cfg : config.
  Variable starts : list N.
  Notation sget := (store_get (cf_store cfg)).
  Notation flight s := (st_fetching s ++ map fst (st_pending s)).

  Record inv (s : fstate) : Prop := {
    inv_queue : forall p h, In (p, h) (st_queue s) -> cache_get (st_cache s) h = Some TAdded;
    inv_queue_nodup : NoDup (map snd (st_queue s));
    inv_added : forall h, cache_get (st_cache s) h = Some TAdded -> In h (map snd (st_queue s));
    inv_flight_nodup : NoDup (flight s);
    inv_flight : forall h, In h (flight s) -> cache_get (st_cache s) h = Some TInProgress;
    inv_results : forall e, In e (st_results s) ->
        cache_get (st_cache s) (fe_hash e) = Some TDone /\ sget (fe_hash e) = Some e;
    inv_results_nodup : NoDup (map fe_hash (st_results s));
    inv_cached : forall h, cached (st_cache s) h = true -> requested cfg starts h;
    inv_requests_nodup : NoDup (st_requests s);
    inv_requests : forall h, In h (st_requests s) <->
        (cache_get (st_cache s) h = Some TInProgress \/ cache_get (st_cache s) h = Some TDone);
    inv_pending : forall h e, In (h, Some e) (st_pending s) -> sget h = Some e;
    inv_done : forall h, cache_get (st_cache s) h = Some TDone -> exists e, sget h = Some e;
    inv_starts : forall h, In h starts -> wanted cfg h -> cached (st_cache s) h = true
  }.

  Lemma inv_init : inv (init_state cfg starts).
  Proof.
    unfold init_state, add_hashes.
    destruct (add_indexed_spec cfg (fun i => i) starts 0 ([], [])) as [added [Hq Hc Hnd Hnew Hall]].
    cbn [fst snd app] in *.
    split; cbn [st_queue st_cache st_fetching st_pending st_results st_requests map app].
    - intros p h Hin. rewrite Hc. rewrite Hq in Hin.
      assert (Hm : mem h (map snd added) = true).
      { apply mem_In. apply in_map_iff. exists (p, h). auto. }
      now rewrite Hm.
    - now rewrite Hq.
    - intros h. rewrite Hc, Hq. destruct (mem h (map snd added)) eqn:Em; [|discriminate].
      intros _. now apply mem_In.
    - constructor.
    - intros h [].
    - intros e [].
    - constructor.
    - intros h Hcd. unfold cached in Hcd. rewrite Hc in Hcd.
      destruct (mem h (map snd added)) eqn:Em; [|discriminate].
      apply mem_In in Em. destruct (Hnew h Em) as [Hs [Hw _]]. now apply req_start.
    - constructor.
    - intros h. rewrite Hc. destruct (mem h (map snd added)); cbn; split; try tauto;
        intros [H|H]; discriminate.
    - intros h e [].
    - intros h. rewrite Hc. destruct (mem h (map snd added)); discriminate.
    - exact Hall.
  Qed.

  (* ---- dispatch ---- *)
  Lemma inv_dispatch s h p : inv s -> queue_find (st_queue s) h = Some p -> inv (dispatch_state s h).
  Proof.
    intros I Hf. pose proof (queue_find_In _ _ _ Hf) as Hin.
    assert (Hh : cache_get (st_cache s) h = Some TAdded) by (eapply inv_queue; eauto).
    assert (Hhq : In h (map snd (st_queue s))) by (apply in_map_iff; exists (p, h); auto).
    assert (Hnf : ~ In h (flight s)).
    { intro Hc. apply (inv_flight s I) in Hc. congruence. }
    split; cbn [dispatch_state st_queue st_cache st_fetching st_pending st_results st_requests].
    - intros p' x Hx. rewrite cache_get_set.
      assert (Hx' : In x (remove_first (map snd (st_queue s)) h)).
      { rewrite <- queue_remove_map_snd. apply in_map_iff. exists (p', x). auto. }
      destruct (N.eqb h x) eqn:E.
      + apply N.eqb_eq in E. subst x. exfalso.
        eapply remove_first_not_In; [apply (inv_queue_nodup s I)|exact Hx'].
      + eapply inv_queue; eauto. eapply queue_remove_In; eauto.
    - rewrite queue_remove_map_snd. apply remove_first_NoDup. apply (inv_queue_nodup s I).
    - intros x. rewrite cache_get_set. destruct (N.eqb h x) eqn:E; [discriminate|].
      apply N.eqb_neq in E. intros Hx. rewrite queue_remove_map_snd.
      apply remove_first_other; [apply (inv_added s I); assumption|congruence].
    - apply (Permutation_NoDup (l := h :: flight s)).
      + rewrite <- app_assoc. cbn. apply Permutation_middle.
      + constructor; [assumption|apply (inv_flight_nodup s I)].
    - intros x Hx. rewrite cache_get_set. destruct (N.eqb h x) eqn:E; [reflexivity|].
      apply (inv_flight s I). rewrite <- app_assoc in Hx. apply in_app_or in Hx.
      apply in_or_app. destruct Hx as [Hx|Hx]; [now left|].
      cbn in Hx. destruct Hx as [Hx|Hx]; [apply N.eqb_neq in E; congruence|now right].
    - intros e He. destruct (inv_results s I e He) as [H1 H2]. split; [|assumption].
      rewrite cache_get_set. destruct (N.eqb h (fe_hash e)) eqn:E; [|assumption].
      apply N.eqb_eq in E. congruence.
    - apply (inv_results_nodup s I).
    - intros x. rewrite cached_set. destruct (N.eqb h x) eqn:E; cbn.
      + apply N.eqb_eq in E. subst x. intros _. apply (inv_cached s I).
        apply cached_true. eauto.
      + apply (inv_cached s I).
    - apply NoDup_app_intro; [apply (inv_requests_nodup s I)|repeat constructor; auto|].
      intros x [<-|[]] Hx. apply (inv_requests s I) in Hx. destruct Hx; congruence.
    - intros x. rewrite in_app_iff, cache_get_set. cbn [In]. rewrite (inv_requests s I x).
      destruct (N.eqb h x) eqn:E.
      + apply N.eqb_eq in E. subst x. split; auto.
      + apply N.eqb_neq in E. split.
        * intros [H|[H|[]]]; [assumption|congruence].
        * tauto.
    - apply (inv_pending s I).
    - intros x. rewrite cache_get_set. destruct (N.eqb h x); [discriminate|]. apply (inv_done s I).
    - intros x Hx Hw. rewrite cached_set. rewrite (inv_starts s I x Hx Hw). apply orb_true_r.
  Qed.

  (* ---- return ---- *)
  Lemma flight_return_perm s h r : In h (st_fetching s) ->
    Permutation (flight s) (flight (return_state s h r)).
  Proof.
    intros Hin. cbn [return_state st_fetching st_pending]. rewrite map_app. cbn [map fst].
    rewrite (remove_first_perm _ _ Hin) at 1. cbn.
    rewrite app_assoc. rewrite <- Permutation_cons_append. reflexivity.
  Qed.

  Lemma inv_return s h ok r : inv s -> In h (st_fetching s) -> return_value cfg s h ok r ->
    inv (return_state s h r).
  Proof.
    intros I Hin Hr. pose proof (flight_return_perm s h r Hin) as Hp.
    split; try (cbn [return_state st_queue st_cache st_results st_requests];
                first [apply (inv_queue s I) | apply (inv_queue_nodup s I) | apply (inv_added s I)
                      | apply (inv_results s I) | apply (inv_results_nodup s I) | apply (inv_cached s I)
                      | apply (inv_requests_nodup s I) | apply (inv_requests s I) | apply (inv_done s I)
                      | apply (inv_starts s I)]).
    - eapply Permutation_NoDup; [exact Hp|apply (inv_flight_nodup s I)].
    - intros x Hx. cbn [return_state st_cache]. apply (inv_flight s I).
      eapply Permutation_in; [symmetry; exact Hp|exact Hx].
    - intros x e Hx. cbn [return_state st_pending] in Hx. apply in_app_or in Hx.
      destruct Hx as [Hx|[Hx|[]]]; [eapply inv_pending; eauto|].
      injection Hx as <- ->. unfold return_value in Hr. destruct ok.
      + destruct Hr as [Hr _]. now symmetry.
      + destruct Hr as [Hr _]. discriminate.
  Qed.

  (* ---- complete ---- *)
  Lemma inv_drop s h : inv s -> In h (map fst (st_pending s)) ->
    let s1 := drop_pending s h in
    NoDup (flight s1) /\ ~ In h (flight s1) /\
    (forall x, In x (flight s1) -> In x (flight s)) /\
    (forall x, In x (flight s) -> x <> h -> In x (flight s1)).
  Proof.
    intros I Hin. cbn [drop_pending st_fetching st_pending]. rewrite pending_remove_map_fst.
    repeat split.
    - apply NoDup_app_remove_r. apply (inv_flight_nodup s I).
    - apply NoDup_app_not_in_r; [apply (inv_flight_nodup s I)|assumption].
    - intros x Hx. apply in_app_or in Hx. apply in_or_app. destruct Hx as [Hx|Hx]; [now left|].
      right. eapply remove_first_In; eauto.
    - intros x Hx Hne. apply in_app_or in Hx. apply in_or_app. destruct Hx as [Hx|Hx]; [now left|].
      right. now apply remove_first_other.
  Qed.

  Lemma inv_complete_none s h : inv s -> In h (map fst (st_pending s)) -> inv (drop_pending s h).
  Proof.
    intros I Hin. destruct (inv_drop s h I Hin) as [D1 [D2 [D3 D4]]].
    split; try (cbn [drop_pending st_queue st_cache st_results st_requests];
                first [apply (inv_queue s I) | apply (inv_queue_nodup s I) | apply (inv_added s I)
                      | apply (inv_results s I) | apply (inv_results_nodup s I) | apply (inv_cached s I)
                      | apply (inv_requests_nodup s I) | apply (inv_requests s I) | apply (inv_done s I)
                      | apply (inv_starts s I)]).
    - exact D1.
    - intros x Hx. apply (inv_flight s I). auto.
    - intros x e Hx. cbn [drop_pending st_pending] in Hx. apply pending_remove_In in Hx.
      eapply inv_pending; eauto.
  Qed.

  (* the state after the critical section, when the cache says InProgress (always the case) *)
  Lemma process_eq s e :
    cache_get (st_cache s) (fe_hash e) = Some TInProgress ->
    let mm := update_clock (st_min s) (st_max s) e (last_opt (st_results s)) in
    let results' := if admits (cf_length cfg) (st_results s) (fst mm) e
                    then st_results s ++ [e] else st_results s in
    let qc := add_next cfg (fst mm) (snd mm) e results'
                (st_queue s, cache_set (st_cache s) (fe_hash e) TDone) in
    process cfg s e =
    {| st_queue := fst qc; st_cache := snd qc; st_fetching := st_fetching s;
       st_pending := st_pending s; st_results := results'; st_min := fst mm; st_max := snd mm;
       st_timedout := st_timedout s; st_requests := st_requests s |}.
  Proof.
    intros Hc. unfold process. destruct (update_clock _ _ _ _) as [mn mx]. rewrite Hc. reflexivity.
  Qed.

  Lemma inv_process s e h :
    inv s -> ~ In h (flight s) -> cache_get (st_cache s) h = Some TInProgress ->
    sget h = Some e -> inv (process cfg s e).
  Proof.
    intros I Hnf Hc Hs. pose proof (store_get_hash _ _ _ Hs) as Hh.
    rewrite process_eq by (rewrite Hh; exact Hc). rewrite Hh.
    set (mm := update_clock (st_min s) (st_max s) e (last_opt (st_results s))).
    set (results' := if admits (cf_length cfg) (st_results s) (fst mm) e
                     then st_results s ++ [e] else st_results s).
    destruct (add_next_spec_w cfg (fst mm) (snd mm) e results'
                (st_queue s, cache_set (st_cache s) h TDone)) as [added [Hq Hca Hnd Hnew]].
    cbn [fst snd] in Hq, Hca, Hnew.
    set (qc := add_next cfg (fst mm) (snd mm) e results' (st_queue s, cache_set (st_cache s) h TDone)) in *.
    assert (Hnew' : forall x, In x (map snd added) ->
              In x (fe_links e) /\ wanted cfg x /\ x <> h /\ cache_get (st_cache s) x = None).
    { intros x Hx. destruct (Hnew x Hx) as [H1 [H2 H3]]. rewrite cached_set in H3.
      apply orb_false_iff in H3. destruct H3 as [H3 H4]. apply N.eqb_neq in H3.
      apply cached_false in H4. split; [assumption|split; [assumption|split; [congruence|assumption]]]. }
    assert (Hcache : forall x, cache_get (snd qc) x =
              if mem x (map snd added) then Some TAdded
              else if N.eqb h x then Some TDone else cache_get (st_cache s) x).
    { intros x. rewrite Hca, cache_get_set. reflexivity. }
    assert (Hold : forall x k, cache_get (st_cache s) x = Some k -> x <> h -> cache_get (snd qc) x = Some k).
    { intros x k Hx Hne. rewrite Hcache. destruct (mem x (map snd added)) eqn:Em.
      - apply mem_In in Em. destruct (Hnew' x Em) as [_ [_ [_ Hn]]]. congruence.
      - destruct (N.eqb h x) eqn:E; [apply N.eqb_eq in E; congruence|assumption]. }
    assert (Hhdone : cache_get (snd qc) h = Some TDone).
    { rewrite Hcache. destruct (mem h (map snd added)) eqn:Em.
      - apply mem_In in Em. destruct (Hnew' h Em) as [_ [_ [Hne _]]]. congruence.
      - now rewrite N.eqb_refl. }
    assert (Hres_h : ~ In h (map fe_hash (st_results s))).
    { intro Hin. apply in_map_iff in Hin. destruct Hin as [r [Hr1 Hr2]].
      destruct (inv_results s I r Hr2) as [Hd _]. congruence. }
    assert (Hres' : forall r, In r results' -> In r (st_results s) \/ r = e).
    { intros r. subst results'. destruct (admits _ _ _ _); [|tauto].
      intros Hr. apply in_app_or in Hr. destruct Hr as [Hr|[<-|[]]]; auto. }
    split; cbn [st_queue st_cache st_fetching st_pending st_results st_requests].
    - intros p x Hx. rewrite Hq in Hx. apply in_app_or in Hx. destruct Hx as [Hx|Hx].
      + pose proof (inv_queue s I p x Hx) as Hxa. apply Hold; [assumption|congruence].
      + rewrite Hcache. assert (Hm : mem x (map snd added) = true).
        { apply mem_In. apply in_map_iff. exists (p, x). auto. }
        now rewrite Hm.
    - rewrite Hq, map_app. apply NoDup_app_intro; [apply (inv_queue_nodup s I)|assumption|].
      intros x Hx Hx2. destruct (Hnew' x Hx) as [_ [_ [_ Hn]]].
      apply in_map_iff in Hx2. destruct Hx2 as [[p x'] [Hx2 Hx3]]. cbn in Hx2. subst x'.
      pose proof (inv_queue s I p x Hx3). congruence.
    - intros x. rewrite Hcache, Hq, map_app, in_app_iff.
      destruct (mem x (map snd added)) eqn:Em; [intros _; right; now apply mem_In|].
      destruct (N.eqb h x); [discriminate|]. intros Hx. left. now apply (inv_added s I).
    - apply (inv_flight_nodup s I).
    - intros x Hx. apply Hold; [now apply (inv_flight s I)|]. intros ->. contradiction.
    - intros r Hr. destruct (Hres' r Hr) as [Hr'| ->].
      + destruct (inv_results s I r Hr') as [H1 H2]. split; [|assumption].
        apply Hold; [assumption|]. intros Heq. apply Hres_h. rewrite <- Heq. now apply in_map.
      + rewrite Hh. auto.
    - subst results'. destruct (admits _ _ _ _); [|apply (inv_results_nodup s I)].
      rewrite map_app. cbn [map]. rewrite Hh.
      apply NoDup_app_intro; [apply (inv_results_nodup s I)|repeat constructor; auto|].
      intros x [<-|[]]. assumption.
    - intros x Hx. apply cached_true in Hx. destruct Hx as [k Hx]. rewrite Hcache in Hx.
      assert (Hrh : requested cfg starts h).
      { apply (inv_cached s I). apply cached_true. eauto. }
      destruct (mem x (map snd added)) eqn:Em.
      + apply mem_In in Em. destruct (Hnew' x Em) as [H1 [H2 _]].
        eapply req_link; eauto.
      + destruct (N.eqb h x) eqn:E; [apply N.eqb_eq in E; now subst|].
        apply (inv_cached s I). apply cached_true. eauto.
    - apply (inv_requests_nodup s I).
    - intros x. rewrite (inv_requests s I x), Hcache.
      destruct (mem x (map snd added)) eqn:Em.
      + apply mem_In in Em. destruct (Hnew' x Em) as [_ [_ [_ Hn]]]. rewrite Hn.
        split; intros [H|H]; discriminate.
      + destruct (N.eqb h x) eqn:E; [|tauto]. apply N.eqb_eq in E. subst x. rewrite Hc. tauto.
    - apply (inv_pending s I).
    - intros x. rewrite Hcache. destruct (mem x (map snd added)); [discriminate|].
      destruct (N.eqb h x) eqn:E; [apply N.eqb_eq in E; subst; eauto|apply (inv_done s I)].
    - intros x Hx Hw. pose proof (inv_starts s I x Hx Hw) as Hcx.
      apply cached_true in Hcx. destruct Hcx as [k Hk]. apply cached_true.
      rewrite Hcache. destruct (mem x (map snd added)); [eauto|].
      destruct (N.eqb h x); eauto.
  Qed.

  Lemma inv_complete s h r : inv s -> pending_find (st_pending s) h = Some r ->
    inv (complete_state cfg s h r).
  Proof.
    intros I Hp. pose proof (pending_find_In _ _ _ Hp) as Hin.
    assert (Hin' : In h (map fst (st_pending s))) by (apply in_map_iff; exists (h, r); auto).
    pose proof (inv_complete_none s h I Hin') as I1.
    unfold complete_state. destruct r as [e|]; [|exact I1].
    destruct (inv_drop s h I Hin') as [_ [D2 _]].
    apply (inv_process (drop_pending s h) e h I1 D2).
    - cbn [drop_pending st_cache]. apply (inv_flight s I). apply in_or_app. now right.
    - apply (inv_pending s I h e Hin).
  Qed.

  Lemma inv_timeout s : inv s -> inv (timeout_state s).
  Proof. intros [H1 H2 H3 H4 H5 H6 H7 H8 H9 H10 H11 H12 H13]. split; assumption. Qed.

  Lemma inv_step s ev s' : inv s -> step cfg s ev s' -> inv s'.
  Proof.
    intros I H. destruct H as [s h p Ht Hl Hf Hm|s h ok r Hin Hr|s h r Hp|s Hc Ht].
    - eapply inv_dispatch; eauto.
    - eapply inv_return; eauto.
    - now apply inv_complete.
    - now apply inv_timeout.
  Qed.

  Theorem inv_reachable s : reachable_state cfg starts s -> inv s.
  Proof.
    apply reachable_ind; [apply inv_init|]. intros s0 ev s' _ I Hs. eapply inv_step; eauto.
  Qed.
End Invariant.

(* ---------------------------------------------------------------------------------------- *)
(* what the critical section does, in one statement                                          *)

Lemma admit_unbounded len results mn e : len < 0 -> admits len results mn e = true.
Proof. intros H. unfold admits. assert (E : len <? 0 = true) by (apply Z.ltb_lt; lia). now rewrite E. Qed.

Lemma process_facts cfg s e h :
  cache_get (st_cache s) h = Some TInProgress -> store_get (cf_store cfg) h = Some e ->
  let mm := update_clock (st_min s) (st_max s) e (last_opt (st_results s)) in
  let results' := if admits (cf_length cfg) (st_results s) (fst mm) e
                  then st_results s ++ [e] else st_results s in
  let s' := process cfg s e in
  exists added,
    st_queue s' = st_queue s ++ added /\
    (forall x, cache_get (st_cache s') x =
               if mem x (map snd added) then Some TAdded
               else if N.eqb h x then Some TDone else cache_get (st_cache s) x) /\
    NoDup (map snd added) /\
    (forall x, In x (map snd added) ->
               In x (fe_links e) /\ wanted cfg x /\ x <> h /\ cache_get (st_cache s) x = None) /\
    st_results s' = results' /\ st_fetching s' = st_fetching s /\ st_pending s' = st_pending s /\
    st_timedout s' = st_timedout s /\ st_requests s' = st_requests s /\
    st_min s' = fst mm /\ st_max s' = snd mm /\
    (cf_length cfg < 0 -> forall x, In x (fe_links e) -> wanted cfg x -> cached (st_cache s') x = true).
Proof.
  intros Hc Hs. pose proof (store_get_hash _ _ _ Hs) as Hh. cbv zeta.
  rewrite process_eq by (rewrite Hh; exact Hc). rewrite Hh.
  set (mm := update_clock (st_min s) (st_max s) e (last_opt (st_results s))).
  set (results' := if admits (cf_length cfg) (st_results s) (fst mm) e
                   then st_results s ++ [e] else st_results s).
  destruct (add_next_spec_w cfg (fst mm) (snd mm) e results'
              (st_queue s, cache_set (st_cache s) h TDone)) as [added [Hq Hca Hnd Hnew]].
  cbn [fst snd] in Hq, Hca, Hnew. exists added.
  cbn [st_queue st_cache st_fetching st_pending st_results st_requests st_timedout st_min st_max].
  split; [exact Hq|]. split; [intros x; rewrite Hca, cache_get_set; reflexivity|].
  split; [exact Hnd|]. split.
  { intros x Hx. destruct (Hnew x Hx) as [H1 [H2 H3]]. rewrite cached_set in H3.
    apply orb_false_iff in H3. destruct H3 as [H3 H4]. apply N.eqb_neq in H3.
    apply cached_false in H4. split; [assumption|split; [assumption|split; [congruence|assumption]]]. }
  repeat (split; [reflexivity|]).
  intros Hlen x Hx Hw. now apply add_next_all.
Qed.

(* ---------------------------------------------------------------------------------------- *)
(* termination measure                                                                       *)

Section Measure.
  Variable cfg : config.
  Variable starts : list N.
  Notation sget := (store_get (cf_store cfg)).
  Notation U := (universe cfg starts).

  Lemma universe_NoDup : NoDup U.
  Proof. apply NoDup_nodup. Qed.

  Lemma universe_start h : In h starts -> In h U.
  Proof. intros H. apply nodup_In. apply in_or_app. now left. Qed.

  Lemma universe_link h e x : sget h = Some e -> In x (fe_links e) -> In x U.
  Proof. intros Hs Hx. apply nodup_In. apply in_or_app. right. eapply store_get_links; eauto. Qed.

  Lemma unseen_mono c c' :
    (forall x, cached c x = true -> cached c' x = true) ->
    (unseen cfg starts c' <= unseen cfg starts c)%nat.
  Proof.
    intros H. unfold unseen. apply filter_length_le. intros x _ Hx.
    apply negb_true_iff in Hx. apply negb_true_iff.
    destruct (cached c x) eqn:E; [|reflexivity]. rewrite (H x E) in Hx. discriminate.
  Qed.

  Lemma unseen_add hs qc qc' added :
    add_spec_w cfg hs qc qc' added -> incl hs U ->
    (unseen cfg starts (snd qc') + length added <= unseen cfg starts (snd qc))%nat.
  Proof.
    intros S Hi. pose proof (fun x => add_spec_w_cached cfg _ _ _ _ x S) as Hc.
    destruct S as [_ _ Hnd Hnew]. unfold unseen.
    rewrite <- (map_length snd added), <- app_length.
    apply NoDup_incl_length.
    - apply NoDup_app_intro; [apply NoDup_filter, universe_NoDup|assumption|].
      intros x Hx Hf. apply filter_In in Hf. destruct Hf as [_ Hf].
      rewrite Hc in Hf. apply mem_In in Hx. rewrite Hx, orb_true_r in Hf. discriminate.
    - intros x Hx. apply in_app_or in Hx. apply filter_In. destruct Hx as [Hx|Hx].
      + apply filter_In in Hx. destruct Hx as [Hu Hf]. split; [assumption|].
        rewrite Hc in Hf. apply negb_true_iff in Hf. apply orb_false_iff in Hf.
        apply negb_true_iff. tauto.
      + destruct (Hnew x Hx) as [H1 [_ H3]]. split; [now apply Hi|]. now rewrite H3.
  Qed.

  Definition m4 (s : fstate) : nat :=
    4 * unseen cfg starts (st_cache s) + 3 * length (st_queue s)
    + 2 * length (st_fetching s) + length (st_pending s).

  Lemma fmeasure_m4 s : fmeasure cfg starts s = (2 * m4 s + (if st_timedout s then 0 else 1))%nat.
  Proof. reflexivity. Qed.

  Lemma init_measure_ok : (m4 (init_state cfg starts) <= 4 * length U)%nat.
  Proof.
    unfold m4, init_state, add_hashes.
    destruct (add_indexed_spec cfg (fun i => i) starts 0 ([], [])) as [added S].
    pose proof (unseen_add _ _ _ _ (add_spec_weaken cfg _ _ _ _ S) (fun x Hx => universe_start x Hx)) as H.
    destruct S as [Hq _ _ _ _].
    cbn [st_cache st_queue st_fetching st_pending length fst snd] in *. rewrite Hq. cbn [app].
    assert (unseen cfg starts [] <= length U)%nat.
    { unfold unseen. apply filter_length_le_all. }
    lia.
  Qed.

  Lemma step_m4 s ev s' : inv cfg starts s -> step cfg s ev s' ->
    match ev with EvTimeout => m4 s' = m4 s | _ => (m4 s' < m4 s)%nat end /\
    (st_timedout s = true -> st_timedout s' = true) /\
    (ev = EvTimeout -> st_timedout s = false /\ st_timedout s' = true).
  Proof.
    intros I H. destruct H as [s h p Ht Hl Hf Hm|s h ok r Hin Hr|s h r Hp|s Hc Ht].
    - split; [|split; [auto|discriminate]]. unfold m4.
      cbn [dispatch_state st_queue st_cache st_fetching st_pending].
      pose proof (queue_find_In _ _ _ Hf) as Hin.
      assert (Hhq : In h (map snd (st_queue s))) by (apply in_map_iff; exists (p, h); auto).
      pose proof (queue_remove_length _ _ Hhq) as Hql. rewrite app_length. cbn [length].
      assert (Hu : (unseen cfg starts (cache_set (st_cache s) h TInProgress) <= unseen cfg starts (st_cache s))%nat).
      { apply unseen_mono. intros x Hx. rewrite cached_set, Hx. apply orb_true_r. }
      lia.
    - split; [|split; [auto|discriminate]]. unfold m4.
      cbn [return_state st_queue st_cache st_fetching st_pending].
      pose proof (remove_first_length _ _ Hin) as Hl. rewrite app_length. cbn [length]. lia.
    - split; [|split; [|discriminate]].
      + pose proof (pending_find_In _ _ _ Hp) as Hin.
        assert (Hin' : In h (map fst (st_pending s))) by (apply in_map_iff; exists (h, r); auto).
        pose proof (pending_remove_length _ _ Hin') as Hpl.
        unfold complete_state. destruct r as [e|].
        * assert (Hs : sget h = Some e) by (eapply inv_pending; eauto).
          assert (Hc : cache_get (st_cache (drop_pending s h)) h = Some TInProgress).
          { cbn [drop_pending st_cache]. apply (inv_flight cfg starts s I). apply in_or_app. now right. }
          destruct (process_facts cfg (drop_pending s h) e h Hc Hs)
            as [added [Hq [Hca [Hnd [Hnew [_ [Hfe [Hpe _]]]]]]]].
          unfold m4. rewrite Hq, Hfe, Hpe. cbn [drop_pending st_queue st_cache st_fetching st_pending] in *.
          rewrite app_length.
          set (c1 := cache_set (st_cache s) h TDone).
          assert (S : add_spec_w cfg (fe_links e) (st_queue s, c1)
                        (st_queue s ++ added, st_cache (process cfg (drop_pending s h) e)) added).
          { split; cbn [fst snd].
            - reflexivity.
            - intros x. rewrite Hca. subst c1. rewrite cache_get_set. reflexivity.
            - exact Hnd.
            - intros x Hx. destruct (Hnew x Hx) as [H1 [H2 [H3 H4]]]. split; [assumption|split; [assumption|]].
              subst c1. rewrite cached_set. apply orb_false_iff. split.
              + apply N.eqb_neq. congruence.
              + now apply cached_false. }
          pose proof (unseen_add _ _ _ _ S (fun x Hx => universe_link h e x Hs Hx)) as Hu.
          cbn [fst snd] in Hu.
          assert (Hu1 : (unseen cfg starts c1 <= unseen cfg starts (st_cache s))%nat).
          { apply unseen_mono. intros x Hx. subst c1. rewrite cached_set, Hx. apply orb_true_r. }
          lia.
        * unfold m4. cbn [drop_pending st_queue st_cache st_fetching st_pending]. lia.
      + unfold complete_state. destruct r as [e|]; [|auto].
        intros Ht. unfold process. destruct (update_clock _ _ _ _).
        destruct (cache_get _ _) as [[]|]; exact Ht.
    - split; [reflexivity|]. split; auto.
  Qed.

  Lemma step_decreases s ev s' : inv cfg starts s -> step cfg s ev s' ->
    (fmeasure cfg starts s' < fmeasure cfg starts s)%nat.
  Proof.
    intros I H. destruct (step_m4 s ev s' I H) as [H1 [H2 H3]]. rewrite !fmeasure_m4.
    destruct ev.
    1-3: destruct (st_timedout s); [rewrite H2 by reflexivity; lia|destruct (st_timedout s'); lia].
    destruct (H3 eq_refl) as [-> ->]. lia.
  Qed.

  Lemma exec_bound s evs s' : reachable_state cfg starts s -> exec cfg s evs s' ->
    (length evs + fmeasure cfg starts s' <= fmeasure cfg starts s)%nat.
  Proof.
    intros Hr He. induction He as [|s ev s1 evs s2 Hs He IH]; cbn [length]; [lia|].
    pose proof (step_decreases s ev s1 (inv_reachable cfg starts s Hr) Hs).
    specialize (IH (reachable_step _ _ _ _ _ Hr Hs)). lia.
  Qed.

  (* no infinite execution: the successor relation on reachable states is well founded *)
  Definition succ_rel (s' s : fstate) : Prop :=
    reachable_state cfg starts s /\ exists ev, step cfg s ev s'.

  Lemma succ_rel_wf : well_founded succ_rel.
  Proof.
    apply (well_founded_lt_compat _ (fmeasure cfg starts)).
    intros s' s [Hr [ev Hs]]. eapply step_decreases; eauto. now apply inv_reachable.
  Qed.

  (* ---- progress: the only stuck states are the terminal ones ---- *)
  Lemma queue_has_min (q : queue) : q <> [] ->
    exists p h, In (p, h) q /\ forall p' h', In (p', h') q -> p <= p'.
  Proof.
    induction q as [|[p h] q IH]; [congruence|]. intros _.
    destruct q as [|x q'].
    - exists p, h. split; [now left|]. intros p' h' [[= <- <-]|[]]. lia.
    - destruct IH as [p0 [h0 [Hin Hmin]]]; [discriminate|].
      destruct (Z.le_gt_cases p p0).
      + exists p, h. split; [now left|]. intros p' h' [[= <- <-]|Hin']; [lia|].
        specialize (Hmin _ _ Hin'). lia.
      + exists p0, h0. split; [now right|]. intros p' h' [[= <- <-]|Hin']; [lia|]. eauto.
  Qed.

  Lemma queue_find_of_In q p h : NoDup (map snd q) -> In (p, h) q -> queue_find q h = Some p.
  Proof.
    induction q as [|[p' k] q IH]; cbn; [tauto|]. intros Hnd Hin.
    inversion Hnd as [|? ? Hni Hnd']; subst.
    destruct Hin as [[= -> ->]|Hin]; [now rewrite N.eqb_refl|].
    destruct (N.eqb k h) eqn:E; [|auto].
    apply N.eqb_eq in E. subst k. exfalso. apply Hni. apply in_map_iff. exists (p, h). auto.
  Qed.

  Lemma progress s : inv cfg starts s -> (0 < cf_conc cfg)%nat -> ~ terminal s ->
    exists ev s', step cfg s ev s'.
  Proof.
    intros I Hconc Hnt. destruct (st_pending s) as [|[h r] pend] eqn:Ep.
    - destruct (st_fetching s) as [|h fet] eqn:Ef.
      + destruct (st_queue s) as [|x q] eqn:Eq.
        { exfalso. apply Hnt. unfold terminal. rewrite Ep, Ef, Eq. auto. }
        destruct (st_timedout s) eqn:Et.
        { exfalso. apply Hnt. unfold terminal. rewrite Ep, Ef, Et. auto. }
        destruct (queue_has_min (st_queue s)) as [p [h [Hin Hmin]]]; [rewrite Eq; discriminate|].
        exists (EvDispatch h), (dispatch_state s h). eapply StepDispatch; eauto.
        * rewrite Ef. exact Hconc.
        * apply queue_find_of_In; [apply (inv_queue_nodup cfg starts s I)|exact Hin].
      + destruct (sget h) as [e|] eqn:Es.
        * exists (EvReturn h true), (return_state s h (Some e)). apply StepReturn.
          -- rewrite Ef. now left.
          -- cbn. rewrite Es. split; congruence.
        * exists (EvReturn h false), (return_state s h None). apply StepReturn.
          -- rewrite Ef. now left.
          -- cbn. auto.
    - destruct (pending_find_Some (st_pending s) h) as [r' Hr'].
      { rewrite Ep. now left. }
      exists (EvComplete h), (complete_state cfg s h r'). now apply StepComplete.
  Qed.
End Measure.

(* ---------------------------------------------------------------------------------------- *)
(* exactness: what is known while the timeout has not fired, and in unbounded mode           *)

Section Exact.
  Variable cfg : config.
  Variable starts : list N.
  Notation sget := (store_get (cf_store cfg)).
  Notation flight s := (st_fetching s ++ map fst (st_pending s)).

  Record inv_x (s : fstate) : Prop := {
    ix_pending : st_timedout s = false -> forall h r, In (h, r) (st_pending s) -> r = sget h;
    ix_inprog : st_timedout s = false -> forall h, cache_get (st_cache s) h = Some TInProgress ->
        In h (flight s) \/ sget h = None;
    ix_done : cf_length cfg < 0 -> forall h e, cache_get (st_cache s) h = Some TDone -> sget h = Some e ->
        In e (st_results s) /\
        forall x, In x (fe_links e) -> wanted cfg x -> cached (st_cache s) x = true
  }.

  Lemma inv_x_init : inv_x (init_state cfg starts).
  Proof.
    pose proof (inv_init cfg starts) as I. split.
    - intros _ h r [].
    - intros _ h Hh. exfalso.
      assert (In h (st_requests (init_state cfg starts))) by (apply (inv_requests _ _ _ I); auto).
      assumption.
    - intros _ h e Hh. exfalso.
      assert (In h (st_requests (init_state cfg starts))) by (apply (inv_requests _ _ _ I); auto).
      assumption.
  Qed.

  Lemma inv_x_step s ev s' : inv cfg starts s -> inv_x s -> step cfg s ev s' -> inv_x s'.
  Proof.
    intros I X H. destruct H as [s h p Ht Hl Hf Hm|s h ok r Hin Hr|s h r Hp|s Hc Ht].
    - (* dispatch *)
      pose proof (queue_find_In _ _ _ Hf) as Hin.
      assert (Hh : cache_get (st_cache s) h = Some TAdded) by (eapply inv_queue; eauto).
      split; cbn [dispatch_state st_queue st_cache st_fetching st_pending st_results st_timedout].
      + apply (ix_pending s X).
      + intros Ht' x. rewrite cache_get_set. destruct (N.eqb h x) eqn:E.
        * apply N.eqb_eq in E. subst x. intros _. left. rewrite <- app_assoc.
          apply in_or_app. right. now left.
        * intros Hx. destruct (ix_inprog s X Ht' x Hx) as [Hfl|Hn]; [left|now right].
          rewrite <- app_assoc. apply in_app_or in Hfl. apply in_or_app.
          destruct Hfl; [now left|right; now right].
      + intros Hlen x e. rewrite cache_get_set. destruct (N.eqb h x) eqn:E; [discriminate|].
        intros Hx Hs. destruct (ix_done s X Hlen x e Hx Hs) as [H1 H2]. split; [assumption|].
        intros y Hy Hw. rewrite cached_set, (H2 y Hy Hw). apply orb_true_r.
    - (* return *)
      split; cbn [return_state st_queue st_cache st_fetching st_pending st_results st_timedout].
      + intros Ht' x r' Hx. apply in_app_or in Hx. destruct Hx as [Hx|[Hx|[]]].
        * eapply ix_pending; eauto.
        * injection Hx as <- <-. unfold return_value in Hr. destruct ok.
          -- tauto.
          -- destruct Hr as [-> [Hn|Hto]]; [now rewrite Hn|congruence].
      + intros Ht' x Hx. destruct (ix_inprog s X Ht' x Hx) as [Hfl|Hn]; [left|now right].
        eapply Permutation_in; [apply (flight_return_perm s h r Hin)|exact Hfl].
      + apply (ix_done s X).
    - (* complete *)
      pose proof (pending_find_In _ _ _ Hp) as Hin.
      assert (Hin' : In h (map fst (st_pending s))) by (apply in_map_iff; exists (h, r); auto).
      destruct (inv_drop cfg starts s h I Hin') as [D1 [D2 [D3 D4]]].
      unfold complete_state. destruct r as [e|].
      + assert (Hs : sget h = Some e) by (eapply inv_pending; eauto).
        assert (Hc : cache_get (st_cache (drop_pending s h)) h = Some TInProgress).
        { cbn [drop_pending st_cache]. apply (inv_flight cfg starts s I). apply in_or_app. now right. }
        destruct (process_facts cfg (drop_pending s h) e h Hc Hs)
          as [added [Hq [Hca [Hnd [Hnew [Hres [Hfe [Hpe [Hto [_ [_ [_ Hall]]]]]]]]]]]].
        cbn [drop_pending st_queue st_cache st_fetching st_pending st_results st_timedout] in *.
        split.
        * rewrite Hto, Hpe. intros Ht' x r' Hx. apply pending_remove_In in Hx.
          eapply ix_pending; eauto.
        * rewrite Hto, Hfe, Hpe. intros Ht' x. rewrite Hca.
          destruct (mem x (map snd added)); [discriminate|].
          destruct (N.eqb h x) eqn:E; [discriminate|]. apply N.eqb_neq in E.
          intros Hx. destruct (ix_inprog s X Ht' x Hx) as [Hfl|Hn]; [left|now right].
          apply D4; [assumption|congruence].
        * intros Hlen x e'. rewrite Hca. destruct (mem x (map snd added)) eqn:Em; [discriminate|].
          rewrite Hres, (admit_unbounded _ _ _ _ Hlen).
          assert (Hmono : forall y, cached (st_cache s) y = true ->
                     cached (st_cache (process cfg (drop_pending s h) e)) y = true).
          { intros y Hy. apply cached_true in Hy. destruct Hy as [k Hy]. apply cached_true.
            rewrite Hca. destruct (mem y (map snd added)); [eauto|]. destruct (N.eqb h y); eauto. }
          destruct (N.eqb h x) eqn:E.
          -- apply N.eqb_eq in E. subst x. intros _ Hs'. assert (e' = e) by congruence. subst e'.
             split; [apply in_or_app; right; now left|]. now apply Hall.
          -- intros Hx Hs'. destruct (ix_done s X Hlen x e' Hx Hs') as [H1 H2].
             split; [apply in_or_app; now left|]. intros y Hy Hw. apply Hmono. eauto.
      + split; cbn [drop_pending st_queue st_cache st_fetching st_pending st_results st_timedout].
        * intros Ht' x r' Hx. apply pending_remove_In in Hx. eapply ix_pending; eauto.
        * intros Ht' x Hx. destruct (N.eq_dec x h) as [->|Hne].
          -- right. symmetry. eapply (ix_pending s X Ht' h None); eauto.
          -- destruct (ix_inprog s X Ht' x Hx) as [Hfl|Hn]; [left|now right].
             apply D4; assumption.
        * apply (ix_done s X).
    - (* timeout *)
      split; cbn [timeout_state st_timedout st_pending st_cache st_fetching st_results];
        try discriminate. apply (ix_done s X).
  Qed.

  Theorem inv_x_reachable s : reachable_state cfg starts s -> inv_x s.
  Proof.
    intros Hr. assert (H : inv cfg starts s /\ inv_x s); [|tauto].
    revert s Hr. apply reachable_ind.
    - split; [apply inv_init|apply inv_x_init].
    - intros s0 ev s' _ [I X] Hs. split; [eapply inv_step; eauto|eapply inv_x_step; eauto].
  Qed.

  (* At a terminal state reached without the timeout firing nothing is left to do: every cached
     hash is either Done or a block the store could not deliver. *)
  Lemma terminal_cached s h : inv cfg starts s -> inv_x s -> terminal s -> st_timedout s = false ->
    cached (st_cache s) h = true ->
    cache_get (st_cache s) h = Some TDone \/ sget h = None.
  Proof.
    intros I X [Tf [Tp Tq]] Ht Hc. apply cached_true in Hc. destruct Hc as [[] Hk].
    - exfalso. apply (inv_added cfg starts s I) in Hk.
      destruct Tq as [Tq|Tq]; [rewrite Tq in Hk; contradiction|congruence].
    - destruct (ix_inprog s X Ht h Hk) as [Hfl|Hn]; [|now right].
      rewrite Tf, Tp in Hfl. contradiction.
    - now left.
  Qed.

  Lemma terminal_requested_cached s : inv cfg starts s -> inv_x s -> terminal s ->
    st_timedout s = false -> cf_length cfg < 0 ->
    forall h, requested cfg starts h -> cached (st_cache s) h = true.
  Proof.
    intros I X T Ht Hlen h Hr. induction Hr as [h Hin Hw|h e h' Hr IH Hs Hin Hw].
    - now apply (inv_starts cfg starts s I).
    - destruct (terminal_cached s h I X T Ht IH) as [Hd|Hn]; [|congruence].
      destruct (ix_done s X Hlen h e Hd Hs) as [_ Hl]. now apply Hl.
  Qed.

  Theorem terminal_exact s : reachable_state cfg starts s -> terminal s ->
    st_timedout s = false -> cf_length cfg < 0 ->
    forall h, In h (map fe_hash (st_results s)) <-> reachable cfg starts h.
  Proof.
    intros Hr T Ht Hlen h. pose proof (inv_reachable cfg starts s Hr) as I.
    pose proof (inv_x_reachable s Hr) as X. split.
    - intros Hin. apply in_map_iff in Hin. destruct Hin as [e [<- He]].
      destruct (inv_results cfg starts s I e He) as [Hd Hs]. split.
      + apply (inv_cached cfg starts s I). apply cached_true. eauto.
      + congruence.
    - intros [Hreq Hs]. destruct (sget h) as [e|] eqn:Es; [|congruence].
      pose proof (terminal_requested_cached s I X T Ht Hlen h Hreq) as Hc.
      destruct (terminal_cached s h I X T Ht Hc) as [Hd|Hn]; [|congruence].
      destruct (ix_done s X Hlen h e Hd Es) as [Hin _].
      apply in_map_iff. exists e. split; [eapply store_get_hash; eauto|assumption].
  Qed.

  (* the request trace at such a terminal state is exactly the set of motivated hashes *)
  Theorem terminal_requests s : reachable_state cfg starts s -> terminal s ->
    st_timedout s = false -> cf_length cfg < 0 ->
    forall h, In h (st_requests s) <-> requested cfg starts h.
  Proof.
    intros Hr T Ht Hlen h. pose proof (inv_reachable cfg starts s Hr) as I.
    pose proof (inv_x_reachable s Hr) as X. split.
    - intros Hin. apply (inv_requests cfg starts s I) in Hin. apply (inv_cached cfg starts s I).
      apply cached_true. destruct Hin; eauto.
    - intros Hreq. pose proof (terminal_requested_cached s I X T Ht Hlen h Hreq) as Hc.
      apply (inv_requests cfg starts s I).
      apply cached_true in Hc. destruct Hc as [[] Hk]; auto.
      exfalso. apply (inv_added cfg starts s I) in Hk. destruct T as [_ [_ [Tq|Tq]]]; [|congruence].
      rewrite Tq in Hk. contradiction.
  Qed.
End Exact.

Lemma requested_wanted cfg starts h : requested cfg starts h -> wanted cfg h.
Proof. intros H. destruct H; assumption. Qed.

Lemma init_fmeasure_bound cfg starts :
  (fmeasure cfg starts (init_state cfg starts) <= 8 * length (universe cfg starts) + 1)%nat.
Proof.
  rewrite fmeasure_m4. pose proof (init_measure_ok cfg starts).
  destruct (st_timedout (init_state cfg starts)); lia.
Qed.
