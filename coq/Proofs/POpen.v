(* Histories in which logs are RE-OPENED: besides appends, joins with any bound, identity changes and
   publications, a new replica may be opened over any selection of another replica's entries
   ([OOpen] - NewLog with LogOptions.Entries, which is also what NewFromEntryHash, NewFromEntry and
   NewFromJSON do with the result of a complete or a length-limited load).

   Such a log is not a [pinv] log as it stands: NewLog computes the clock from LogOptions.Heads BEFORE
   it finds the heads, so a log opened with entries and no heads starts with clock time 0, below its
   entries.  What the code relies on instead is that the clock is always read together with the heads
   (Append, Join and SetIdentity all take max (clock, times of the heads)).  The invariant of these
   histories is therefore [pinv] of the log with its EFFECTIVE clock ([lift]: the larger of the clock
   and the newest head); the structural clauses - heads are exactly the unreferenced entries, the
   reverse index is exact, one log id, entries are entries of the universe under their own hash - are
   the same, and every theorem about the structure of a [pinv] log transfers (lift changes l_time only). *)
From Coq Require Import List ZArith Bool Lia Permutation Sorted.
From IpfsLog Require Import Model.System Model.WfDef Proofs.OmapProofs Proofs.SortProofs Proofs.Inv Proofs.DiffProofs
     Proofs.JoinProofs Proofs.SysProofs Proofs.BoundedProofs Proofs.PInv Proofs.PJoin Proofs.PSys.
Import ListNotations.
Open Scope Z_scope.

Definition hmax (l : log) : Z := max_time (oslice (l_heads l)) 0.
Definition lift (l : log) : log := set_time l (Z.max (l_time l) (hmax l)).

(* ---- the clock clause of [pinv] follows from the others: nothing is newer than the newest head ---- *)
Lemma pinv_time_heads U l : univ_ok U -> pinv U l -> forall e, In e (ents l) -> e_time e <= hmax l.
Proof.
  intros UO I.
  assert (H : forall n e, In e (ents l) -> l_time l - e_time e <= Z.of_nat n -> e_time e <= hmax l).
  { induction n as [|n IH]; intros e He Hb.
    - destruct (classic_named (ents l) (e_hash e)) as [Hn|Hn].
      + apply named_in_iff in Hn. destruct Hn as [e' [He' Hin]].
        destruct (pinv_entry _ _ _ I He) as [Hk _].
        pose proof (pinv_mono U l e' (e_hash e) e UO I He' Hin Hk).
        pose proof (pi_time _ _ I e' He'). lia.
      + unfold hmax. apply max_time_In. apply In_oslice. exists (e_hash e). apply (pi_heads _ _ I).
        split; [apply (pinv_entry _ _ _ I He)|exact Hn].
    - destruct (classic_named (ents l) (e_hash e)) as [Hn|Hn].
      + apply named_in_iff in Hn. destruct Hn as [e' [He' Hin]].
        destruct (pinv_entry _ _ _ I He) as [Hk _].
        pose proof (pinv_mono U l e' (e_hash e) e UO I He' Hin Hk).
        assert (e_time e' <= hmax l) by (apply IH; [exact He'|lia]). lia.
      + unfold hmax. apply max_time_In. apply In_oslice. exists (e_hash e). apply (pi_heads _ _ I).
        split; [apply (pinv_entry _ _ _ I He)|exact Hn]. }
  intros e He. apply (H (Z.to_nat (l_time l - e_time e)) e He). pose proof (pi_time _ _ I e He). lia.
Qed.

(* hence the clock of a [pinv] log may be set to anything from the newest head upwards *)
Lemma pinv_retime U l t : univ_ok U -> pinv U l -> hmax l <= t -> pinv U (set_time l t).
Proof.
  intros UO I Ht. pose proof (pinv_time_heads U l UO I) as TH. destruct I. unfold set_time.
  split; cbn; auto. intros e He. specialize (TH e He). lia.
Qed.

Lemma pinv_lift U l : pinv U l -> pinv U (lift l).
Proof. intros I. unfold lift, set_time. apply pinv_clock; [exact I|lia]. Qed.

Lemma lift_time_ge l : l_time l <= l_time (lift l) /\ hmax l <= l_time (lift l).
Proof. unfold lift, set_time; cbn. lia. Qed.

(* a log that is [pinv] under ANY clock is [pinv] under its effective clock *)
Lemma pinv_any_clock U l t : univ_ok U -> pinv U (set_time l t) -> pinv U (lift l).
Proof.
  intros UO I. unfold lift. replace (set_time l (Z.max (l_time l) (hmax l))) with (set_time (set_time l t) (Z.max (l_time l) (hmax l))) by reflexivity.
  apply pinv_retime; [exact UO|exact I|]. change (hmax (set_time l t)) with (hmax l). lia.
Qed.

(* ---- the selection ---- *)
Lemma pick_In m keep e : In e (pick m keep) <-> exists h, In h keep /\ oget m h = Some e.
Proof.
  unfold pick. rewrite in_flat_map. split.
  - intros [h [Hh He]]. apply (proj1 (uniq_In keep h)) in Hh. exists h. split; [exact Hh|].
    destruct (oget m h) as [x|]; [|destruct He]. destruct He as [<-|[]]. reflexivity.
  - intros [h [Hh He]]. exists h. split; [now apply (proj2 (uniq_In keep h))|]. rewrite He. now left.
Qed.

Lemma pick_hashes_nodup m keep : well_keyed m -> NoDup (map e_hash (pick m keep)).
Proof.
  intros WK. unfold pick. pose proof (uniq_NoDup keep) as ND. induction ND as [|h l Hh ND IH]; cbn [flat_map]; [constructor|].
  rewrite map_app. assert (X : forall x, In x (map e_hash (flat_map (fun h0 => match oget m h0 with Some e => [e] | None => [] end) l)) -> In x l).
  { intros x Hx. apply in_map_iff in Hx. destruct Hx as [e [<- He]]. apply in_flat_map in He. destruct He as [h0 [Hh0 He]].
    destruct (oget m h0) as [y|] eqn:G; [|destruct He]. destruct He as [<-|[]]. apply oget_In in G. apply WK in G. now rewrite G. }
  destruct (oget m h) as [e|] eqn:G; cbn [map app]; [|exact IH].
  constructor; [|exact IH]. apply oget_In in G. apply WK in G. rewrite G. intro Hc. apply Hh. now apply X.
Qed.

(* an ordered map made from entries with distinct hashes lists them in the given order *)
Lemma fold_oset_fresh_eq (l : list entry) : forall m,
  NoDup (okeys m ++ map e_hash l) ->
  fold_left (fun m e => oset m (e_hash e) e) l m = m ++ map (fun e => (e_hash e, e)) l.
Proof.
  induction l as [|e l IH]; intros m ND; cbn [fold_left map]; [now rewrite app_nil_r|].
  cbn [map] in ND. assert (F : ~ In (e_hash e) (okeys m)).
  { intro Hc. apply NoDup_remove_2 in ND. apply ND. rewrite in_app_iff. auto. }
  rewrite (oset_fresh m _ _ F). rewrite IH.
  - rewrite <- app_assoc. reflexivity.
  - unfold okeys. rewrite map_app. cbn [map fst]. rewrite <- app_assoc. cbn [app]. exact ND.
Qed.

Lemma oslice_from_entries_nodup (l : list entry) : NoDup (map e_hash l) -> oslice (from_entries l) = l.
Proof.
  intros ND. unfold from_entries. rewrite fold_oset_fresh_eq by exact ND. cbn [app]. unfold oslice.
  rewrite map_map. cbn [snd]. apply map_id.
Qed.

Lemma find_heads_nil : find_heads [] = [].
Proof. reflexivity. Qed.

(* ---- opening a log over any selection of a [pinv] log's entries gives a [pinv] log (effective clock) ---- *)
Lemma pick_inj m k1 k2 a b : well_keyed m -> In a (pick m k1) -> In b (pick m k2) -> e_hash a = e_hash b -> a = b.
Proof.
  intros WK Ha Hb E. apply pick_In in Ha. apply pick_In in Hb. destruct Ha as [h1 [_ G1]], Hb as [h2 [_ G2]].
  pose proof (WK _ _ (oget_In _ _ _ G1)) as K1. pose proof (WK _ _ (oget_In _ _ _ G2)) as K2.
  assert (h1 = h2) by congruence. subst. congruence.
Qed.

(* replacing the head map of a [pinv] log by one with the same content *)
Lemma pinv_heads_ext U l h' : pinv U l -> NoDup (okeys h') -> (forall k e, In (k, e) h' <-> In (k, e) (l_heads l)) ->
  pinv U (mkLog (l_id l) (l_entries l) h' (l_next l) (l_time l) (l_cid l) (l_key l) (l_sort l) (l_deny l)).
Proof.
  intros I ND HE. split; cbn [l_entries l_heads l_next l_time l_id]; unfold ents; cbn [l_entries].
  - exact (pi_nodup _ _ I).
  - exact (pi_in_U _ _ I).
  - exact (pi_logid _ _ I).
  - exact ND.
  - intros k e. rewrite HE. exact (pi_heads _ _ I k e).
  - exact (pi_next _ _ I).
  - exact (pi_time _ _ I).
Qed.

Lemma max_time_same_elements a b d : (forall e, In e a <-> In e b) -> max_time a d = max_time b d.
Proof.
  intros H. apply Z.le_antisymm; (apply max_time_bound; [apply max_time_ge|]); intros e He; apply max_time_In; now apply H.
Qed.

Theorem pinv_open U src keep hh key s deny :
  univ_ok U -> pinv U src ->
  heads_consistentb (pick (l_entries src) keep) (pick (l_entries src) hh) = true ->
  pinv U (lift (open_from src keep hh (l_id src) key s deny)).
Proof.
  intros UO I HC. set (tmp := pick (l_entries src) keep) in *. set (hs := pick (l_entries src) hh) in *.
  pose proof (pinv_well_keyed _ _ I) as WK.
  assert (TN : NoDup (map e_hash tmp)) by (apply pick_hashes_nodup; exact WK).
  assert (TS : forall v, In v tmp -> In v (ents src)).
  { intros v Hv. apply pick_In in Hv. destruct Hv as [h [_ G]]. apply oget_In in G. apply In_oslice. eauto. }
  assert (TU : forall v, In v tmp -> In v U) by (intros v Hv; apply (pinv_entry _ _ _ I (TS v Hv))).
  assert (TL : forall v, In v tmp -> e_logid v = l_id src) by (intros v Hv; apply (pi_logid _ _ I), TS, Hv).
  pose proof (pinv_rebuilt U tmp (l_id src) 0 key key s deny UO TU TL TN) as R.
  unfold open_from, new_log_from. fold tmp. fold hs.
  assert (HH : (if 0 <? olen (from_entries tmp) then find_heads (from_entries tmp) else []) = find_heads (from_entries tmp)).
  { destruct (0 <? olen (from_entries tmp)) eqn:E; [reflexivity|].
    apply Z.ltb_ge in E. unfold olen in E. destruct (from_entries tmp); [reflexivity|cbn [length] in E; lia]. }
  unfold build_next_index. rewrite (oslice_from_entries_nodup tmp TN).
  destruct hs as [|h0 hs'] eqn:Ehs.
  - (* no heads given: NewLog finds them *)
    cbn [max_time fold_left]. rewrite HH.
    unfold lift, hmax, set_time. cbn [l_id l_entries l_heads l_next l_time l_cid l_key l_sort l_deny].
    exact R.
  - (* heads given: exactly the unreferenced entries of the selection *)
    rewrite <- Ehs. assert (Hne : hs <> []) by (rewrite Ehs; discriminate).
    assert (HSN : NoDup (map e_hash hs)) by (apply pick_hashes_nodup; exact WK).
    assert (EQ : forall e, In e hs <-> In e (find_heads (from_entries tmp))).
    { unfold heads_consistentb in HC. cbv beta iota zeta in HC. rewrite <- Ehs in HC.
      apply andb_true_iff in HC. destruct HC as [C1 C2]. rewrite forallb_forall in C1, C2.
      intros e. split.
      - intros He. specialize (C1 e He). apply mem_In in C1. apply in_map_iff in C1. destruct C1 as [x [Hx Hin]].
        assert (In x tmp).
        { apply find_heads_In in Hin. destruct Hin as [Hin _]. now apply (oslice_from_entries_iff tmp x TN) in Hin. }
        assert (x = e) by (eapply (pick_inj (l_entries src) keep hh); eauto). now subst.
      - intros He. assert (Hm : In (e_hash e) (map e_hash (find_heads (from_entries tmp)))) by (apply in_map; exact He).
        specialize (C2 _ Hm). apply mem_In in C2. apply in_map_iff in C2. destruct C2 as [x [Hx Hin]].
        assert (In e tmp).
        { apply find_heads_In in He. destruct He as [He _]. now apply (oslice_from_entries_iff tmp e TN) in He. }
        assert (x = e) by (eapply (pick_inj (l_entries src) hh keep); eauto). now subst. }
    assert (FN : NoDup (map e_hash (find_heads (from_entries tmp)))) by (apply find_heads_hashes_nodup, from_entries_hashes_nodup).
    assert (HE : forall k e, In (k, e) (from_entries hs) <-> In (k, e) (from_entries (find_heads (from_entries tmp)))).
    { intros k e. rewrite (from_entries_iff hs k e HSN), (from_entries_iff _ k e FN), EQ. tauto. }
    pose proof (pinv_heads_ext U _ (from_entries hs) R (proj1 (from_entries_props hs)) HE) as R'.
    cbn [l_id l_entries l_heads l_next l_time l_cid l_key l_sort l_deny] in R'.
    eapply (pinv_any_clock U _ (Z.max 0 (max_time (oslice (from_entries (find_heads (from_entries tmp)))) 0)) UO).
    unfold set_time. cbn [l_id l_entries l_heads l_next l_time l_cid l_key l_sort l_deny]. exact R'.
Qed.

Lemma open_from_set_time src t keep hh id key s deny : open_from (set_time src t) keep hh id key s deny = open_from src keep hh id key s deny.
Proof. reflexivity. Qed.

(* ---- each operation on the effective clock ---- *)
Lemma hmax_sorted_heads U l : pinv U l -> max_time (oslice (sorted_heads l)) 0 = hmax l.
Proof.
  intros I. unfold hmax. apply Z.le_antisymm.
  - apply max_time_bound; [apply max_time_ge|]. intros e He. apply max_time_In. apply In_oslice in He. destruct He as [k He].
    apply sorted_heads_In in He; [|apply (pi_heads_nodup _ _ I)|apply (pheads_well_keyed _ _ I)]. apply In_oslice. eauto.
  - apply max_time_bound; [apply max_time_ge|]. intros e He. apply max_time_In. apply In_oslice in He. destruct He as [k He].
    apply In_oslice. exists k. apply sorted_heads_In; [apply (pi_heads_nodup _ _ I)|apply (pheads_well_keyed _ _ I)|exact He].
Qed.

(* Append reads the clock only together with the heads: on the effective clock it builds the same entry *)
Lemma append_entry_lift U l payload pc h : pinv U (lift l) ->
  append_entry (lift l) payload pc h = append_entry l payload pc h.
Proof.
  intros I. pose proof (hmax_sorted_heads U (lift l) I) as E. change (hmax (lift l)) with (hmax l) in E.
  change (sorted_heads (lift l)) with (sorted_heads l) in E.
  unfold append_entry. change (sorted_heads (lift l)) with (sorted_heads l).
  change (l_time (lift l)) with (Z.max (l_time l) (hmax l)). rewrite E.
  replace (Z.max (Z.max (l_time l) (hmax l)) (hmax l)) with (Z.max (l_time l) (hmax l)) by lia.
  reflexivity.
Qed.

Lemma append_lift U l payload pc h : pinv U (lift l) ->
  fst (append (lift l) payload pc h) = fst (append l payload pc h) \/
  (fst (append (lift l) payload pc h) = lift l /\ fst (append l payload pc h) = l).
Proof.
  intros I. unfold append. rewrite (append_entry_lift U l payload pc h I).
  destruct (append_entry l payload pc h) as [e|]; [|right; split; reflexivity].
  left. change (allowed (lift l) e) with (allowed l e). destruct (allowed l e); reflexivity.
Qed.

(* difference looks at the receiving log's entries and id only *)
Lemma diff_push_set_time l t st n : diff_push (set_time l t) st n = diff_push l st n.
Proof. reflexivity. Qed.

Lemma diff_loop_set_time l t ea fuel : forall stack seen res,
  diff_loop fuel ea (set_time l t) stack seen res = diff_loop fuel ea l stack seen res.
Proof.
  induction fuel as [|f IH]; intros stack seen res; destruct stack as [|h stack']; cbn [diff_loop]; try reflexivity.
  destruct (oget ea h) as [eA|]; [|apply IH].
  change (l_entries (set_time l t)) with (l_entries l). change (l_id (set_time l t)) with (l_id l).
  destruct (negb (ohas (l_entries l) h) && N.eqb (e_logid eA) (l_id l) && N.eqb (e_hash eA) h); [|apply IH].
  replace (fold_left (diff_push (set_time l t)) (e_next eA) (stack', h :: seen))
    with (fold_left (diff_push l) (e_next eA) (stack', h :: seen)) by reflexivity.
  destruct (fold_left (diff_push l) (e_next eA) (stack', h :: seen)) as [st'' sn'']. apply IH.
Qed.

Lemma difference_set_time l t ea hs : difference ea hs (set_time l t) = difference ea hs l.
Proof. unfold difference. destruct ((olen ea =? 0) || (Z.of_nat (length hs) =? 0)); [reflexivity|apply diff_loop_set_time]. Qed.

(* Join: the clock of the receiving log only enters the clock of the result; the other log's clock is not read *)
Lemma join_set_time l t o same size :
  exists t', join (set_time l t) o same size = (set_time (fst (join l o same size)) t', snd (join l o same size)).
Proof.
  unfold join, join_reads. destruct same; [exists t; reflexivity|].
  change (l_id (set_time l t)) with (l_id l). destruct (negb (N.eqb (l_id l) (l_id o))); [exists t; reflexivity|].
  rewrite difference_set_time. destruct (difference (l_entries o) (oslice (l_heads o)) l) as [ni|]; [|exists t; reflexivity].
  change (forallb (entry_ok (set_time l t)) (oslice ni)) with (forallb (entry_ok l) (oslice ni)).
  destruct (negb (forallb (entry_ok l) (oslice ni))); [exists t; reflexivity|].
  destruct (size <? 0); [eexists; reflexivity|].
  cbv zeta.
  match goal with |- context [values ?x] => change (values x) with
    (values (mkLog (l_id l) (fold_left (fun m e => oset m (e_hash e) e) (oslice ni) (l_entries l))
       (from_opt_entries (map (fun e => if mem (e_hash e) (all_nexts (oslice ni)) || ohas (fold_left (fun nx e0 => fold_left (fun nx0 n => oset nx0 n e0) (e_next e0) nx) (oslice ni) (l_next l)) (e_hash e) then None else Some e)
          (find_heads (omerge (l_heads l) (own_heads (fold_left (fun m e => oset m (e_hash e) e) (oslice ni) (l_entries l)) (l_heads o))))))
       (fold_left (fun nx e0 => fold_left (fun nx0 n => oset nx0 n e0) (e_next e0) nx) (oslice ni) (l_next l))
       (l_time l) (l_cid l) (l_key l) (l_sort l) (l_deny l))) end.
  match goal with |- context [values ?x] => destruct (values x) as [vals|] end; [eexists; reflexivity|exists t; reflexivity].
Qed.

Lemma join_other_set_time l o t same size : join l (set_time o t) same size = join l o same size.
Proof. reflexivity. Qed.

Lemma pinv_lift_join U l o same size l' out :
  univ_ok U -> pinv U (lift l) -> pinv U (lift o) -> join l o same size = (l', out) -> pinv U (lift l').
Proof.
  intros UO Il Io J.
  destruct (join_set_time l (l_time (lift l)) o same size) as [t' JT]. rewrite J in JT. cbn [fst snd] in JT.
  rewrite <- (join_other_set_time _ o (l_time (lift o))) in JT.
  pose proof (pinv_join U (lift l) (lift o) same size _ _ UO Il Io JT) as X.
  exact (pinv_any_clock _ _ _ UO X).
Qed.

Lemma join_lift_outcome l o same size : snd (join (lift l) (lift o) same size) = snd (join l o same size).
Proof.
  destruct (join_set_time l (l_time (lift l)) o same size) as [t' JT].
  rewrite <- (join_other_set_time _ o (l_time (lift o))) in JT.
  change (join (lift l) (lift o) same size) with (join (set_time l (l_time (lift l))) (set_time o (l_time (lift o))) same size).
  rewrite JT. reflexivity.
Qed.

(* ---- histories ---- *)
Definition owf_step (s : sys) (o : op) : Prop :=
  match o with
  | OOpen src keep hh id _ _ _ =>      (* opened under the id its entries carry; heads: none given, or the unreferenced entries *)
      forall l, nth_error (s_logs s) src = Some l ->
        id = l_id l /\ heads_consistentb (pick (l_entries l) keep) (pick (l_entries l) hh) = true
  | _ => pwf_step s o
  end.
Fixpoint owf_from (s : sys) (ops : list op) : Prop :=
  match ops with
  | [] => True
  | o :: ops' => owf_step s o /\ owf_from (fst (step s o)) ops'
  end.
Definition owf (ops : list op) : Prop := owf_from empty_sys ops.

Lemma pwf_step_owf s o : pwf_step s o -> owf_step s o.
Proof. destruct o; cbn; auto; contradiction. Qed.
Lemma pwf_from_owf ops : forall s, pwf_from s ops -> owf_from s ops.
Proof. induction ops as [|o ops IH]; intros s; cbn; [auto|]. intros [A B]. split; [now apply pwf_step_owf|auto]. Qed.
Lemma pwf_owf ops : pwf ops -> owf ops.
Proof. apply pwf_from_owf. Qed.

(* every replica is a [pinv] log under its effective clock *)
Definition osinv (s : sys) : Prop :=
  univ_ok (s_univ s) /\ forall r l, nth_error (s_logs s) r = Some l -> pinv (s_univ s) (lift l).

Lemma psinv_osinv s : psinv s -> osinv s.
Proof. intros [UO IL]. split; [exact UO|]. intros r l H. apply pinv_lift. eauto. Qed.

Lemma osinv_empty : osinv empty_sys.
Proof. apply psinv_osinv, psinv_empty. Qed.

Lemma osinv_new_replica s l' :
  osinv s -> pinv (s_univ s) (lift l') -> forall st,
  osinv (mkSys (s_logs s ++ [l']) (s_univ s) st).
Proof.
  intros [UO IL] I st. split; [exact UO|]. cbn [s_logs s_univ]. intros r l H.
  destruct (Nat.lt_ge_cases r (length (s_logs s))) as [Hl|Hl].
  - rewrite nth_error_app1 in H by assumption. eauto.
  - rewrite nth_error_app2 in H by assumption. destruct (r - length (s_logs s))%nat as [|n]; cbn in H.
    + injection H as <-. exact I.
    + destruct n; discriminate.
Qed.

Lemma osinv_replace s r l l' U' st :
  univ_ok U' -> (forall x, pinv (s_univ s) x -> pinv U' x) ->
  osinv s -> nth_error (s_logs s) r = Some l -> pinv U' (lift l') ->
  osinv (mkSys (set_nth r l' (s_logs s)) U' st).
Proof.
  intros UO' Mono [UO IL] L I. split; [exact UO'|]. cbn [s_logs s_univ]. intros r' l'' H.
  rewrite nth_error_set_nth, L in H. destruct (Nat.eqb r r'); [injection H as <-; exact I|apply Mono; eauto].
Qed.

Theorem osinv_step s o : osinv s -> owf_step s o -> osinv (fst (step s o)).
Proof.
  intros SI W. pose proof SI as [UO IL].
  destruct o as [id key sf deny t0|r payload pc h|r src size|r key|r mh|r io|r payload pc h|r|osrc okeep ohh oid okey osf odeny]; cbn [step].
  - (* ONew *)
    cbn [fst]. apply osinv_new_replica; [exact SI|]. apply pinv_lift, pinv_new.
  - (* OAppend *)
    destruct (nth_error (s_logs s) r) as [l|] eqn:L; [|exact SI].
    specialize (IL r l L) as Il. pose proof (append_entry_lift _ l payload pc h Il) as EL. unfold append.
    destruct (append_entry l payload pc h) as [e|] eqn:AE; cbn [fst]; [|].
    + assert (HC : forall a, In a (s_univ s) -> e_hash a = h -> a = e) by (intros; eapply W; eauto).
      pose proof (puniv_ok_append _ _ _ _ _ _ UO Il EL HC) as UO'.
      assert (Mono : forall x, pinv (s_univ s) x -> pinv (s_univ s ++ [e]) x) by (intros x; apply pinv_mono_U).
      destruct (allowed l e) eqn:A; cbn [fst].
      * eapply osinv_replace; eauto. apply pinv_lift.
        pose proof (pinv_append _ _ _ _ _ _ UO Il EL HC A) as X.
        unfold append in X. rewrite EL in X. change (allowed (lift l) e) with (allowed l e) in X. rewrite A in X. exact X.
      * eapply osinv_replace; eauto. apply (pinv_any_clock _ _ (l_time (lift l))); [exact UO'|]. apply Mono. exact Il.
    + eapply osinv_replace; eauto.
  - (* OJoin: any bound *)
    destruct (nth_error (s_logs s) r) as [l|] eqn:L; [|exact SI].
    destruct (nth_error (s_logs s) src) as [o|] eqn:O; [|exact SI].
    destruct (join l o (Nat.eqb r src) size) as [l' out] eqn:J. cbn [fst].
    eapply osinv_replace; eauto.
    exact (pinv_lift_join _ l o _ size l' out UO (IL r l L) (IL src o O) J).
  - (* OSetIdentity *)
    destruct (nth_error (s_logs s) r) as [l|] eqn:L; [|exact SI]. cbn [fst].
    eapply osinv_replace; eauto.
    pose proof (pinv_set_identity _ _ key (IL r l L)) as X.
    exact (pinv_any_clock _ (set_identity l key) (l_time (set_identity (lift l) key)) UO X).
  - (* OPublish *)
    destruct (nth_error (s_logs s) r) as [l|] eqn:L; [|exact SI].
    destruct (olen (l_heads l) =? 0); [exact SI|]. cbn [fst]. split; [exact UO|exact IL].
  - (* OIter *)
    destruct (nth_error (s_logs s) r) as [l|] eqn:L; [|exact SI].
    destruct (iterator l io) as [[es c]| |]; exact SI.
  - (* OAppendFail *)
    destruct (nth_error (s_logs s) r) as [l|] eqn:L; [|exact SI].
    specialize (IL r l L) as Il. pose proof (append_entry_lift _ l payload pc h Il) as EL.
    destruct (append_entry l payload pc h) as [e|] eqn:AE; cbn [fst]; [|exact SI].
    assert (HC : forall a, In a (s_univ s) -> e_hash a = h -> a = e) by (intros; eapply W; eauto).
    pose proof (puniv_ok_append _ _ _ _ _ _ UO Il EL HC) as UO'.
    assert (Mono : forall x, pinv (s_univ s) x -> pinv (s_univ s ++ [e]) x) by (intros x; apply pinv_mono_U).
    eapply osinv_replace; eauto.
    apply (pinv_any_clock _ (set_time l (e_time e)) (l_time (lift l))); [exact UO'|]. apply Mono. exact Il.
  - (* OFail *)
    exact SI.
  - (* OOpen *)
    destruct (nth_error (s_logs s) osrc) as [l|] eqn:L; [|exact SI]. cbn [fst].
    apply osinv_new_replica; [exact SI|].
    destruct (W l L) as [Wid Whd]. rewrite Wid. change (open_from l okeep ohh (l_id l) okey osf odeny) with (open_from (lift l) okeep ohh (l_id (lift l)) okey osf odeny).
    apply pinv_open; [exact UO|exact (IL osrc l L)|exact Whd].
Qed.

Theorem osinv_run_from ops : forall s, osinv s -> owf_from s ops -> osinv (run_from s ops).
Proof.
  induction ops as [|o ops IH]; intros s I W; cbn [run_from fold_left]; [exact I|].
  destruct W as [W1 W2]. apply IH; [now apply osinv_step|exact W2].
Qed.

Theorem osinv_run ops : owf ops -> osinv (run ops).
Proof. intros W. apply osinv_run_from; [apply osinv_empty|exact W]. Qed.

(* ---- clock times stay small along these histories too ---- *)
From IpfsLog Require Import Proofs.TimeProofs Proofs.PTime Proofs.TravProofs Proofs.ValuesProofs Proofs.PValues Proofs.IterProofs.

Lemma otime_of_append U B n l payload pc h e :
  pinv U (lift l) -> (forall x, In x U -> 0 < e_time x <= B + n) -> 0 <= l_time l <= B + n ->
  append_entry l payload pc h = Some e -> 0 < e_time e <= B + n + 1.
Proof.
  intros I TU TL AE. rewrite (ae_time l payload pc h e AE).
  assert (max_time (oslice (sorted_heads l)) 0 <= B + n).
  { apply max_time_bound; [lia|]. intros x Hx. apply In_oslice in Hx. destruct Hx as [k Hx].
    apply sorted_heads_In in Hx; [|apply (pi_heads_nodup _ _ I)|apply (pheads_well_keyed _ _ I)].
    apply TU. eapply (pheads_in_U U (lift l)); [exact I|]. apply In_oslice. eauto. }
  pose proof (max_time_ge (oslice (sorted_heads l)) 0). lia.
Qed.

Theorem otbound_step B s o : 0 <= B -> seed_of o <= B -> osinv s -> owf_step s o -> ptbound B s -> ptbound B (fst (step s o)).
Proof.
  intros HB HS SI W [TU TL]. destruct SI as [UO IL].
  destruct o as [id key sf deny t0|r payload pc h|r src size|r key|r mh|r io|r payload pc h|r|osrc okeep ohh oid okey osf odeny]; cbn [step].
  - split; [exact TU|]. cbn [fst s_logs s_univ]. intros r l H.
    destruct (Nat.lt_ge_cases r (length (s_logs s))) as [Hl|Hl].
    + rewrite nth_error_app1 in H by assumption. eauto.
    + rewrite nth_error_app2 in H by assumption. destruct (r - length (s_logs s))%nat as [|n]; cbn in H.
      * injection H as <-. cbn in *. lia.
      * destruct n; discriminate.
  - destruct (nth_error (s_logs s) r) as [l|] eqn:L; [|split; auto].
    unfold append. destruct (append_entry l payload pc h) as [e|] eqn:AE.
    + pose proof (otime_of_append _ B _ l payload pc h e (IL r l L) TU (TL r l L) AE) as Ht.
      assert (X : forall l', l_time l' = e_time e \/ l_time l' = l_time l ->
                ptbound B (mkSys (set_nth r l' (s_logs s)) (s_univ s ++ [e]) (add_block (s_store s) h (e_next e ++ e_refs e)))).
      { intros l' Hl'. split; cbn [s_univ s_logs]; rewrite app_length; cbn [length].
        - intros x Hx. rewrite in_app_iff in Hx. cbn [In] in Hx. destruct Hx as [Hx|[<-|[]]]; [specialize (TU x Hx)|]; lia.
        - intros r' l'' H. rewrite nth_error_set_nth, L in H. destruct (Nat.eqb r r').
          + injection H as <-. destruct (TL r l L). destruct Hl' as [->| ->]; lia.
          + specialize (TL r' l'' H). lia. }
      destruct (allowed l e); cbn [fst]; apply X; cbn; auto.
    + cbn [fst]. split; [exact TU|]. cbn [s_logs s_univ]. intros r' l' H. rewrite nth_error_set_nth, L in H.
      destruct (Nat.eqb r r'); [injection H as <-; eauto|eauto].
  - destruct (nth_error (s_logs s) r) as [l|] eqn:L; [|split; auto].
    destruct (nth_error (s_logs s) src) as [o|] eqn:O; [|split; auto].
    destruct (join l o (Nat.eqb r src) size) as [l' out] eqn:J. cbn [fst].
    split; [exact TU|]. cbn [s_logs s_univ]. intros r' l'' H. rewrite nth_error_set_nth, L in H.
    destruct (Nat.eqb r r'); [|eauto]. injection H as <-.
    pose proof (pinv_lift_join (s_univ s) l o (Nat.eqb r src) size l' out UO (IL r l L) (IL src o O) J) as Il'.
    destruct (TL r l L). destruct (join_time _ _ _ _ _ _ J) as [->| ->]; [lia|].
    pose proof (pmax_time_heads_bound (s_univ s) (lift l') 0 ((B + Z.of_nat (length (s_univ s)))) Il'
                  (fun e He => proj2 (TU e He)) ltac:(lia)) as Hb.
    change (l_heads (lift l')) with (l_heads l') in Hb.
    pose proof (max_time_ge (oslice (l_heads l')) 0). lia.
  - destruct (nth_error (s_logs s) r) as [l|] eqn:L; [|split; auto]. cbn [fst].
    split; [exact TU|]. cbn [s_logs s_univ]. intros r' l' H. rewrite nth_error_set_nth, L in H.
    destruct (Nat.eqb r r'); [|eauto]. injection H as <-. cbn [set_identity l_time].
    destruct (TL r l L).
    pose proof (pmax_time_heads_bound (s_univ s) (lift l) (l_time l) ((B + Z.of_nat (length (s_univ s)))) (IL r l L)
                  (fun e He => proj2 (TU e He)) ltac:(lia)) as Hb.
    change (l_heads (lift l)) with (l_heads l) in Hb.
    pose proof (max_time_ge (oslice (l_heads l)) (l_time l)). lia.
  - destruct (nth_error (s_logs s) r) as [l|] eqn:L; [|split; auto].
    destruct (olen (l_heads l) =? 0); split; auto.
  - destruct (nth_error (s_logs s) r) as [l|] eqn:L; [|split; auto].
    destruct (iterator l io) as [[es c]| |]; split; auto.
  - destruct (nth_error (s_logs s) r) as [l|] eqn:L; [|split; auto].
    destruct (append_entry l payload pc h) as [e|] eqn:AE; [|split; auto].
    pose proof (otime_of_append _ B _ l payload pc h e (IL r l L) TU (TL r l L) AE) as Ht.
    cbn [fst]. split; cbn [s_univ s_logs]; rewrite app_length; cbn [length].
    + intros x Hx. rewrite in_app_iff in Hx. cbn [In] in Hx. destruct Hx as [Hx|[<-|[]]]; [specialize (TU x Hx)|]; lia.
    + intros r' l'' H. rewrite nth_error_set_nth, L in H. destruct (Nat.eqb r r').
      * injection H as <-. cbn [set_time l_time]. lia.
      * specialize (TL r' l'' H). lia.
  - split; auto.
  - destruct (nth_error (s_logs s) osrc) as [l|] eqn:L; [|split; auto].
    split; [exact TU|]. cbn [fst s_logs s_univ]. intros r l' H.
    destruct (Nat.lt_ge_cases r (length (s_logs s))) as [Hl|Hl].
    + rewrite nth_error_app1 in H by assumption. eauto.
    + rewrite nth_error_app2 in H by assumption. destruct (r - length (s_logs s))%nat as [|n]; cbn [nth_error] in H.
      * injection H as <-. unfold open_from, new_log_from. cbn [l_time].
        assert (max_time (pick (l_entries l) ohh) 0 <= B + Z.of_nat (length (s_univ s))); [|pose proof (max_time_ge (pick (l_entries l) ohh) 0); lia].
        apply max_time_bound; [lia|]. intros e He. apply pick_In in He. destruct He as [h [_ G]]. apply oget_In in G.
        apply TU. apply (pinv_entry _ (lift l) e (IL osrc l L)). apply In_oslice. eauto.
      * destruct n; discriminate.
Qed.

Theorem otbound_run_from B ops : 0 <= B -> Forall (fun o => seed_of o <= B) ops ->
  forall s, osinv s -> owf_from s ops -> ptbound B s -> ptbound B (run_from s ops).
Proof.
  intros HB HS. induction ops as [|o ops IH]; intros s SI W T; cbn [run_from fold_left]; [exact T|].
  inversion HS; subst.
  destruct W as [W1 W2]. apply IH; [assumption|now apply osinv_step|exact W2|now apply otbound_step].
Qed.

Theorem otbound_run ops : owf ops -> ptbound (max_seed ops) (run ops).
Proof.
  intros W. apply otbound_run_from; [apply max_seed_nonneg|apply max_seed_bounds|apply osinv_empty|exact W|].
  split; [intros e []|]. intros [|r] l H; discriminate.
Qed.

Theorem otimes_in_range ops r l :
  owf ops -> hist_bound ops < two63 -> nth_error (s_logs (run ops)) r = Some l ->
  forall e, In e (ents l) -> int64_range (e_time e).
Proof.
  intros W Hlen L e He. destruct (otbound_run ops W) as [TU _]. destruct (osinv_run ops W) as [_ IL].
  destruct (pinv_entry _ (lift l) _ (IL r l L) He) as [_ HU]. specialize (TU e HU).
  pose proof (univ_length_run_from ops empty_sys). unfold run in *. cbn [empty_sys s_univ length] in H.
  pose proof (max_seed_nonneg ops). unfold hist_bound, int64_range, two63 in *. lia.
Qed.

(* ---- what every replica of such a history is ---- *)
Lemma values_total_raw' l : NoDup (okeys (l_entries l)) -> well_keyed (l_entries l) -> values l <> None.
Proof.
  intros ND WK. unfold values, traverse.
  set (stack0 := sort_desc (l_sort l) (oslice (l_heads l))).
  pose proof (trav_fuel_ok (l_entries l) (l_sort l) ND WK (-1) None
                (trav_fuel (l_entries l) stack0) stack0 [] [] 0) as F.
  destruct (trav _ _ _ _ _ _ _ _ _); [discriminate|]. exfalso. apply F; [|reflexivity].
  unfold trav_fuel. rewrite unseen_nil. lia.
Qed.

Lemma join_no_panic_pinv U l o same size : univ_ok U -> pinv U l -> pinv U o -> snd (join l o same size) <> Panic.
Proof.
  intros UO Il Io. unfold join, join_reads. destruct same; [discriminate|].
  destruct (N.eqb_spec (l_id l) (l_id o)) as [Hid|Hid]; cbn [negb]; [|discriminate].
  destruct (difference (l_entries o) (oslice (l_heads o)) l) as [ni|] eqn:D;
    [|exfalso; exact (difference_total _ _ _ D)].
  destruct (forallb (entry_ok l) (oslice ni)); cbn [negb]; [|discriminate].
  destruct (size <? 0); [discriminate|].
  match goal with |- context [values ?x] => assert (V : values x <> None) end.
  { apply values_total_raw'; cbn [l_entries].
    - exact (proj1 (pj_ents_spec _ l o Il Io Hid ni D)).
    - intros k v H. now apply (pj_in_U _ l o Il Io Hid ni D) in H. }
  match goal with |- context [values ?x] => destruct (values x) end; [discriminate|congruence].
Qed.

Section OwfFacts.
  Variables (ops : list op) (r : nat) (l : log).
  Hypothesis W : owf ops.
  Hypothesis L : nth_error (s_logs (run ops)) r = Some l.

  Let U := s_univ (run ops).
  Let UO : univ_ok U := proj1 (osinv_run ops W).
  Let I : pinv U (lift l) := proj2 (osinv_run ops W) r l L.

  (* it is a log: heads = the unreferenced entries (non-empty when the log is), exact reverse index,
     nothing newer than the effective clock (and the newest head) *)
  Theorem olog_is_a_log :
    (forall k e, In (k, e) (l_heads l) <-> In (k, e) (l_entries l) /\ ~ named_in (ents l) k) /\
    (forall n, In n (okeys (l_next l)) <-> named_in (ents l) n) /\
    (l_entries l <> [] -> l_heads l <> []) /\
    (forall e, In e (ents l) -> e_time e <= hmax l) /\
    NoDup (okeys (l_entries l)) /\ NoDup (okeys (l_heads l)) /\
    (forall e, In e (ents l) -> e_logid e = l_id l).
  Proof.
    split; [exact (pi_heads _ _ I)|]. split; [exact (pi_next _ _ I)|].
    split; [|split; [exact (pinv_time_heads U (lift l) UO I)|split; [exact (pi_nodup _ _ I)|split; [exact (pi_heads_nodup _ _ I)|exact (pi_logid _ _ I)]]]].
    intros Hne Hh.
    assert (exists k v, In (k, v) (l_entries l)) as [k [v Hin]].
    { destruct (l_entries l) as [|[k v] m]; [congruence|]. exists k, v. now left. }
    destruct (climb U (l_entries l) (l_heads l) UO (pi_in_U _ _ I) (pi_heads _ _ I) k v Hin) as [kh [hd [Hhd _]]].
    rewrite Hh in Hhd. destruct Hhd.
  Qed.

  (* an append on it: predecessors = its heads, strictly newer than everything it holds - although the
     clock of a re-opened log lags behind its entries *)
  Theorem oappend_dominates payload pc h e : append_entry l payload pc h = Some e ->
    (forall n, In n (e_next e) <-> In n (okeys (l_heads l))) /\ NoDup (e_next e) /\
    (forall x, In x (ents l) -> e_time x < e_time e) /\ e_logid e = l_id l.
  Proof.
    intros AE. pose proof (append_entry_lift U l payload pc h I) as EL. rewrite AE in EL.
    split; [exact (pae_next U (lift l) payload pc h e I EL)|].
    split; [exact (ae_next_nodup l payload pc h e AE)|].
    split; [exact (pae_time_gt U (lift l) payload pc h e I EL)|exact (ae_logid l payload pc h e AE)].
  Qed.

  (* merging any replica into it, with any bound, does not panic *)
  Theorem ojoin_no_panic src o size : nth_error (s_logs (run ops)) src = Some o ->
    snd (join l o (Nat.eqb r src) size) <> Panic.
  Proof.
    intros O. rewrite <- join_lift_outcome.
    exact (join_no_panic_pinv U (lift l) (lift o) _ size UO I (proj2 (osinv_run ops W) src o O)).
  Qed.

  (* its Values() is a complete, duplicate-free, sorted linearisation with every entry after those of
     its predecessors that the log holds *)
  Theorem ovalues_linearise : hist_bound ops < two63 -> order_total l ->
    exists v, values l = Some v /\
      NoDup (okeys v) /\
      (forall k e, In (k, e) v <-> In (k, e) (l_entries l)) /\
      StronglySorted (asc l) (oslice v) /\
      (forall l1 e l2, oslice v = l1 ++ e :: l2 ->
         forall n p, In n (e_next e) -> In (n, p) (l_entries l) -> In p l1).
  Proof.
    intros Hlen OT.
    pose proof (otimes_in_range ops r l W Hlen L) as TO.
    destruct (pvalues_spec U (lift l) UO I TO OT) as [v [V [A [B [C D]]]]].
    exists v. repeat split; auto; try apply B.
    exact (pvalues_causal U (lift l) v UO I TO B D).
  Qed.
End OwfFacts.

(* boolean form of [owf], for the Examples and for the histories the harness ran *)
From IpfsLog Require Import Proofs.WfBool.

Lemma owf_stepb_owf s o : owf_stepb s o = true -> owf_step s o.
Proof.
  destruct o; cbn [owf_stepb owf_step]; auto; try (intros H; apply pwf_stepb_pwf in H; exact H).
  intros H l L. rewrite L in H. apply andb_true_iff in H. destruct H as [H1 H2]. split; [now apply N.eqb_eq|exact H2].
Qed.

Theorem owfb_owf ops : owfb ops = true -> owf ops.
Proof.
  unfold owfb, owf. generalize empty_sys. induction ops as [|o ops IH]; intros s; cbn [owfb_from owf_from]; [auto|].
  intros H. apply andb_true_iff in H. destruct H as [H1 H2]. split; [now apply owf_stepb_owf|auto].
Qed.

(* ---- merges between replicas of such histories: the C05/C06/C16 facts about a merge ---- *)
From IpfsLog Require Import Proofs.StepProofs Proofs.BoundedProofs Proofs.PBounded.

Lemma join_lift_fields l o same size l' out : join l o same size = (l', out) ->
  exists t', join (lift l) (lift o) same size = (set_time l' t', out).
Proof.
  intros J. destruct (join_set_time l (l_time (lift l)) o same size) as [t' JT]. rewrite J in JT. cbn [fst snd] in JT.
  exists t'. exact JT.
Qed.

Lemma join_lift_left l o same size l' out : join l o same size = (l', out) ->
  exists t', join (lift l) o same size = (set_time l' t', out).
Proof.
  intros J. destruct (join_set_time l (l_time (lift l)) o same size) as [t' JT]. rewrite J in JT. cbn [fst snd] in JT.
  exists t'. exact JT.
Qed.

Section OwfMerges.
  Variables (ops : list op) (r : nat) (l : log).
  Hypothesis W : owf ops.
  Hypothesis L : nth_error (s_logs (run ops)) r = Some l.

  Let U := s_univ (run ops).
  Let UO : univ_ok U := proj1 (osinv_run ops W).
  Let I : pinv U (lift l) := proj2 (osinv_run ops W) r l L.

  (* merging ANY other log object never removes or replaces a held entry *)
  Theorem ojoin_keeps_held_entries o same size l' out :
    size < 0 -> join l o same size = (l', out) ->
    forall k v, In (k, v) (l_entries l) -> In (k, v) (l_entries l').
  Proof.
    intros Hs J. destruct (join_lift_left l o same size l' out J) as [t' JT].
    exact (join_keeps_held_entries U (lift l) o same size _ out I Hs JT).
  Qed.

  (* the heads after a merge of ANY other log object are the log's own held-or-checked entries *)
  Theorem ojoin_heads_are_own_verified_entries o size l' :
    size < 0 -> join l o false size = (l', Ok tt) ->
    forall k v, In (k, v) (l_heads l') ->
      In (k, v) (l_entries l') /\
      (In (k, v) (l_entries l) \/ (e_logid v = l_id l /\ entry_ok l v = true)).
  Proof.
    intros Hs J k v Hh. destruct (join_lift_left l o false size l' (Ok tt) J) as [t' JT].
    pose proof (join_heads_are_own_entries U (lift l) o size _ I Hs JT k v Hh) as He.
    split; [exact He|].
    destruct (join_admits_only_valid l o size l' Hs J k v He) as [?|[A [B _]]]; auto.
  Qed.

  (* with any bound, from any replica: only valid entries are admitted *)
  Theorem ojoin_any_bound_admits_only_valid src o size l' :
    nth_error (s_logs (run ops)) src = Some o -> join l o false size = (l', Ok tt) ->
    forall k v, In (k, v) (l_entries l') ->
      In (k, v) (l_entries l) \/
      (e_logid v = l_id l /\ entry_ok l v = true /\ In (k, v) (l_entries o) /\ ~ In k (okeys (l_entries l))).
  Proof.
    intros O J. destruct (join_lift_fields l o false size l' (Ok tt) J) as [t' JT].
    exact (join_any_bound_admits_only_valid U (lift l) (lift o) size _ UO I (proj2 (osinv_run ops W) src o O) JT).
  Qed.
End OwfMerges.

(* ---- the main clause of C16 between any two [pinv] logs (the statement for replicas of histories
   is an instance, for [pwf] histories directly and for [owf] histories through [lift]) ---- *)
Lemma pbounded_join_keeps_newest U l o size lu :
  univ_ok U -> pinv U l -> pinv U o -> times_ok l -> times_ok o ->
  l_id l = l_id o -> 0 <= size ->
  join l o false (-1) = (lu, Ok tt) ->
  order_total lu ->
  exists vu l',
    values lu = Some vu /\
    join l o false size = (l', Ok tt) /\
    let keep := lastn (Z.to_nat size) (oslice vu) in
    (forall k v, In (k, v) (l_entries l') <-> In v keep /\ e_hash v = k) /\
    (forall k v, In (k, v) (l_heads l') <-> In v keep /\ e_hash v = k /\ ~ named_in keep k) /\
    (forall n, In n (okeys (l_next l')) <-> named_in keep n) /\
    NoDup (okeys (l_entries l')) /\
    (Z.of_nat (length vu) <= size -> forall k v, In (k, v) (l_entries l') <-> In (k, v) (l_entries lu)).
Proof.
  intros UO Il Io TOl TOo Hid Hs J OT.
  unfold join, join_reads in J.
  assert (E0 : N.eqb (l_id l) (l_id o) = true) by (apply N.eqb_eq; exact Hid). rewrite E0 in J. cbn [negb] in J.
  destruct (difference (l_entries o) (oslice (l_heads o)) l) as [ni|] eqn:D; [|discriminate].
  destruct (forallb (entry_ok l) (oslice ni)) eqn:OK; cbn [negb] in J; [|discriminate].
  cbn [Z.ltb Z.compare] in J. fold_j_ents l ni. rewrite (pown_heads_o _ l o UO Il Io Hid ni D) in J. injection J as <-.
  assert (TO : times_ok (j_log l o ni)).
  { intros e He. apply ents_In in He. destruct He as [k He]. cbn [j_log l_entries] in He.
    apply (proj2 (pj_ents_spec _ l o Il Io Hid ni D)) in He. destruct He as [He|He].
    - apply TOl. apply ents_In; eauto.
    - apply (pni_sound _ l o Io Hid ni D) in He. destruct He as [He _]. apply TOo. apply ents_In; eauto. }
  destruct (pbounded_join_spec _ l o UO Il Io Hid ni D OK TO OT size Hs) as [vu [l' [V [J' [A [B [C _]]]]]]].
  destruct (pbounded_join_next _ l o UO Il Io Hid ni D OK TO OT size Hs) as [vu2 [l2 [V2 [J2 N2]]]].
  rewrite V in V2. injection V2 as <-. rewrite J' in J2. injection J2 as <-.
  exists vu, l'. split; [exact V|]. split; [exact J'|]. cbn zeta.
  split; [exact A|]. split; [exact B|]. split; [exact N2|]. split; [exact C|].
  intros Hl. exact (pbounded_join_large _ l o UO Il Io Hid ni D OK TO OT size Hs vu l' V J' Hl).
Qed.

Theorem obounded_join_keeps_newest ops r src l o size lu :
  owf ops -> hist_bound ops < two63 ->
  nth_error (s_logs (run ops)) r = Some l -> nth_error (s_logs (run ops)) src = Some o ->
  l_id l = l_id o -> 0 <= size ->
  join l o false (-1) = (lu, Ok tt) ->
  order_total lu ->
  exists vu l',
    values lu = Some vu /\
    join l o false size = (l', Ok tt) /\
    let keep := lastn (Z.to_nat size) (oslice vu) in
    (forall k v, In (k, v) (l_entries l') <-> In v keep /\ e_hash v = k) /\
    (forall k v, In (k, v) (l_heads l') <-> In v keep /\ e_hash v = k /\ ~ named_in keep k) /\
    (forall n, In n (okeys (l_next l')) <-> named_in keep n) /\
    NoDup (okeys (l_entries l')) /\
    (Z.of_nat (length vu) <= size -> forall k v, In (k, v) (l_entries l') <-> In (k, v) (l_entries lu)).
Proof.
  intros W Hlen L O Hid Hs J OT. destruct (osinv_run ops W) as [UO IL].
  destruct (join_lift_fields l o false (-1) lu (Ok tt) J) as [tu JU].
  destruct (pbounded_join_keeps_newest _ (lift l) (lift o) size (set_time lu tu) UO (IL r l L) (IL src o O)
              (otimes_in_range ops r l W Hlen L) (otimes_in_range ops src o W Hlen O) Hid Hs JU OT)
    as [vu [L' [V [JB Rest]]]].
  destruct (join l o false size) as [l' out] eqn:J'.
  destruct (join_lift_fields l o false size l' out J') as [t' JT]. rewrite JT in JB. injection JB as <- ->.
  exists vu, l'. split; [exact V|]. split; [reflexivity|]. exact Rest.
Qed.

(* ---- no operation of such a history panics ---- *)
Lemma iterator_no_panic_raw l : NoDup (okeys (l_entries l)) -> well_keyed (l_entries l) ->
  forall o, iterator l o <> Panic.
Proof.
  intros EN WK o.
  unfold iterator. destruct (it_amount o) as [[|p|p]|]; try discriminate;
    (destruct (iter_start l o) as [st| |] eqn:S; [|discriminate|];
     [unfold traverse;
      match goal with |- context [trav ?f ?en ?s ?a ?e ?st0 [] [] 0] =>
        pose proof (trav_fuel_ok en s EN WK a e f st0 [] [] 0) as F;
        destruct (trav f en s a e st0 [] [] 0); [discriminate|exfalso; apply F; [unfold trav_fuel; rewrite unseen_nil; lia|reflexivity]] end
     |exfalso; revert S; unfold iter_start;
      destruct (it_lte o) as [hs|]; [destruct (get_all _ _); discriminate|];
      destruct (it_lt o) as [hs|]; [|discriminate];
      generalize (oslice (sorted_heads l)); induction hs as [|c hs IH]; intros st0; cbn [fold_left]; [discriminate|];
      destruct (oget (l_entries l) c) as [e|]; [destruct (get_all (l_entries l) (e_next e))|];
      try apply IH; clear; induction hs as [|c' hs IHh]; cbn [fold_left]; try discriminate; auto]).
Qed.

Lemma append_entry_total_raw l payload pc h : NoDup (okeys (l_entries l)) -> well_keyed (l_entries l) ->
  append_entry l payload pc h <> None.
Proof.
  intros EN WK. unfold append_entry, traverse.
  match goal with |- context [trav ?f ?en ?s ?a ?e ?st0 [] [] 0] =>
    pose proof (trav_fuel_ok en s EN WK a e f st0 [] [] 0) as F;
    destruct (trav f en s a e st0 [] [] 0); [discriminate|exfalso; apply F; [unfold trav_fuel; rewrite unseen_nil; lia|reflexivity]] end.
Qed.

Theorem ostep_never_panics ops o : owf ops ->
  match snd (step (run ops) o) with ResNone RcPanic => False | _ => True end.
Proof.
  intros W. destruct (osinv_run ops W) as [UO IL].
  assert (EN : forall r l, nth_error (s_logs (run ops)) r = Some l -> NoDup (okeys (l_entries l)) /\ well_keyed (l_entries l)).
  { intros r l L. pose proof (IL r l L) as I. split; [exact (pi_nodup _ _ I)|exact (pinv_well_keyed _ _ I)]. }
  destruct o as [id key sf deny t0|r payload pc h|r src size|r key|r mh|r io|r payload pc h|r|osrc okeep ohh oid okey osf odeny]; cbn [step].
  - exact Logic.I.
  - destruct (nth_error (s_logs (run ops)) r) as [l|] eqn:L; [|exact Logic.I].
    destruct (EN r l L) as [A B]. pose proof (append_entry_total_raw l payload pc h A B) as T.
    unfold append. destruct (append_entry l payload pc h) as [e|]; [|congruence].
    destruct (allowed l e); cbn; [exact Logic.I|]. exact Logic.I.
  - destruct (nth_error (s_logs (run ops)) r) as [l|] eqn:L; [|exact Logic.I].
    destruct (nth_error (s_logs (run ops)) src) as [o|] eqn:O; [|exact Logic.I].
    pose proof (ojoin_no_panic ops r l W L src o size O) as NP.
    destruct (join l o (Nat.eqb r src) size) as [l' out]. cbn [snd] in *.
    destruct out as [u|[]|]; cbn; try exact Logic.I. congruence.
  - destruct (nth_error (s_logs (run ops)) r) as [l|]; exact Logic.I.
  - destruct (nth_error (s_logs (run ops)) r) as [l|]; [|exact Logic.I]. destruct (olen (l_heads l) =? 0); exact Logic.I.
  - destruct (nth_error (s_logs (run ops)) r) as [l|] eqn:L; [|exact Logic.I].
    destruct (EN r l L) as [A B]. pose proof (iterator_no_panic_raw l A B io) as NP.
    destruct (iterator l io) as [[es c]|[]|]; cbn; try exact Logic.I. congruence.
  - destruct (nth_error (s_logs (run ops)) r) as [l|] eqn:L; [|exact Logic.I].
    destruct (EN r l L) as [A B]. pose proof (append_entry_total_raw l payload pc h A B) as T.
    destruct (append_entry l payload pc h) as [e|]; [exact Logic.I|congruence].
  - exact Logic.I.
  - destruct (nth_error (s_logs (run ops)) osrc) as [l|]; exact Logic.I.
Qed.

(* ---- append-only along these histories: an operation other than a bounded merge never removes or
   replaces an entry of any replica ---- *)
Theorem ostep_entries_monotone s o r l :
  osinv s -> owf_step s o ->
  (match o with OJoin _ _ size => size < 0 | _ => True end) ->
  nth_error (s_logs s) r = Some l ->
  exists l', nth_error (s_logs (fst (step s o))) r = Some l' /\
             (forall k v, In (k, v) (l_entries l) -> In (k, v) (l_entries l')) /\
             (length (l_entries l) <= length (l_entries l'))%nat.
Proof.
  intros [UO IL] W Hb L.
  assert (Hlen : (r < length (s_logs s))%nat) by (apply nth_error_Some; congruence).
  assert (Same : nth_error (s_logs (fst (step s o))) r = Some l ->
          exists l', nth_error (s_logs (fst (step s o))) r = Some l' /\
             (forall k v, In (k, v) (l_entries l) -> In (k, v) (l_entries l')) /\
             (length (l_entries l) <= length (l_entries l'))%nat).
  { intros H. exists l. split; [exact H|]. split; [auto|lia]. }
  destruct o as [id key sf deny t0|r0 payload pc h|r0 src size|r0 key|r0 mh|r0 io|r0 payload pc h|r0|osrc okeep ohh oid okey osf odeny].
  - apply Same. rewrite step_other_untouched; auto.
  - destruct (Nat.eq_dec r0 r) as [->|Hne]; [|apply Same; rewrite step_other_untouched; auto].
    cbn [step]. rewrite L. pose proof (IL r l L) as Il. pose proof (append_entry_lift _ l payload pc h Il) as EL. unfold append.
    destruct (append_entry l payload pc h) as [e|] eqn:AE; cbn [fst].
    + assert (HC : forall a, In a (s_univ s) -> e_hash a = h -> a = e) by (intros; eapply W; eauto).
      pose proof (pentries_after _ (lift l) payload pc h e Il EL HC) as PA. change (l_entries (lift l)) with (l_entries l) in PA.
      destruct (allowed l e); cbn [fst s_logs]; rewrite nth_error_set_nth, L, Nat.eqb_refl; eexists; (split; [reflexivity|]); cbn [l_entries].
      * rewrite PA. split; [intros k v H; apply in_or_app; now left|rewrite app_length; lia].
      * split; [auto|lia].
    + cbn [s_logs]. rewrite nth_error_set_nth, L, Nat.eqb_refl. eexists. split; [reflexivity|]. split; [auto|lia].
  - destruct (Nat.eq_dec r0 r) as [->|Hne]; [|apply Same; rewrite step_other_untouched; auto].
    cbn [step]. rewrite L. destruct (nth_error (s_logs s) src) as [o|] eqn:O; [|exists l; split; [exact L|split; [auto|lia]]].
    destruct (join l o (Nat.eqb r src) size) as [l' out] eqn:J. cbn [fst s_logs]. rewrite nth_error_set_nth, L, Nat.eqb_refl.
    exists l'. split; [reflexivity|].
    destruct (join_lift_left l o (Nat.eqb r src) size l' out J) as [t' JT].
    pose proof (join_keeps_held_entries (s_univ s) (lift l) o (Nat.eqb r src) size _ out (IL r l L) Hb JT) as Sub.
    change (l_entries (lift l)) with (l_entries l) in Sub. change (l_entries (set_time l' t')) with (l_entries l') in Sub.
    split; [exact Sub|].
    apply NoDup_incl_length.
    + apply NoDup_map_inv with (f := fst). apply (pi_nodup _ _ (IL r l L)).
    + intros [k v] Hin. now apply Sub.
  - destruct (Nat.eq_dec r0 r) as [->|Hne]; [|apply Same; rewrite step_other_untouched; auto].
    cbn [step]. rewrite L. cbn [fst s_logs]. rewrite nth_error_set_nth, L, Nat.eqb_refl.
    eexists. split; [reflexivity|]. split; [auto|cbn; lia].
  - apply Same. rewrite step_other_untouched; auto.
  - apply Same. rewrite step_other_untouched; auto.
  - destruct (Nat.eq_dec r0 r) as [->|Hne]; [|apply Same; rewrite step_other_untouched; auto].
    cbn [step]. rewrite L. destruct (append_entry l payload pc h) as [e|]; cbn [fst]; [|exists l; split; [exact L|split; [auto|lia]]].
    cbn [s_logs]. rewrite nth_error_set_nth, L, Nat.eqb_refl. eexists. split; [reflexivity|].
    split; [auto|cbn; lia].
  - apply Same. rewrite step_other_untouched; auto.
  - apply Same. rewrite step_other_untouched; auto.
Qed.
