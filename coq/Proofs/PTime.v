(* Clock times stay small: along a well-formed history every entry's time and every replica's clock
   is between 0 and the number of entries ever appended, so the int64 range of Go's int is never
   left by any history that fits in memory (the hypothesis [times_ok] of the ordering theorems). *)
From Coq Require Import List ZArith Bool Lia Permutation.
From IpfsLog Require Import Model.System Proofs.OmapProofs Proofs.SortProofs Proofs.Inv Proofs.JoinProofs Proofs.SysProofs Proofs.TimeProofs Proofs.PInv Proofs.PJoin Proofs.PSys.
Import ListNotations.
Open Scope Z_scope.

Definition ptbound (B : Z) (s : sys) : Prop :=
  (forall e, In e (s_univ s) -> 0 < e_time e <= (B + Z.of_nat (length (s_univ s)))) /\
  (forall r l, nth_error (s_logs s) r = Some l -> 0 <= l_time l <= (B + Z.of_nat (length (s_univ s)))).

Lemma pheads_in_U U l e : pinv U l -> In e (oslice (l_heads l)) -> In e U.
Proof.
  intros I H. apply In_oslice in H. destruct H as [k H]. apply (pi_heads _ _ I) in H. destruct H as [H _].
  now apply (pi_in_U _ _ I) in H.
Qed.

Lemma pmax_time_heads_bound U l d b : pinv U l -> (forall e, In e U -> e_time e <= b) -> d <= b ->
  max_time (oslice (l_heads l)) d <= b.
Proof. intros I HU Hd. apply max_time_bound; auto. intros e He. apply HU. eapply pheads_in_U; eauto. Qed.


Theorem ptbound_step B s o : 0 <= B -> seed_of o <= B -> psinv s -> pwf_step s o -> ptbound B s -> ptbound B (fst (step s o)).
Proof.
  intros HB HS SI W [TU TL]. pose proof (psinv_step s o SI W) as SI'. destruct SI as [UO IL].
  destruct o as [id key sf deny t0|r payload pc h|r src size|r key|r mh|r io|r payload pc h|r|osrc okeep ohh oid okey osf odeny]; cbn [step].
  - split; [exact TU|]. cbn [fst s_logs s_univ]. intros r l H.
    destruct (Nat.lt_ge_cases r (length (s_logs s))) as [Hl|Hl].
    + rewrite nth_error_app1 in H by assumption. eauto.
    + rewrite nth_error_app2 in H by assumption. destruct (r - length (s_logs s))%nat as [|n]; cbn in H.
      * injection H as <-. cbn in *. lia.
      * destruct n; discriminate.
  - destruct (nth_error (s_logs s) r) as [l|] eqn:L; [|split; auto].
    unfold append. destruct (append_entry l payload pc h) as [e|] eqn:AE.
    + assert (Ht : 0 < e_time e <= (B + Z.of_nat (length (s_univ s))) + 1).
      { rewrite (ae_time l payload pc h e AE). destruct (TL r l L).
        assert (max_time (oslice (sorted_heads l)) 0 <= (B + Z.of_nat (length (s_univ s)))).
        { apply max_time_bound; [lia|]. intros x Hx. apply In_oslice in Hx. destruct Hx as [k Hx].
          apply sorted_heads_In in Hx; [|apply (pi_heads_nodup _ _ (IL r l L))|apply (pheads_well_keyed _ _ (IL r l L))].
          apply TU. eapply pheads_in_U; [apply (IL r l L)|]. apply In_oslice. eauto. }
        pose proof (max_time_ge (oslice (sorted_heads l)) 0). lia. }
      assert (X : forall l', l_time l' = e_time e \/ l_time l' = l_time l ->
                ptbound B (mkSys (set_nth r l' (s_logs s)) (s_univ s ++ [e]) (add_block (s_store s) h (e_next e ++ e_refs e)))).
      { intros l' Hl'. split; cbn [s_univ s_logs]; rewrite app_length; cbn [length].
        - intros x Hx. rewrite in_app_iff in Hx. cbn [In] in Hx. destruct Hx as [Hx|[<-|[]]]; [specialize (TU x Hx)|]; lia.
        - intros r' l'' H. rewrite nth_error_set_nth, L in H. destruct (Nat.eqb r r').
          + injection H as <-. destruct (TL r l L). destruct Hl' as [->| ->]; lia.
          + specialize (TL r' l'' H). lia. }
      destruct (allowed l e); cbn [fst]; apply X; cbn; auto.
    + cbn [fst]. split; [exact TU|]. cbn [s_logs s_univ]. intros r' l' H. rewrite nth_error_set_nth, L in H.
      destruct (Nat.eqb r r'); [injection H as <-; eauto|eauto].
  - destruct (nth_error (s_logs s) r) as [l|] eqn:L; [|split; auto].
    destruct (nth_error (s_logs s) src) as [o|] eqn:O; [|split; auto].
    destruct (join l o (Nat.eqb r src) size) as [l' out] eqn:J. cbn [fst].
    split; [exact TU|]. cbn [s_logs s_univ]. intros r' l'' H. rewrite nth_error_set_nth, L in H.
    destruct (Nat.eqb r r'); [|eauto]. injection H as <-.
    pose proof (pinv_join (s_univ s) l o (Nat.eqb r src) size l' out UO (IL r l L) (IL src o O) J) as Il'.
    destruct (TL r l L). destruct (join_time _ _ _ _ _ _ J) as [->| ->]; [lia|].
    pose proof (pmax_time_heads_bound (s_univ s) l' 0 ((B + Z.of_nat (length (s_univ s)))) Il'
                  (fun e He => proj2 (TU e He)) ltac:(lia)).
    pose proof (max_time_ge (oslice (l_heads l')) 0). lia.
  - destruct (nth_error (s_logs s) r) as [l|] eqn:L; [|split; auto]. cbn [fst].
    split; [exact TU|]. cbn [s_logs s_univ]. intros r' l' H. rewrite nth_error_set_nth, L in H.
    destruct (Nat.eqb r r'); [|eauto]. injection H as <-. cbn [set_identity l_time].
    destruct (TL r l L).
    pose proof (pmax_time_heads_bound (s_univ s) l (l_time l) ((B + Z.of_nat (length (s_univ s)))) (IL r l L)
                  (fun e He => proj2 (TU e He)) ltac:(lia)).
    pose proof (max_time_ge (oslice (l_heads l)) (l_time l)). lia.
  - destruct (nth_error (s_logs s) r) as [l|] eqn:L; [|split; auto].
    destruct (olen (l_heads l) =? 0); split; auto.
  - destruct (nth_error (s_logs s) r) as [l|] eqn:L; [|split; auto].
    destruct (iterator l io) as [[es c]| |]; split; auto.
  - destruct (nth_error (s_logs s) r) as [l|] eqn:L; [|split; auto].
    destruct (append_entry l payload pc h) as [e|] eqn:AE; [|split; auto].
    assert (Ht : 0 < e_time e <= (B + Z.of_nat (length (s_univ s))) + 1).
    { rewrite (ae_time l payload pc h e AE). destruct (TL r l L).
      assert (max_time (oslice (sorted_heads l)) 0 <= (B + Z.of_nat (length (s_univ s)))).
      { apply max_time_bound; [lia|]. intros x Hx. apply In_oslice in Hx. destruct Hx as [k Hx].
        apply sorted_heads_In in Hx; [|apply (pi_heads_nodup _ _ (IL r l L))|apply (pheads_well_keyed _ _ (IL r l L))].
        apply TU. eapply pheads_in_U; [apply (IL r l L)|]. apply In_oslice. eauto. }
      pose proof (max_time_ge (oslice (sorted_heads l)) 0). lia. }
    cbn [fst]. split; cbn [s_univ s_logs]; rewrite app_length; cbn [length].
    + intros x Hx. rewrite in_app_iff in Hx. cbn [In] in Hx. destruct Hx as [Hx|[<-|[]]]; [specialize (TU x Hx)|]; lia.
    + intros r' l'' H. rewrite nth_error_set_nth, L in H. destruct (Nat.eqb r r').
      * injection H as <-. cbn [set_time l_time]. lia.
      * specialize (TL r' l'' H). lia.
  - split; auto.
  - destruct W.
Qed.

Theorem ptbound_run_from B ops : 0 <= B -> Forall (fun o => seed_of o <= B) ops ->
  forall s, psinv s -> pwf_from s ops -> ptbound B s -> ptbound B (run_from s ops).
Proof.
  intros HB HS. induction ops as [|o ops IH]; intros s SI W T; cbn [run_from fold_left]; [exact T|].
  inversion HS; subst.
  destruct W as [W1 W2]. apply IH; [assumption|now apply psinv_step|exact W2|now apply ptbound_step].
Qed.

Theorem ptbound_run ops : pwf ops -> ptbound (max_seed ops) (run ops).
Proof.
  intros W. apply ptbound_run_from; [apply max_seed_nonneg|apply max_seed_bounds|apply psinv_empty|exact W|].
  split; [intros e []|]. intros [|r] l H; discriminate.
Qed.

(* the universe grows by at most one entry per operation *)


(* hence: in any history of fewer than 2^63 operations all times are in the int64 range *)
Theorem ptimes_in_range ops r l :
  pwf ops -> hist_bound ops < two63 -> nth_error (s_logs (run ops)) r = Some l ->
  forall e, In e (ents l) -> int64_range (e_time e).
Proof.
  intros W Hlen L e He. destruct (ptbound_run ops W) as [TU _]. destruct (psinv_run ops W) as [_ IL].
  destruct (pinv_entry _ _ _ (IL r l L) He) as [_ HU]. specialize (TU e HU).
  pose proof (univ_length_run_from ops empty_sys). unfold run in *. cbn [empty_sys s_univ length] in H.
  pose proof (max_seed_nonneg ops). unfold hist_bound, int64_range, two63 in *. lia.
Qed.
