(* Soundness of the iterator's range without the closure invariant: on any duplicate-free, well-keyed log
   whose heads are entries of the log (truncated and re-opened replicas included), every entry the iterator
   emits lies in the causal past - inside the log - of the upper bounds it started from.  No total ordering
   is needed.  (The converse, completeness, needs the closure of the log: IterProofs.iterator_spec_total.) *)
From Coq Require Import List ZArith Bool Lia.
From IpfsLog Require Import Model.System Proofs.OmapProofs Proofs.TravProofs Proofs.IterSound.
Import ListNotations.
Open Scope Z_scope.

Section Past.
  Variable entries : omap.
  Hypothesis WK : well_keyed entries.
  Variable roots : list entry.
  Let R (x : entry) := oget entries (e_hash x) = Some x /\ treach entries roots (e_hash x).
  Let T (x : entry) := treach entries roots (e_hash x).

  Lemma push_next_R st c : treach entries roots c ->
    Forall R (fst (fst st)) -> Forall R (fst (fst (push_next entries st c))).
  Proof.
    destruct st as [[stack seen] md]. cbn [push_next fst]. intros TC H.
    destruct (oget entries c) as [n|] eqn:E; [|exact H].
    destruct (mem (e_hash n) seen); [exact H|]. cbn [fst]. constructor; [|exact H].
    assert (e_hash n = c) as EQ by (apply WK; now apply oget_In). unfold R. rewrite EQ. now split.
  Qed.

  Lemma push_nexts_R ns : forall st, (forall c, In c ns -> treach entries roots c) ->
    Forall R (fst (fst st)) -> Forall R (fst (fst (push_nexts entries ns st))).
  Proof.
    unfold push_nexts. induction ns as [|c ns IH]; intros st TC H; cbn [fold_left]; [exact H|].
    apply IH; [intros c' Hc'; apply TC; now right|]. apply push_next_R; [apply TC; now left|exact H].
  Qed.

  Lemma sort_desc_R s l : Forall R l -> Forall R (sort_desc s l).
  Proof. rewrite !Forall_forall. intros H x Hx. apply H. now apply sort_desc_In in Hx. Qed.

  Lemma trav_past s amount endh fuel : forall stack seen res cnt out,
    Forall R stack -> Forall T (oslice res) ->
    trav fuel entries s amount endh stack seen res cnt = Some out -> Forall T (oslice out).
  Proof.
    induction fuel as [|f IH]; intros stack seen res cnt out HS HR Tr.
    - destruct stack as [|e stack']; cbn [trav] in Tr; [now inversion Tr; subst|].
      destruct ((0 <=? amount) && (amount <=? cnt)); [now inversion Tr; subst|discriminate].
    - destruct stack as [|e stack']; cbn [trav] in Tr; [now inversion Tr; subst|].
      destruct ((0 <=? amount) && (amount <=? cnt)); [now inversion Tr; subst|].
      inversion HS as [|? ? Re HS']; subst. destruct Re as [Ge Te].
      destruct (ohas res (e_hash e)) eqn:OH; [exact (IH _ _ _ _ _ HS' HR Tr)|].
      assert (HR' : Forall T (oslice (oset res (e_hash e) e))).
      { apply ohas_false in OH. rewrite (oset_fresh _ _ _ OH). unfold oslice. rewrite map_app.
        apply Forall_app. split; [exact HR|]. cbn [map snd]. now constructor. }
      destruct (match endh with Some h => N.eqb (e_hash e) h | None => false end);
        [now inversion Tr; subst|].
      assert (TN : forall c, In c (e_next e) -> treach entries roots c).
      { intros c Hc. exact (tr_step entries roots _ _ _ Te Ge Hc). }
      pose proof (push_nexts_R (e_next e) (stack', e_hash e :: seen, false) TN HS') as PQ.
      destruct (push_nexts entries (e_next e) (stack', e_hash e :: seen, false)) as [[st2 sn2] md] eqn:PN.
      cbn [fst] in PQ.
      refine (IH _ _ _ _ _ _ HR' Tr). destruct md; [now apply sort_desc_R|exact PQ].
  Qed.
End Past.

(* every emitted entry lies in the causal past, inside the log, of the start set *)
Theorem iterator_within_past l o st es c :
  NoDup (okeys (l_entries l)) -> well_keyed (l_entries l) ->
  (forall k e, In (k, e) (l_heads l) -> In (k, e) (l_entries l)) ->
  iter_start l o = Ok st -> iterator l o = Ok (es, c) ->
  forall e, In e es -> treach (l_entries l) (oslice (from_entries st)) (e_hash e).
Proof.
  intros ND WK HH S I e He. unfold iterator in I.
  assert (I' : match iter_start l o with
               | Err k => Err k | Panic => Panic
               | Ok st => match traverse (l_entries l) (l_sort l) (from_entries st) (iter_count o) (iter_end o) with
                          | None => Panic | Some m => Ok (iter_post o (oslice m), true) end
               end = Ok (es, c) \/ es = []).
  { destruct (it_amount o) as [[| |]|]; try (now left). right. now inversion I. }
  clear I. destruct I' as [I| ->]; [|destruct He]. rewrite S in I.
  destruct (traverse _ _ _ _ _) as [m|] eqn:Tr; [|discriminate]. inversion I; subst.
  apply iter_post_sub in He. unfold traverse in Tr.
  set (roots := oslice (from_entries st)) in *.
  assert (RR : Forall (fun x => oget (l_entries l) (e_hash x) = Some x /\ treach (l_entries l) roots (e_hash x)) roots).
  { pose proof (from_entries_Q _ _ (iter_start_Q l o st HH S)) as F. fold roots in F.
    rewrite Forall_forall in *. intros x Hx. split; [|now apply tr_root].
    apply F in Hx. apply In_oslice in Hx. destruct Hx as [k Hk].
    rewrite (WK _ _ Hk). now apply In_oget. }
  assert (F0 : Forall (fun x => treach (l_entries l) roots (e_hash x)) (oslice [])) by constructor.
  pose proof (trav_past (l_entries l) WK roots (l_sort l) _ _ _ _ _ [] _ _
                (sort_desc_R (l_entries l) roots (l_sort l) _ RR) F0 Tr) as F.
  rewrite Forall_forall in F. now apply F.
Qed.
