(* Consequences of the system invariant, per operation: monotonicity of entry sets (C05), validation
   and atomicity of Join (C06), union semantics of Join (C01), boolean well-formedness. *)
From Coq Require Import List ZArith Bool Lia Permutation.
From IpfsLog Require Import Model.System Proofs.OmapProofs Proofs.SortProofs Proofs.Inv Proofs.DiffProofs
     Proofs.JoinProofs Proofs.SysProofs.
Import ListNotations.
Open Scope Z_scope.

(* ---- Join, for ARBITRARY logs (no invariant needed): errors leave the log untouched, and every
        entry a successful join adds carries the log's id and passed the access controller and the
        signature check (C06) ---- *)
Lemma join_error_unchanged l o same size l' k : join l o same size = (l', Err k) -> l' = l.
Proof.
  unfold join, join_reads. destruct same; [intros H; now injection H|].
  destruct (negb (N.eqb (l_id l) (l_id o))); [intros H; now injection H|].
  destruct (difference _ _ _) as [ni|]; [|intros H; now injection H].
  destruct (negb (forallb (entry_ok l) (oslice ni))); [intros H; now injection H|].
  destruct (size <? 0); [intros H; discriminate|].
  destruct (values _); intros H; discriminate.
Qed.

Lemma join_invalid_candidate_errors l o size ni :
  l_id l = l_id o -> difference (l_entries o) (oslice (l_heads o)) l = Some ni ->
  (exists e, In e (oslice ni) /\ entry_ok l e = false) ->
  join l o false size = (l, Err EJoin).
Proof.
  intros Hid D [e [He Hb]]. unfold join, join_reads.
  assert (E0 : N.eqb (l_id l) (l_id o) = true) by (apply N.eqb_eq; exact Hid). rewrite E0. cbn [negb].
  rewrite D.
  assert (forallb (entry_ok l) (oslice ni) = false).
  { destruct (forallb (entry_ok l) (oslice ni)) eqn:F; [|reflexivity].
    rewrite forallb_forall in F. specialize (F e He). congruence. }
  rewrite H. reflexivity.
Qed.

Lemma difference_okA ea heads lb ni k v :
  difference ea heads lb = Some ni -> In (k, v) ni ->
  oget ea k = Some v /\ ohas (l_entries lb) k = false /\ e_logid v = l_id lb /\ e_hash v = k.
Proof.
  unfold difference. destruct (_ || _); [intros H; injection H as <-; intros []|].
  intros H Hin. apply diff_loop_spec in H. destruct H as [_ B]. apply B in Hin. exact (proj2 Hin).
Qed.

Theorem join_admits_only_valid l o size l' :
  size < 0 -> join l o false size = (l', Ok tt) ->
  forall k v, In (k, v) (l_entries l') -> In (k, v) (l_entries l) \/
     (e_logid v = l_id l /\ entry_ok l v = true /\ e_hash v = k /\ exists k', oget (l_entries o) k' = Some v).
Proof.
  intros Hs. unfold join, join_reads.
  destruct (N.eqb (l_id l) (l_id o)); cbn [negb]; [|intros H; injection H as <-; auto].
  destruct (difference _ _ _) as [ni|] eqn:D; [|intros H; discriminate].
  destruct (forallb (entry_ok l) (oslice ni)) eqn:F; cbn [negb]; [|intros H; discriminate].
  assert (E : size <? 0 = true) by (apply Z.ltb_lt; lia). rewrite E.
  intros H. injection H as <-. cbn [l_entries]. intros k v Hin.
  apply fold_oset_In in Hin. destruct Hin as [Hin|[Hin Hk]]; [auto|]. right.
  rewrite forallb_forall in F. pose proof (F v Hin) as OKv.
  apply In_oslice in Hin. destruct Hin as [k' Hin].
  destruct (difference_okA _ _ _ _ _ _ D Hin) as [G [_ [L _]]]. repeat split; eauto.
Qed.

(* self join / foreign id: nothing happens at all *)
Lemma join_self l o size : join l o true size = (l, Ok tt).
Proof. reflexivity. Qed.

Lemma join_foreign_id l o size : l_id l <> l_id o -> join l o false size = (l, Ok tt).
Proof.
  intros H. unfold join, join_reads. destruct (N.eqb_spec (l_id l) (l_id o)); [contradiction|reflexivity].
Qed.

(* ---- under the invariant: Join computes the union (C01) ---- *)
Section Union.
  Variables (U : list entry) (l o : log).
  Hypothesis UO : univ_ok U.
  Hypothesis Il : linv U l.
  Hypothesis Io : linv U o.
  Hypothesis SameId : l_id l = l_id o.

  Theorem join_union size l' :
    size < 0 -> join l o false size = (l', Ok tt) ->
    forall k v, In (k, v) (l_entries l') <-> In (k, v) (l_entries l) \/ In (k, v) (l_entries o).
  Proof.
    intros Hs J. unfold join, join_reads in J.
    assert (E0 : N.eqb (l_id l) (l_id o) = true) by (apply N.eqb_eq; exact SameId). rewrite E0 in J. cbn [negb] in J.
    destruct (difference (l_entries o) (oslice (l_heads o)) l) as [ni|] eqn:D; [|discriminate].
    destruct (forallb (entry_ok l) (oslice ni)) eqn:F; cbn [negb] in J; [|discriminate].
    assert (E : size <? 0 = true) by (apply Z.ltb_lt; lia). rewrite E in J. injection J as <-.
    exact (join_entries U l o UO Il Io SameId ni D).
  Qed.

  (* a successful join needs every missing entry of the source to be valid *)
  Theorem join_ok_iff_all_valid size :
    size < 0 ->
    (exists l', join l o false size = (l', Ok tt)) <->
    (forall k v, In (k, v) (l_entries o) -> ~ In k (okeys (l_entries l)) -> entry_ok l v = true) /\
    difference (l_entries o) (oslice (l_heads o)) l <> None.
  Proof.
    intros Hs. unfold join, join_reads.
    assert (E0 : N.eqb (l_id l) (l_id o) = true) by (apply N.eqb_eq; exact SameId). rewrite E0. cbn [negb].
    destruct (difference (l_entries o) (oslice (l_heads o)) l) as [ni|] eqn:D.
    - pose proof (difference_spec U l o UO Il Io SameId ni D) as [_ NI].
      assert (E : size <? 0 = true) by (apply Z.ltb_lt; lia). rewrite E.
      destruct (forallb (entry_ok l) (oslice ni)) eqn:F; cbn [negb].
      + split; [intros _|eauto]. split; [|discriminate]. intros k v Hin Hn.
        rewrite forallb_forall in F. apply F. apply In_oslice. exists k. apply NI. auto.
      + split; [intros [l' H]; discriminate|]. intros [Hall _]. exfalso.
        assert (forallb (entry_ok l) (oslice ni) = true); [|congruence].
        apply forallb_forall. intros v Hv. apply In_oslice in Hv. destruct Hv as [k Hv].
        apply NI in Hv. destruct Hv. eauto.
    - split; [intros [l' H]; discriminate|]. intros [_ H]. congruence.
  Qed.
End Union.

(* ---- every step only adds entries, to the touched replica only (C05) ---- *)
Definition entries_subset (a b : log) : Prop := forall k v, In (k, v) (l_entries a) -> In (k, v) (l_entries b).

Lemma step_other_untouched s o r' :
  (match o with
   | OAppend r _ _ _ | OAppendFail r _ _ _ | OJoin r _ _ | OSetIdentity r _ => r <> r'
   | _ => True end) ->
  (r' < length (s_logs s))%nat ->
  nth_error (s_logs (fst (step s o))) r' = nth_error (s_logs s) r'.
Proof.
  intros Hr Hlen. destruct o as [id key sf deny t0|r payload pc h|r src size|r key|r mh|r io|r payload pc h|r|osrc okeep ohh oid okey osf odeny]; cbn [step].
  - cbn [fst s_logs]. now rewrite nth_error_app1.
  - destruct (nth_error (s_logs s) r) as [l|] eqn:L; [|reflexivity].
    destruct (append l payload pc h) as [l' out] eqn:A.
    assert (X : forall st un, nth_error (s_logs (mkSys (set_nth r l' (s_logs s)) un st)) r' = nth_error (s_logs s) r').
    { intros. cbn [s_logs]. rewrite nth_error_set_nth. destruct (Nat.eqb_spec r r'); [contradiction|reflexivity]. }
    destruct out as [e|[]|]; cbn [fst]; try apply X.
    destruct (append_entry l payload pc h); cbn [fst]; [apply X|reflexivity].
  - destruct (nth_error (s_logs s) r) as [l|] eqn:L; [|reflexivity].
    destruct (nth_error (s_logs s) src) as [o|] eqn:O; [|reflexivity].
    destruct (join l o (Nat.eqb r src) size) as [l' out]. cbn [fst s_logs].
    rewrite nth_error_set_nth. destruct (Nat.eqb_spec r r'); [contradiction|reflexivity].
  - destruct (nth_error (s_logs s) r) as [l|] eqn:L; [|reflexivity]. cbn [fst s_logs].
    rewrite nth_error_set_nth. destruct (Nat.eqb_spec r r'); [contradiction|reflexivity].
  - destruct (nth_error (s_logs s) r) as [l|] eqn:L; [|reflexivity].
    destruct (olen (l_heads l) =? 0); reflexivity.
  - destruct (nth_error (s_logs s) r) as [l|] eqn:L; [|reflexivity].
    destruct (iterator l io) as [[es c]| |]; reflexivity.
  - destruct (nth_error (s_logs s) r) as [l|] eqn:L; [|reflexivity].
    destruct (append_entry l payload pc h); [|reflexivity]. cbn [fst s_logs].
    rewrite nth_error_set_nth. destruct (Nat.eqb_spec r r'); [contradiction|reflexivity].
  - reflexivity.
  - destruct (nth_error (s_logs s) osrc) as [l|] eqn:L; [|reflexivity]. cbn [fst s_logs]. now rewrite nth_error_app1.
Qed.

Theorem step_entries_monotone s o r l :
  sinv s -> wf_step s o -> nth_error (s_logs s) r = Some l ->
  exists l', nth_error (s_logs (fst (step s o))) r = Some l' /\ entries_subset l l' /\
             (length (l_entries l) <= length (l_entries l'))%nat.
Proof.
  intros [UO IL] W L.
  assert (Hlen : (r < length (s_logs s))%nat) by (apply nth_error_Some; congruence).
  assert (Same : nth_error (s_logs (fst (step s o))) r = Some l ->
          exists l', nth_error (s_logs (fst (step s o))) r = Some l' /\ entries_subset l l' /\
             (length (l_entries l) <= length (l_entries l'))%nat).
  { intros H. exists l. split; [exact H|]. split; [intros k v; auto|lia]. }
  destruct o as [id key sf deny t0|r0 payload pc h|r0 src size|r0 key|r0 mh|r0 io|r0 payload pc h|r0|osrc okeep ohh oid okey osf odeny].
  - apply Same. rewrite step_other_untouched; auto.
  - destruct (Nat.eq_dec r0 r) as [->|Hne]; [|apply Same; rewrite step_other_untouched; auto].
    cbn [step]. rewrite L. unfold append.
    destruct (append_entry l payload pc h) as [e|] eqn:AE; cbn [fst].
    + destruct (allowed l e) eqn:A; cbn [fst s_logs]; rewrite nth_error_set_nth, L, Nat.eqb_refl.
      * eexists. split; [reflexivity|]. cbn [l_entries].
        assert (HC : forall a, In a (s_univ s) -> e_hash a = h -> a = e) by (intros; eapply W; eauto).
        rewrite (entries_after _ _ _ _ _ _ (IL r l L) AE HC). split.
        -- intros k v Hin. cbn [l_entries]. rewrite in_app_iff. auto.
        -- cbn [l_entries]. rewrite app_length. cbn. lia.
      * eexists. split; [reflexivity|]. split; [intros k v; auto|cbn; lia].
    + cbn [s_logs]. rewrite nth_error_set_nth, L, Nat.eqb_refl. eexists. split; [reflexivity|].
      split; [intros k v; auto|lia].
  - destruct (Nat.eq_dec r0 r) as [->|Hne]; [|apply Same; rewrite step_other_untouched; auto].
    cbn [step]. rewrite L. destruct (nth_error (s_logs s) src) as [o|] eqn:O; [|exists l; cbn [fst]; split; [exact L|split; [intros k v; auto|lia]]].
    destruct (join l o (Nat.eqb r src) size) as [l' out] eqn:J. cbn [fst s_logs].
    rewrite nth_error_set_nth, L, Nat.eqb_refl. exists l'. split; [reflexivity|].
    cbn [wf_step] in W.
    assert (Sub : entries_subset l l').
    { unfold join, join_reads in J. destruct (Nat.eqb r src); [injection J as <- _; intros k v; auto|].
      destruct (N.eqb_spec (l_id l) (l_id o)) as [Hid|Hid]; cbn [negb] in J; [|injection J as <- _; intros k v; auto].
      destruct (difference (l_entries o) (oslice (l_heads o)) l) as [ni|] eqn:D; [|injection J as <- _; intros k v; auto].
      destruct (forallb (entry_ok l) (oslice ni)) eqn:F; cbn [negb] in J; [|injection J as <- _; intros k v; auto].
      assert (E : size <? 0 = true) by (apply Z.ltb_lt; lia). rewrite E in J. injection J as <- _.
      intros k v Hin. apply (join_entries (s_univ s) l o UO (IL r l L) (IL src o O) Hid ni D). auto. }
    split; [exact Sub|].
    apply NoDup_incl_length.
    + apply NoDup_map_inv with (f := fst). apply (li_nodup _ _ (IL r l L)).
    + intros [k v] Hin. now apply Sub.
  - destruct (Nat.eq_dec r0 r) as [->|Hne]; [|apply Same; rewrite step_other_untouched; auto].
    cbn [step]. rewrite L. cbn [fst s_logs]. rewrite nth_error_set_nth, L, Nat.eqb_refl.
    eexists. split; [reflexivity|]. split; [intros k v; auto|cbn; lia].
  - apply Same. rewrite step_other_untouched; auto.
  - apply Same. rewrite step_other_untouched; auto.
  - destruct (Nat.eq_dec r0 r) as [->|Hne]; [|apply Same; rewrite step_other_untouched; auto].
    cbn [step]. rewrite L. destruct (append_entry l payload pc h) as [e|]; cbn [fst]; [|exists l; split; [exact L|split; [intros k v; auto|lia]]].
    cbn [s_logs]. rewrite nth_error_set_nth, L, Nat.eqb_refl. eexists. split; [reflexivity|].
    split; [intros k v; auto|cbn; lia].
  - apply Same. rewrite step_other_untouched; auto.
  - apply Same. rewrite step_other_untouched; auto.
Qed.

(* ---- l_cid = l_key for every reachable log (the clock id is the writer's public key) ---- *)
Definition keyinv (s : sys) : Prop := forall r l, nth_error (s_logs s) r = Some l -> l_cid l = l_key l.

Lemma join_keeps_keys l o same size l' out : join l o same size = (l', out) -> l_cid l' = l_cid l /\ l_key l' = l_key l.
Proof.
  unfold join, join_reads. destruct same; [intros H; injection H as <- _; auto|].
  destruct (negb _); [intros H; injection H as <- _; auto|].
  destruct (difference _ _ _); [|intros H; injection H as <- _; auto].
  destruct (negb _); [intros H; injection H as <- _; auto|].
  destruct (size <? 0); [intros H; injection H as <- _; auto|].
  destruct (values _); intros H; injection H as <- _; auto.
Qed.

Lemma keyinv_step s o : keyinv s -> keyinv (fst (step s o)).
Proof.
  intros K. destruct o as [id key sf deny t0|r payload pc h|r src size|r key|r mh|r io|r payload pc h|r|osrc okeep ohh oid okey osf odeny]; cbn [step].
  - intros r l H. cbn [fst s_logs] in H.
    destruct (Nat.lt_ge_cases r (length (s_logs s))) as [Hl|Hl].
    + rewrite nth_error_app1 in H by assumption. eauto.
    + rewrite nth_error_app2 in H by assumption. destruct (r - length (s_logs s))%nat as [|n]; cbn in H.
      * injection H as <-. reflexivity.
      * destruct n; discriminate.
  - destruct (nth_error (s_logs s) r) as [l|] eqn:L; [|exact K]. unfold append.
    assert (X : forall l', l_cid l' = l_cid l -> l_key l' = l_key l -> forall un st,
                keyinv (mkSys (set_nth r l' (s_logs s)) un st)).
    { intros l' H1 H2 un st r' l'' H. cbn [s_logs] in H. rewrite nth_error_set_nth, L in H.
      destruct (Nat.eqb r r'); [injection H as <-; rewrite H1, H2; eauto|eauto]. }
    destruct (append_entry l payload pc h) as [e|]; [destruct (allowed l e)|]; cbn [fst]; apply X; reflexivity.
  - destruct (nth_error (s_logs s) r) as [l|] eqn:L; [|exact K].
    destruct (nth_error (s_logs s) src) as [o|] eqn:O; [|exact K].
    destruct (join l o (Nat.eqb r src) size) as [l' out] eqn:J. cbn [fst].
    destruct (join_keeps_keys _ _ _ _ _ _ J) as [H1 H2].
    intros r' l'' H. cbn [s_logs] in H. rewrite nth_error_set_nth, L in H.
    destruct (Nat.eqb r r'); [injection H as <-; rewrite H1, H2; eauto|eauto].
  - destruct (nth_error (s_logs s) r) as [l|] eqn:L; [|exact K]. cbn [fst].
    intros r' l'' H. cbn [s_logs] in H. rewrite nth_error_set_nth, L in H.
    destruct (Nat.eqb r r'); [injection H as <-; reflexivity|eauto].
  - destruct (nth_error (s_logs s) r) as [l|] eqn:L; [|exact K].
    destruct (olen (l_heads l) =? 0); exact K.
  - destruct (nth_error (s_logs s) r) as [l|] eqn:L; [|exact K].
    destruct (iterator l io) as [[es c]| |]; exact K.
  - destruct (nth_error (s_logs s) r) as [l|] eqn:L; [|exact K].
    destruct (append_entry l payload pc h) as [e|]; [|exact K]. cbn [fst].
    intros r' l'' H. cbn [s_logs] in H. rewrite nth_error_set_nth, L in H.
    destruct (Nat.eqb r r'); [injection H as <-; cbn; eauto|eauto].
  - exact K.
  - destruct (nth_error (s_logs s) osrc) as [l0|] eqn:L; [|exact K]. cbn [fst].
    intros r l H. cbn [s_logs] in H.
    destruct (Nat.lt_ge_cases r (length (s_logs s))) as [Hl|Hl].
    + rewrite nth_error_app1 in H by assumption. eauto.
    + rewrite nth_error_app2 in H by assumption. destruct (r - length (s_logs s))%nat as [|n]; cbn in H.
      * injection H as <-. reflexivity.
      * destruct n; discriminate.
Qed.

Lemma keyinv_run ops : keyinv (run ops).
Proof.
  unfold run. assert (K0 : keyinv empty_sys) by (intros [|r] l H; discriminate).
  revert K0. generalize empty_sys. induction ops as [|o ops IH]; intros s K; cbn [run_from fold_left]; [exact K|].
  apply IH. now apply keyinv_step.
Qed.
