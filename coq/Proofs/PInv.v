(* The invariant of logs that may have been truncated by bounded joins ("partial" logs): everything
   in [linv] except causal closure.  It is what a log needs in order to BE a log - its heads are
   exactly its unreferenced entries, the reverse next index knows exactly the predecessors its
   entries name, nothing is newer than its clock - and it is preserved by every operation, bounded
   joins included (PJoin.v, PSys.v).  [linv] implies it. *)
From Coq Require Import List ZArith Bool Lia Permutation.
From IpfsLog Require Import Model.Log Proofs.OmapProofs Proofs.SortProofs Proofs.Inv.
Import ListNotations.
Open Scope Z_scope.

Record pinv (U : list entry) (l : log) : Prop := {
  pi_nodup : NoDup (okeys (l_entries l));
  pi_in_U : forall k e, In (k, e) (l_entries l) -> In e U /\ e_hash e = k;
  pi_logid : forall e, In e (ents l) -> e_logid e = l_id l;
  pi_heads_nodup : NoDup (okeys (l_heads l));
  pi_heads : forall k e, In (k, e) (l_heads l) <-> (In (k, e) (l_entries l) /\ ~ named_in (ents l) k);
  pi_next : forall n, In n (okeys (l_next l)) <-> named_in (ents l) n;
  pi_time : forall e, In e (ents l) -> e_time e <= l_time l;
}.

Lemma linv_pinv U l : linv U l -> pinv U l.
Proof. intros I. destruct I. split; auto. Qed.

Lemma pinv_new U id key s deny t0 : pinv U (new_log id key s deny t0).
Proof. apply linv_pinv, linv_new. Qed.

Lemma pinv_mono_U U e l : pinv U l -> pinv (U ++ [e]) l.
Proof.
  intros I. destruct I. split; auto. intros k x H. destruct (pi_in_U0 _ _ H). rewrite in_app_iff. auto.
Qed.

Lemma pinv_clock U l t : pinv U l -> l_time l <= t ->
  pinv U (mkLog (l_id l) (l_entries l) (l_heads l) (l_next l) t (l_cid l) (l_key l) (l_sort l) (l_deny l)).
Proof.
  intros I Ht. destruct I. split; cbn; auto. intros e He. specialize (pi_time0 e He). lia.
Qed.

Lemma pinv_set_identity U l key : pinv U l -> pinv U (set_identity l key).
Proof.
  intros I. unfold set_identity.
  assert (Ht : l_time l <= Z.max (l_time l) (max_time (oslice (l_heads l)) (l_time l))) by lia.
  destruct I. split; cbn; auto. intros e He. specialize (pi_time0 e He). lia.
Qed.

Lemma pheads_well_keyed U l : pinv U l -> well_keyed (l_heads l).
Proof. intros I k e H. apply (pi_heads _ _ I) in H. destruct H as [H _]. now apply (pi_in_U _ _ I) in H. Qed.

Lemma pinv_well_keyed U l : pinv U l -> well_keyed (l_entries l).
Proof. intros I k e H. now apply (pi_in_U _ _ I). Qed.

Lemma pinv_entry U l e : pinv U l -> In e (ents l) -> In (e_hash e, e) (l_entries l) /\ In e U.
Proof.
  intros I H. apply ents_In in H. destruct H as [k H]. destruct (pi_in_U _ _ I _ _ H) as [HU Hk]. subst. auto.
Qed.

Lemma pinv_agree U l1 l2 k e1 e2 : univ_ok U -> pinv U l1 -> pinv U l2 ->
  In (k, e1) (l_entries l1) -> In (k, e2) (l_entries l2) -> e1 = e2.
Proof.
  intros UO I1 I2 H1 H2. destruct (pi_in_U _ _ I1 _ _ H1), (pi_in_U _ _ I2 _ _ H2).
  apply (u_fun _ UO); auto. congruence.
Qed.

(* predecessors present in the log are strictly older *)
Lemma pinv_mono U l e n p : univ_ok U -> pinv U l ->
  In e (ents l) -> In n (e_next e) -> In (n, p) (l_entries l) -> e_time p < e_time e.
Proof.
  intros UO I He Hn Hp. destruct (pinv_entry _ _ _ I He) as [_ HeU].
  destruct (u_closed _ UO _ _ HeU Hn) as [q [HqU [Hq Ht]]].
  destruct (pi_in_U _ _ I _ _ Hp) as [HpU Hpk].
  assert (p = q) by (apply (u_fun _ UO); auto; congruence). now subst.
Qed.

(* ---- Append ---- *)
Section PAppend.
  Variables (U : list entry) (l : log) (payload : N) (pc : Z) (h : hash) (e : entry).
  Hypothesis UO : univ_ok U.
  Hypothesis I : pinv U l.
  Hypothesis AE : append_entry l payload pc h = Some e.

  Lemma pae_next n : In n (e_next e) <-> In n (okeys (l_heads l)).
  Proof.
    pose proof (pi_heads_nodup _ _ I) as Hnd. pose proof (pheads_well_keyed _ _ I) as Hw.
    unfold append_entry in AE. destruct (traverse _ _ _ _ _); inversion AE; subst; cbn [e_next].
    rewrite uniq_In, <- in_rev, in_map_iff, In_okeys. split.
    - intros [x [Hx Hin]]. apply In_oslice in Hin. destruct Hin as [k Hin].
      apply sorted_heads_In in Hin; auto. pose proof (Hw _ _ Hin) as Hk. exists x. congruence.
    - intros [x Hin]. exists x. split; [now apply Hw|].
      apply In_oslice. exists n. now apply sorted_heads_In.
  Qed.

  Lemma pae_time_gt x : In x (ents l) -> e_time x < e_time e.
  Proof. intros Hx. rewrite (ae_time l payload pc h e AE). pose proof (pi_time _ _ I _ Hx). lia. Qed.

  Hypothesis HC : forall a, In a U -> e_hash a = h -> a = e.

  Lemma pae_fresh : ~ In h (okeys (l_entries l)).
  Proof.
    intros Hin. apply oget_keys in Hin. destruct (oget (l_entries l) h) as [x|] eqn:E; [|congruence].
    apply oget_In in E. destruct (pi_in_U _ _ I _ _ E) as [HxU Hk].
    assert (x = e) by (apply HC; auto). subst x.
    assert (In e (ents l)) by (apply ents_In; eauto).
    pose proof (pae_time_gt _ H). lia.
  Qed.

  (* no entry of the log names the new hash: the named entry would be in the universe, hence be e,
     and older than an entry of the log *)
  Lemma pae_unnamed : ~ named_in (ents l) h.
  Proof.
    intros Hn. apply named_in_iff in Hn. destruct Hn as [y [Hy Hn]].
    destruct (pinv_entry _ _ _ I Hy) as [_ HyU].
    destruct (u_closed _ UO _ _ HyU Hn) as [p [HpU [Hph Hpt]]].
    assert (p = e) by (apply HC; auto). subst p.
    pose proof (pae_time_gt _ Hy). lia.
  Qed.

  Lemma puniv_ok_append : univ_ok (U ++ [e]).
  Proof.
    split.
    - intros a b Ha Hb Hh. rewrite in_app_iff in Ha, Hb. cbn [In] in Ha, Hb.
      destruct Ha as [Ha|[<-|[]]], Hb as [Hb|[<-|[]]]; auto.
      + apply (u_fun _ UO); auto.
      + apply HC; auto. rewrite Hh. apply (ae_hash l payload pc h e AE).
      + symmetry. apply HC; auto. rewrite <- Hh. apply (ae_hash l payload pc h e AE).
    - intros a n Ha Hn. rewrite in_app_iff in Ha. cbn [In] in Ha. destruct Ha as [Ha|[<-|[]]].
      + destruct (u_closed _ UO _ _ Ha Hn) as [p [Hp [Hh Ht]]]. exists p. rewrite in_app_iff. auto.
      + apply pae_next in Hn. apply In_okeys in Hn. destruct Hn as [x Hin].
        apply (pi_heads _ _ I) in Hin. destruct Hin as [Hin _].
        destruct (pi_in_U _ _ I _ _ Hin) as [HxU Hxk]. exists x. rewrite in_app_iff. repeat split; auto.
        apply pae_time_gt. apply ents_In. eauto.
  Qed.

  Lemma pentries_after : oset (l_entries l) h e = l_entries l ++ [(h, e)].
  Proof. apply oset_fresh, pae_fresh. Qed.

  Lemma pfold_next_keys (ns : list hash) (nx : omap) n :
    In n (okeys (fold_left (fun nx n => oset nx n e) ns nx)) <-> In n (okeys nx) \/ In n ns.
  Proof.
    revert nx. induction ns as [|x ns IH]; intros nx; cbn [fold_left In]; [tauto|].
    rewrite IH, In_okeys_oset. intuition (subst; auto).
  Qed.

  Theorem pinv_append : allowed l e = true -> pinv (U ++ [e]) (fst (append l payload pc h)).
  Proof.
    intros A. unfold append. rewrite AE, A. cbn [fst].
    assert (Hents : oslice (oset (l_entries l) h e) = ents l ++ [e]).
    { rewrite pentries_after. unfold ents, oslice. now rewrite map_app. }
    assert (Hnamed : forall k, named_in (ents l ++ [e]) k <-> named_in (ents l) k \/ In k (e_next e)).
    { intros k. unfold named_in, all_nexts. rewrite flat_map_app, in_app_iff. cbn. rewrite app_nil_r. tauto. }
    split; cbn [l_entries l_heads l_next l_time l_id]; unfold ents; cbn [l_entries].
    - apply NoDup_okeys_oset, (pi_nodup _ _ I).
    - intros k x H. rewrite pentries_after, in_app_iff in H. cbn [In] in H. destruct H as [H|[H|[]]].
      + destruct (pi_in_U _ _ I _ _ H). rewrite in_app_iff. auto.
      + injection H as <- <-. rewrite in_app_iff. cbn. split; [auto|apply (ae_hash l payload pc h e AE)].
    - intros x Hx. rewrite Hents, in_app_iff in Hx. cbn [In] in Hx. destruct Hx as [Hx|[<-|[]]].
      + now apply (pi_logid _ _ I).
      + apply (ae_logid l payload pc h e AE).
    - cbn. constructor; [tauto|constructor].
    - intros k x. rewrite Hents, Hnamed. cbn [from_entries fold_left oset In]. rewrite pentries_after, in_app_iff. cbn [In].
      rewrite (ae_hash l payload pc h e AE). split.
      + intros [H|[]]. injection H as <- <-. split; [auto|]. intros [Hn|Hn].
        * now apply pae_unnamed.
        * apply pae_next in Hn. apply In_okeys in Hn. destruct Hn as [y Hin].
          apply (pi_heads _ _ I) in Hin. destruct Hin as [Hin _]. apply pae_fresh. apply In_okeys. eauto.
      + intros [[H|[H|[]]] Hn]; [|now left]. exfalso. apply Hn.
        destruct (classic_named (ents l) k) as [Y|Nn]; [now left|]. right. apply pae_next.
        assert (In (k, x) (l_heads l)) by (apply (pi_heads _ _ I); auto).
        apply In_okeys. eauto.
    - intros n. rewrite pfold_next_keys, Hents, Hnamed. now rewrite (pi_next _ _ I).
    - intros x Hx. rewrite Hents, in_app_iff in Hx. cbn [In] in Hx. destruct Hx as [Hx|[<-|[]]]; [|lia].
      pose proof (pae_time_gt _ Hx). lia.
  Qed.
End PAppend.
