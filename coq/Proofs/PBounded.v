(* The size-bounded Join between ANY two logs satisfying the partial-log invariant - logs that
   earlier bounded joins truncated included (generated from BoundedProofs.v, Section Bounded, by
   renaming linv -> pinv; the proofs only ever used facts that [pinv] provides). *)
From Coq Require Import List ZArith Bool Lia Permutation Sorted.
From IpfsLog Require Import Model.Log Proofs.OmapProofs Proofs.SortProofs Proofs.Inv Proofs.DiffProofs
     Proofs.JoinProofs Proofs.TravProofs Proofs.ValuesProofs Proofs.BoundedProofs Proofs.PInv Proofs.PJoin Proofs.PValues.
Import ListNotations.
Open Scope Z_scope.

Section PBounded.
  Variables (U : list entry) (l o : log).
  Hypothesis UO : univ_ok U.
  Hypothesis Il : pinv U l.
  Hypothesis Io : pinv U o.
  Hypothesis SameId : l_id l = l_id o.
  Variable newitems : omap.
  Hypothesis D : difference (l_entries o) (oslice (l_heads o)) l = Some newitems.
  Hypothesis OK : forallb (entry_ok l) (oslice newitems) = true.

  Notation full := (j_log l o newitems).
  Hypothesis TO : times_ok full.
  Hypothesis OT : order_total full.

  Variable size : Z.
  Hypothesis Hsize : 0 <= size.

  Theorem pbounded_join_spec :
    exists vu l',
      values full = Some vu /\
      join l o false size = (l', Ok tt) /\
      let keep := lastn (Z.to_nat size) (oslice vu) in
      (forall k v, In (k, v) (l_entries l') <-> In v keep /\ e_hash v = k) /\
      (forall k v, In (k, v) (l_heads l') <-> In v keep /\ e_hash v = k /\ ~ named_in keep k) /\
      NoDup (okeys (l_entries l')) /\ NoDup (okeys (l_heads l')).
  Proof.
    pose proof (pinv_join_unbounded U l o UO Il Io SameId newitems D) as If.
    destruct (pvalues_spec U full UO If TO OT) as [vu [V [A [B _]]]].
    exists vu.
    assert (Hnd : NoDup (map e_hash (oslice vu))).
    { replace (map e_hash (oslice vu)) with (okeys vu); [exact A|].
      unfold okeys, oslice. rewrite map_map. apply map_ext_in. intros [k' e'] Hin. cbn. symmetry.
      apply B in Hin. now apply (pi_in_U _ _ If) in Hin. }
    set (tmp := if size <? olen vu then skipn (Z.to_nat (olen vu - size)) (oslice vu) else oslice vu).
    assert (Htmp : tmp = lastn (Z.to_nat size) (oslice vu)).
    { unfold tmp, lastn, olen. assert (length (oslice vu) = length vu) by (unfold oslice; apply map_length).
      destruct (Z.ltb_spec size (Z.of_nat (length vu))).
      - f_equal. lia.
      - replace (length (oslice vu) - Z.to_nat size)%nat with 0%nat by lia. reflexivity. }
    assert (Hndt : NoDup (map e_hash tmp)).
    { rewrite Htmp. unfold lastn. rewrite map_skipn. now apply skipn_NoDup. }
    eexists. split; [exact V|]. split.
    - unfold join, join_reads.
      assert (E0 : N.eqb (l_id l) (l_id o) = true) by (apply N.eqb_eq; exact SameId). rewrite E0. cbn [negb].
      rewrite D, OK. cbn [negb].
      assert (E : size <? 0 = false) by (apply Z.ltb_ge; lia). rewrite E.
      fold_j_ents l newitems. rewrite (pown_heads_o U l o UO Il Io SameId newitems D).
      change (values _) with (values full). rewrite V. fold tmp. reflexivity.
    - cbn zeta. cbn [l_entries l_heads]. rewrite <- Htmp. split; [|split; [|split]].
      + intros k v. now apply from_entries_iff.
      + intros k v. rewrite from_entries_iff by (apply find_heads_hashes_nodup, from_entries_hashes_nodup).
        rewrite find_heads_In, oslice_from_entries_iff by assumption. unfold named_in.
        assert (X : forall h, In h (all_nexts (oslice (from_entries tmp))) <-> In h (all_nexts tmp)).
        { intros h. apply (named_in_perm (oslice (from_entries tmp)) tmp h). intros x. now apply oslice_from_entries_iff. }
        split.
        * intros [[H1 H2] H3]. repeat split; auto. rewrite <- H3. intro Hc. apply H2. now apply X.
        * intros [H1 [H2 H3]]. repeat split; auto. rewrite H2. intro Hc. apply H3. now apply X.
      + apply (from_entries_props tmp).
      + apply (from_entries_props _).
  Qed.

  (* ... and the reverse next index of the log it leaves is that of the kept entries: nothing is
     remembered of the entries that were dropped *)
  Theorem pbounded_join_next :
    exists vu l',
      values full = Some vu /\ join l o false size = (l', Ok tt) /\
      forall n, In n (okeys (l_next l')) <-> named_in (lastn (Z.to_nat size) (oslice vu)) n.
  Proof.
    pose proof (pinv_join_unbounded U l o UO Il Io SameId newitems D) as If.
    destruct (pvalues_spec U full UO If TO OT) as [vu [V _]].
    exists vu.
    set (tmp := if size <? olen vu then skipn (Z.to_nat (olen vu - size)) (oslice vu) else oslice vu).
    assert (Htmp : tmp = lastn (Z.to_nat size) (oslice vu)).
    { unfold tmp, lastn, olen. assert (length (oslice vu) = length vu) by (unfold oslice; apply map_length).
      destruct (Z.ltb_spec size (Z.of_nat (length vu))).
      - f_equal. lia.
      - replace (length (oslice vu) - Z.to_nat size)%nat with 0%nat by lia. reflexivity. }
    eexists. split; [exact V|]. split.
    - unfold join, join_reads.
      assert (E0 : N.eqb (l_id l) (l_id o) = true) by (apply N.eqb_eq; exact SameId). rewrite E0. cbn [negb].
      rewrite D, OK. cbn [negb].
      assert (E : size <? 0 = false) by (apply Z.ltb_ge; lia). rewrite E.
      fold_j_ents l newitems. rewrite (pown_heads_o U l o UO Il Io SameId newitems D).
      change (values _) with (values full). rewrite V. fold tmp. reflexivity.
    - cbn zeta. cbn [l_next]. rewrite <- Htmp. intros n. rewrite next_index_keys. cbn. tauto.
  Qed.

  (* a bound at least as large as the merged log keeps everything *)
  Corollary pbounded_join_large vu l' :
    values full = Some vu -> join l o false size = (l', Ok tt) -> Z.of_nat (length vu) <= size ->
    forall k v, In (k, v) (l_entries l') <-> In (k, v) (l_entries full).
  Proof.
    intros V J Hl. destruct pbounded_join_spec as [vu' [l'' [V' [J' [A _]]]]].
    rewrite V in V'. injection V' as <-. rewrite J in J'. injection J' as <-.
    intros k v. rewrite A. rewrite lastn_all by (unfold oslice; rewrite map_length; lia).
    destruct (pvalues_spec U full UO (pinv_join_unbounded U l o UO Il Io SameId newitems D) TO OT) as [vu2 [V2 [_ [B _]]]].
    rewrite V in V2. injection V2 as <-. rewrite <- B. rewrite In_oslice. split.
    - intros [[k' H] Hk]. pose proof H as H'. apply B in H'. apply (pi_in_U _ _ (pinv_join_unbounded U l o UO Il Io SameId newitems D)) in H'.
      destruct H' as [_ H']. congruence.
    - intros H. split; [eauto|]. apply B in H. now apply (pi_in_U _ _ (pinv_join_unbounded U l o UO Il Io SameId newitems D)) in H.
  Qed.
End PBounded.
