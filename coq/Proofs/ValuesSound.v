(* Values() under any ordering, ties included, on any log whose heads are entries of the log: only entries
   of the log, no key twice.  (Completeness and the order clauses need a total ordering: PValues / ValuesProofs.) *)
From Coq Require Import List ZArith Bool Lia.
From IpfsLog Require Import Model.System Proofs.OmapProofs Proofs.TravProofs Proofs.IterSound Proofs.IterNoDup.
Import ListNotations.
Open Scope Z_scope.

Theorem values_sound l v :
  (forall k e, In (k, e) (l_heads l) -> In (k, e) (l_entries l)) ->
  values l = Some v ->
  NoDup (okeys v) /\ okeys v = map e_hash (oslice v) /\
  (forall e, In e (oslice v) -> In e (oslice (l_entries l))).
Proof.
  intros HH V. unfold values in V.
  destruct (traverse (l_entries l) (l_sort l) (l_heads l) (-1) None) as [res|] eqn:T; [|discriminate].
  inversion V; subst. clear V.
  assert (HQ : Forall (fun e => In e (oslice (l_entries l))) (oslice (l_heads l))).
  { apply Forall_forall. intros e He. apply In_oslice in He. destruct He as [k He].
    apply In_oslice. exists k. now apply HH. }
  pose proof (traverse_Q _ _ _ _ _ _ HQ T) as F. unfold traverse in T.
  assert (K0 : own_keys []) by (split; [constructor|reflexivity]).
  destruct (trav_own_keys _ _ _ _ _ _ _ _ _ _ K0 T) as [ND EQ].
  unfold okeys, oslice in *. rewrite !map_rev. split; [now apply NoDup_rev|]. split; [now rewrite EQ|].
  intros e He. apply in_rev in He. rewrite Forall_forall in F. now apply F.
Qed.
