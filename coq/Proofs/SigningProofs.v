(* Lemmas about Model/Signing.v: what the signing bytes determine (injectivity of the view built
   from the GENERATED table Gen/Signed.v), and tamper evidence modulo the signature oracle. *)
From Coq Require Import List NArith ZArith Bool Lia Permutation String.
From IpfsLog Require Import Model.Json Model.SignedTags Gen.Signed Model.Signing Proofs.JsonProofs.   (* deps *)
Import ListNotations.
Open Scope N_scope.

(* ------------------------------------------------------------------------------------------ *)
(* byte strings                                                                                *)

Lemma bytes_eqb_eq a b : bytes_eqb a b = true <-> a = b.
Proof.
  revert b. induction a as [|x a IH]; intros [|y b]; simpl; split; try congruence; try discriminate.
  - intros H. apply andb_true_iff in H. destruct H as [H1 H2]. apply N.eqb_eq in H1. apply IH in H2. congruence.
  - intros H. inversion H; subst. apply andb_true_iff. split; [apply N.eqb_refl|now apply IH].
Qed.

Lemma hexdigit_inj a b : a < 16 -> b < 16 -> hexdigit a = hexdigit b -> a = b.
Proof.
  unfold hexdigit. intros Ha Hb.
  destruct (a <? 10) eqn:Ea; destruct (b <? 10) eqn:Eb;
    try apply N.ltb_lt in Ea; try apply N.ltb_ge in Ea; try apply N.ltb_lt in Eb; try apply N.ltb_ge in Eb; lia.
Qed.

Lemma hexdigit_ascii a : a < 16 -> hexdigit a < 0x80.
Proof. unfold hexdigit. intros Ha. destruct (a <? 10); lia. Qed.

Lemma bytes_ok_cons b bs : bytes_ok (b :: bs) = true <-> b < 256 /\ bytes_ok bs = true.
Proof.
  unfold bytes_ok. cbn [forallb]. rewrite andb_true_iff, N.ltb_lt. reflexivity.
Qed.

(* hex.EncodeToString is injective *)
Lemma hex_encode_inj a b :
  bytes_ok a = true -> bytes_ok b = true -> hex_encode a = hex_encode b -> a = b.
Proof.
  revert b. induction a as [|x a IH]; intros [|y b] Ha Hb H; try reflexivity; try discriminate.
  apply bytes_ok_cons in Ha. apply bytes_ok_cons in Hb. destruct Ha as [Hx Ha], Hb as [Hy Hb].
  unfold hex_encode in H. cbn [flat_map app] in H. injection H as H1 H2 H3.
  divmod x 16. divmod y 16.
  apply hexdigit_inj in H1; [|lia|lia]. apply hexdigit_inj in H2; [|lia|lia].
  f_equal; [lia|]. now apply IH.
Qed.

Lemma hex_encode_ascii a : bytes_ok a = true -> Forall (fun b => b < 0x80) (hex_encode a).
Proof.
  induction a as [|x a IH]; intros Ha; [constructor|].
  apply bytes_ok_cons in Ha. destruct Ha as [Hx Ha].
  unfold hex_encode. cbn [flat_map app]. divmod x 16.
  constructor; [apply hexdigit_ascii; lia|]. constructor; [apply hexdigit_ascii; lia|]. now apply IH.
Qed.

(* ------------------------------------------------------------------------------------------ *)
(* reading a member of an object back from its sanitised form                                  *)

Lemma jlookup_perm {V} (l l' : list (bytes * V)) :
  Permutation l l' -> NoDup (map fst l) -> forall k, jlookup k l = jlookup k l'.
Proof.
  induction 1 as [| [kx vx] l l' Hp IH | [kx vx] [ky vy] l | l l' l'' Hp1 IH1 Hp2 IH2]; intros Hnd k.
  - reflexivity.
  - cbn [jlookup]. inversion Hnd; subst. destruct (bytes_eqb k kx); [reflexivity|now apply IH].
  - cbn [jlookup]. destruct (bytes_eqb k ky) eqn:Ey; destruct (bytes_eqb k kx) eqn:Ex; try reflexivity.
    apply bytes_eqb_eq in Ey. apply bytes_eqb_eq in Ex. subst.
    inversion Hnd as [|? ? Hnot _]; subst. exfalso. apply Hnot. now left.
  - rewrite IH1 by assumption. apply IH2.
    eapply Permutation_NoDup; [|exact Hnd]. now apply Permutation_map.
Qed.

Lemma jlookup_on_value {V W} (f : V -> W) k l :
  jlookup k (map (on_value f) l) = option_map f (jlookup k l).
Proof.
  induction l as [|[k' v] l IH]; [reflexivity|]. cbn [map on_value jlookup].
  destruct (bytes_eqb k k'); [reflexivity|exact IH].
Qed.

Definition keys_ok (kvs : list (bytes * json)) : Prop :=
  NoDup (map fst kvs) /\ Forall (fun k => valid_utf8 k = true) (map fst kvs).

Lemma san_key_valid l :
  Forall (fun k => valid_utf8 k = true) (map fst l) -> map san_key l = l.
Proof.
  induction l as [|[k v] l IH]; intros H; [reflexivity|]. inversion H; subst.
  cbn [map]. unfold san_key at 1. cbn [fst snd]. rewrite valid_utf8_sanitize by assumption.
  now rewrite IH.
Qed.

Lemma sanitize_obj_lookup kvs1 kvs2 :
  keys_ok kvs1 -> keys_ok kvs2 -> sanitize (JObj kvs1) = sanitize (JObj kvs2) ->
  forall k, option_map sanitize (jlookup k kvs1) = option_map sanitize (jlookup k kvs2).
Proof.
  intros [Hnd1 Hv1] [Hnd2 Hv2] H k. rewrite !sanitize_obj in H. injection H as H.
  assert (Hk : forall kvs, Forall (fun k => valid_utf8 k = true) (map fst kvs) ->
               Forall (fun k => valid_utf8 k = true) (map fst (map (on_value sanitize) (sort_kvs kvs)))).
  { intros kvs Hv. rewrite map_map. erewrite map_ext; [|intros; apply on_value_fst].
    eapply Permutation_Forall; [|exact Hv]. apply Permutation_map. symmetry. apply sort_kvs_perm. }
  rewrite !san_key_valid in H by (apply Hk; assumption).
  rewrite (jlookup_perm kvs1 (sort_kvs kvs1)), (jlookup_perm kvs2 (sort_kvs kvs2));
    try assumption; try (symmetry; apply sort_kvs_perm).
  rewrite <- !jlookup_on_value. now rewrite H.
Qed.

(* boolean checks on concrete key lists *)
Fixpoint nodupb (l : list bytes) : bool :=
  match l with [] => true | k :: t => negb (existsb (bytes_eqb k) t) && nodupb t end.

Lemma nodupb_NoDup l : nodupb l = true -> NoDup l.
Proof.
  induction l as [|k t IH]; intros H; [constructor|].
  cbn [nodupb] in H. apply andb_true_iff in H. destruct H as [H1 H2].
  constructor; [|now apply IH]. intros Hin.
  apply negb_true_iff in H1. assert (existsb (bytes_eqb k) t = true); [|congruence].
  apply existsb_exists. exists k. split; [assumption|now apply bytes_eqb_eq].
Qed.

Lemma keys_ok_check kvs :
  nodupb (map fst kvs) && forallb valid_utf8 (map fst kvs) = true -> keys_ok kvs.
Proof.
  intros H. apply andb_true_iff in H. destruct H as [H1 H2]. split; [now apply nodupb_NoDup|].
  now apply Forall_forall, forallb_forall.
Qed.

(* ------------------------------------------------------------------------------------------ *)
(* the view                                                                                    *)

Local Notation bs := bytes_of_string.

Definition field_key (f : signed_field) : bytes :=
  match f with
  | SF_null k | SF_id k | SF_payload k | SF_next k | SF_refs k | SF_v k | SF_clock k _ => bs k
  end.

Definition ad_keys (adk : option string) (nonempty : bool) : list bytes :=
  match adk with Some k => if nonempty then [bs k] else [] | None => [] end.

(* the keys of the signed map: the generated literal keys, plus the conditional one *)
Definition view_keys (nonempty : bool) : list bytes :=
  map field_key signed_fields ++ ad_keys signed_additional_data nonempty.

(* checked by computation on the generated table: keys are pairwise distinct (a Go map) and text *)
Lemma view_keys_ok b : nodupb (view_keys b) && forallb valid_utf8 (view_keys b) = true.
Proof. destruct b; vm_compute; reflexivity. Qed.

(* ToHashable fills the Hashable fields from the getters the composition in Gen/Signed.v assumes *)
Lemma hashable_sources_expected :
  jlookup (bs "ID") (map (fun p => (bs (fst p), snd p)) hashable_fields) = Some HS_logid /\
  jlookup (bs "Payload") (map (fun p => (bs (fst p), snd p)) hashable_fields) = Some HS_payload /\
  jlookup (bs "Next") (map (fun p => (bs (fst p), snd p)) hashable_fields) = Some HS_next_b58 /\
  jlookup (bs "Refs") (map (fun p => (bs (fst p), snd p)) hashable_fields) = Some HS_refs_b58 /\
  jlookup (bs "V") (map (fun p => (bs (fst p), snd p)) hashable_fields) = Some HS_v /\
  jlookup (bs "Clock") (map (fun p => (bs (fst p), snd p)) hashable_fields) = Some HS_clock /\
  jlookup (bs "AdditionalData") (map (fun p => (bs (fst p), snd p)) hashable_fields) = Some HS_additional_data.
Proof. repeat split; reflexivity. Qed.

Section View.
  Variable cid : Type.
  Variable cid_str : cid -> bytes.
  (* ASSUMPTIONS on the CID text encoding (multibase base58btc of the CID bytes): injective, and
     made of base58 characters (ASCII, hence valid UTF-8) *)
  Hypothesis cid_str_inj : forall a b, cid_str a = cid_str b -> a = b.
  Hypothesis cid_str_text : forall c, valid_utf8 (cid_str c) = true.

  Notation entry := (entry cid).
  Notation sig_view := (sig_view cid cid_str).
  Notation signing_bytes := (signing_bytes cid cid_str).
  Notation members := (view_members cid cid_str signed_fields signed_additional_data).

  Definition ad_nonempty (e : entry) : bool := match e_ad e with [] => false | _ :: _ => true end.

  Lemma members_keys e : map fst (members e) = view_keys (ad_nonempty e).
  Proof.
    unfold view_members, view_keys. rewrite map_app, map_map.
    assert (E1 : map (fun x => fst (field_member cid cid_str e x)) signed_fields = map field_key signed_fields).
    { apply map_ext. intros []; reflexivity. }
    assert (E2 : map fst (ad_member cid signed_additional_data e) = ad_keys signed_additional_data (ad_nonempty e)).
    { unfold ad_member, ad_keys, ad_nonempty. destruct signed_additional_data; [|reflexivity].
      destruct (e_ad e); reflexivity. }
    now rewrite E1, E2.
  Qed.

  Lemma members_keys_ok e : keys_ok (members e).
  Proof. apply keys_ok_check. rewrite members_keys. apply view_keys_ok. Qed.

  (* each of these is a computation over the generated table: it fails to compile when the field
     disappears from toBuffer (or is fed from a different Hashable field) *)
  Lemma lookup_id e : jlookup (bs "id") (members e) = Some (JStr (e_logid e)).
  Proof. reflexivity. Qed.
  Lemma lookup_payload e : jlookup (bs "payload") (members e) = Some (JStr (e_payload e)).
  Proof. reflexivity. Qed.
  Lemma lookup_next e : jlookup (bs "next") (members e) = Some (cids_json cid cid_str (e_next e)).
  Proof. reflexivity. Qed.
  Lemma lookup_refs e : jlookup (bs "refs") (members e) = Some (cids_json cid cid_str (e_refs e)).
  Proof. reflexivity. Qed.
  Lemma lookup_v e : jlookup (bs "v") (members e) = Some (JNum (Z.of_N (e_v e))).
  Proof. reflexivity. Qed.
  Definition clock_obj (e : entry) : list (bytes * json) :=
    [(bs "id", JStr (hex_encode (e_clock_id e))); (bs "time", JNum (e_clock_time e))].
  Lemma lookup_clock e : jlookup (bs "clock") (members e) = Some (JObj (clock_obj e)).
  Proof. reflexivity. Qed.
  Lemma lookup_ad e :
    jlookup (bs "additional_data") (members e)
    = match e_ad e with [] => None | _ :: _ => Some (ad_json (e_ad e)) end.
  Proof. unfold view_members, ad_member. destruct (e_ad e); reflexivity. Qed.

  Lemma clock_obj_keys_ok e : keys_ok (clock_obj e).
  Proof. apply keys_ok_check. vm_compute. reflexivity. Qed.

  Lemma cids_json_inj l1 l2 :
    sanitize (cids_json cid cid_str l1) = sanitize (cids_json cid cid_str l2) -> l1 = l2.
  Proof.
    unfold cids_json. cbn [sanitize]. intros H. injection H as H. revert l2 H.
    induction l1 as [|a l1 IH]; intros [|b l2] H; try reflexivity; try discriminate.
    cbn [map sanitize] in H. injection H as Hab H.
    rewrite !valid_utf8_sanitize in Hab by apply cid_str_text.
    f_equal; [now apply cid_str_inj|now apply IH].
  Qed.

  Lemma ad_json_canon ad1 ad2 :
    sanitize (ad_json ad1) = sanitize (ad_json ad2) -> ad_canon ad1 = ad_canon ad2.
  Proof.
    unfold ad_json, ad_canon. rewrite !sanitize_obj.
    assert (E : forall ad : list (bytes * bytes),
               map (fun kv => (fst kv, JStr (snd kv))) ad = map (on_value JStr) ad).
    { intros ad. apply map_ext. intros []; reflexivity. }
    rewrite !E, !(sort_kvs_map (on_value JStr) (on_value_fst JStr)).
    intros H. injection H as H. revert H.
    generalize (sort_kvs ad1) (sort_kvs ad2). clear.
    induction l as [|[k1 v1] l IH]; intros [|[k2 v2] l2] H; try reflexivity; try discriminate.
    cbn [map on_value san_key fst snd sanitize] in *. injection H as Hk Hv H.
    rewrite Hk, Hv. f_equal. now apply IH.
  Qed.

  (* what the sanitised view (= what the signing bytes carry) determines *)
  Definition same_signed_fields (e1 e2 : entry) : Prop :=
    sanitize_str (e_logid e1) = sanitize_str (e_logid e2) /\
    sanitize_str (e_payload e1) = sanitize_str (e_payload e2) /\
    e_next e1 = e_next e2 /\                      (* as lists: membership AND order *)
    e_refs e1 = e_refs e2 /\
    e_v e1 = e_v e2 /\
    (bytes_ok (e_clock_id e1) = true -> bytes_ok (e_clock_id e2) = true -> e_clock_id e1 = e_clock_id e2) /\
    e_clock_time e1 = e_clock_time e2 /\
    ad_canon (e_ad e1) = ad_canon (e_ad e2).

  Theorem sig_view_injective e1 e2 :
    sanitize (sig_view e1) = sanitize (sig_view e2) -> same_signed_fields e1 e2.
  Proof.
    intros H. unfold Signing.sig_view in H.
    pose proof (sanitize_obj_lookup _ _ (members_keys_ok e1) (members_keys_ok e2) H) as L.
    unfold same_signed_fields.
    split; [|split; [|split; [|split; [|split; [|split; [|split]]]]]].
    - specialize (L (bs "id")). rewrite !lookup_id in L. cbn [option_map sanitize] in L. congruence.
    - specialize (L (bs "payload")). rewrite !lookup_payload in L. cbn [option_map sanitize] in L. congruence.
    - specialize (L (bs "next")). rewrite !lookup_next in L. cbn [option_map] in L.
      apply cids_json_inj. congruence.
    - specialize (L (bs "refs")). rewrite !lookup_refs in L. cbn [option_map] in L.
      apply cids_json_inj. congruence.
    - specialize (L (bs "v")). rewrite !lookup_v in L. cbn [option_map sanitize] in L.
      apply N2Z.inj. congruence.
    - intros Hb1 Hb2. specialize (L (bs "clock")). rewrite !lookup_clock in L. cbn [option_map] in L.
      assert (L' : sanitize (JObj (clock_obj e1)) = sanitize (JObj (clock_obj e2))) by congruence.
      clear L; rename L' into L.
      pose proof (sanitize_obj_lookup _ _ (clock_obj_keys_ok e1) (clock_obj_keys_ok e2) L (bs "id")) as Li.
      change (jlookup (bs "id") (clock_obj e1)) with (Some (JStr (hex_encode (e_clock_id e1)))) in Li.
      change (jlookup (bs "id") (clock_obj e2)) with (Some (JStr (hex_encode (e_clock_id e2)))) in Li.
      cbn [option_map sanitize] in Li. injection Li as Li.
      rewrite !ascii_sanitize in Li by (now apply hex_encode_ascii).
      now apply hex_encode_inj.
    - specialize (L (bs "clock")). rewrite !lookup_clock in L. cbn [option_map] in L.
      assert (L' : sanitize (JObj (clock_obj e1)) = sanitize (JObj (clock_obj e2))) by congruence.
      clear L; rename L' into L.
      pose proof (sanitize_obj_lookup _ _ (clock_obj_keys_ok e1) (clock_obj_keys_ok e2) L (bs "time")) as Lt.
      change (jlookup (bs "time") (clock_obj e1)) with (Some (JNum (e_clock_time e1))) in Lt.
      change (jlookup (bs "time") (clock_obj e2)) with (Some (JNum (e_clock_time e2))) in Lt.
      cbn [option_map sanitize] in Lt. congruence.
    - specialize (L (bs "additional_data")). rewrite !lookup_ad in L.
      destruct (e_ad e1) as [|p1 a1] eqn:E1; destruct (e_ad e2) as [|p2 a2] eqn:E2;
        cbn [option_map] in L; try discriminate; [reflexivity|].
      apply ad_json_canon. congruence.
  Qed.

  Theorem signing_bytes_injective e1 e2 :
    signing_bytes e1 = signing_bytes e2 -> same_signed_fields e1 e2.
  Proof. intros H. apply sig_view_injective. now apply print_injective. Qed.

  (* for text payloads / log ids the fields themselves are determined *)
  Corollary signing_bytes_injective_text e1 e2 :
    text_ok cid e1 -> text_ok cid e2 -> signing_bytes e1 = signing_bytes e2 ->
    e_logid e1 = e_logid e2 /\ e_payload e1 = e_payload e2 /\ e_next e1 = e_next e2 /\
    e_refs e1 = e_refs e2 /\ e_v e1 = e_v e2 /\ e_clock_id e1 = e_clock_id e2 /\
    e_clock_time e1 = e_clock_time e2 /\ ad_canon (e_ad e1) = ad_canon (e_ad e2).
  Proof.
    intros (Hp1 & Hl1 & Hc1) (Hp2 & Hl2 & Hc2) H.
    destruct (signing_bytes_injective e1 e2 H) as (A & B & C & D & E & F & G & I).
    rewrite !valid_utf8_sanitize in A, B by assumption. repeat split; auto.
  Qed.
End View.

(* ------------------------------------------------------------------------------------------ *)
(* tamper evidence, modulo the signature scheme                                                *)

Section Tamper.
  Variable cid : Type.
  Variable cid_str : cid -> bytes.
  Hypothesis cid_str_inj : forall a b, cid_str a = cid_str b -> a = b.
  Hypothesis cid_str_text : forall c, valid_utf8 (cid_str c) = true.

  Variables skey pkey : Type.
  Variable pub : skey -> pkey.
  Variable pub_bytes : skey -> bytes.
  Variable unmarshal : bytes -> option pkey.
  Variable sign : skey -> bytes -> bytes.
  Variable verify : pkey -> bytes -> bytes -> bool.

  Notation entry := (entry cid).
  Notation signing_bytes := (signing_bytes cid cid_str).
  Notation verify_entry := (verify_entry cid cid_str pkey unmarshal verify).
  Notation create_entry := (create_entry cid cid_str skey pub_bytes sign).
  Notation honest := (honest cid cid_str skey pub_bytes sign).
  Notation modify_one_signed_field := (modify_one_signed_field cid cid_str skey pkey pub unmarshal sign).

  (* key and signature are not part of the signed view *)
  Lemma signing_bytes_set_key e k : signing_bytes (set_key cid e k) = signing_bytes e.
  Proof. reflexivity. Qed.
  Lemma signing_bytes_set_sig e s : signing_bytes (set_sig cid e s) = signing_bytes e.
  Proof. reflexivity. Qed.

  Lemma create_entry_honest sk data e : create_entry sk data = Some e -> honest sk e.
  Proof.
    unfold Signing.create_entry. destruct (e_logid data); [discriminate|].
    intros H. injection H as <-. split; reflexivity.
  Qed.

  Lemma verify_entry_true e :
    verify_entry e = true ->
    exists pk, unmarshal (e_key e) = Some pk /\ verify pk (signing_bytes e) (e_sig e) = true.
  Proof.
    unfold Signing.verify_entry, presign_default.
    destruct (e_key e); [discriminate|]. destruct (e_sig e); [discriminate|].
    destruct (unmarshal _) as [pk|]; [|discriminate]. intros H. now exists pk.
  Qed.

  Section Unforgeable.
    (* ASSUMPTION (not provable here; what existential unforgeability gives for the modifications
       C07 lists): a signature produced for message m under private key sk verifies under a public
       key pk' for a message m' only if pk' is sk's public key and m' = m. *)
    Hypothesis sig_binding :
      forall sk m pk' m', verify pk' m' (sign sk m) = true -> pk' = pub sk /\ m' = m.
    (* ASSUMPTION: unmarshalling the marshalled public key of sk gives sk's public key *)
    Hypothesis unmarshal_pub : forall sk, unmarshal (pub_bytes sk) = Some (pub sk).

    Lemma tamper_same_sig sk e e' :
      honest sk e -> e_sig e' = e_sig e -> verify_entry e' = true -> signing_bytes e' = signing_bytes e.
    Proof.
      intros [Hs _] Es V. apply verify_entry_true in V. destruct V as (pk & _ & V).
      rewrite Es, Hs in V. now apply sig_binding in V.
    Qed.

    Theorem tamper sk e e' :
      honest sk e -> modify_one_signed_field sk e e' -> text_ok cid e -> text_ok cid e' ->
      verify_entry e' = false.
    Proof.
      intros Hh M T T'. destruct (verify_entry e') eqn:V; [exfalso|reflexivity].
      destruct M as [p Hne -> | x Hne -> | l Hne -> | l Hne -> | v Hne -> | x Hne -> | t Hne -> | ad Hne ->
                    | k Hne -> | sk2 m2 Hne ->].
      1-8: match type of V with (_ ?e' = true) => pose proof (tamper_same_sig sk e e' Hh eq_refl V) as E end;
           destruct (signing_bytes_injective_text cid cid_str cid_str_inj cid_str_text _ _ T' T E)
             as (A & B & C & D & F & G & I & J);
           unfold set_payload, set_logid, set_next, set_refs, set_v, set_clock_id, set_clock_time, set_ad in *;
           cbn [e_logid e_payload e_next e_refs e_v e_clock_id e_clock_time e_ad] in *; congruence.
      - (* another key *)
        apply verify_entry_true in V. destruct V as (pk & U & V).
        rewrite signing_bytes_set_key in V. unfold set_key in U, V. cbn [e_key e_sig] in U, V. destruct Hh as [Hs _]. rewrite Hs in V.
        apply sig_binding in V. destruct V as [-> _]. congruence.
      - (* another honestly produced signature *)
        apply verify_entry_true in V. destruct V as (pk & U & V).
        rewrite signing_bytes_set_sig in V. unfold set_sig in U, V. cbn [e_key e_sig] in U, V. destruct Hh as [_ Hk]. rewrite Hk, unmarshal_pub in U.
        injection U as <-. apply sig_binding in V. destruct V as [V1 V2].
        destruct Hne as [Hne|Hne]; congruence.
    Qed.
  End Unforgeable.

  Section Correct.
    (* ASSUMPTIONS for the positive direction (used by C06's "created entries verify") *)
    Hypothesis sign_correct : forall sk m, verify (pub sk) m (sign sk m) = true.
    Hypothesis unmarshal_pub : forall sk, unmarshal (pub_bytes sk) = Some (pub sk).
    Hypothesis pub_bytes_nonempty : forall sk, pub_bytes sk <> [].
    Hypothesis sign_nonempty : forall sk m, sign sk m <> [].

    Lemma honest_verifies sk e : honest sk e -> verify_entry e = true.
    Proof.
      intros [Hs Hk]. unfold Signing.verify_entry, presign_default. rewrite Hk, Hs.
      pose proof (pub_bytes_nonempty sk). pose proof (sign_nonempty sk (signing_bytes e)).
      destruct (pub_bytes sk) eqn:Ek; [congruence|]. destruct (sign sk _) eqn:Es; [congruence|].
      rewrite <- Ek, unmarshal_pub, <- Es. apply sign_correct.
    Qed.

    Theorem created_entry_verifies sk data e : create_entry sk data = Some e -> verify_entry e = true.
    Proof. intros H. apply honest_verifies with sk. now apply create_entry_honest in H. Qed.

    (* entries with the same key, signature and signing bytes are indistinguishable to Verify *)
    Lemma verify_entry_ext e e' :
      e_key e' = e_key e -> e_sig e' = e_sig e -> signing_bytes e' = signing_bytes e ->
      verify_entry e' = verify_entry e.
    Proof.
      intros Hk Hs Hb. unfold Signing.verify_entry, presign_default. now rewrite Hk, Hs, Hb.
    Qed.
  End Correct.
End Tamper.

(* ------------------------------------------------------------------------------------------ *)
(* K1: payload bytes inside invalid UTF-8 are not covered                                      *)

Section Refutation.
  Variable cid : Type.
  Variable cid_str : cid -> bytes.

  Definition k1_entry (p : bytes) : entry cid :=
    Build_entry cid [65] p [] [] 2 [1] 0%Z [] [2] [3].

  Lemma k1_signing_bytes_equal :
    signing_bytes cid cid_str (k1_entry [0xff]) = signing_bytes cid cid_str (k1_entry [0xfe]).
  Proof. vm_compute. reflexivity. Qed.

  Lemma k1_signing_bytes_equal_2 :      (* the DESIGN.md probe: ff 01 vs fe 01 *)
    signing_bytes cid cid_str (k1_entry [0xff; 0x01]) = signing_bytes cid cid_str (k1_entry [0xfe; 0x01]).
  Proof. vm_compute. reflexivity. Qed.

  (* the same defect for the log id (a Go string may hold any bytes) *)
  Lemma k1_logid_signing_bytes_equal :
    signing_bytes cid cid_str (set_logid cid (k1_entry [65]) [0x69; 0xff])
    = signing_bytes cid cid_str (set_logid cid (k1_entry [65]) [0x69; 0xfe]).
  Proof. vm_compute. reflexivity. Qed.
End Refutation.

Section RefutationVerify.
  Variable cid : Type.
  Variable cid_str : cid -> bytes.
  Variables skey pkey : Type.
  Variable pub : skey -> pkey.
  Variable pub_bytes : skey -> bytes.
  Variable unmarshal : bytes -> option pkey.
  Variable sign : skey -> bytes -> bytes.
  Variable verify : pkey -> bytes -> bytes -> bool.
  Hypothesis sign_correct : forall sk m, verify (pub sk) m (sign sk m) = true.
  Hypothesis unmarshal_pub : forall sk, unmarshal (pub_bytes sk) = Some (pub sk).
  Hypothesis pub_bytes_nonempty : forall sk, pub_bytes sk <> [].
  Hypothesis sign_nonempty : forall sk m, sign sk m <> [].

  (* sk's entry with payload [ff] *)
  Definition k1_signed (sk : skey) : entry cid :=
    set_sig cid (set_key cid (k1_entry cid [0xff]) (pub_bytes sk))
            (sign sk (signing_bytes cid cid_str (k1_entry cid [0xff]))).

  (* for EVERY correct signature scheme: an honest entry, a payload modification, and the modified
     entry still verifies *)
  Lemma k1_tamper_verifies sk :
    honest cid cid_str skey pub_bytes sign sk (k1_signed sk) /\
    modify_one_signed_field cid cid_str skey pkey pub unmarshal sign sk (k1_signed sk)
                            (set_payload cid (k1_signed sk) [0xfe]) /\
    verify_entry cid cid_str pkey unmarshal verify (set_payload cid (k1_signed sk) [0xfe]) = true.
  Proof.
    assert (Hh : honest cid cid_str skey pub_bytes sign sk (k1_signed sk)) by (split; reflexivity).
    split; [exact Hh|]. split.
    - apply Mod_payload with (p := [0xfe]); [discriminate|reflexivity].
    - rewrite (verify_entry_ext cid cid_str pkey unmarshal verify (k1_signed sk));
        [|reflexivity|reflexivity|vm_compute; reflexivity].
      now apply (honest_verifies cid cid_str skey pkey pub pub_bytes unmarshal sign verify) with sk.
  Qed.
End RefutationVerify.

(* ------------------------------------------------------------------------------------------ *)
(* the suggested repair (Model/Signing.v: sig_view_fixed): binds every payload                 *)

Section Fixed.
  Variable cid : Type.
  Variable cid_str : cid -> bytes.
  Local Notation bs := bytes_of_string.

  Definition fixed_keys (nonempty valid : bool) : list bytes :=
    view_keys nonempty ++ if valid then [] else [bs "payload_hex"].
  Lemma fixed_keys_ok b v : nodupb (fixed_keys b v) && forallb valid_utf8 (fixed_keys b v) = true.
  Proof. destruct b, v; vm_compute; reflexivity. Qed.

  Definition members_fixed (e : entry cid) : list (bytes * json) :=
    view_members cid cid_str signed_fields signed_additional_data e
    ++ if valid_utf8 (e_payload e) then [] else [(bs "payload_hex", JStr (hex_encode (e_payload e)))].

  Lemma members_fixed_keys_ok e : keys_ok (members_fixed e).
  Proof.
    apply keys_ok_check. unfold members_fixed. rewrite map_app, members_keys.
    replace (map fst (if valid_utf8 (e_payload e) then [] else [(bs "payload_hex", JStr (hex_encode (e_payload e)))]))
      with (if valid_utf8 (e_payload e) then [] else [bs "payload_hex"]) by (destruct (valid_utf8 _); reflexivity).
    apply fixed_keys_ok.
  Qed.

  Lemma lookup_payload_fixed e : jlookup (bs "payload") (members_fixed e) = Some (JStr (e_payload e)).
  Proof. reflexivity. Qed.

  Lemma lookup_payload_hex_fixed e :
    jlookup (bs "payload_hex") (members_fixed e)
    = if valid_utf8 (e_payload e) then None else Some (JStr (hex_encode (e_payload e))).
  Proof.
    unfold members_fixed, view_members, ad_member.
    destruct (e_ad e); destruct (valid_utf8 (e_payload e)); reflexivity.
  Qed.

  Theorem payload_bound_after_fix e1 e2 :
    signing_bytes_fixed cid cid_str e1 = signing_bytes_fixed cid cid_str e2 ->
    bytes_ok (e_payload e1) = true -> bytes_ok (e_payload e2) = true ->
    e_payload e1 = e_payload e2.
  Proof.
    intros H B1 B2. apply print_injective in H.
    change (sig_view_fixed cid cid_str e1) with (JObj (members_fixed e1)) in H.
    change (sig_view_fixed cid cid_str e2) with (JObj (members_fixed e2)) in H.
    pose proof (sanitize_obj_lookup _ _ (members_fixed_keys_ok e1) (members_fixed_keys_ok e2) H) as L.
    pose proof (L (bs "payload")) as Lp. pose proof (L (bs "payload_hex")) as Lh.
    rewrite !lookup_payload_fixed in Lp. rewrite !lookup_payload_hex_fixed in Lh.
    cbn [option_map sanitize] in Lp.
    destruct (valid_utf8 (e_payload e1)) eqn:V1; destruct (valid_utf8 (e_payload e2)) eqn:V2;
      cbn [option_map sanitize] in Lh; try discriminate.
    - rewrite !valid_utf8_sanitize in Lp by assumption. congruence.
    - injection Lh as Lh. rewrite !ascii_sanitize in Lh by (now apply hex_encode_ascii).
      now apply hex_encode_inj.
  Qed.
End Fixed.

(* ------------------------------------------------------------------------------------------ *)
(* a toy instance of every section hypothesis (the assumptions are jointly satisfiable)       *)
Definition toy_cid_str (b : bool) : bytes := if b then [97] else [98].
Definition toy_pub (sk : N) : N := sk.
Definition toy_pub_bytes (sk : N) : bytes := [sk].
Definition toy_unmarshal (k : bytes) : option N := match k with [x] => Some x | _ => None end.
Definition toy_sign (sk : N) (m : bytes) : bytes := sk :: m.
Definition toy_verify (pk : N) (m s : bytes) : bool := bytes_eqb s (pk :: m).

Lemma toy_laws :
  (forall a b, toy_cid_str a = toy_cid_str b -> a = b) /\
  (forall c, valid_utf8 (toy_cid_str c) = true) /\
  (forall sk m pk' m', toy_verify pk' m' (toy_sign sk m) = true -> pk' = toy_pub sk /\ m' = m) /\
  (forall sk, toy_unmarshal (toy_pub_bytes sk) = Some (toy_pub sk)) /\
  (forall sk m, toy_verify (toy_pub sk) m (toy_sign sk m) = true) /\
  (forall sk, toy_pub_bytes sk <> []) /\ (forall sk m, toy_sign sk m <> []).
Proof.
  repeat split.
  - intros [] []; simpl; congruence.
  - intros []; reflexivity.
  - unfold toy_verify, toy_sign in H. apply bytes_eqb_eq in H. now inversion H.
  - unfold toy_verify, toy_sign in H. apply bytes_eqb_eq in H. now inversion H.
  - intros sk m. unfold toy_verify, toy_sign, toy_pub. now apply bytes_eqb_eq.
  - discriminate.
  - discriminate.
Qed.

(* a concrete honest entry with two predecessors, and a swap of them: Verify accepts the first and
   rejects the second (computed in the toy instance) *)
Lemma toy_tamper_instance :
  let data := Build_entry bool [108; 111; 103] [104; 105] [true; false] [false] 0 [] 0%Z [([107], [118])] [] [] in
  exists e, create_entry bool toy_cid_str N toy_pub_bytes toy_sign 7 data = Some e /\
    text_ok bool e /\
    verify_entry bool toy_cid_str N toy_unmarshal toy_verify e = true /\
    modify_one_signed_field bool toy_cid_str N N toy_pub toy_unmarshal toy_sign 7 e (set_next bool e [false; true]) /\
    verify_entry bool toy_cid_str N toy_unmarshal toy_verify (set_next bool e [false; true]) = false.
Proof.
  intros data. eexists. split; [reflexivity|]. split; [repeat split; reflexivity|].
  split; [vm_compute; reflexivity|]. split; [|vm_compute; reflexivity].
  apply Mod_next with (l := [false; true]); [discriminate|reflexivity].
Qed.

