(* Bridge between the log model (Model/Log.v, invariant [linv] of Proofs/Inv.v, proved for every
   replica of every well-formed history in Proofs/SysProofs.v) and the fetcher / loader model
   (Model/Fetcher.v): a log that satisfies [linv] is, seen as a set of stored blocks, well formed
   in the sense of [log_wf] (Proofs/LoaderProofs.v), so the reload theorems of C09 apply to every
   reachable log state.

   Both models define names such as [mem], [new_log], [find_heads], [step], [run_from]; the log
   side is imported first and the fetcher side last, clashing log-side names are qualified.     *)
From Coq Require Import List ZArith NArith Bool Lia Permutation.
From IpfsLog Require Import Model.Log Model.System Proofs.OmapProofs Proofs.Inv Proofs.TravProofs
  Proofs.ValuesProofs Proofs.SysProofs.
From IpfsLog Require Import Model.Fetcher Proofs.FetcherBasics Proofs.FetcherProofs Proofs.LoaderProofs.
Import ListNotations.
Open Scope Z_scope.

(* ---- translation ---- *)
Definition fentry_of (e : Log.entry) : fentry :=
  {| fe_hash := e_hash e; fe_next := e_next e; fe_refs := e_refs e; fe_time := e_time e;
     fe_id := e_cid e; fe_logid := e_logid e |}.

(* the entry set, the heads and a block store holding exactly the log's entries *)
Definition fentries_of (l : log) : list fentry := map fentry_of (ents l).
Definition fheads_of (l : log) : list fentry := map fentry_of (oslice (l_heads l)).
Definition store_of (m : omap) : store := map (fun kv => (fst kv, fentry_of (snd kv))) m.

(* explicit hypotheses about the log and the store it was published to *)
(* refs point into the log (they are picked among the entries traversed from the heads) *)
Definition refs_in_log (l : log) : Prop :=
  forall e, In e (ents l) -> forall r, In r (e_refs e) -> In r (okeys (l_entries l)).
(* every entry of the log is retrievable under its (defined) hash: C17 + no faults *)
Definition store_has (cfg : config) (l : log) : Prop :=
  forall e, In e (ents l) ->
    e_hash e <> 0%N /\ store_get (cf_store cfg) (e_hash e) = Some (fentry_of e).

Lemma fentry_of_hash e : fe_hash (fentry_of e) = e_hash e.
Proof. reflexivity. Qed.

Lemma hashes_fentries l : map fe_hash (fentries_of l) = map e_hash (ents l).
Proof. unfold fentries_of. rewrite map_map. reflexivity. Qed.

Lemma nexts_fentries es : flat_map fe_next (map fentry_of es) = all_nexts es.
Proof. unfold all_nexts. induction es as [|e es IH]; cbn; [reflexivity|]. now rewrite IH. Qed.

Section Bridge.
  Variable U : list Log.entry.
  Variable l : log.
  Variable cfg : config.
  Hypothesis UO : univ_ok U.
  Hypothesis I : linv U l.
  Hypothesis Hrefs : refs_in_log l.
  Hypothesis Hstore : store_has cfg l.
  Hypothesis Hnoexcl : forall h, cf_excl cfg h = false.      (* ShouldExclude = nil *)

  Notation sget := (store_get (cf_store cfg)).

  Lemma keys_are_hashes : map e_hash (ents l) = okeys (l_entries l).
  Proof.
    unfold ents, oslice, okeys. rewrite map_map. apply map_ext_in. intros [k e] Hin. cbn.
    now apply (li_in_U _ _ I).
  Qed.

  Lemma key_entry k : In k (okeys (l_entries l)) -> exists e, In e (ents l) /\ e_hash e = k /\ In (k, e) (l_entries l).
  Proof.
    intros Hk. apply In_okeys in Hk. destruct Hk as [e He]. exists e.
    split; [apply ents_In; eauto|]. split; [now apply (li_in_U _ _ I)|assumption].
  Qed.

  Lemma ents_same_hash a b : In a (ents l) -> In b (ents l) -> e_hash a = e_hash b -> a = b.
  Proof.
    intros Ha Hb Heq. destruct (linv_entry _ _ _ I Ha) as [_ HaU]. destruct (linv_entry _ _ _ I Hb) as [_ HbU].
    now apply (u_fun _ UO).
  Qed.

  Lemma key_wanted k : In k (okeys (l_entries l)) -> wanted cfg k.
  Proof.
    intros Hk. destruct (key_entry k Hk) as [e [He [<- _]]]. split; [apply (Hstore e He)|apply Hnoexcl].
  Qed.

  Lemma sget_key k e : In (k, e) (l_entries l) -> sget k = Some (fentry_of e).
  Proof.
    intros Hin. assert (He : In e (ents l)) by (apply ents_In; eauto).
    destruct (li_in_U _ _ I _ _ Hin) as [_ <-]. apply (Hstore e He).
  Qed.

  Lemma heads_in_entries k e : In (k, e) (l_heads l) -> In (k, e) (l_entries l).
  Proof. intros H. now apply (li_heads _ _ I) in H. Qed.

  (* reachability in the log's index = reachability in the store *)
  Lemma treach_next_reach k :
    treach (l_entries l) (oslice (l_heads l)) k ->
    next_reach cfg (map fe_hash (fheads_of l)) k.
  Proof.
    intros T. induction T as [r Hr|h e n T IH Hg Hn].
    - apply In_oslice in Hr. destruct Hr as [k Hr]. pose proof (heads_in_entries _ _ Hr) as He.
      destruct (li_in_U _ _ I _ _ He) as [_ Hk]. apply nr_start.
      + unfold fheads_of. rewrite map_map. apply in_map_iff. exists r. split; [reflexivity|].
        apply In_oslice. eauto.
      + apply key_wanted. rewrite Hk. apply In_okeys. eauto.
    - apply oget_In in Hg. eapply nr_link; [exact IH|apply (sget_key _ _ Hg)|exact Hn|].
      apply key_wanted. apply (li_closed _ _ I e n); [apply ents_In; eauto|assumption].
  Qed.

  Lemma next_reach_key k :
    next_reach cfg (map fe_hash (fheads_of l)) k -> In k (okeys (l_entries l)).
  Proof.
    intros R. induction R as [h Hin Hw|h fe h' R IH Hg Hin Hw].
    - unfold fheads_of in Hin. rewrite map_map in Hin. apply in_map_iff in Hin.
      destruct Hin as [r [<- Hr]]. apply In_oslice in Hr. destruct Hr as [k Hr].
      pose proof (heads_in_entries _ _ Hr) as He. destruct (li_in_U _ _ I _ _ He) as [_ Hk].
      cbn. rewrite Hk. apply In_okeys. eauto.
    - destruct (key_entry h IH) as [e [He [Hh Hke]]]. rewrite (sget_key _ _ Hke) in Hg.
      injection Hg as <-. cbn in Hin. eapply (li_closed _ _ I); eauto.
  Qed.

  Theorem bridge_log_wf : log_wf cfg (fentries_of l) (fheads_of l) (l_id l).
  Proof.
    split.
    - rewrite hashes_fentries, keys_are_hashes. apply (li_nodup _ _ I).
    - intros fe Hfe. unfold fentries_of in Hfe. apply in_map_iff in Hfe. destruct Hfe as [e [<- He]].
      apply (Hstore e He).
    - intros h. rewrite hashes_fentries, keys_are_hashes. split.
      + intros Hk. apply In_okeys in Hk. destruct Hk as [e He].
        apply treach_next_reach. eapply (all_reachable U l UO I); eauto.
      + apply next_reach_key.
    - intros fe h Hfe Hh Hne. unfold fentries_of in Hfe. apply in_map_iff in Hfe.
      destruct Hfe as [e [<- He]]. cbn in Hh. rewrite hashes_fentries, keys_are_hashes.
      exact (Hrefs e He h Hh).
    - intros fe. unfold fheads_of, fentries_of. rewrite nexts_fentries. split.
      + intros Hfe. apply in_map_iff in Hfe. destruct Hfe as [e [<- He]].
        apply In_oslice in He. destruct He as [k He]. apply (li_heads _ _ I) in He.
        destruct He as [He Hn]. destruct (li_in_U _ _ I _ _ He) as [_ Hk]. split.
        * apply in_map. apply ents_In. eauto.
        * cbn. rewrite Hk. exact Hn.
      + intros [Hfe Hn]. apply in_map_iff in Hfe. destruct Hfe as [e [<- He]].
        apply in_map. apply In_oslice. exists (e_hash e).
        apply (li_heads _ _ I). split; [apply (linv_entry _ _ _ I He)|exact Hn].
    - intros fe Hfe. unfold fentries_of in Hfe. apply in_map_iff in Hfe. destruct Hfe as [e [<- He]].
      cbn. now apply (li_logid _ _ I).
  Qed.

  (* the manifest / JSON heads of the log model are the head hashes *)
  Lemma json_heads_iff h : In h (json_heads l) <-> In h (map fe_hash (fheads_of l)).
  Proof.
    unfold json_heads, sort_desc, fheads_of. rewrite map_map. cbn [fe_hash fentry_of].
    rewrite !in_map_iff. split; intros [e [He Hin]]; exists e; split; auto.
    - unfold sort_go in Hin. now apply SortProofs.gosort_in in Hin.
    - unfold sort_go. now apply SortProofs.gosort_in.
  Qed.

  Lemma fheads_nonempty : l_entries l <> [] -> fheads_of l <> [].
  Proof.
    intros Hne Hh. apply (JoinProofs.nonempty_has_head U l l UO I eq_refl Hne).
    unfold fheads_of, oslice in Hh. destruct (l_heads l); [reflexivity|discriminate].
  Qed.
End Bridge.

(* every replica of every well-formed history satisfies the hypotheses on U *)
Lemma replica_linv ops r l : wf ops -> nth_error (s_logs (run ops)) r = Some l ->
  univ_ok (s_univ (run ops)) /\ linv (s_univ (run ops)) l.
Proof.
  intros W H. destruct (sinv_run ops W) as [UO IL]. split; [exact UO|exact (IL r l H)].
Qed.

(* [store_has] is satisfiable for every invariant log: the store that holds exactly its entries *)
Lemma store_find_store_of m k : NoDup (okeys m) -> forall e, In (k, e) m ->
  store_find (store_of m) k = Some (fentry_of e).
Proof.
  induction m as [|[k' e'] m IH]; cbn; intros Hnd e Hin; [contradiction|].
  inversion Hnd as [|? ? Hni Hnd']; subst. destruct Hin as [Hin|Hin].
  - injection Hin as -> ->. now rewrite N.eqb_refl.
  - destruct (N.eqb k' k) eqn:E; [|auto]. apply N.eqb_eq in E. subst k'. exfalso. apply Hni.
    apply In_okeys. eauto.
Qed.

Lemma store_has_store_of U l cfg : linv U l ->
  (forall e, In e (ents l) -> e_hash e <> 0%N) ->
  cf_store cfg = store_of (l_entries l) -> store_has cfg l.
Proof.
  intros I Hd Hs e He. split; [now apply Hd|].
  destruct (linv_entry _ _ _ I He) as [Hin _]. unfold store_get. rewrite Hs.
  rewrite (store_find_store_of _ _ (li_nodup _ _ I) e Hin). reflexivity.
Qed.
