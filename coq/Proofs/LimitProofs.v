(* The fetcher in limited mode (length n >= 0): the min-clock invariant of DESIGN.md A.4 and its
   consequence: at every terminal state of every schedule, an entry of the next-closure is in
   the results or the results hold >= n strictly newer entries.                               *)
From Coq Require Import List ZArith NArith Bool Lia Permutation.
From IpfsLog Require Import Model.Order Model.Fetcher Proofs.FetcherBasics Proofs.FetcherProofs.
Import ListNotations.
Open Scope Z_scope.

(* number of entries of l strictly newer than / at least as new as clock time t *)
Definition newer_in (t : Z) (l : list fentry) : Z := zlen (filter (fun r => t <? fe_time r) l).
Definition geq_in (t : Z) (l : list fentry) : Z := zlen (filter (fun r => t <=? fe_time r) l).

Lemma zlen_app {A} (a b : list A) : zlen (a ++ b) = zlen a + zlen b.
Proof. unfold zlen. rewrite app_length. lia. Qed.

Lemma zlen_filter_le {A} (p : A -> bool) l : zlen (filter p l) <= zlen l.
Proof. unfold zlen. pose proof (filter_length_le_all p l). lia. Qed.

Lemma newer_in_app t a b : newer_in t (a ++ b) = newer_in t a + newer_in t b.
Proof. unfold newer_in. now rewrite filter_app, zlen_app. Qed.

Lemma geq_in_app t a b : geq_in t (a ++ b) = geq_in t a + geq_in t b.
Proof. unfold geq_in. now rewrite filter_app, zlen_app. Qed.

Lemma newer_in_nonneg t l : 0 <= newer_in t l.
Proof. unfold newer_in, zlen. lia. Qed.

Lemma geq_in_nonneg t l : 0 <= geq_in t l.
Proof. unfold geq_in, zlen. lia. Qed.

Lemma zlen_filter_mono {A} (p q : A -> bool) l :
  (forall x, In x l -> q x = true -> p x = true) -> zlen (filter q l) <= zlen (filter p l).
Proof. intros H. unfold zlen. pose proof (filter_length_le p q l H). lia. Qed.

Lemma newer_in_anti t t' l : t' <= t -> newer_in t l <= newer_in t' l.
Proof.
  intros H. apply zlen_filter_mono. intros x _ Hx. apply Z.ltb_lt in Hx. apply Z.ltb_lt. lia.
Qed.

Lemma geq_newer t t' l : t' < t -> geq_in t l <= newer_in t' l.
Proof.
  intros H. apply zlen_filter_mono. intros x _ Hx. apply Z.leb_le in Hx. apply Z.ltb_lt. lia.
Qed.

Lemma filter_all {A} (p : A -> bool) l : (forall x, In x l -> p x = true) -> filter p l = l.
Proof.
  induction l as [|x l IH]; cbn; intros H; [reflexivity|].
  rewrite (H x (or_introl eq_refl)). f_equal. apply IH. intros y Hy. apply H. now right.
Qed.

Lemma newer_in_all t l : (forall r, In r l -> t < fe_time r) -> newer_in t l = zlen l.
Proof. intros H. unfold newer_in. rewrite filter_all; [reflexivity|]. intros r Hr. apply Z.ltb_lt. auto. Qed.

Lemma geq_in_all t l : (forall r, In r l -> t <= fe_time r) -> geq_in t l = zlen l.
Proof. intros H. unfold geq_in. rewrite filter_all; [reflexivity|]. intros r Hr. apply Z.leb_le. auto. Qed.

(* a duplicate-free sublist has no more elements satisfying p *)
Lemma zlen_filter_incl (p : fentry -> bool) (a b : list fentry) :
  NoDup a -> incl a b -> zlen (filter p a) <= zlen (filter p b).
Proof.
  intros Hnd Hi. unfold zlen. apply Nat2Z.inj_le. apply NoDup_incl_length.
  - now apply NoDup_filter.
  - intros x Hx. apply filter_In in Hx. apply filter_In. split; [apply Hi|]; tauto.
Qed.

(* addNextEntry in limited mode enqueues every wanted next hash when its guard holds *)
Lemma add_next_limited_next cfg mn mx e results qc x :
  0 <= cf_length cfg ->
  (zlen results <? cf_length cfg) || (mn <? fe_time e) || (fe_time e =? mn) = true ->
  In x (fe_next e) -> wanted cfg x ->
  cached (snd (add_next cfg mn mx e results qc)) x = true.
Proof.
  intros Hlen Hg Hin Hw. unfold add_next.
  assert (E : cf_length cfg <? 0 = false) by (apply Z.ltb_ge; lia). rewrite E, Hg.
  destruct (add_indexed_spec cfg (fun _ => mx - fe_time e) (fe_next e) 0 qc) as [a1 S1].
  pose proof (as_all _ _ _ _ _ S1 x Hin Hw) as Hc1.
  destruct (zlen results + zlen (fe_refs e) <=? cf_length cfg); [|exact Hc1].
  destruct (add_indexed_spec cfg (fun i => mx - fe_time e + (i + 1) * i) (fe_refs e) 0
              (add_indexed cfg (fun _ => mx - fe_time e) 0 (fe_next e) qc)) as [a2 S2].
  rewrite (add_spec_cached cfg _ _ _ _ x S2), Hc1. reflexivity.
Qed.

Section Limited.
  Variable cfg : config.
  Variable starts : list N.
  Notation sget := (store_get (cf_store cfg)).
  Notation n := (cf_length cfg).
  Hypothesis Hlim : 0 <= n.

  (* J: every result except possibly the last one is at least as new as minClock;
     K: for every processed entry, (1) it was admitted or the results already hold n strictly
        newer entries, and (2) its predecessors were enqueued or the results hold n entries at
        least as new as it. *)
  Record inv_l (s : fstate) : Prop := {
    il_min : forall rs l, st_results s = rs ++ [l] -> forall r, In r rs -> st_min s <= fe_time r;
    il_done : forall h e, cache_get (st_cache s) h = Some TDone -> sget h = Some e ->
        (In e (st_results s) \/ n <= newer_in (fe_time e) (st_results s)) /\
        ((forall x, In x (fe_next e) -> wanted cfg x -> cached (st_cache s) x = true) \/
         n <= geq_in (fe_time e) (st_results s))
  }.

  Lemma inv_l_init : inv_l (init_state cfg starts).
  Proof.
    pose proof (inv_init cfg starts) as I. split.
    - intros rs l H. cbn in H. destruct rs; discriminate.
    - intros h e Hh. exfalso.
      assert (In h (st_requests (init_state cfg starts))) by (apply (inv_requests _ _ _ I); auto).
      assumption.
  Qed.

  (* after updateClock every present result is at least as new as the new minClock *)
  Lemma update_clock_min s e : inv_l s ->
    forall r, In r (st_results s) ->
      fst (update_clock (st_min s) (st_max s) e (last_opt (st_results s))) <= fe_time r.
  Proof.
    intros L r Hr. unfold update_clock. cbn [fst].
    destruct (last_opt (st_results s)) as [l|] eqn:El.
    - assert (Hsplit : exists rs, st_results s = rs ++ [l]).
      { unfold last_opt in El. destruct (rev (st_results s)) as [|x xs] eqn:Er; [discriminate|].
        injection El as ->. exists (rev xs). rewrite <- (rev_involutive (st_results s)), Er. reflexivity. }
      destruct Hsplit as [rs Hrs]. rewrite Hrs in Hr. apply in_app_or in Hr.
      destruct (fe_time l <? st_min s) eqn:E.
      + apply Z.ltb_lt in E. destruct Hr as [Hr|[<-|[]]]; [|lia].
        pose proof (il_min s L rs l Hrs r Hr). lia.
      + apply Z.ltb_ge in E. destruct Hr as [Hr|[<-|[]]]; [|lia].
        exact (il_min s L rs l Hrs r Hr).
    - apply last_opt_nil in El. rewrite El in Hr. contradiction.
  Qed.

  Lemma inv_l_step s ev s' : inv cfg starts s -> inv_l s -> step cfg s ev s' -> inv_l s'.
  Proof.
    intros I L H. destruct H as [s h p Ht Hl Hf Hm|s h ok r Hin Hr|s h r Hp|s Hc Ht].
    - (* dispatch *)
      pose proof (queue_find_In _ _ _ Hf) as Hin.
      assert (Hh : cache_get (st_cache s) h = Some TAdded) by (eapply inv_queue; eauto).
      split; cbn [dispatch_state st_cache st_results st_min].
      + apply (il_min s L).
      + intros x e. rewrite cache_get_set. destruct (N.eqb h x) eqn:E; [discriminate|].
        intros Hx Hs. destruct (il_done s L x e Hx Hs) as [K1 K2]. split; [assumption|].
        destruct K2 as [K2|K2]; [left|now right].
        intros y Hy Hw. rewrite cached_set, (K2 y Hy Hw). apply orb_true_r.
    - split; cbn [return_state st_cache st_results st_min]; [apply (il_min s L)|apply (il_done s L)].
    - (* complete *)
      pose proof (pending_find_In _ _ _ Hp) as Hin.
      assert (Hin' : In h (map fst (st_pending s))) by (apply in_map_iff; exists (h, r); auto).
      unfold complete_state. destruct r as [e|].
      + assert (Hs : sget h = Some e) by (eapply inv_pending; eauto).
        pose proof (store_get_hash _ _ _ Hs) as Hh.
        assert (Hc : cache_get (st_cache (drop_pending s h)) h = Some TInProgress).
        { cbn [drop_pending st_cache]. apply (inv_flight cfg starts s I). apply in_or_app. now right. }
        assert (L1 : inv_l (drop_pending s h)).
        { split; cbn [drop_pending st_cache st_results st_min]; [apply (il_min s L)|apply (il_done s L)]. }
        pose proof (update_clock_min (drop_pending s h) e L1) as Hmin.
        rewrite process_eq by (rewrite Hh; exact Hc). rewrite Hh.
        cbn [drop_pending st_queue st_cache st_fetching st_pending st_results st_min st_max] in *.
        set (mm := update_clock (st_min s) (st_max s) e (last_opt (st_results s))) in *.
        remember (admits n (st_results s) (fst mm) e) as adm eqn:Ea. symmetry in Ea.
        set (results' := if adm then st_results s ++ [e] else st_results s).
        set (qc0 := (st_queue s, cache_set (st_cache s) h TDone)).
        destruct (add_next_spec_w cfg (fst mm) (snd mm) e results' qc0) as [added [Hq Hca Hnd Hnew]].
        cbn [fst snd] in Hca, Hnew.
        assert (Hmono : forall y, cached (st_cache s) y = true ->
                   cached (snd (add_next cfg (fst mm) (snd mm) e results' qc0)) y = true).
        { intros y Hy. rewrite (add_spec_w_cached cfg _ _ _ _ y
                                  (Build_add_spec_w cfg _ _ _ _ Hq Hca Hnd Hnew)).
          subst qc0. cbn [snd]. rewrite cached_set, Hy. now rewrite orb_true_r. }
        assert (Hres_mono : forall x, In x (st_results s) -> In x results').
        { intros x Hx. subst results'. destruct adm; [apply in_or_app; now left|assumption]. }
        assert (Hnew_mono : forall t, newer_in t (st_results s) <= newer_in t results').
        { intros t. subst results'. destruct adm; [|lia]. rewrite newer_in_app.
          pose proof (newer_in_nonneg t [e]). lia. }
        assert (Hgeq_mono : forall t, geq_in t (st_results s) <= geq_in t results').
        { intros t. subst results'. destruct adm; [|lia]. rewrite geq_in_app.
          pose proof (geq_in_nonneg t [e]). lia. }
        split; cbn [st_results st_min st_cache].
        * (* J *)
          intros rs l Hrs r Hr. subst results'. destruct adm; cbv iota in Hrs.
          -- apply app_inj_tail in Hrs. destruct Hrs as [<- _]. now apply Hmin.
          -- apply Hmin. rewrite Hrs. apply in_or_app. now left.
        * (* K *)
          intros x e'. rewrite Hca. destruct (mem x (map snd added)) eqn:Em; [discriminate|].
          subst qc0. cbn [snd]. rewrite cache_get_set. destruct (N.eqb h x) eqn:E.
          -- apply N.eqb_eq in E. subst x. intros _ Hs'. assert (e' = e) by congruence. subst e'.
             split.
             ++ (* admitted, or n strictly newer results *)
                destruct adm; [left; subst results'; cbv iota; apply in_or_app; right; now left|].
                right. subst results'. cbv iota. unfold admits in Ea.
                apply orb_false_iff in Ea. destruct Ea as [Ea Eb].
                apply orb_false_iff in Ea. destruct Ea as [_ Ea]. apply Z.ltb_ge in Ea.
                apply andb_false_iff in Eb.
                assert (Hts : fe_time e < fst mm).
                { destruct Eb as [Eb|Eb]; [apply Z.leb_gt in Eb; lia|apply Z.leb_gt in Eb; lia]. }
                rewrite newer_in_all; [lia|]. intros r Hr. specialize (Hmin r Hr). lia.
             ++ (* predecessors enqueued, or n results at least as new *)
                destruct ((zlen results' <? n) || (fst mm <? fe_time e) || (fe_time e =? fst mm)) eqn:Eg.
                ** left. intros y Hy Hw.
                   exact (add_next_limited_next cfg (fst mm) (snd mm) e results' _ y Hlim Eg Hy Hw).
                ** right. apply orb_false_iff in Eg. destruct Eg as [Eg E3].
                   apply orb_false_iff in Eg. destruct Eg as [E1 E2].
                   apply Z.ltb_ge in E1. apply Z.ltb_ge in E2. apply Z.eqb_neq in E3.
                   assert (Hts : fe_time e < fst mm) by lia.
                   rewrite geq_in_all; [lia|]. intros r Hr. subst results'.
                   destruct adm.
                   --- apply in_app_or in Hr. destruct Hr as [Hr|[<-|[]]]; [|lia].
                       specialize (Hmin r Hr). lia.
                   --- specialize (Hmin r Hr). lia.
          -- intros Hx Hs'. destruct (il_done s L x e' Hx Hs') as [K1 K2]. split.
             ++ destruct K1 as [K1|K1]; [left; auto|right]. specialize (Hnew_mono (fe_time e')). lia.
             ++ destruct K2 as [K2|K2]; [left|right].
                ** intros y Hy Hw. apply Hmono. auto.
                ** specialize (Hgeq_mono (fe_time e')). lia.
      + split; cbn [drop_pending st_cache st_results st_min]; [apply (il_min s L)|apply (il_done s L)].
    - split; cbn [timeout_state st_cache st_results st_min]; [apply (il_min s L)|apply (il_done s L)].
  Qed.

  Theorem inv_l_reachable s : reachable_state cfg starts s -> inv_l s.
  Proof.
    intros Hr. assert (H : inv cfg starts s /\ inv_l s); [|tauto].
    revert s Hr. apply reachable_ind.
    - split; [apply inv_init|apply inv_l_init].
    - intros s0 ev s' _ [I L] Hs. split; [eapply inv_step; eauto|eapply inv_l_step; eauto].
  Qed.

  (* ---- terminal states ---- *)
  (* clock monotone along next (I3 of the stored log); the statement is about the retrievable
     entries of the next-closure, so faults simply shrink what it talks about *)
  Hypothesis Hmono : forall h e h' e', next_reach cfg starts h -> sget h = Some e ->
      In h' (fe_next e) -> wanted cfg h' -> sget h' = Some e' -> fe_time e' < fe_time e.

  Theorem limited_terminal s :
    reachable_state cfg starts s -> terminal s -> st_timedout s = false ->
    forall h e, next_reach cfg starts h -> sget h = Some e ->
      In e (st_results s) \/ n <= newer_in (fe_time e) (st_results s).
  Proof.
    intros Hr T Ht. pose proof (inv_reachable cfg starts s Hr) as I.
    pose proof (inv_x_reachable cfg starts s Hr) as X. pose proof (inv_l_reachable s Hr) as L.
    assert (P : forall h, next_reach cfg starts h -> forall e, sget h = Some e ->
               cache_get (st_cache s) h = Some TDone \/ n <= newer_in (fe_time e) (st_results s)).
    { intros h Hn. induction Hn as [h Hin Hw|h e0 h' Hn IH Hg Hin Hw]; intros e Hs.
      - left. pose proof (inv_starts cfg starts s I h Hin Hw) as Hc.
        destruct (terminal_cached cfg starts s h I X T Ht Hc) as [Hd|Hnone]; [assumption|congruence].
      - pose proof (Hmono h e0 h' e Hn Hg Hin Hw Hs) as Hlt.
        destruct (IH e0 Hg) as [Hd|Hb].
        + destruct (il_done s L h e0 Hd Hg) as [_ [K2|K2]].
          * left. pose proof (K2 h' Hin Hw) as Hc.
            destruct (terminal_cached cfg starts s h' I X T Ht Hc) as [Hd'|Hnone]; [assumption|congruence].
          * right. pose proof (geq_newer (fe_time e0) (fe_time e) (st_results s) Hlt). lia.
        + right. pose proof (newer_in_anti (fe_time e0) (fe_time e) (st_results s)). lia. }
    intros h e Hn Hs. destruct (P h Hn e Hs) as [Hd|Hb]; [|now right].
    exact (proj1 (il_done s L h e Hd Hs)).
  Qed.
End Limited.

(* ---------------------------------------------------------------------------------------- *)
(* a single start hash (NewFromEntryHash): the start entry itself is always admitted, even for
   n = 0, because it is the first entry processed: results = [], maxClock = 0 <= its time       *)

Section SingleStart.
  Variable cfg : config.
  Variable h0 : N.
  Notation starts := [h0].
  Notation sget := (store_get (cf_store cfg)).
  Notation n := (cf_length cfg).
  Hypothesis Htime : forall e, sget h0 = Some e -> 0 <= fe_time e.

  Definition inv_first (s : fstate) : Prop :=
    (st_results s = [] /\ st_max s = 0 /\ (forall x, cached (st_cache s) x = true -> x = h0) /\
     cache_get (st_cache s) h0 <> Some TDone)
    \/ (exists e, sget h0 = Some e /\ In e (st_results s)).

  Lemma inv_first_init : inv_first (init_state cfg starts).
  Proof.
    left. unfold init_state, add_hashes.
    destruct (add_indexed_spec cfg (fun i => i) starts 0 ([], [])) as [added [Hq Hc Hnd Hnew Hall]].
    cbn [st_results st_max st_cache snd fst] in *. repeat split; auto.
    - intros x Hx. unfold cached in Hx. rewrite Hc in Hx. destruct (mem x (map snd added)) eqn:Em; [|discriminate].
      apply mem_In in Em. destruct (Hnew x Em) as [[<-|[]] _]. reflexivity.
    - rewrite Hc. destruct (mem h0 (map snd added)); discriminate.
  Qed.

  Lemma inv_first_step s ev s' : inv cfg starts s -> inv_first s -> step cfg s ev s' -> inv_first s'.
  Proof.
    intros I Q H. destruct H as [s h p Ht Hl Hf Hm|s h ok r Hin Hr|s h r Hp|s Hc Ht].
    - destruct Q as [[Q1 [Q2 [Q3 Q4]]]|Q]; [left|right; exact Q].
      pose proof (queue_find_In _ _ _ Hf) as Hin.
      assert (Hh : cache_get (st_cache s) h = Some TAdded) by (eapply inv_queue; eauto).
      cbn [dispatch_state st_results st_max st_cache]. repeat split; auto.
      + intros x. rewrite cached_set. destruct (N.eqb h x) eqn:E; cbn; [|apply Q3].
        apply N.eqb_eq in E. subst x. intros _. apply Q3. apply cached_true. eauto.
      + rewrite cache_get_set. destruct (N.eqb h h0); [discriminate|exact Q4].
    - exact Q.
    - pose proof (pending_find_In _ _ _ Hp) as Hin.
      unfold complete_state. destruct r as [e|].
      + assert (Hs : sget h = Some e) by (eapply inv_pending; eauto).
        assert (Hc : cache_get (st_cache (drop_pending s h)) h = Some TInProgress).
        { cbn [drop_pending st_cache]. apply (inv_flight cfg starts s I). apply in_or_app. right.
          apply in_map_iff. exists (h, Some e). auto. }
        destruct (process_facts cfg (drop_pending s h) e h Hc Hs)
          as [added [_ [_ [_ [_ [Hres _]]]]]].
        cbn [drop_pending st_results st_min st_max] in Hres.
        destruct Q as [[Q1 [Q2 [Q3 Q4]]]|[e0 [Q5 Q6]]].
        * right. assert (h = h0).
          { apply Q3. apply cached_true. cbn [drop_pending st_cache] in Hc. eauto. }
          subst h. exists e. split; [assumption|]. rewrite Hres, Q1, Q2.
          assert (Ha : admits n [] (fst (update_clock (st_min s) 0 e (last_opt []))) e = true).
          { unfold admits, update_clock, last_opt. cbn [rev fst zlen length Z.of_nat].
            pose proof (Htime e Hs) as Hts.
            destruct (n <? 0) eqn:E1; [reflexivity|]. destruct (0 <? n) eqn:E2; [reflexivity|].
            apply Z.ltb_ge in E1, E2. cbn [orb].
            assert (E3 : n <=? 0 = true) by (apply Z.leb_le; lia). rewrite E3. cbn [andb].
            apply Z.leb_le. destruct (0 <? fe_time e) eqn:E4; [lia|]. apply Z.ltb_ge in E4. lia. }
          rewrite Ha. now left.
        * right. exists e0. split; [assumption|]. rewrite Hres.
          destruct (admits _ _ _ _); [apply in_or_app; now left|assumption].
      + exact Q.
    - exact Q.
  Qed.

  Theorem start_entry_in_results s e :
    reachable_state cfg starts s -> terminal s -> st_timedout s = false ->
    wanted cfg h0 -> sget h0 = Some e -> In e (st_results s).
  Proof.
    intros Hr T Ht Hw Hs.
    assert (Q : inv cfg starts s /\ inv_first s).
    { revert s Hr T Ht. intros s Hr _ _. revert s Hr. apply reachable_ind.
      - split; [apply inv_init|apply inv_first_init].
      - intros s0 ev s1 _ [I Q] Hst. split; [eapply inv_step; eauto|eapply inv_first_step; eauto]. }
    destruct Q as [I [[_ [_ [_ Q4]]]|[e0 [Q5 Q6]]]].
    - exfalso. pose proof (inv_x_reachable cfg starts s Hr) as X.
      assert (Hc : cached (st_cache s) h0 = true) by (apply (inv_starts cfg starts s I); [now left|assumption]).
      destruct (terminal_cached cfg starts s h0 I X T Ht Hc) as [Hd|Hn]; congruence.
    - assert (e0 = e) by congruence. now subst.
  Qed.
End SingleStart.
