(* The system-level invariant for ALL histories - bounded joins included: every replica satisfies
   the partial-log invariant [pinv].  The only requirement on a history is hash consistency of the
   appended entries ([pwf]; [wf] additionally demands unbounded joins, and implies it). *)
From Coq Require Import List ZArith Bool Lia Permutation.
From IpfsLog Require Import Model.System Proofs.OmapProofs Proofs.SortProofs Proofs.Inv Proofs.DiffProofs
     Proofs.JoinProofs Proofs.SysProofs Proofs.PInv Proofs.PJoin.
Import ListNotations.
Open Scope Z_scope.

Definition pwf_step (s : sys) (o : op) : Prop :=
  match o with
  | OAppend r payload pc h | OAppendFail r payload pc h =>
      forall l e, nth_error (s_logs s) r = Some l -> append_entry l payload pc h = Some e ->
                  forall a, In a (s_univ s) -> e_hash a = h -> a = e
  | ONew _ _ _ _ t0 => 0 <= t0
  | OOpen _ _ _ _ _ _ _ => False   (* histories with re-opened logs: POpen.v ([owf], [osinv]) *)
  | _ => True
  end.

Fixpoint pwf_from (s : sys) (ops : list op) : Prop :=
  match ops with
  | [] => True
  | o :: ops' => pwf_step s o /\ pwf_from (fst (step s o)) ops'
  end.
Definition pwf (ops : list op) : Prop := pwf_from empty_sys ops.

Lemma wf_step_pwf s o : wf_step s o -> pwf_step s o.
Proof. destruct o; cbn; auto. Qed.

Lemma wf_from_pwf ops : forall s, wf_from s ops -> pwf_from s ops.
Proof. induction ops as [|o ops IH]; intros s; cbn; [auto|]. intros [A B]. split; [now apply wf_step_pwf|auto]. Qed.

Lemma wf_pwf ops : wf ops -> pwf ops.
Proof. apply wf_from_pwf. Qed.

Definition psinv (s : sys) : Prop :=
  univ_ok (s_univ s) /\ forall r l, nth_error (s_logs s) r = Some l -> pinv (s_univ s) l.

Lemma psinv_empty : psinv empty_sys.
Proof. split; [split; intros a b []|]. intros [|r] l H; discriminate. Qed.

Theorem psinv_step s o : psinv s -> pwf_step s o -> psinv (fst (step s o)).
Proof.
  intros [UO IL] W. destruct o as [id key sf deny t0|r payload pc h|r src size|r key|r mh|r io|r payload pc h|r|osrc okeep ohh oid okey osf odeny]; cbn [step].
  - (* ONew *)
    split; [exact UO|]. cbn [fst s_logs s_univ]. intros r l H.
    destruct (Nat.lt_ge_cases r (length (s_logs s))) as [Hl|Hl].
    + rewrite nth_error_app1 in H by assumption. eauto.
    + rewrite nth_error_app2 in H by assumption. destruct (r - length (s_logs s))%nat as [|n]; cbn in H.
      * injection H as <-. apply pinv_new.
      * destruct n; discriminate.
  - (* OAppend *)
    destruct (nth_error (s_logs s) r) as [l|] eqn:L; [|split; auto].
    specialize (IL r l L) as Il. unfold append.
    destruct (append_entry l payload pc h) as [e|] eqn:AE; cbn [fst]; [|].
    + assert (HC : forall a, In a (s_univ s) -> e_hash a = h -> a = e) by (intros; eapply W; eauto).
      pose proof (puniv_ok_append _ _ _ _ _ _ UO Il AE HC) as UO'.
      destruct (allowed l e) eqn:A; cbn [fst].
      * split; [exact UO'|]. cbn [s_logs s_univ]. intros r' l' H. rewrite nth_error_set_nth, L in H.
        destruct (Nat.eqb r r').
        -- injection H as <-. pose proof (pinv_append _ _ _ _ _ _ UO Il AE HC A) as X.
           unfold append in X. rewrite AE, A in X. exact X.
        -- apply pinv_mono_U. eauto.
      * split; [exact UO'|]. cbn [fst s_logs s_univ]. intros r' l' H. rewrite nth_error_set_nth, L in H.
        destruct (Nat.eqb r r').
        -- injection H as <-. apply pinv_mono_U. apply (pinv_clock _ l); auto.
           pose proof (ae_time_gt_clock l payload pc h e AE). lia.
        -- apply pinv_mono_U. eauto.
    + split; [exact UO|]. cbn [s_logs s_univ]. intros r' l' H. rewrite nth_error_set_nth, L in H.
      destruct (Nat.eqb r r'); [injection H as <-; auto|eauto].
  - (* OJoin: any bound *)
    destruct (nth_error (s_logs s) r) as [l|] eqn:L; [|split; auto].
    destruct (nth_error (s_logs s) src) as [o|] eqn:O; [|split; auto].
    destruct (join l o (Nat.eqb r src) size) as [l' out] eqn:J. cbn [fst].
    split; [exact UO|]. cbn [s_logs s_univ]. intros r' l'' H. rewrite nth_error_set_nth, L in H.
    destruct (Nat.eqb r r'); [|eauto]. injection H as <-.
    exact (pinv_join (s_univ s) l o (Nat.eqb r src) size l' out UO (IL r l L) (IL src o O) J).
  - (* OSetIdentity *)
    destruct (nth_error (s_logs s) r) as [l|] eqn:L; [|split; auto]. cbn [fst].
    split; [exact UO|]. cbn [s_logs s_univ]. intros r' l' H. rewrite nth_error_set_nth, L in H.
    destruct (Nat.eqb r r'); [injection H as <-; apply pinv_set_identity; eauto|eauto].
  - (* OPublish *)
    destruct (nth_error (s_logs s) r) as [l|] eqn:L; [|split; auto].
    destruct (olen (l_heads l) =? 0); split; auto.
  - (* OIter *)
    destruct (nth_error (s_logs s) r) as [l|] eqn:L; [|split; auto].
    destruct (iterator l io) as [[es c]| |]; split; auto.
  - (* OAppendFail *)
    destruct (nth_error (s_logs s) r) as [l|] eqn:L; [|split; auto].
    specialize (IL r l L) as Il.
    destruct (append_entry l payload pc h) as [e|] eqn:AE; cbn [fst]; [|split; auto].
    assert (HC : forall a, In a (s_univ s) -> e_hash a = h -> a = e) by (intros; eapply W; eauto).
    pose proof (puniv_ok_append _ _ _ _ _ _ UO Il AE HC) as UO'.
    split; [exact UO'|]. cbn [fst s_logs s_univ]. intros r' l' H. rewrite nth_error_set_nth, L in H.
    destruct (Nat.eqb r r').
    + injection H as <-. apply pinv_mono_U. apply (pinv_clock _ l); auto.
      pose proof (ae_time_gt_clock l payload pc h e AE). lia.
    + apply pinv_mono_U. eauto.
  - (* OFail *)
    split; auto.
  - (* OOpen: not part of these histories *)
    destruct W.
Qed.

Theorem psinv_run_from ops : forall s, psinv s -> pwf_from s ops -> psinv (run_from s ops).
Proof.
  induction ops as [|o ops IH]; intros s I W; cbn [run_from fold_left]; [exact I|].
  destruct W as [W1 W2]. apply IH; [now apply psinv_step|exact W2].
Qed.

Theorem psinv_run ops : pwf ops -> psinv (run ops).
Proof. intros W. apply psinv_run_from; [apply psinv_empty|exact W]. Qed.
