(* Lemmas about the loader models (log_io.go + NewLog) and the stored-log well-formedness used
   by C09 / C10.                                                                              *)
From Coq Require Import List ZArith NArith Bool Lia Permutation Sorted.
From IpfsLog Require Import Model.Order Model.Fetcher Proofs.SortProofs Proofs.FetcherBasics
  Proofs.FetcherProofs.
Import ListNotations.
Open Scope Z_scope.

Notation hashes l := (map fe_hash l).

(* ---------------------------------------------------------------------------------------- *)
(* NewOrderedMapFromEntries                                                                  *)

Lemma uniq_from_In seen l e : In e (uniq_from seen l) -> In e l /\ ~ In (fe_hash e) seen.
Proof.
  revert seen. induction l as [|x l IH]; intros seen; cbn; [tauto|].
  destruct (mem (fe_hash x) seen) eqn:Em.
  - intros H. destruct (IH _ H). auto.
  - intros [<-|H].
    + split; [now left|]. now apply mem_false.
    + destruct (IH _ H) as [H1 H2]. split; [now right|]. intro Hc. apply H2. now right.
Qed.

Lemma uniq_from_nodup seen l : NoDup (hashes (uniq_from seen l)).
Proof.
  revert seen. induction l as [|x l IH]; intros seen; cbn; [constructor|].
  destruct (mem (fe_hash x) seen); [apply IH|]. cbn. constructor; [|apply IH].
  intro Hin. apply in_map_iff in Hin. destruct Hin as [e [He Hin]].
  apply uniq_from_In in Hin. destruct Hin as [_ Hn]. apply Hn. left. now symmetry.
Qed.

Lemma uniq_from_complete seen l e : In e l -> ~ In (fe_hash e) seen ->
  In (fe_hash e) (hashes (uniq_from seen l)).
Proof.
  revert seen. induction l as [|x l IH]; intros seen; cbn; [tauto|].
  intros [->|Hin] Hn.
  - apply mem_false in Hn. rewrite Hn. now left.
  - destruct (mem (fe_hash x) seen) eqn:Em; [now apply IH|].
    cbn. destruct (N.eq_dec (fe_hash x) (fe_hash e)) as [Heq|Hne]; [now left|].
    right. apply IH; [assumption|]. intros [Hc|Hc]; [congruence|contradiction].
Qed.

Lemma uniq_from_id seen l : NoDup (hashes l) -> (forall e, In e l -> ~ In (fe_hash e) seen) ->
  uniq_from seen l = l.
Proof.
  revert seen. induction l as [|x l IH]; intros seen Hnd Hs; cbn; [reflexivity|].
  inversion Hnd as [|? ? Hni Hnd']; subst.
  assert (Hm : mem (fe_hash x) seen = false) by (apply mem_false, Hs; now left).
  rewrite Hm. f_equal. apply IH; [assumption|].
  intros e He [Hc|Hc]; [|apply (Hs e); [now right|assumption]].
  apply Hni. rewrite Hc. now apply in_map.
Qed.

Lemma ordered_map_In l e : In e (ordered_map l) -> In e l.
Proof. intros H. now apply uniq_from_In in H. Qed.

Lemma ordered_map_nodup l : NoDup (hashes (ordered_map l)).
Proof. apply uniq_from_nodup. Qed.

Lemma ordered_map_complete l e : In e l -> In (fe_hash e) (hashes (ordered_map l)).
Proof. intros H. apply uniq_from_complete; auto. Qed.

Lemma ordered_map_id l : NoDup (hashes l) -> ordered_map l = l.
Proof. intros H. apply uniq_from_id; auto. Qed.

Lemma NoDup_hashes_NoDup (l : list fentry) : NoDup (hashes l) -> NoDup l.
Proof. apply NoDup_map_inv. Qed.

(* entries of a hash-duplicate-free list are determined by their hash *)
Lemma hash_inj_in l a b : NoDup (hashes l) -> In a l -> In b l -> fe_hash a = fe_hash b -> a = b.
Proof.
  induction l as [|x l IH]; cbn; [tauto|]. intros Hnd Ha Hb Heq.
  inversion Hnd as [|? ? Hni Hnd']; subst.
  destruct Ha as [->|Ha]; destruct Hb as [->|Hb]; auto.
  - exfalso. apply Hni. rewrite Heq. now apply in_map.
  - exfalso. apply Hni. rewrite <- Heq. now apply in_map.
Qed.

(* a duplicate-free list inside S that covers all hashes of S is a permutation of S *)
Lemma perm_of_hashes (R S : list fentry) :
  NoDup (hashes R) -> NoDup (hashes S) -> incl R S -> incl (hashes S) (hashes R) -> Permutation R S.
Proof.
  intros HR HS Hi Hh. apply NoDup_Permutation_bis.
  - now apply NoDup_hashes_NoDup.
  - rewrite <- (map_length fe_hash S), <- (map_length fe_hash R). now apply NoDup_incl_length.
  - exact Hi.
Qed.

Lemma ordered_map_perm l S : NoDup (hashes S) -> incl l S -> incl (hashes S) (hashes l) ->
  Permutation (ordered_map l) S.
Proof.
  intros HS Hi Hh. apply perm_of_hashes; auto.
  - apply ordered_map_nodup.
  - intros e He. apply Hi. now apply ordered_map_In.
  - intros h Hin. apply Hh in Hin. apply in_map_iff in Hin. destruct Hin as [e [<- He]].
    now apply ordered_map_complete.
Qed.

(* ---------------------------------------------------------------------------------------- *)
(* entry.Difference, entrySlice, entrySliceRange                                             *)

Lemma has_hash_In h l : has_hash h l = true <-> In h (hashes l).
Proof.
  unfold has_hash. rewrite existsb_exists, in_map_iff. split.
  - intros [e [He Heq]]. apply N.eqb_eq in Heq. eauto.
  - intros [e [Heq He]]. exists e. split; [assumption|]. now apply N.eqb_eq.
Qed.

Lemma difference_from_nil a processed b :
  (forall v, In v b -> In (fe_hash v) (hashes a)) -> difference_from a processed b = [].
Proof.
  induction b as [|v b IH]; intros H; cbn; [reflexivity|].
  assert (Hv : has_hash (fe_hash v) a = true) by (apply has_hash_In, H; now left).
  rewrite Hv. cbn. apply IH. intros w Hw. apply H. now right.
Qed.

Lemma zlen_nonneg {A} (l : list A) : 0 <= zlen l.
Proof. unfold zlen. lia. Qed.

Lemma entry_slice_range_all {A} (l : list A) : entry_slice_range l 0 (zlen l) = l.
Proof.
  unfold entry_slice_range. destruct l as [|x l]; [reflexivity|].
  set (len := zlen (x :: l)). assert (Hpos : 0 < len) by (subst len; unfold zlen; cbn [length]; lia).
  assert (E1 : len =? 0 = false) by (apply Z.eqb_neq; lia). rewrite E1.
  assert (E2 : 0 <? 0 = false) by reflexivity. rewrite E2.
  assert (E3 : len <? 0 = false) by (apply Z.ltb_ge; lia). rewrite E3.
  assert (E4 : len <=? 0 = false) by (apply Z.leb_gt; lia). rewrite E4.
  assert (E5 : len <? len = false) by (apply Z.ltb_irrefl). rewrite E5. rewrite E4.
  rewrite Z.sub_0_r. cbn [Z.to_nat skipn]. subst len. unfold zlen. rewrite Nat2Z.id.
  apply firstn_all.
Qed.

Lemma skipn_incl {A} n (l : list A) : incl (skipn n l) l.
Proof.
  revert l. induction n as [|n IH]; intros l; cbn; [apply incl_refl|].
  destruct l as [|x l]; [apply incl_refl|]. intros y Hy. right. now apply IH.
Qed.

Lemma entry_slice_incl {A} (l : list A) i : incl (entry_slice l i) l.
Proof.
  unfold entry_slice.
  destruct ((zlen l =? 0) || (zlen l <=? i)); [intros x []|].
  destruct ((i =? 0) || ((i <? 0) && (zlen l <=? - i))); [apply incl_refl|].
  destruct (0 <? i); apply skipn_incl.
Qed.

(* entrySlice(l, -n) for n >= 1: the last n elements (everything when n >= len) *)
Lemma entry_slice_neg {A} (l : list A) n : 1 <= n -> entry_slice l (- n) = last_n n l.
Proof.
  intros Hn. unfold entry_slice, last_n. pose proof (zlen_nonneg l) as Hl.
  destruct l as [|x l]; [reflexivity|].
  set (len := zlen (x :: l)) in *. assert (Hpos : 0 < len) by (subst len; unfold zlen; cbn [length]; lia).
  assert (E1 : (len =? 0) || (len <=? - n) = false).
  { apply orb_false_iff. split; [apply Z.eqb_neq; lia|apply Z.leb_gt; lia]. }
  rewrite E1. assert (E2 : - n =? 0 = false) by (apply Z.eqb_neq; lia). rewrite E2.
  assert (E3 : - n <? 0 = true) by (apply Z.ltb_lt; lia). rewrite E3. cbn [orb andb].
  rewrite Z.opp_involutive.
  destruct (len <=? n) eqn:E4.
  - apply Z.leb_le in E4. assert (Hz : (length (x :: l) - Z.to_nat n = 0)%nat).
    { subst len. unfold zlen in E4. lia. }
    rewrite Hz. reflexivity.
  - apply Z.leb_gt in E4. assert (E5 : 0 <? - n = false) by (apply Z.ltb_ge; lia). rewrite E5.
    f_equal. subst len. unfold zlen in *. lia.
Qed.

(* entrySlice(l, -0) returns everything: the n = 0 defect *)
Lemma entry_slice_zero {A} (l : list A) : entry_slice l (- 0) = l.
Proof.
  unfold entry_slice. cbn [Z.opp]. destruct l as [|x l]; [reflexivity|].
  assert (E1 : (zlen (x :: l) =? 0) || (zlen (x :: l) <=? 0) = false).
  { unfold zlen. cbn [length]. apply orb_false_iff. split; [apply Z.eqb_neq; lia|apply Z.leb_gt; lia]. }
  rewrite E1. reflexivity.
Qed.

(* ---------------------------------------------------------------------------------------- *)
(* FindHeads                                                                                 *)

Lemma find_heads_In l e :
  In e (find_heads l) <-> In e l /\ ~ In (fe_hash e) (flat_map fe_next l).
Proof.
  unfold find_heads. rewrite gosort_in, filter_In, negb_true_iff. rewrite mem_false. tauto.
Qed.

Lemma filter_hashes_nodup (p : fentry -> bool) l : NoDup (hashes l) -> NoDup (hashes (filter p l)).
Proof.
  induction l as [|x l IH]; cbn; intros H; [constructor|]. inversion H as [|? ? Hni Hnd]; subst.
  destruct (p x); cbn; [|auto]. constructor; [|auto].
  intro Hin. apply Hni. apply in_map_iff in Hin. destruct Hin as [e [He Hin]].
  apply filter_In in Hin. apply in_map_iff. exists e. tauto.
Qed.

Lemma find_heads_nodup l : NoDup (hashes l) -> NoDup (hashes (find_heads l)).
Proof.
  intros H. unfold find_heads.
  eapply Permutation_NoDup; [apply Permutation_map; symmetry; apply gosort_perm|].
  now apply filter_hashes_nodup.
Qed.

Lemma flat_map_perm_In {A B} (f : A -> list B) l l' x :
  Permutation l l' -> In x (flat_map f l) -> In x (flat_map f l').
Proof.
  intros Hp Hin. apply in_flat_map in Hin. destruct Hin as [a [Ha Hx]].
  apply in_flat_map. exists a. split; [eapply Permutation_in; eauto|assumption].
Qed.

(* ---------------------------------------------------------------------------------------- *)
(* reachability does not depend on the order / multiplicity of the start hashes              *)

Lemma requested_ext cfg starts starts' h :
  (forall x, In x starts -> In x starts') -> requested cfg starts h -> requested cfg starts' h.
Proof.
  intros Hs H. induction H as [h Hin Hw|h e h' Hr IH Hg Hin Hw].
  - apply req_start; auto.
  - eapply req_link; eauto.
Qed.

Lemma next_reach_ext cfg starts starts' h :
  (forall x, In x starts -> In x starts') -> next_reach cfg starts h -> next_reach cfg starts' h.
Proof.
  intros Hs H. induction H as [h Hin Hw|h e h' Hr IH Hg Hin Hw].
  - apply nr_start; auto.
  - eapply nr_link; eauto.
Qed.

Lemma next_reach_requested cfg starts h : next_reach cfg starts h -> requested cfg starts h.
Proof.
  intros H. induction H as [h Hin Hw|h e h' Hr IH Hg Hin Hw].
  - now apply req_start.
  - eapply req_link; eauto. apply in_or_app. now left.
Qed.

Lemma next_reach_wanted cfg starts h : next_reach cfg starts h -> wanted cfg h.
Proof. intros H. destruct H; assumption. Qed.

(* ---------------------------------------------------------------------------------------- *)
(* a stored log                                                                              *)

Section StoredLog.
  Variable cfg : config.
  Variable S : list fentry.         (* the entries of the original log *)
  Variable heads : list fentry.     (* its heads *)
  Variable id : N.                  (* its id *)
  Notation sget := (store_get (cf_store cfg)).

  (* Well-formedness of the stored log.  The three structural clauses (entry set = next-closure
     of the heads, refs inside the entry set, heads = unreferenced entries) are invariants of
     logs built by NewLog/Append/unbounded Join (DESIGN.md 3.3: I2, I4 and "refs in the causal
     past"); they are proved for reachable logs in the core development and taken as hypotheses
     here.  [wf_stored]: every block of the log is retrievable (C17 + no faults). *)
  Record log_wf : Prop := {
    wf_nodup : NoDup (hashes S);
    wf_stored : forall e, In e S -> sget (fe_hash e) = Some e;
    wf_closure : forall h, In h (hashes S) <-> next_reach cfg (hashes heads) h;
    wf_refs : forall e h, In e S -> In h (fe_refs e) -> h <> 0%N -> In h (hashes S);
    wf_heads : forall e, In e heads <-> (In e S /\ ~ In (fe_hash e) (flat_map fe_next S));
    wf_logid : forall e, In e S -> fe_logid e = id
  }.

  Hypothesis WF : log_wf.

  Lemma wf_entry_of_hash h e : In h (hashes S) -> sget h = Some e -> In e S.
  Proof.
    intros Hin Hs. apply in_map_iff in Hin. destruct Hin as [e' [<- He']].
    rewrite (wf_stored WF e' He') in Hs. now injection Hs as <-.
  Qed.

  Lemma wf_heads_in_S e : In e heads -> In e S.
  Proof. intros H. now apply (wf_heads WF) in H. Qed.

  Lemma wf_requested_in_S h : requested cfg (hashes heads) h -> In h (hashes S).
  Proof.
    intros H. induction H as [h Hin Hw|h e h' Hr IH Hg Hin Hw].
    - apply in_map_iff in Hin. destruct Hin as [e [<- He]]. apply in_map. now apply wf_heads_in_S.
    - pose proof (wf_entry_of_hash h e IH Hg) as HeS. apply in_app_or in Hin. destruct Hin as [Hin|Hin].
      + apply (wf_closure WF). eapply nr_link; eauto. now apply (wf_closure WF).
      + eapply (wf_refs WF); eauto. apply Hw.
  Qed.

  (* the set reachable through next and refs is exactly the log *)
  Lemma wf_reachable_iff h : reachable cfg (hashes heads) h <-> In h (hashes S).
  Proof.
    split.
    - intros [Hr _]. now apply wf_requested_in_S.
    - intros Hin. split.
      + apply next_reach_requested. now apply (wf_closure WF).
      + apply in_map_iff in Hin. destruct Hin as [e [<- He]]. rewrite (wf_stored WF e He). discriminate.
  Qed.

  (* ---- the unbounded fetch returns the log, in some order ---- *)
  Lemma wf_fetch_perm starts s :
    (forall h, In h starts <-> In h (hashes heads)) ->
    cf_length cfg < 0 ->
    reachable_state cfg starts s -> terminal s -> st_timedout s = false ->
    Permutation (st_results s) S.
  Proof.
    intros Hst Hlen Hr T Ht.
    pose proof (terminal_exact cfg starts s Hr T Ht Hlen) as Hex.
    pose proof (inv_reachable cfg starts s Hr) as I.
    assert (Hreach : forall h, reachable cfg starts h <-> In h (hashes S)).
    { intros h. rewrite <- wf_reachable_iff. unfold reachable. split; intros [H1 H2]; split; auto;
        eapply requested_ext; try exact H1; intros x Hx; now apply Hst. }
    apply perm_of_hashes.
    - apply (inv_results_nodup cfg starts s I).
    - apply (wf_nodup WF).
    - intros e He. destruct (inv_results cfg starts s I e He) as [_ Hs].
      apply (wf_entry_of_hash (fe_hash e)); [|assumption].
      apply Hreach, Hex. now apply in_map.
    - intros h Hin. apply Hex, Hreach, Hin.
  Qed.

  (* ---- the loaders, applied to any enumeration R of the log ---- *)
  Definition same_log (l' : loaded) : Prop :=
    lg_id l' = id /\ Permutation (lg_entries l') S /\
    (forall e, In e (lg_heads l') <-> In e heads) /\ NoDup (hashes (lg_heads l')).

  Lemma perm_nodup_hashes X : Permutation X S -> NoDup (hashes X).
  Proof.
    intros Hp. eapply Permutation_NoDup; [apply Permutation_map; symmetry; exact Hp|apply (wf_nodup WF)].
  Qed.

  Lemma ordered_map_mem l R e : NoDup (hashes R) -> incl l R -> (In e (ordered_map l) <-> In e l).
  Proof.
    intros Hnd Hi. split; [apply ordered_map_In|]. intros He.
    pose proof (ordered_map_complete l e He) as Hc. apply in_map_iff in Hc.
    destruct Hc as [e' [Heq He']].
    assert (e' = e); [|now subst].
    apply (hash_inj_in R); auto. apply Hi. now apply ordered_map_In.
  Qed.

  Lemma find_heads_perm X e : Permutation X S -> (In e (find_heads X) <-> In e heads).
  Proof.
    intros Hp. rewrite find_heads_In, (wf_heads WF). split; intros [H1 H2]; split.
    - eapply Permutation_in; eauto.
    - intro Hc. apply H2. eapply flat_map_perm_In; [symmetry; exact Hp|exact Hc].
    - eapply Permutation_in; [symmetry|]; eauto.
    - intro Hc. apply H2. eapply flat_map_perm_In; [exact Hp|exact Hc].
  Qed.

  (* NewLog without heads: FindHeads recovers them *)
  Lemma new_log_noheads X : Permutation X S -> same_log (new_log id X []).
  Proof.
    intros Hp. pose proof (perm_nodup_hashes X Hp) as Hnd. unfold new_log, same_log.
    rewrite (ordered_map_id X Hnd). cbn [lg_id lg_entries lg_heads].
    split; [reflexivity|]. split; [assumption|].
    destruct X as [|x X'] eqn:EX.
    - cbn. split; [|constructor]. intros e. split; [tauto|]. intros He.
      apply wf_heads_in_S in He. apply Permutation_nil in Hp. rewrite Hp in He. contradiction.
    - rewrite <- EX in *. clear EX. pose proof (find_heads_nodup X Hnd) as Hfn.
      rewrite (ordered_map_id _ Hfn). split; [|assumption].
      intros e. now apply find_heads_perm.
  Qed.

  Lemma new_log_heads X hs : Permutation X S -> incl hs X -> (forall e, In e hs <-> In e heads) ->
    same_log (new_log id X hs).
  Proof.
    intros Hp Hi Hh. pose proof (perm_nodup_hashes X Hp) as Hnd. unfold new_log, same_log.
    rewrite (ordered_map_id X Hnd). cbn [lg_id lg_entries lg_heads].
    split; [reflexivity|]. split; [assumption|].
    destruct hs as [|h0 hs'] eqn:Eh.
    - destruct X as [|x X'] eqn:EX.
      + cbn. split; [|constructor]. intros e. rewrite <- Hh. tauto.
      + rewrite <- EX in *. clear EX. pose proof (find_heads_nodup X Hnd) as Hfn.
        rewrite (ordered_map_id _ Hfn). split; [|assumption].
        intros e. now apply find_heads_perm.
    - split; [|apply ordered_map_nodup].
      intros e. rewrite (ordered_map_mem (h0 :: hs') X e Hnd Hi). apply Hh.
  Qed.
End StoredLog.

(* ---------------------------------------------------------------------------------------- *)
(* the part of [log_wf] the fetcher theorems need: S is the stored next-closure of ANY list of
   supplied entries (not necessarily the heads of a log) *)

Section StoredClosure.
  Variable cfg : config.
  Variable S : list fentry.
  Variable source : list fentry.
  Notation sget := (store_get (cf_store cfg)).

  Record closure_wf : Prop := {
    cw_nodup : NoDup (hashes S);
    cw_stored : forall e, In e S -> sget (fe_hash e) = Some e;
    cw_closure : forall h, In h (hashes S) <-> next_reach cfg (hashes source) h;
    cw_refs : forall e h, In e S -> In h (fe_refs e) -> h <> 0%N -> In h (hashes S);
    cw_source : incl source S
  }.

  Hypothesis CW : closure_wf.

  Lemma cw_entry_of_hash h e : In h (hashes S) -> sget h = Some e -> In e S.
  Proof.
    intros Hin Hs. apply in_map_iff in Hin. destruct Hin as [e' [<- He']].
    rewrite (cw_stored CW e' He') in Hs. now injection Hs as <-.
  Qed.

  Lemma cw_requested_in_S h : requested cfg (hashes source) h -> In h (hashes S).
  Proof.
    intros H. induction H as [h Hin Hw|h e h' Hr IH Hg Hin Hw].
    - apply in_map_iff in Hin. destruct Hin as [e [<- He]]. apply in_map. now apply (cw_source CW).
    - pose proof (cw_entry_of_hash h e IH Hg) as HeS. apply in_app_or in Hin. destruct Hin as [Hin|Hin].
      + apply (cw_closure CW). eapply nr_link; eauto. now apply (cw_closure CW).
      + eapply (cw_refs CW); eauto. apply Hw.
  Qed.
End StoredClosure.

Lemma log_wf_closure cfg S heads id : log_wf cfg S heads id -> closure_wf cfg S heads.
Proof.
  intros WF. split.
  - apply (wf_nodup _ _ _ _ WF).
  - apply (wf_stored _ _ _ _ WF).
  - apply (wf_closure _ _ _ _ WF).
  - apply (wf_refs _ _ _ _ WF).
  - intros e He. now apply (wf_heads_in_S cfg S heads id WF).
Qed.

Lemma find_hash_Some h l e : find_hash h l = Some e -> In e l /\ fe_hash e = h.
Proof.
  induction l as [|x l IH]; cbn; [discriminate|]. destruct (N.eqb (fe_hash x) h) eqn:E.
  - intros [= <-]. apply N.eqb_eq in E. auto.
  - intros H. destruct (IH H). auto.
Qed.

Lemma find_hash_In l e : NoDup (hashes l) -> In e l -> find_hash (fe_hash e) l = Some e.
Proof.
  induction l as [|x l IH]; cbn; [tauto|]. intros Hnd Hin.
  inversion Hnd as [|? ? Hni Hnd']; subst. destruct Hin as [->|Hin]; [now rewrite N.eqb_refl|].
  destruct (N.eqb (fe_hash x) (fe_hash e)) eqn:E; [|auto].
  apply N.eqb_eq in E. exfalso. apply Hni. rewrite E. now apply in_map.
Qed.

Section Reload.
  Variable cfg : config.
  Variable S : list fentry.
  Variable heads : list fentry.
  Variable id : N.
  Hypothesis WF : log_wf cfg S heads id.

  Notation same := (same_log S heads id).

  Lemma multihash_heads_incl mheads R e : In e (multihash_heads mheads R) -> In e (ordered_map R).
  Proof.
    unfold multihash_heads. intros He. apply in_flat_map in He. destruct He as [h [_ He]].
    destruct (find_hash h (ordered_map R)) as [e'|] eqn:Ef; [|contradiction].
    destruct He as [<-|[]]. now apply find_hash_Some in Ef.
  Qed.

  Lemma reload_multihash R mheads :
    Permutation R S -> (forall h, In h mheads <-> In h (hashes heads)) ->
    same (load_multihash id mheads (-1) R).
  Proof.
    intros Hp Hm. pose proof (perm_nodup_hashes cfg S heads id WF R Hp) as Hnd.
    unfold load_multihash. assert (E : -1 <? -1 = false) by reflexivity. rewrite E.
    apply (new_log_heads cfg S heads id WF); [assumption| |].
    - intros e He. apply multihash_heads_incl in He. now rewrite (ordered_map_id R Hnd) in He.
    - unfold multihash_heads. rewrite (ordered_map_id R Hnd). intros e. split.
      + intros He. apply in_flat_map in He. destruct He as [h [Hh He]].
        destruct (find_hash h R) as [e'|] eqn:Ef; [|contradiction].
        destruct He as [<-|[]]. apply find_hash_Some in Ef. destruct Ef as [HeR Heq].
        apply in_flat_map in Hh. destruct Hh as [e2 [He2 Hh]]. apply in_map_iff in Hh.
        destruct Hh as [h' [Hh1 Hh2]]. apply filter_In in Hh2. destruct Hh2 as [Hh2 Hh3].
        apply N.eqb_eq in Hh3. subst h'. subst h.
        apply Hm in Hh2. apply in_map_iff in Hh2. destruct Hh2 as [e3 [Heq3 He3]].
        assert (e3 = e'); [|now subst].
        apply (hash_inj_in S); [apply (wf_nodup _ _ _ _ WF)| | |congruence].
        * now apply (wf_heads_in_S cfg S heads id WF).
        * eapply Permutation_in; eauto.
      + intros He. pose proof (wf_heads_in_S cfg S heads id WF e He) as HeS.
        assert (HeR : In e R) by (eapply Permutation_in; [symmetry|]; eauto).
        apply in_flat_map. exists (fe_hash e). split.
        * apply in_flat_map. exists e. split; [assumption|]. apply in_map_iff.
          exists (fe_hash e). split; [reflexivity|]. apply filter_In. split; [|apply N.eqb_refl].
          apply Hm. now apply in_map.
        * rewrite (find_hash_In R e Hnd HeR). now left.
  Qed.

  Lemma reload_entryhash R : Permutation R S -> same (load_entryhash id (-1) R).
  Proof.
    intros Hp. unfold load_entryhash. assert (E : -1 <? -1 = false) by reflexivity. rewrite E. rewrite E.
    now apply (new_log_noheads cfg S heads id WF).
  Qed.

  Lemma reload_json R : Permutation R S -> same (load_json id (-1) R).
  Proof.
    intros Hp. unfold load_json. assert (E : -1 <? -1 = false) by reflexivity. rewrite E.
    apply (new_log_noheads cfg S heads id WF).
    rewrite <- Hp. apply sort_go_perm.
  Qed.

  (* fromEntry without limit: the (de-duplicated) sources followed by the other fetched entries *)
  Lemma from_entry_unbounded_perm R source :
    Permutation R S -> incl source S ->
    Permutation (from_entry_values (-1) source R) S.
  Proof.
    intros Hp Hsrc. unfold from_entry_values, entry_fetch_len.
    assert (E : -1 <? -1 = false) by reflexivity. rewrite E. rewrite E.
    pose proof (perm_nodup_hashes cfg S heads id WF R Hp) as HndR.
    rewrite (ordered_map_id R HndR).
    set (src := ordered_map source).
    set (oth := filter (fun e => negb (has_hash (fe_hash e) src)) R).
    assert (Hsrc' : incl src S) by (intros e He; apply Hsrc; now apply ordered_map_In).
    apply perm_of_hashes.
    - rewrite map_app. apply NoDup_app_intro; [apply ordered_map_nodup| |].
      + eapply Permutation_NoDup; [apply Permutation_map; symmetry; apply sort_go_perm|].
        now apply filter_hashes_nodup.
      + intros h Hh Hh2. apply in_map_iff in Hh. destruct Hh as [e [<- He]].
        apply (Permutation_in _ (sort_go_perm fentry cmp_clock false oth)) in He.
        apply filter_In in He. destruct He as [_ Hf]. apply negb_true_iff in Hf.
        apply has_hash_In in Hh2. congruence.
    - apply (wf_nodup _ _ _ _ WF).
    - intros e He. apply in_app_or in He. destruct He as [He|He]; [now apply Hsrc'|].
      apply (Permutation_in _ (sort_go_perm fentry cmp_clock false oth)) in He.
      apply filter_In in He. eapply Permutation_in; [exact Hp|tauto].
    - intros h Hh. rewrite map_app. apply in_or_app.
      destruct (has_hash h src) eqn:Eh; [left; now apply has_hash_In|right].
      apply in_map_iff in Hh. destruct Hh as [e [<- He]]. apply in_map.
      apply (Permutation_in _ (Permutation_sym (sort_go_perm fentry cmp_clock false oth))).
      apply filter_In. split; [eapply Permutation_in; [symmetry; exact Hp|exact He]|].
      now rewrite Eh.
  Qed.

  Lemma reload_entry R source :
    Permutation R S -> (forall e, In e source <-> In e heads) -> heads <> [] ->
    exists l', load_entry (-1) source R = Some l' /\ same l'.
  Proof.
    intros Hp Hsrc Hne. unfold load_entry.
    assert (Hin : incl source S).
    { intros e He. apply (wf_heads_in_S cfg S heads id WF). now apply Hsrc. }
    pose proof (from_entry_unbounded_perm R source Hp Hin) as HpU.
    set (U := from_entry_values (-1) source R) in *.
    destruct (last_opt U) as [l|] eqn:El.
    - exists (new_log (fe_logid l) U []). split; [reflexivity|].
      assert (Hl : fe_logid l = id).
      { apply (wf_logid _ _ _ _ WF). eapply Permutation_in; [exact HpU|]. now apply last_opt_In. }
      rewrite Hl. now apply (new_log_noheads cfg S heads id WF).
    - exfalso. apply last_opt_nil in El. rewrite El in HpU. apply Permutation_nil in HpU.
      destruct heads as [|h0 hs]; [now apply Hne|].
      assert (In h0 S) by (apply (wf_heads_in_S cfg S (h0 :: hs) id WF); now left).
      rewrite HpU in H. contradiction.
  Qed.
End Reload.
