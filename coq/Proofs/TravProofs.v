(* Specification of [trav]/[traverse] (log.go traverse): a priority search from the roots along
   [next] inside the entry index.
   Part A: the inner push loop.  Part B: weak facts for every comparator and every (amount, end).
   Part C: with a comparator that is a strict total order on the entries and ranks larger clock
           times first, the full traversal returns exactly the entries reachable from the roots,
           each once, in strictly descending order; fuel sufficiency. *)
From Coq Require Import List ZArith Bool Lia Permutation Sorted.
From IpfsLog Require Import Model.Log Proofs.OmapProofs Proofs.SortProofs.
Import ListNotations.
Open Scope Z_scope.

Lemma sort_desc_perm s l : Permutation (sort_desc s l) l.
Proof. apply gosort_perm. Qed.
Lemma sort_desc_In s l x : In x (sort_desc s l) <-> In x l.
Proof. apply gosort_in. Qed.

(* number of keys of the index not yet marked *)
Definition unseen (entries : omap) (seen : list hash) : nat :=
  length (filter (fun k => negb (mem k seen)) (okeys entries)).

Lemma filter_length_le {A} (f : A -> bool) l : (length (filter f l) <= length l)%nat.
Proof. induction l as [|x l IH]; cbn; [lia|]. destruct (f x); cbn; lia. Qed.

Lemma filter_length_mono {A} (f g : A -> bool) l :
  (forall x, f x = true -> g x = true) -> (length (filter f l) <= length (filter g l))%nat.
Proof.
  intros H. induction l as [|x l IH]; cbn [filter]; [lia|].
  destruct (f x) eqn:F; [rewrite (H x F); cbn; lia|]. destruct (g x); cbn; lia.
Qed.

Lemma unseen_cons_le entries seen h : (unseen entries (h :: seen) <= unseen entries seen)%nat.
Proof.
  unfold unseen. apply filter_length_mono. intros x. cbn [mem]. rewrite !negb_true_iff, orb_false_iff. tauto.
Qed.

Lemma filter_remove_one (f : hash -> bool) (l : list hash) h :
  NoDup l -> In h l -> f h = true ->
  S (length (filter (fun k => negb (N.eqb k h) && f k) l)) = length (filter f l).
Proof.
  induction l as [|k ks IH]; intros Hnd Hin Hf; [destruct Hin|].
  inversion Hnd as [|? ? Hnk Hnd']; subst. cbn [filter].
  destruct (N.eqb_spec k h) as [->|Hne]; cbn [negb andb].
  - rewrite Hf. cbn [length]. f_equal.
    assert (E : forall x, In x ks -> (negb (N.eqb x h) && f x) = f x).
    { intros x Hx. destruct (N.eqb_spec x h) as [->|]; [contradiction|reflexivity]. }
    clear - E. induction ks as [|x xs IHx]; [reflexivity|]. cbn [filter].
    rewrite (E x (or_introl eq_refl)). destruct (f x); cbn [length]; rewrite IHx; auto;
      intros y Hy; apply E; now right.
  - destruct Hin as [->|Hin]; [contradiction|].
    destruct (f k); cbn [length]; rewrite <- (IH Hnd' Hin Hf); reflexivity.
Qed.

Lemma unseen_cons_lt entries seen h :
  NoDup (okeys entries) -> In h (okeys entries) -> ~ In h seen ->
  S (unseen entries (h :: seen)) = unseen entries seen.
Proof.
  intros Hnd Hin Hn. unfold unseen.
  rewrite <- (filter_remove_one (fun k => negb (mem k seen)) (okeys entries) h Hnd Hin).
  - f_equal. f_equal. apply filter_ext. intros k. cbn [mem]. now rewrite negb_orb.
  - apply negb_true_iff. now apply mem_false.
Qed.

(* ---- Part A: the inner push loop ---- *)
Section Push.
  Variable entries : omap.
  Hypothesis EN : NoDup (okeys entries).
  Hypothesis WK : well_keyed entries.

  Lemma oget_wk c n : oget entries c = Some n -> e_hash n = c.
  Proof. intros H. apply oget_In in H. now apply WK. Qed.

  Lemma push_nexts_spec ns : forall stack seen md stack' seen' md',
    push_nexts entries ns (stack, seen, md) = (stack', seen', md') ->
    (forall x, In x stack' <-> In x stack \/ (exists c, In c ns /\ oget entries c = Some x /\ ~ In c seen)) /\
    (forall h, In h seen' <-> In h seen \/ (In h ns /\ oget entries h <> None)) /\
    (md' = false -> stack' = stack /\ seen' = seen /\ md = false) /\
    (length stack' + unseen entries seen' = length stack + unseen entries seen)%nat.
  Proof.
    induction ns as [|c ns IH]; intros stack seen md stack' seen' md'; unfold push_nexts; cbn [fold_left].
    - intros H. injection H as <- <- <-. repeat split; try tauto.
      + intros [H|[c [[] _]]]; auto.
      + intros [H|[[] _]]; auto.
    - fold (push_nexts entries ns). unfold push_next at 2.
      destruct (oget entries c) as [n|] eqn:G.
      + pose proof (oget_wk _ _ G) as Hk. rewrite Hk.
        destruct (mem c seen) eqn:M.
        * apply mem_In in M. intros H. destruct (IH _ _ _ _ _ _ H) as [A [B [C D]]].
          split; [|split; [|split; [exact C|exact D]]].
          -- intros x. rewrite A. split; [intros [?|[c' [? ?]]]; [auto|right; exists c'; split; [now right|auto]]|].
             intros [?|[c' [[<-|Hc] [Hg Hn]]]]; auto; [contradiction|right; eauto].
          -- intros h. rewrite B. split; [intros [?|[? ?]]; auto; right; split; [now right|auto]|].
             intros [?|[[<-|Hc] Hg]]; auto.
        * apply mem_false in M. intros H. destruct (IH _ _ _ _ _ _ H) as [A [B [C D]]].
          split; [|split; [|split]].
          -- intros x. rewrite A. cbn [In]. split.
             ++ intros [[<-|?]|[c' [Hc [Hg Hn]]]]; auto.
                ** right. exists c. split; [now left|auto].
                ** right. exists c'. split; [now right|]. split; [auto|]. intro; apply Hn; now right.
             ++ intros [?|[c' [[<-|Hc] [Hg Hn]]]]; auto.
                ** rewrite G in Hg. injection Hg as <-. auto.
                ** destruct (N.eq_dec c c') as [<-|Hne].
                   --- rewrite G in Hg. injection Hg as <-. auto.
                   --- right. exists c'. split; [auto|]. split; [auto|]. intros [?|?]; auto.
          -- intros h. rewrite B. cbn [In]. split.
             ++ intros [[<-|?]|[? ?]]; auto. right. split; [now left|congruence].
             ++ intros [?|[[<-|Hc] Hg]]; auto.
          -- intros Hmd. destruct (C Hmd) as [_ [_ X]]. discriminate.
          -- cbn [length] in D. rewrite D.
             rewrite <- (unseen_cons_lt entries seen c EN); [lia| |exact M].
             apply oget_keys. congruence.
      + intros H. destruct (IH _ _ _ _ _ _ H) as [A [B [C D]]].
        split; [|split; [|split; [exact C|exact D]]].
        * intros x. rewrite A. split; [intros [?|[c' [? ?]]]; [auto|right; exists c'; split; [now right|auto]]|].
          intros [?|[c' [[<-|Hc] [Hg Hn]]]]; auto; [congruence|right; eauto].
        * intros h. rewrite B. split; [intros [?|[? ?]]; auto; right; split; [now right|auto]|].
          intros [?|[[<-|Hc] Hg]]; auto; congruence.
  Qed.
End Push.

(* ---- Part B/C: the main loop ---- *)
Section Trav.
  Variable entries : omap.
  Variable s : sortfn.
  Hypothesis EN : NoDup (okeys entries).
  Hypothesis WK : well_keyed entries.
  Variable roots : list entry.
  Hypothesis RootsIn : forall r, In r roots -> In (e_hash r, r) entries.

  (* reachability from the roots along next, inside the index *)
  Inductive treach : hash -> Prop :=
  | tr_root r : In r roots -> treach (e_hash r)
  | tr_step h e n : treach h -> oget entries h = Some e -> In n (e_next e) -> treach n.

  Definition gt (a b : entry) : Prop := sort_less (log_cmp s) true a b = true.

  (* the ordering hypotheses, on the entries of the index *)
  Definition P (e : entry) : Prop := In (e_hash e, e) entries.
  Hypothesis gt_irrefl : forall a, P a -> sort_less (log_cmp s) true a a = false.
  Hypothesis gt_trans : forall a b c, P a -> P b -> P c -> gt a b -> gt b c -> gt a c.
  Hypothesis gt_total : forall a b, P a -> P b -> a <> b -> gt a b \/ gt b a.
  (* predecessors present in the index sort after their successor *)
  Hypothesis gt_pred : forall e n p, P e -> In n (e_next e) -> oget entries n = Some p -> gt e p.

  Lemma gt_asym a b : P a -> P b -> gt a b -> ~ gt b a.
  Proof.
    intros Pa Pb H1 H2. pose proof (gt_trans a b a Pa Pb Pa H1 H2) as H. unfold gt in H.
    rewrite gt_irrefl in H by assumption. discriminate.
  Qed.

  Lemma P_oget e : P e -> oget entries (e_hash e) = Some e.
  Proof. intros H. now apply In_oget. Qed.

  Lemma oget_P c n : oget entries c = Some n -> P n /\ e_hash n = c.
  Proof. intros H. apply oget_In in H. pose proof (WK _ _ H). subst. split; auto. Qed.

  Lemma sort_desc_weak l : Forall P l -> StronglySorted (fun a b => ~ gt b a) (sort_desc s l).
  Proof.
    intros HP. unfold sort_desc, sort_go.
    pose proof (gosort_sorted_weak entry (sort_less (log_cmp s) true) P gt_irrefl gt_trans gt_total l HP) as X.
    eapply StronglySorted_impl; [|exact X]. intros a b H. unfold gt. now rewrite H.
  Qed.

  Record tinv (stack : list entry) (seen : list hash) (res : omap) : Prop := {
    t_nodup : NoDup (okeys res);
    t_res_in : forall k v, In (k, v) res -> In (k, v) entries /\ treach k;
    t_stack_in : forall x, In x stack -> P x /\ treach (e_hash x);
    t_seen : forall h, In h seen -> In h (okeys res) \/ exists x, In x stack /\ e_hash x = h;
    t_next : forall k v n p, In (k, v) res -> In n (e_next v) -> oget entries n = Some p -> In n seen;
    t_roots : forall r, In r roots -> In (e_hash r) (okeys res) \/ In r stack;
    t_sorted_stack : StronglySorted (fun a b => ~ gt b a) stack;
    t_res_ge_stack : forall k v x, In (k, v) res -> In x stack -> ~ gt x v;
    t_res_sorted : StronglySorted gt (oslice res);
  }.

  (* one unfolding of the loop in "traverse everything" mode *)
  Lemma trav_all_unfold fuel stack seen res cnt :
    trav fuel entries s (-1) None stack seen res cnt =
    match stack with
    | [] => Some res
    | e :: stack' =>
      match fuel with
      | O => None
      | S f =>
        if ohas res (e_hash e) then trav f entries s (-1) None stack' seen res cnt else
        let '(stack'', seen'', md) := push_nexts entries (e_next e) (stack', e_hash e :: seen, false) in
        trav f entries s (-1) None (if md then sort_desc s stack'' else stack'') seen'' (oset res (e_hash e) e) (cnt + 1)
      end
    end.
  Proof. destruct fuel, stack; reflexivity. Qed.

  Lemma StronglySorted_tail {A} (R : A -> A -> Prop) x l : StronglySorted R (x :: l) -> StronglySorted R l /\ Forall (R x) l.
  Proof. intros H. inversion H; auto. Qed.

  Lemma tinv_skip e stack' seen res :
    tinv (e :: stack') seen res -> In (e_hash e) (okeys res) -> tinv stack' seen res.
  Proof.
    intros [A B C D E F G H I] Hin. split; auto.
    - intros x Hx. apply C. now right.
    - intros h Hh. destruct (D h Hh) as [?|[x [[<-|Hx] Hk]]]; eauto. subst. auto.
    - intros r Hr. destruct (F r Hr) as [?|[<-|?]]; auto.
    - now apply StronglySorted_tail in G.
    - intros k v x Hv Hx. apply (H k v x Hv). now right.
  Qed.

  Lemma tinv_step e stack' seen res stack'' seen'' md :
    tinv (e :: stack') seen res -> ~ In (e_hash e) (okeys res) ->
    push_nexts entries (e_next e) (stack', e_hash e :: seen, false) = (stack'', seen'', md) ->
    tinv (if md then sort_desc s stack'' else stack'') seen'' (oset res (e_hash e) e).
  Proof.
    intros [A B C D E F G H I] Hfresh PN.
    destruct (push_nexts_spec entries EN WK _ _ _ _ _ _ _ PN) as [PA [PB [PC _]]].
    destruct (C e (or_introl eq_refl)) as [Pe Re].
    assert (Hres : oset res (e_hash e) e = res ++ [(e_hash e, e)]) by now apply oset_fresh.
    assert (Hst : forall x, In x (if md then sort_desc s stack'' else stack'') <-> In x stack'').
    { intros x. destruct md; [apply sort_desc_In|tauto]. }
    assert (Hpush : forall x, In x stack'' -> In x stack' \/ (exists c, In c (e_next e) /\ oget entries c = Some x)).
    { intros x Hx. apply PA in Hx. destruct Hx as [?|[c [? [? _]]]]; eauto. }
    assert (HPst : forall x, In x stack'' -> P x /\ treach (e_hash x)).
    { intros x Hx. destruct (Hpush x Hx) as [Hx'|[c [Hc Hg]]]; [apply C; now right|].
      destruct (oget_P _ _ Hg) as [Px Hk]. split; [auto|]. rewrite Hk.
      eapply tr_step; [exact Re|apply P_oget; exact Pe|exact Hc]. }
    destruct (StronglySorted_tail _ _ _ G) as [Gt Ge].
    split.
    - now apply NoDup_okeys_oset.
    - intros k v Hin. rewrite Hres, in_app_iff in Hin. cbn [In] in Hin.
      destruct Hin as [Hin|[Hin|[]]]; [auto|]. injection Hin as <- <-. auto.
    - intros x Hx. apply Hst in Hx. auto.
    - intros h Hh. rewrite In_okeys_oset. apply PB in Hh. cbn [In] in Hh.
      assert (Old : In h seen -> (h = e_hash e \/ In h (okeys res)) \/
                                  (exists x, In x (if md then sort_desc s stack'' else stack'') /\ e_hash x = h)).
      { intros Hs. destruct (D h Hs) as [?|[x [[<-|Hx] Hk]]]; auto.
        right. exists x. split; [|auto]. apply Hst. apply PA. auto. }
      destruct Hh as [[<-|Hs]|[Hn Hg]]; auto.
      destruct (oget entries h) as [p|] eqn:Gp; [|congruence].
      destruct (in_dec N.eq_dec h (e_hash e :: seen)) as [Hi|Hni].
      + destruct Hi as [<-|Hs]; auto.
      + right. exists p. split; [|now apply (oget_P _ _ Gp)]. apply Hst. apply PA. right. eauto.
    - intros k v n p Hin Hn Hg. rewrite Hres, in_app_iff in Hin. cbn [In] in Hin. apply PB.
      destruct Hin as [Hin|[Hin|[]]].
      + left. right. eapply E; eauto.
      + injection Hin as <- <-. right. split; [auto|congruence].
    - intros r Hr. rewrite In_okeys_oset. destruct (F r Hr) as [?|[<-|Hx]]; auto.
      right. apply Hst. apply PA. auto.
    - destruct md.
      + apply sort_desc_weak. rewrite Forall_forall. intros x Hx. now apply HPst.
      + destruct (PC eq_refl) as [-> _]. exact Gt.
    - intros k v x Hin Hx. rewrite Hres, in_app_iff in Hin. cbn [In] in Hin. apply Hst in Hx.
      destruct (Hpush x Hx) as [Hx'|[c [Hc Hg]]].
      + destruct Hin as [Hin|[Hin|[]]].
        * apply (H k v x Hin). now right.
        * injection Hin as <- <-. rewrite Forall_forall in Ge. now apply Ge.
      + destruct (oget_P _ _ Hg) as [Px _].
        pose proof (gt_pred e c x Pe Hc Hg) as Gex.
        destruct Hin as [Hin|[Hin|[]]].
        * intros Gxv. destruct (B k v Hin) as [Hve _].
          assert (Pv : P v) by (unfold P; now rewrite (WK _ _ Hve)).
          apply (H k v e Hin (or_introl eq_refl)). exact (gt_trans e x v Pe Px Pv Gex Gxv).
        * injection Hin as <- <-. now apply gt_asym.
    - rewrite Hres. unfold oslice. rewrite map_app. cbn [map snd]. apply sorted_snoc; [exact I|].
      rewrite Forall_forall. intros v Hv. apply In_oslice in Hv. destruct Hv as [k Hv].
      destruct (B k v Hv) as [Hve _]. assert (Pv : P v) by (unfold P; now rewrite (WK _ _ Hve)).
      assert (Hne : v <> e).
      { intro; subst v. apply Hfresh. apply In_okeys. exists e. pose proof (WK _ _ Hve) as Hke. rewrite Hke. exact Hv. }
      destruct (gt_total v e Pv Pe Hne) as [?|Gev]; [auto|].
      exfalso. exact (H k v e Hv (or_introl eq_refl) Gev).
  Qed.

  Lemma trav_all_inv fuel : forall stack seen res cnt out,
    tinv stack seen res -> trav fuel entries s (-1) None stack seen res cnt = Some out ->
    exists seen', tinv [] seen' out.
  Proof.
    induction fuel as [|f IH]; intros stack seen res cnt out TI; rewrite trav_all_unfold.
    - destruct stack; [|discriminate]. intros H; injection H as <-. eauto.
    - destruct stack as [|e stack']; [intros H; injection H as <-; eauto|].
      destruct (ohas res (e_hash e)) eqn:O.
      + apply IH. eapply tinv_skip; eauto. now apply ohas_keys.
      + destruct (push_nexts entries (e_next e) (stack', e_hash e :: seen, false)) as [[stack'' seen''] md] eqn:PN.
        apply IH. eapply tinv_step; eauto. now apply ohas_false.
  Qed.

  Lemma tinv_init : tinv (sort_desc s roots) [] [].
  Proof.
    assert (HP : Forall P roots) by (rewrite Forall_forall; intros r Hr; now apply RootsIn).
    split; cbn; try (now constructor); try tauto; try (intros; contradiction).
    - intros x Hx. apply sort_desc_In in Hx. split; [now apply RootsIn|now apply tr_root].
    - intros r Hr. right. now apply sort_desc_In.
    - now apply sort_desc_weak.
  Qed.

  Theorem trav_all_spec fuel out :
    trav fuel entries s (-1) None (sort_desc s roots) [] [] 0 = Some out ->
    NoDup (okeys out) /\
    (forall k v, In (k, v) out <-> In (k, v) entries /\ treach k) /\
    StronglySorted gt (oslice out).
  Proof.
    intros H. destruct (trav_all_inv _ _ _ _ _ _ tinv_init H) as [seen' [A B C D E F G Hh I]].
    split; [exact A|]. split; [|exact I]. intros k v. split; [apply B|].
    intros [Hin R]. revert v Hin. induction R as [r Hr|h e n R IHr Hg Hn]; intros v Hin.
    - destruct (F r Hr) as [Hk|[]]. apply In_okeys in Hk. destruct Hk as [v' Hk].
      destruct (B _ _ Hk) as [Hin' _]. assert (v' = v) by (apply In_oget in Hin, Hin'; auto; congruence). now subst.
    - specialize (IHr e (oget_In _ _ _ Hg)).
      assert (Gn : oget entries n = Some v) by now apply In_oget.
      pose proof (E h e n v IHr Hn Gn) as Hs. destruct (D n Hs) as [Hk|[x [[] _]]].
      apply In_okeys in Hk. destruct Hk as [v' Hk].
      destruct (B _ _ Hk) as [Hin' _]. assert (v' = v) by (apply In_oget in Hin'; auto; congruence). now subst.
  Qed.

  (* ---- fuel: for every (amount, end hash) the loop returns when fuel > |stack| + #unseen ---- *)
  Lemma trav_fuel_ok amount endh fuel : forall stack seen res cnt,
    (length stack + unseen entries seen < fuel)%nat ->
    trav fuel entries s amount endh stack seen res cnt <> None.
  Proof.
    induction fuel as [|f IH]; intros stack seen res cnt Hm; [lia|].
    destruct stack as [|e stack']; cbn [trav]; [discriminate|].
    destruct ((0 <=? amount) && (amount <=? cnt)); [discriminate|].
    cbn [length] in Hm.
    destruct (ohas res (e_hash e)); [apply IH; lia|].
    destruct (match endh with Some h => N.eqb (e_hash e) h | None => false end); [discriminate|].
    fold (push_nexts entries (e_next e) (stack', e_hash e :: seen, false)).
    destruct (push_nexts entries (e_next e) (stack', e_hash e :: seen, false)) as [[stack'' seen''] md] eqn:PN.
    destruct (push_nexts_spec entries EN WK _ _ _ _ _ _ _ PN) as [_ [_ [_ PD]]].
    pose proof (unseen_cons_le entries seen (e_hash e)).
    apply IH. destruct md.
    - unfold sort_desc, sort_go. rewrite gosort_length. lia.
    - lia.
  Qed.
End Trav.

(* ---- two comparators that agree on distinct entries give the same traversal, when the roots are
        unreferenced (then no entry is ever on the stack twice) ---- *)
Section GoSortExt.
  Variable A : Type.
  Variables less1 less2 : A -> A -> bool.

  Lemma ins_ext x rp : (forall y, In y rp -> less1 x y = less2 x y) -> ins less1 x rp = ins less2 x rp.
  Proof.
    induction rp as [|y rp IH]; intros H; cbn [ins]; [reflexivity|].
    rewrite (H y (or_introl eq_refl)). destruct (less2 x y); [|reflexivity]. f_equal. apply IH.
    intros z Hz. apply H. now right.
  Qed.

  Lemma fold_ins_ext l : forall acc,
    NoDup (l ++ acc) ->
    (forall x y, In x (l ++ acc) -> In y (l ++ acc) -> x <> y -> less1 x y = less2 x y) ->
    fold_left (fun rp x => ins less1 x rp) l acc = fold_left (fun rp x => ins less2 x rp) l acc.
  Proof.
    induction l as [|x l IH]; intros acc Hnd H; cbn [fold_left]; [reflexivity|].
    cbn [app] in Hnd. inversion Hnd as [|? ? Hnx Hnd']; subst.
    assert (E : ins less1 x acc = ins less2 x acc).
    { apply ins_ext. intros y Hy. apply H; [now left|right; apply in_or_app; now right|].
      intro; subst. apply Hnx. apply in_or_app. now right. }
    rewrite E. apply IH.
    - eapply Permutation_NoDup; [|exact Hnd].
      transitivity (l ++ x :: acc); [apply Permutation_middle|].
      apply Permutation_app_head. symmetry. apply ins_perm.
    - intros a b Ha Hb Hne. apply H; auto.
      + rewrite in_app_iff in Ha. cbn [app In]. destruct Ha as [Ha|Ha]; [right; apply in_or_app; now left|].
        apply (Permutation_in _ (ins_perm _ less2 x acc)) in Ha. destruct Ha as [<-|Ha]; [now left|right; apply in_or_app; now right].
      + rewrite in_app_iff in Hb. cbn [app In]. destruct Hb as [Hb|Hb]; [right; apply in_or_app; now left|].
        apply (Permutation_in _ (ins_perm _ less2 x acc)) in Hb. destruct Hb as [<-|Hb]; [now left|right; apply in_or_app; now right].
  Qed.

  Lemma gosort_ext l :
    NoDup l -> (forall x y, In x l -> In y l -> x <> y -> less1 x y = less2 x y) ->
    gosort less1 l = gosort less2 l.
  Proof.
    intros Hnd H. unfold gosort. f_equal. apply fold_ins_ext; rewrite app_nil_r; auto.
  Qed.
End GoSortExt.

Section TravExt.
  Variable entries : omap.
  Hypothesis EN : NoDup (okeys entries).
  Hypothesis WK : well_keyed entries.
  Variables s1 s2 : sortfn.
  Hypothesis agree : forall a b, P entries a -> P entries b -> a <> b ->
      sort_less (log_cmp s1) true a b = sort_less (log_cmp s2) true a b.
  Variable roots : list entry.
  Hypothesis RootsIn : forall r, In r roots -> P entries r.
  Hypothesis RootsNoDup : NoDup roots.
  Hypothesis RootsUnref : forall r e, In r roots -> P entries e -> ~ In (e_hash r) (e_next e).

  Definition jinv (stack : list entry) (seen : list hash) : Prop :=
    NoDup stack /\ forall x, In x stack -> P entries x /\ (In (e_hash x) seen \/ In x roots).

  Lemma sort_desc_ext l : NoDup l -> (forall x, In x l -> P entries x) -> sort_desc s1 l = sort_desc s2 l.
  Proof.
    intros Hnd HP. unfold sort_desc, sort_go. apply gosort_ext; auto.
  Qed.

  Lemma push_nexts_jinv e ns : P entries e -> (forall n, In n ns -> In n (e_next e)) ->
    forall stack seen md stack' seen' md',
    jinv stack seen ->
    push_nexts entries ns (stack, seen, md) = (stack', seen', md') -> jinv stack' seen'.
  Proof.
    intros Pe. induction ns as [|c ns IH]; intros Hsub stack seen md stack' seen' md' J; unfold push_nexts; cbn [fold_left].
    - intros H. injection H as <- <- <-. exact J.
    - fold (push_nexts entries ns). unfold push_next at 2.
      assert (Hsub' : forall n, In n ns -> In n (e_next e)) by (intros; apply Hsub; now right).
      destruct (oget entries c) as [n|] eqn:G; [|now apply IH].
      destruct (mem (e_hash n) seen) eqn:M; [now apply IH|]. apply mem_false in M.
      apply IH; auto. destruct J as [Jn Jp].
      destruct (oget_P entries WK _ _ G) as [Pn Hk].
      split.
      + constructor; [|exact Jn]. intros Hin. destruct (Jp n Hin) as [_ [Hs|Hr]]; [contradiction|].
        apply (RootsUnref n e Hr Pe). rewrite Hk. apply Hsub. now left.
      + intros x [<-|Hx]; [split; [auto|left; now left]|].
        destruct (Jp x Hx) as [Px [Hs|Hr]]; split; auto. left. now right.
  Qed.

  Lemma trav_ext amount endh fuel : forall stack seen res cnt,
    jinv stack seen ->
    trav fuel entries s1 amount endh stack seen res cnt = trav fuel entries s2 amount endh stack seen res cnt.
  Proof.
    induction fuel as [|f IH]; intros stack seen res cnt J; destruct stack as [|e stack']; cbn [trav]; try reflexivity.
    destruct ((0 <=? amount) && (amount <=? cnt)); [reflexivity|].
    destruct J as [Jn Jp]. inversion Jn as [|? ? Hne Jn']; subst.
    assert (Jtail : jinv stack' seen) by (split; [exact Jn'|intros x Hx; apply Jp; now right]).
    destruct (ohas res (e_hash e)); [now apply IH|].
    destruct (match endh with Some h => N.eqb (e_hash e) h | None => false end); [reflexivity|].
    fold (push_nexts entries (e_next e) (stack', e_hash e :: seen, false)).
    destruct (push_nexts entries (e_next e) (stack', e_hash e :: seen, false)) as [[stack'' seen''] md] eqn:PN.
    destruct (Jp e (or_introl eq_refl)) as [Pe _].
    assert (J' : jinv stack' (e_hash e :: seen)).
    { split; [exact Jn'|]. intros x Hx. destruct (Jp x (or_intror Hx)) as [Px [Hs|Hr]]; split; auto. left. now right. }
    pose proof (push_nexts_jinv e (e_next e) Pe (fun n H => H) _ _ _ _ _ _ J' PN) as [Jn2 Jp2].
    destruct md.
    - rewrite (sort_desc_ext stack'' Jn2 (fun x Hx => proj1 (Jp2 x Hx))). apply IH. split.
      + eapply Permutation_NoDup; [symmetry; apply sort_desc_perm|exact Jn2].
      + intros x Hx. apply sort_desc_In in Hx. auto.
    - apply IH. split; auto.
  Qed.

  Theorem traverse_ext amount endh :
    trav (trav_fuel entries (sort_desc s1 roots)) entries s1 amount endh (sort_desc s1 roots) [] [] 0 =
    trav (trav_fuel entries (sort_desc s2 roots)) entries s2 amount endh (sort_desc s2 roots) [] [] 0.
  Proof.
    rewrite (sort_desc_ext roots RootsNoDup RootsIn). apply trav_ext. split.
    - eapply Permutation_NoDup; [symmetry; apply sort_desc_perm|exact RootsNoDup].
    - intros x Hx. apply sort_desc_In in Hx. split; [now apply RootsIn|now right].
  Qed.
End TravExt.

(* ---- a comparator that answers "less" on identical arguments (LastWriteWins does: its last resort
        First returns 1) sorts exactly like its irreflexive twin, duplicates included ---- *)
Section GoSortTwin.
  Variable A : Type.
  Variables less1 less2 : A -> A -> bool.
  Variable P : A -> Prop.
  Hypothesis agree : forall a b, P a -> P b -> a <> b -> less1 a b = less2 a b.
  Hypothesis diag1 : forall a, P a -> less1 a a = true.
  Hypothesis irrefl2 : forall a, P a -> less2 a a = false.
  Hypothesis trans2 : forall a b c, P a -> P b -> P c -> less2 a b = true -> less2 b c = true -> less2 a c = true.
  Hypothesis total2 : forall a b, P a -> P b -> a <> b -> less2 a b = true \/ less2 b a = true.
  Hypothesis dec : forall a b : A, {a = b} + {a <> b}.

  Lemma ins_stays x rp : P x -> Forall P rp -> (forall z, In z rp -> less2 x z = false) -> ins less1 x rp = x :: rp.
  Proof.
    intros Px. induction rp as [|z rp IH]; intros HP H; cbn [ins]; [reflexivity|].
    inversion HP as [|? ? Pz HP']; subst. destruct (dec x z) as [<-|Hne].
    - rewrite (diag1 x Px). f_equal. apply IH; auto. intros w Hw. apply H. now right.
    - rewrite (agree x z Px Pz Hne), (H z (or_introl eq_refl)). reflexivity.
  Qed.

  Lemma ins_twin x rp : P x -> Forall P rp ->
    StronglySorted (fun a b => less2 a b = false) rp -> ins less1 x rp = ins less2 x rp.
  Proof.
    intros Px. induction rp as [|y rp IH]; intros HP S; cbn [ins]; [reflexivity|].
    inversion HP as [|? ? Py HP']; subst. inversion S as [|? ? S' Hy]; subst.
    destruct (dec x y) as [<-|Hne].
    - rewrite (diag1 x Px), (irrefl2 x Px). f_equal. apply ins_stays; auto.
      rewrite Forall_forall in Hy. exact Hy.
    - rewrite (agree x y Px Py Hne). destruct (less2 x y); [|reflexivity]. f_equal. now apply IH.
  Qed.

  Lemma fold_ins_twin l : forall acc, Forall P l -> Forall P acc ->
    StronglySorted (fun a b => less2 a b = false) acc ->
    fold_left (fun rp x => ins less1 x rp) l acc = fold_left (fun rp x => ins less2 x rp) l acc.
  Proof.
    induction l as [|x l IH]; intros acc HPl HPa S; cbn [fold_left]; [reflexivity|].
    inversion HPl as [|? ? Px HPl']; subst. rewrite (ins_twin x acc Px HPa S). apply IH; auto.
    - rewrite Forall_forall. intros z Hz. apply (Permutation_in _ (ins_perm _ less2 x acc)) in Hz.
      destruct Hz as [<-|Hz]; [exact Px|]. rewrite Forall_forall in HPa; auto.
    - apply (ins_sorted_weak A less2 P irrefl2 trans2 total2); auto.
  Qed.

  Theorem gosort_twin l : Forall P l -> gosort less1 l = gosort less2 l.
  Proof. intros HP. unfold gosort. f_equal. apply fold_ins_twin; auto; constructor. Qed.
End GoSortTwin.

(* traversal extensionality without any condition on the roots, from list-level equality of the sorts *)
Section TravExt2.
  Variable entries : omap.
  Hypothesis WK : well_keyed entries.
  Variables s1 s2 : sortfn.
  Hypothesis sort_eq : forall l, Forall (P entries) l -> sort_desc s1 l = sort_desc s2 l.

  Lemma push_nexts_P ns : forall stack seen md stack' seen' md',
    Forall (P entries) stack ->
    push_nexts entries ns (stack, seen, md) = (stack', seen', md') -> Forall (P entries) stack'.
  Proof.
    induction ns as [|c ns IH]; intros stack seen md stack' seen' md' HP; unfold push_nexts; cbn [fold_left].
    - intros H. injection H as <- <- <-. exact HP.
    - fold (push_nexts entries ns). unfold push_next at 2.
      destruct (oget entries c) as [n|] eqn:G; [|now apply IH].
      destruct (mem (e_hash n) seen); [now apply IH|]. apply IH. constructor; [|exact HP].
      now apply (oget_P entries WK c n).
  Qed.

  Lemma trav_ext2 amount endh fuel : forall stack seen res cnt,
    Forall (P entries) stack ->
    trav fuel entries s1 amount endh stack seen res cnt = trav fuel entries s2 amount endh stack seen res cnt.
  Proof.
    induction fuel as [|f IH]; intros stack seen res cnt HP; destruct stack as [|e stack']; cbn [trav]; try reflexivity.
    destruct ((0 <=? amount) && (amount <=? cnt)); [reflexivity|].
    inversion HP as [|? ? Pe HP']; subst.
    destruct (ohas res (e_hash e)); [now apply IH|].
    destruct (match endh with Some h => N.eqb (e_hash e) h | None => false end); [reflexivity|].
    fold (push_nexts entries (e_next e) (stack', e_hash e :: seen, false)).
    destruct (push_nexts entries (e_next e) (stack', e_hash e :: seen, false)) as [[stack'' seen''] md] eqn:PN.
    pose proof (push_nexts_P _ _ _ _ _ _ _ HP' PN) as HP2.
    destruct md.
    - rewrite (sort_eq stack'' HP2). apply IH. rewrite Forall_forall in *. intros x Hx. apply sort_desc_In in Hx. auto.
    - now apply IH.
  Qed.

  Theorem traverse_ext2 roots amount endh : Forall (P entries) roots ->
    trav (trav_fuel entries (sort_desc s1 roots)) entries s1 amount endh (sort_desc s1 roots) [] [] 0 =
    trav (trav_fuel entries (sort_desc s2 roots)) entries s2 amount endh (sort_desc s2 roots) [] [] 0.
  Proof.
    intros HP. rewrite (sort_eq roots HP). apply trav_ext2.
    rewrite Forall_forall in *. intros x Hx. apply sort_desc_In in Hx. auto.
  Qed.
End TravExt2.
