(* C12, conversion layer: which outcomes are possible when an arbitrary CBOR tree is turned into an
   entry (refmt unmarshal into the typed structs - DecryptLinks - ToPlain) or a manifest. *)
From Coq Require Import List NArith ZArith Bool String.
From IpfsLog Require Import Model.Cbor Model.EntryCodec Gen.Tables Gen.Guards.
(* deps *)
Import ListNotations.
Local Open Scope string_scope.
Open Scope N_scope.

Definition np {A} (r : res A) : Prop := r <> Panic.

Lemma np_ok {A} (a : A) : np (Ok a). Proof. discriminate. Qed.
Lemma np_err {A} e : np (@Err A e). Proof. discriminate. Qed.
Lemma np_bind {A B} (r : res A) (f : A -> res B) : np r -> (forall a, np (f a)) -> np (bind r f).
Proof. unfold np. destruct r; cbn [bind]; intros H1 H2; [apply H2|discriminate|contradiction]. Qed.
Lemma np_on_nil_false {A} : np (@on_nil A false). Proof. discriminate. Qed.

Ltac np_tac :=
  repeat first [ apply np_ok | apply np_err | apply np_on_nil_false
               | apply np_bind; [|intros ?] | assumption ].

Section Total.
  Variable cidok : bytes -> bool.

  Lemma np_u_cid t : np (u_cid cidok t).
  Proof. unfold u_cid. destruct (untag t) as [| | |[|p c]| | | | |]; try apply np_err. destruct (_ && _); np_tac. Qed.

  Lemma np_u_list l : np (u_list cidok l).
  Proof. induction l as [|x l IH]; cbn [u_list]; np_tac. apply np_u_cid. Qed.

  Lemma np_u_cids t : np (u_cids cidok t).
  Proof. unfold u_cids. destruct (untag t); np_tac. apply np_u_list. Qed.

  Lemma np_u_text t : np (u_text t).
  Proof. unfold u_text. destruct (untag t); np_tac. Qed.
  Lemma np_u_uint t : np (u_uint t).
  Proof. unfold u_uint. destruct (untag t); np_tac. Qed.
  Lemma np_u_int t : np (u_int t).
  Proof. unfold u_int. destruct (untag t); np_tac. destruct (_ <? _); np_tac. Qed.

  Lemma np_unmarshal_fields {S} rows (setf : string -> cbor -> S -> res S) :
    (forall f v st, np (setf f v st)) -> forall kvs st, np (unmarshal_fields rows setf kvs st).
  Proof.
    intros Hs. induction kvs as [|[k v] kvs IH]; intros st; cbn [unmarshal_fields]; [np_tac|].
    destruct (find _ rows); np_tac. apply Hs. apply IH.
  Qed.

  Lemma np_u_ptr {S} sname (setf : string -> cbor -> S -> res S) zero cur t :
    (forall f v st, np (setf f v st)) -> np (u_ptr sname setf zero cur t).
  Proof. intros Hs. unfold u_ptr. destruct (untag t); np_tac. now apply np_unmarshal_fields. Qed.

  Ltac ifs := repeat match goal with |- np (if ?c then _ else _) => destruct c end.

  Lemma np_set_jclock f v c : np (set_jclock f v c).
  Proof. unfold set_jclock. ifs; np_tac; first [apply np_u_text | apply np_u_int]. Qed.
  Lemma np_set_jidsig f v c : np (set_jidsig f v c).
  Proof. unfold set_jidsig. ifs; np_tac; apply np_u_text. Qed.
  Lemma np_set_jidentity f v c : np (set_jidentity f v c).
  Proof.
    unfold set_jidentity. ifs; np_tac; first [apply np_u_text | apply np_u_ptr; apply np_set_jidsig].
  Qed.
  Lemma np_set_jentry f v j : np (set_jentry cidok f v j).
  Proof.
    unfold set_jentry. destruct j. ifs; np_tac;
      first [apply np_u_text | apply np_u_uint | apply np_u_cids
            | apply np_u_ptr; first [apply np_set_jclock | apply np_set_jidentity]].
  Qed.

  Lemma np_unmarshal_jentry t : np (unmarshal_jentry cidok t).
  Proof. unfold unmarshal_jentry. destruct t; np_tac. apply np_unmarshal_fields. apply np_set_jentry. Qed.

  Lemma np_manifest_of_tree t : np (manifest_of_tree cidok t).
  Proof.
    unfold manifest_of_tree. destruct t; np_tac. apply np_unmarshal_fields.
    intros f v st. unfold set_manifest. ifs; np_tac; first [apply np_u_text | apply np_u_cids].
  Qed.

  Section Keyed.
    Variable K : Type.
    Variable open_ : K -> bytes -> bytes -> option bytes.
    Variable b64dec : bytes -> option bytes.

    Lemma np_decrypt_links key j : np (decrypt_links cidok K open_ b64dec key j).
    Proof.
      unfold decrypt_links. destruct key as [k|]; np_tac. destruct (_ || _); np_tac.
      destruct (b64dec (j_enc_links j)), (b64dec (j_enc_nonce j)); np_tac.
      destruct (open_ k _ _); np_tac. destruct (decode_all _); np_tac.
      destruct (unmarshal_jentry cidok _); np_tac.
    Qed.

    (* with every nil check in place the conversion cannot panic *)
    Lemma np_to_plain_identity_guarded o : np (to_plain_identity_g false false o).
    Proof.
      unfold to_plain_identity_g. destruct o as [i|]; np_tac; unfold of_hex.
      - destruct (hex_decode _); np_tac.
      - destruct (ji_sigs i); np_tac; destruct (hex_decode _); np_tac.
    Qed.

    Lemma np_to_plain_guarded h j : np (to_plain_g false false false h j).
    Proof.
      unfold to_plain_g, to_plain_before_fix_g, of_hex. np_tac.
      - destruct (hex_decode _); np_tac.
      - destruct (hex_decode _); np_tac.
      - destruct (j_clock j); np_tac. destruct (hex_decode _); np_tac. apply np_to_plain_identity_guarded.
    Qed.

    Theorem of_tree_guarded_total key h t : of_tree_g cidok K open_ b64dec false false false key h t <> Panic.
    Proof.
      unfold of_tree_g. apply np_bind; [apply np_unmarshal_jentry|intros j].
      apply np_bind; [apply np_decrypt_links|intros j']. apply np_to_plain_guarded.
    Qed.

    (* whatever the guards: an entry that comes out has a clock, and an identity with signatures *)
    Theorem of_tree_ok_defined pc pi ps key h t e :
      of_tree_g cidok K open_ b64dec pc pi ps key h t = Ok e ->
      (exists c, e_clock e = Some c) /\
      match e_identity e with Some i => exists s, idn_sigs i = Some s | None => True end /\
      e_hash e = Some h.
    Proof.
      unfold of_tree_g. destruct (unmarshal_jentry cidok t) as [j| |]; cbn [bind]; try discriminate.
      destruct (decrypt_links cidok K open_ b64dec key j) as [j'| |]; cbn [bind]; try discriminate.
      unfold to_plain_g, to_plain_before_fix_g.
      destruct (of_hex EDeserialize (j_key j')); cbn [bind]; try discriminate.
      destruct (of_hex EDeserialize (j_sig j')); cbn [bind]; try discriminate.
      destruct (j_clock j') as [c|]; [|destruct pc; discriminate].
      destruct (of_hex EDeserialize (jc_id c)); cbn [bind]; try discriminate.
      destruct (to_plain_identity_g pi ps (j_identity j')) as [oi| |] eqn:EI; cbn [bind]; try discriminate.
      intros H. inversion H; subst e. clear H. cbn [e_clock e_identity e_hash].
      split; [eexists; reflexivity|]. split; [|reflexivity].
      unfold to_plain_identity_g in EI. destruct (j_identity j') as [i|].
      - destruct (of_hex EDeserialize (ji_pub i)); cbn [bind] in EI; try discriminate.
        destruct (ji_sigs i); [|destruct ps; discriminate].
        destruct (of_hex EDeserialize (js_pub j0)); cbn [bind] in EI; try discriminate.
        destruct (of_hex EDeserialize (js_id j0)); cbn [bind] in EI; try discriminate.
        inversion EI. eexists. reflexivity.
      - destruct pi; inversion EI. exact I.
    Qed.
  End Keyed.
End Total.

(* the reader of today's text is the guarded reader instantiated with the generated flags *)
Lemma of_tree_is_of_tree_g cidok K open_ b64dec key h t :
  of_tree cidok K open_ b64dec key h t = of_tree_g cidok K open_ b64dec guard_clock guard_identity guard_signatures key h t.
Proof. reflexivity. Qed.

(* legacy v0 struct level *)
Lemma v0_guarded_total parse h j : v0_to_plain_g parse false false h j <> Panic.
Proof.
  unfold v0_to_plain_g, of_hex. apply np_bind.
  - destruct (v0_hash j); np_tac. destruct (parse _); np_tac.
  - intros _. destruct (v0_clock j); np_tac; try (destruct (hex_decode _); np_tac).
    destruct (map_opt _ _); np_tac.
Qed.

(* marshalling never panics (the write path panics only in Normalize / ToJsonableIdentity on nil
   clock / nil signatures, which an entry that came out of the reader does not have) *)
Lemma np_marshal_rows rows fld : (forall f, np (fld f)) -> np (marshal_rows rows fld).
Proof.
  intros H. induction rows as [|r rs IH]; cbn [marshal_rows]; [apply np_ok|].
  apply np_bind; [apply H|intros v]. apply np_bind; [exact IH|intros kvs; apply np_ok].
Qed.

Lemma np_marshal_struct s fld : (forall f, np (fld f)) -> np (marshal_struct s fld).
Proof.
  intros H. unfold marshal_struct. destruct (rows_of s); [apply np_err|].
  apply np_bind; [now apply np_marshal_rows|intros; apply np_ok].
Qed.

Ltac ifs2 := repeat match goal with |- np (if ?c then _ else _) => destruct c end.

Lemma np_of_opt o : np (of_opt o).
Proof. destruct o; [apply np_ok|apply np_err]. Qed.

Lemma np_marshal_jclock o : np (marshal_ptr marshal_jclock o).
Proof.
  unfold marshal_ptr. destruct o; [|apply np_ok]. unfold marshal_jclock. apply np_marshal_struct.
  intros g. ifs2; first [apply np_ok | apply np_err].
Qed.

Lemma np_marshal_jidsig o : np (marshal_ptr marshal_jidsig o).
Proof.
  unfold marshal_ptr. destruct o; [|apply np_ok]. unfold marshal_jidsig. apply np_marshal_struct.
  intros g. ifs2; first [apply np_ok | apply np_err].
Qed.

Lemma np_marshal_jidentity o : np (marshal_ptr marshal_jidentity o).
Proof.
  unfold marshal_ptr at 1. destruct o as [i|]; [|apply np_ok]. unfold marshal_jidentity. apply np_marshal_struct.
  intros g. ifs2; first [apply np_ok | apply np_err | apply np_marshal_jidsig].
Qed.

Lemma np_marshal_jentry s j : np (marshal_jentry s j).
Proof.
  unfold marshal_jentry. apply np_marshal_struct. intros f. unfold jentry_field.
  ifs2; first [apply np_ok | apply np_err | apply np_of_opt | apply np_marshal_jclock | apply np_marshal_jidentity].
Qed.

Theorem ok_entry_reencodes cidok K open_ b64dec pc pi ps key h t e :
  of_tree_g cidok K open_ b64dec pc pi ps key h t = Ok e -> to_tree e <> Panic.
Proof.
  intros H. destruct (of_tree_ok_defined cidok K open_ b64dec pc pi ps key h t e H) as ((c & Ec) & Hi & _).
  unfold to_tree, normalize. rewrite Ec. cbn [bind]. unfold to_jsonable.
  cbn [e_identity e_clock e_v e_logid e_key e_sig e_next e_refs e_payload e_additional].
  assert (HI : exists ji, match e_identity e with
                          | Some i => bind (to_jidentity i) (fun ji => Ok (Some ji))
                          | None => Ok None end = Ok ji).
  { destruct (e_identity e) as [i|]; [|eexists; reflexivity]. destruct Hi as (s & Es).
    unfold to_jidentity. rewrite Es. eexists. reflexivity. }
  destruct HI as (ji & HI). rewrite HI. cbn [bind].
  destruct (e_v e =? 0); [discriminate|]. destruct (e_v e =? 1); cbn [bind marshal_jsonable].
  - apply np_marshal_jentry.
  - destruct (assoc key_enc_links (e_additional e)), (assoc key_enc_nonce (e_additional e));
      cbn [bind marshal_jsonable]; apply np_marshal_jentry.
Qed.
