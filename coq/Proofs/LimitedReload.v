(* The log a LENGTH-LIMITED manifest load returns is a replica too.

   NewFromMultihash hands NewLog the newest n entries of the stored log (C10_manifest) together with those
   heads of the manifest that are among them.  For a replica of a well-formed history these heads are
   exactly the unreferenced entries of the loaded part: the part is a suffix of the log in clock order,
   every entry naming a loaded entry is newer than it and therefore loaded as well.  So the re-opening
   step with these heads is admissible ([owf], Proofs/POpen.v), like the steps of the three loaders that
   pass no heads (ReloadBridge.reloaded_selection_is_a_replica). *)
From Coq Require Import List ZArith NArith Bool Lia Permutation Sorted.
From IpfsLog Require Import Model.Log Model.System Model.WfDef Proofs.OmapProofs Proofs.SortProofs Proofs.Inv Proofs.JoinProofs
  Proofs.SysProofs Proofs.BoundedProofs Proofs.PInv Proofs.PSys Proofs.POpen Proofs.ReloadBridge.
From IpfsLog Require Import Model.Order Model.Fetcher Proofs.FetcherBasics Proofs.LoaderProofs Proofs.LimitLoaders Proofs.BridgeProofs.
Import ListNotations.
Open Scope Z_scope.

Lemma sorted_app_lt {A} (R : A -> A -> Prop) (a b : list A) :
  StronglySorted R (a ++ b) -> forall x y, In x a -> In y b -> R x y.
Proof.
  induction a as [|h a IH]; intros HS x y Hx Hy; [destruct Hx|].
  cbn [app] in HS. inversion HS as [|? ? HS' HF]; subst. destruct Hx as [<-|Hx].
  - rewrite Forall_forall in HF. apply HF. apply in_or_app. now right.
  - now apply IH.
Qed.

(* a suffix of the clock-sorted log is closed under "newer than" *)
Section Upward.
  Variable S : list fentry.
  Hypothesis HndS : NoDup S.
  Hypothesis Htimes : LimitLoaders.times_ok S.
  Hypothesis Hties : LimitLoaders.tie_free S.

  Lemma last_n_upward n x y :
    In x (last_n n (gosort cless S)) -> In y S -> fe_time x < fe_time y ->
    In y (last_n n (gosort cless S)).
  Proof.
    intros Hx Hy Ht. set (L := gosort cless S) in *.
    assert (SS : StronglySorted (fun a b => cless a b = true) L).
    { apply (gosort_sorted fentry cless (fun e => In e S) (cless_trans S Htimes) (cless_total S Htimes Hties)); [|exact HndS].
      apply Forall_forall. auto. }
    unfold last_n in *. set (k := (length L - Z.to_nat n)%nat) in *.
    assert (HyL : In y L) by (apply (gosort_in fentry cless S y); exact Hy).
    rewrite <- (firstn_skipn k L) in HyL, SS. apply in_app_or in HyL. destruct HyL as [Hf|Hs]; [|exact Hs].
    exfalso. pose proof (sorted_app_lt _ _ _ SS y x Hf Hx) as Lyx.
    assert (HxS : In x S) by (apply (gosort_in fentry cless S x); apply (BoundedProofs.skipn_In k); exact Hx).
    pose proof (cless_time S Htimes x y HxS Hy Ht) as Lxy.
    pose proof (less_asym fentry cless (fun e => In e S) (cless_irrefl S) (cless_trans S Htimes) x y HxS Hy Lxy). congruence.
  Qed.
End Upward.

Section LimitedManifest.
  Variables (U : list entry) (l : log).
  Hypothesis UO : univ_ok U.
  Hypothesis I : pinv U l.
  Hypothesis Htimes : LimitLoaders.times_ok (fentries_of l).
  Hypothesis Hties : LimitLoaders.tie_free (fentries_of l).

  Let S := fentries_of l.

  Lemma fentries_nodup : NoDup S.
  Proof.
    unfold S, fentries_of. apply (NoDup_map_inv fe_hash). rewrite map_map. cbn [fe_hash fentry_of].
    exact (ents_hashes_nodup U l I).
  Qed.

  Lemma same_hash_same_entry a b : In a (ents l) -> In b (ents l) -> e_hash a = e_hash b -> a = b.
  Proof.
    intros Ha Hb Hh. pose proof (oget_of_entry U l I a Ha) as Ga. pose proof (oget_of_entry U l I b Hb) as Gb.
    rewrite Hh in Ga. congruence.
  Qed.

  Variable n : Z.
  Let X := last_n n (gosort cless S).

  (* the loaded part as log entries *)
  Variable P : list entry.
  Hypothesis XP : X = map fentry_of P.
  Hypothesis PS : forall e, In e P -> In e (ents l).

  Lemma P_nodup : NoDup (map e_hash P).
  Proof.
    assert (H : NoDup (map fe_hash X)).
    { unfold X. apply last_n_nodup_hashes. unfold hashes.
      eapply Permutation_NoDup; [apply Permutation_map; symmetry; apply gosort_perm|].
      unfold S. rewrite hashes_fentries. exact (ents_hashes_nodup U l I). }
    rewrite XP, map_map in H. exact H.
  Qed.

  Lemma in_P_of_in_X e : In e (ents l) -> In (fentry_of e) X -> In e P.
  Proof.
    intros He Hx. rewrite XP in Hx. apply in_map_iff in Hx. destruct Hx as [p [Hp Hin]].
    assert (p = e); [|now subst]. apply same_hash_same_entry; auto.
    change (fe_hash (fentry_of p) = fe_hash (fentry_of e)). now rewrite Hp.
  Qed.

  (* an entry of the loaded part that some entry of the log names is named inside the loaded part *)
  Lemma loaded_named_is_named_inside x : In x P -> named_in (ents l) (e_hash x) -> named_in P (e_hash x).
  Proof.
    intros Hx Hn. pose proof (PS x Hx) as HxL.
    apply named_in_iff in Hn. destruct Hn as [e' [He' Hin]].
    pose proof (pinv_mono U l e' (e_hash x) x UO I He' Hin (proj1 (pinv_entry _ _ _ I HxL))) as Ht.
    assert (In (fentry_of e') X).
    { unfold X. apply (last_n_upward S fentries_nodup Htimes Hties n (fentry_of x) (fentry_of e')).
      - fold X. rewrite XP. now apply in_map.
      - unfold S, fentries_of. now apply in_map.
      - exact Ht. }
    apply named_in_iff. exists e'. split; [now apply in_P_of_in_X|exact Hin].
  Qed.

  Variable hh : list hash.
  Hypothesis HH : forall h, In h hh <-> In h (okeys (l_heads l)) /\ In h (map fe_hash X).

  Theorem limited_heads_consistent :
    heads_consistentb (pick (l_entries l) (map e_hash P)) (pick (l_entries l) hh) = true.
  Proof.
    pose proof P_nodup as PN.
    rewrite (pick_sub U l P I PS PN).
    assert (HX : map fe_hash X = map e_hash P) by (rewrite XP, map_map; reflexivity).
    assert (FH : forall e, In e (Log.find_heads (from_entries P)) <-> In e P /\ In (e_hash e, e) (l_heads l)).
    { intros e. rewrite JoinProofs.find_heads_In. rewrite (oslice_from_entries_nodup P PN). split.
      - intros [He Hn]. split; [exact He|]. apply (pi_heads _ _ I). split; [apply (pinv_entry _ _ _ I (PS e He))|].
        intro Hc. apply Hn. exact (loaded_named_is_named_inside e He Hc).
      - intros [He Hh]. split; [exact He|]. apply (pi_heads _ _ I) in Hh. destruct Hh as [_ Hn].
        intro Hc. apply Hn. unfold named_in in *. unfold all_nexts in *. apply in_flat_map in Hc. destruct Hc as [y [Hy Hin]].
        apply in_flat_map. exists y. split; [now apply PS|exact Hin]. }
    unfold heads_consistentb. destruct (pick (l_entries l) hh) as [|h0 hs'] eqn:Ehs; [reflexivity|]. rewrite <- Ehs.
    apply andb_true_iff. split; apply forallb_forall.
    - intros e He. apply OmapProofs.mem_In. apply in_map. apply FH.
      apply pick_In in He. destruct He as [h [Hh G]]. apply HH in Hh. destruct Hh as [Hhd HhX].
      rewrite HX in HhX. apply in_map_iff in HhX. destruct HhX as [x [Hxh HxP]].
      pose proof (oget_of_entry U l I x (PS x HxP)) as Gx.  rewrite Hxh, G in Gx. injection Gx as ->.
      split; [exact HxP|]. apply In_okeys in Hhd. destruct Hhd as [e' Hhd].
      pose proof (proj1 (proj1 (pi_heads _ _ I h e') Hhd)) as Hin.
      pose proof (In_oget _ _ _ (pi_nodup _ _ I) Hin) as G'.  rewrite G in G'. injection G' as ->.
      rewrite Hxh. exact Hhd.
    - intros h Hh. apply OmapProofs.mem_In. apply in_map_iff in Hh. destruct Hh as [x [<- Hx]]. apply FH in Hx. destruct Hx as [HxP Hxh].
      apply in_map. apply pick_In. exists (e_hash x). split.
      + apply HH. split; [apply In_okeys; eauto|]. rewrite HX. now apply in_map.
      + exact (oget_of_entry U l I x (PS x HxP)).
  Qed.
End LimitedManifest.

Lemma selection_preimage l (X : list fentry) : incl X (fentries_of l) ->
  exists P, X = map fentry_of P /\ forall e, In e P -> In e (ents l).
Proof.
  induction X as [|x X IH]; intros HI; [exists []; split; [reflexivity|intros e []]|].
  destruct IH as [P [EP HP]]; [intros y Hy; apply HI; now right|].
  assert (Hx : In x (fentries_of l)) by (apply HI; now left). unfold fentries_of in Hx. apply in_map_iff in Hx.
  destruct Hx as [e [<- He]]. exists (e :: P). split; [cbn; now rewrite EP|]. intros y [<-|Hy]; auto.
Qed.

Theorem limited_manifest_reload_is_a_replica ops r l n hh key sf deny :
  owf ops -> nth_error (s_logs (System.run ops)) r = Some l ->
  LimitLoaders.times_ok (fentries_of l) -> LimitLoaders.tie_free (fentries_of l) ->
  let X := last_n n (sort_go cmp_lww false (fentries_of l)) in
  (forall h, In h hh <-> In h (okeys (l_heads l)) /\ In h (map fe_hash X)) ->
  let reopen := OOpen r (map fe_hash X) hh (l_id l) key sf deny in
  owf (ops ++ [reopen]) /\
  exists lr, nth_error (s_logs (System.run (ops ++ [reopen]))) (length (s_logs (System.run ops))) = Some lr /\
    map fentry_of (ents lr) = X /\ l_id lr = l_id l.
Proof.
  intros W L Ht Hf X HH reopen. destruct (osinv_run ops W) as [UO IL]. pose proof (IL r l L) as I.
  assert (EX : X = last_n n (gosort cless (fentries_of l))).
  { unfold X. rewrite (sort_lww_cless (fentries_of l) Ht Hf (fentries_of l) (incl_refl _)). reflexivity. }
  assert (HI : incl X (fentries_of l)).
  { intros x Hx. unfold X in Hx. apply last_n_incl in Hx. unfold sort_go in Hx. now apply gosort_in in Hx. }
  destruct (selection_preimage l X HI) as [P [XP PS]].
  assert (XP' : last_n n (gosort cless (fentries_of l)) = map fentry_of P) by (rewrite <- EX; exact XP).
  assert (HH' : forall h, In h hh <-> In h (okeys (l_heads l)) /\ In h (map fe_hash (last_n n (gosort cless (fentries_of l))))).
  { intros h. rewrite <- EX. apply HH. }
  pose proof (limited_heads_consistent _ (lift l) UO I Ht Hf n P XP' PS hh HH') as HC.
  change (l_entries (lift l)) with (l_entries l) in HC.
  pose proof (P_nodup _ (lift l) I n P XP') as PN.
  assert (EK : map fe_hash X = map e_hash P) by (rewrite XP, map_map; reflexivity).
  assert (WS : owf_step (System.run ops) reopen).
  { unfold reopen. cbn [owf_step]. intros l0 L0. rewrite L in L0. injection L0 as <-. split; [reflexivity|]. rewrite EK. exact HC. }
  split; [apply owf_app; [exact W|exact WS]|].
  exists (open_from l (map fe_hash X) hh (l_id l) key sf deny). split.
  - unfold reopen, System.run. rewrite run_from_app. cbn [System.run_from fold_left System.step]. fold (System.run ops). rewrite L. cbn [fst s_logs].
    rewrite nth_error_app2 by lia. rewrite Nat.sub_diag. reflexivity.
  - split; [|reflexivity]. unfold open_from, new_log_from, ents. cbn [l_entries]. rewrite EK.
    pose proof (pick_sub _ (lift l) P I PS PN) as PK. change (l_entries (lift l)) with (l_entries l) in PK. rewrite PK.
    rewrite (oslice_from_entries_nodup P PN). symmetry. exact XP.
Qed.
