(* Basic facts about the fetcher model: the validator is exactly the step relation, list
   helpers, the specification of addHashToQueue loops.                                        *)
From Coq Require Import List ZArith NArith Bool Lia Permutation.
From IpfsLog Require Import Model.Order Model.Fetcher.
Import ListNotations.
Open Scope Z_scope.

(* ---------------------------------------------------------------------------------------- *)
(* small list facts                                                                          *)

Lemma mem_In h l : mem h l = true <-> In h l.
Proof.
  unfold mem. rewrite existsb_exists. split.
  - intros [x [Hin Heq]]. apply N.eqb_eq in Heq. now subst.
  - intros Hin. exists h. split; [assumption|apply N.eqb_refl].
Qed.

Lemma mem_false h l : mem h l = false <-> ~ In h l.
Proof.
  rewrite <- mem_In. destruct (mem h l); split; intros H; congruence.
Qed.

Lemma remove_first_In x l h : In x (remove_first l h) -> In x l.
Proof.
  induction l as [|k l IH]; cbn; [tauto|].
  destruct (N.eqb k h); cbn; intuition.
Qed.

Lemma remove_first_other x l h : In x l -> x <> h -> In x (remove_first l h).
Proof.
  induction l as [|k l IH]; cbn; [tauto|]. intros [->|Hin] Hne.
  - destruct (N.eqb x h) eqn:E; [apply N.eqb_eq in E; congruence|now left].
  - destruct (N.eqb k h); [assumption|right; auto].
Qed.

Lemma remove_first_NoDup l h : NoDup l -> NoDup (remove_first l h).
Proof.
  induction 1 as [|k l Hni Hnd IH]; cbn; [constructor|].
  destruct (N.eqb k h); [assumption|]. constructor; [|assumption].
  intro Hin. apply Hni. eapply remove_first_In; eauto.
Qed.

Lemma remove_first_not_In l h : NoDup l -> ~ In h (remove_first l h).
Proof.
  induction 1 as [|k l Hni Hnd IH]; cbn; [tauto|].
  destruct (N.eqb k h) eqn:E.
  - apply N.eqb_eq in E. now subst.
  - apply N.eqb_neq in E. intros [->|Hin]; [congruence|auto].
Qed.

Lemma remove_first_length l h : In h l -> S (length (remove_first l h)) = length l.
Proof.
  induction l as [|k l IH]; cbn; [tauto|]. intros Hin.
  destruct (N.eqb k h) eqn:E; [reflexivity|].
  apply N.eqb_neq in E. destruct Hin as [->|Hin]; [congruence|]. cbn. now rewrite IH.
Qed.

(* ---- queue ---- *)
Lemma queue_find_In q h p : queue_find q h = Some p -> In (p, h) q.
Proof.
  induction q as [|[p' k] q IH]; cbn; [discriminate|].
  destruct (N.eqb k h) eqn:E.
  - apply N.eqb_eq in E. intros [= ->]. subst. now left.
  - intros H. right. auto.
Qed.

Lemma queue_find_None q h : queue_find q h = None <-> ~ In h (map snd q).
Proof.
  induction q as [|[p' k] q IH]; cbn; [tauto|].
  destruct (N.eqb k h) eqn:E.
  - apply N.eqb_eq in E. subst. split; [discriminate|tauto].
  - apply N.eqb_neq in E. rewrite IH. tauto.
Qed.

Lemma queue_find_Some_In q h : In h (map snd q) -> exists p, queue_find q h = Some p.
Proof.
  intros Hin. destruct (queue_find q h) eqn:E; [eauto|].
  apply queue_find_None in E. contradiction.
Qed.

Lemma queue_remove_In x q h : In x (queue_remove q h) -> In x q.
Proof.
  induction q as [|[p k] q IH]; cbn; [tauto|].
  destruct (N.eqb k h); cbn; intuition.
Qed.

Lemma queue_remove_map_snd q h : map snd (queue_remove q h) = remove_first (map snd q) h.
Proof.
  induction q as [|[p k] q IH]; cbn; [reflexivity|].
  destruct (N.eqb k h); cbn; [reflexivity|]. now rewrite IH.
Qed.

Lemma queue_remove_length q h : In h (map snd q) -> S (length (queue_remove q h)) = length q.
Proof.
  intros Hin. rewrite <- (map_length snd), queue_remove_map_snd, remove_first_length by assumption.
  now rewrite map_length.
Qed.

Lemma queue_min_spec q p : queue_min q p = true <-> (forall p' h', In (p', h') q -> p <= p').
Proof.
  unfold queue_min. rewrite forallb_forall. split.
  - intros H p' h' Hin. specialize (H _ Hin). cbn in H. lia.
  - intros H [p' h'] Hin. cbn. specialize (H _ _ Hin). lia.
Qed.

(* ---- pending ---- *)
Lemma pending_find_In p h r : pending_find p h = Some r -> In (h, r) p.
Proof.
  induction p as [|[k r'] p IH]; cbn; [discriminate|].
  destruct (N.eqb k h) eqn:E.
  - apply N.eqb_eq in E. intros [= ->]. subst. now left.
  - intros H. right. auto.
Qed.

Lemma pending_find_Some p h : In h (map fst p) -> exists r, pending_find p h = Some r.
Proof.
  induction p as [|[k r'] p IH]; cbn; [tauto|]. intros Hin.
  destruct (N.eqb k h) eqn:E; [eauto|]. apply N.eqb_neq in E.
  destruct Hin as [->|Hin]; [congruence|auto].
Qed.

Lemma pending_remove_map_fst p h : map fst (pending_remove p h) = remove_first (map fst p) h.
Proof.
  induction p as [|[k r] p IH]; cbn; [reflexivity|].
  destruct (N.eqb k h); cbn; [reflexivity|]. now rewrite IH.
Qed.

Lemma pending_remove_In x p h : In x (pending_remove p h) -> In x p.
Proof.
  induction p as [|[k r] p IH]; cbn; [tauto|].
  destruct (N.eqb k h); cbn; intuition.
Qed.

Lemma pending_remove_length p h : In h (map fst p) -> S (length (pending_remove p h)) = length p.
Proof.
  intros Hin. rewrite <- (map_length fst), pending_remove_map_fst, remove_first_length by assumption.
  now rewrite map_length.
Qed.

(* ---- cache ---- *)
Lemma cache_get_set c h k x :
  cache_get (cache_set c h k) x = if N.eqb h x then Some k else cache_get c x.
Proof. reflexivity. Qed.

Lemma cached_set c h k x : cached (cache_set c h k) x = N.eqb h x || cached c x.
Proof. unfold cached. rewrite cache_get_set. destruct (N.eqb h x); reflexivity. Qed.

Lemma cached_true c h : cached c h = true <-> exists k, cache_get c h = Some k.
Proof.
  unfold cached. destruct (cache_get c h); split; intros; eauto; try discriminate.
  destruct H; discriminate.
Qed.

Lemma cached_false c h : cached c h = false <-> cache_get c h = None.
Proof. unfold cached. destruct (cache_get c h); split; intros; congruence. Qed.

(* ---- store ---- *)
Lemma store_get_hash st h e : store_get st h = Some e -> fe_hash e = h.
Proof. unfold store_get. destruct (store_find st h); [|discriminate]. intros [= <-]. reflexivity. Qed.

Lemma store_find_In st h e : store_find st h = Some e -> In (h, e) st.
Proof.
  induction st as [|[k e'] st IH]; cbn; [discriminate|].
  destruct (N.eqb k h) eqn:E.
  - apply N.eqb_eq in E. intros [= ->]. subst. now left.
  - intros H. right. auto.
Qed.

Lemma store_get_links st h e x : store_get st h = Some e -> In x (fe_links e) -> In x (store_links st).
Proof.
  unfold store_get. destruct (store_find st h) as [e0|] eqn:E; [|discriminate].
  intros [= <-] Hin. unfold store_links. apply in_flat_map.
  exists (h, e0). split; [now apply store_find_In|exact Hin].
Qed.

(* ---------------------------------------------------------------------------------------- *)
(* the validator is the step relation                                                        *)

Lemma exec_step_iff cfg s ev s' : exec_step cfg s ev = Some s' <-> step cfg s ev s'.
Proof.
  split.
  - destruct ev as [h|h ok|h|]; unfold exec_step.
    + destruct (st_timedout s) eqn:Et; [discriminate|].
      destruct (Nat.ltb (length (st_fetching s)) (cf_conc cfg)) eqn:El; cbn [negb]; [|discriminate].
      destruct (queue_find (st_queue s) h) as [p|] eqn:Ef; [|discriminate].
      destruct (queue_min (st_queue s) p) eqn:Em; [|discriminate].
      intros [= <-]. apply Nat.ltb_lt in El. eapply StepDispatch; eauto.
      now apply queue_min_spec.
    + destruct (mem h (st_fetching s)) eqn:Em; cbn [negb]; [|discriminate].
      apply mem_In in Em.
      destruct (store_get (cf_store cfg) h) as [e|] eqn:Es; destruct ok; try discriminate.
      * intros [= <-]. apply StepReturn; [assumption|]. cbn. rewrite Es. split; congruence.
      * destruct (st_timedout s) eqn:Et; [|discriminate]. intros [= <-].
        apply StepReturn; [assumption|]. cbn. auto.
      * intros [= <-]. apply StepReturn; [assumption|]. cbn. auto.
    + destruct (pending_find (st_pending s) h) as [r|] eqn:Ep; [|discriminate].
      intros [= <-]. now apply StepComplete.
    + destruct (cf_timeout cfg) eqn:Ec; cbn [andb]; [|discriminate].
      destruct (st_timedout s) eqn:Et; cbn [negb]; [discriminate|]. intros [= <-]. now apply StepTimeout.
  - intros H. destruct H as [s h p Ht Hl Hf Hm|s h ok r Hin Hr|s h r Hp|s Hc Ht]; unfold exec_step.
    + rewrite Ht. apply Nat.ltb_lt in Hl. rewrite Hl. cbn [negb]. rewrite Hf.
      apply queue_min_spec in Hm. now rewrite Hm.
    + apply mem_In in Hin. rewrite Hin. cbn [negb]. unfold return_value in Hr. destruct ok.
      * destruct Hr as [-> Hne]. destruct (store_get (cf_store cfg) h); [reflexivity|congruence].
      * destruct Hr as [-> [Hn|Ht]].
        -- now rewrite Hn.
        -- rewrite Ht. destruct (store_get (cf_store cfg) h); reflexivity.
    + now rewrite Hp.
    + now rewrite Hc, Ht.
Qed.

Lemma run_from_iff cfg s evs s' : run_from cfg s evs = Some s' <-> exec cfg s evs s'.
Proof.
  revert s. induction evs as [|ev evs IH]; intros s; cbn.
  - split; [intros [= <-]; constructor|intros H; inversion H; reflexivity].
  - destruct (exec_step cfg s ev) as [s1|] eqn:E.
    + rewrite IH. apply exec_step_iff in E. split.
      * intros H. econstructor; eauto.
      * intros H. inversion H as [|? ? s1' ? ? Hs He]; subst.
        apply exec_step_iff in Hs. apply exec_step_iff in E. congruence.
    + split; [discriminate|]. intros H. inversion H as [|? ? s1' ? ? Hs He]; subst.
      apply exec_step_iff in Hs. congruence.
Qed.

Lemma terminalb_iff s : terminalb s = true <-> terminal s.
Proof.
  unfold terminalb, terminal.
  destruct (st_fetching s); destruct (st_pending s); destruct (st_queue s); destruct (st_timedout s);
    split; intros H; try discriminate; try reflexivity; intuition; try discriminate.
Qed.

Lemma exec_app cfg s evs1 s1 evs2 s2 :
  exec cfg s evs1 s1 -> exec cfg s1 evs2 s2 -> exec cfg s (evs1 ++ evs2) s2.
Proof.
  induction 1 as [|s ev sa evs sb Hs He IH]; intros H2; cbn; [assumption|].
  econstructor; eauto.
Qed.

Lemma exec_snoc cfg s evs s1 ev s2 :
  exec cfg s evs s1 -> step cfg s1 ev s2 -> exec cfg s (evs ++ [ev]) s2.
Proof. intros H1 H2. eapply exec_app; eauto. econstructor; eauto. constructor. Qed.

(* induction over reachable states *)
Lemma reachable_ind cfg starts (P : fstate -> Prop) :
  P (init_state cfg starts) ->
  (forall s ev s', reachable_state cfg starts s -> P s -> step cfg s ev s' -> P s') ->
  forall s, reachable_state cfg starts s -> P s.
Proof.
  intros Hinit Hstep s [evs He].
  assert (G : forall evs s0 s, reachable_state cfg starts s0 -> P s0 -> exec cfg s0 evs s -> P s).
  { clear He evs s. intros evs. induction evs as [|ev evs IH]; intros s0 s Hr HP He.
    - inversion He; subst; assumption.
    - inversion He as [|? ? s1 ? ? Hs He']; subst.
      apply (IH s1 s); auto.
      + destruct Hr as [evs0 H0]. exists (evs0 ++ [ev]). eapply exec_snoc; eauto.
      + eapply Hstep; eauto. }
  eapply G; eauto. exists []. constructor.
Qed.

Lemma reachable_step cfg starts s ev s' :
  reachable_state cfg starts s -> step cfg s ev s' -> reachable_state cfg starts s'.
Proof. intros [evs He] Hs. exists (evs ++ [ev]). eapply exec_snoc; eauto. Qed.

(* ---------------------------------------------------------------------------------------- *)
(* specification of the addHashToQueue loops                                                 *)

Section AddSpec.
  Variable cfg : config.

  Definition wantedb (h : N) : bool := negb (N.eqb h 0) && negb (cf_excl cfg h).
  Lemma wantedb_iff h : wantedb h = true <-> wanted cfg h.
  Proof.
    unfold wantedb, wanted. rewrite andb_true_iff, !negb_true_iff, N.eqb_neq. tauto.
  Qed.

  Lemma excluded_false c h : excluded cfg c h = false <-> wanted cfg h /\ cached c h = false.
  Proof.
    unfold excluded, wanted. rewrite !orb_false_iff, N.eqb_neq. tauto.
  Qed.

  (* what one loop adds: [added] is the list of new queue items *)
  Record add_spec (hs : list N) (qc qc' : queue * cache) (added : queue) : Prop := {
    as_queue : fst qc' = fst qc ++ added;
    as_cache : forall x, cache_get (snd qc') x =
                         if mem x (map snd added) then Some TAdded else cache_get (snd qc) x;
    as_nodup : NoDup (map snd added);
    as_new : forall x, In x (map snd added) -> In x hs /\ wanted cfg x /\ cached (snd qc) x = false;
    as_all : forall x, In x hs -> wanted cfg x -> cached (snd qc') x = true
  }.

  Lemma add_indexed_spec prio hs : forall i qc,
    exists added, add_spec hs qc (add_indexed cfg prio i hs qc) added.
  Proof.
    induction hs as [|h hs IH]; intros i qc; cbn [add_indexed].
    - exists []. split; cbn;
        [now rewrite app_nil_r | intros x; reflexivity | constructor | intros x H; tauto | intros x H; tauto].
    - destruct (IH (i + 1) (add_hash cfg (prio i) h qc)) as [added [Hq Hc Hnd Hnew Hall]].
      unfold add_hash in *. destruct (excluded cfg (snd qc) h) eqn:Ex.
      + exists added. split; auto.
        * intros x Hin. destruct (Hnew x Hin) as [H1 [H2 H3]]. split; [now right|split; assumption].
        * intros x [->|Hin] Hw; [|auto].
          (* h itself is wanted and excluded: it was cached already, and stays cached *)
          assert (Hc0 : cached (snd qc) x = true).
          { destruct (cached (snd qc) x) eqn:E; [reflexivity|].
            assert (excluded cfg (snd qc) x = false) by (apply excluded_false; auto). congruence. }
          unfold cached. rewrite Hc. destruct (mem x (map snd added)); [reflexivity|].
          exact Hc0.
      + apply excluded_false in Ex. destruct Ex as [Hw Hnc]. cbn [fst snd] in *.
        exists ((prio i, h) :: added). split; cbn [fst snd map].
        * rewrite Hq. now rewrite <- app_assoc.
        * intros x. rewrite Hc. rewrite cache_get_set. cbn [mem existsb].
          fold (mem x (map snd added)). rewrite (N.eqb_sym x h).
          destruct (mem x (map snd added)) eqn:Em; [now rewrite orb_true_r|].
          rewrite orb_false_r. reflexivity.
        * constructor; [|assumption]. intro Hin. destruct (Hnew h Hin) as [_ [_ Hcc]].
          rewrite cached_set, N.eqb_refl in Hcc. discriminate.
        * intros x [<-|Hin]; [split; [now left|split; assumption]|].
          destruct (Hnew x Hin) as [H1 [H2 Hcc]]. rewrite cached_set in Hcc.
          apply orb_false_iff in Hcc. split; [now right|split; tauto].
        * intros x [->|Hin] Hwx; [|auto].
          unfold cached. rewrite Hc. destruct (mem x (map snd added)); [reflexivity|].
          rewrite cache_get_set, N.eqb_refl. reflexivity.
  Qed.

  Lemma add_spec_cached hs qc qc' added x : add_spec hs qc qc' added ->
    cached (snd qc') x = cached (snd qc) x || mem x (map snd added).
  Proof.
    intros [_ Hc _ _ _]. unfold cached. rewrite Hc.
    destruct (mem x (map snd added)); [now rewrite orb_true_r|now rewrite orb_false_r].
  Qed.

  Lemma add_spec_cache_mono hs qc qc' added x k : add_spec hs qc qc' added ->
    cache_get (snd qc) x = Some k -> cache_get (snd qc') x = Some k.
  Proof.
    intros [Hq Hc Hnd Hnew Hall] Hx. rewrite Hc.
    destruct (mem x (map snd added)) eqn:Em; [|assumption].
    apply mem_In in Em. destruct (Hnew x Em) as [_ [_ Hcc]].
    apply cached_false in Hcc. congruence.
  Qed.
End AddSpec.
