(* The system invariant: along every well-formed history of appends, unbounded joins, identity
   changes, publications and iterations, every replica satisfies the log invariant with respect to
   the universe of appended entries. *)
From Coq Require Import List ZArith Bool Lia Permutation.
From IpfsLog Require Import Model.System Proofs.OmapProofs Proofs.SortProofs Proofs.Inv Proofs.DiffProofs Proofs.JoinProofs.
Import ListNotations.
Open Scope Z_scope.

(* well-formedness of one step in a given state:
   - an append's CID is content-consistent: an entry with that hash in the universe IS the new entry
     (CID = hash of the block; collision freedom of SHA-256 is the assumption behind it);
   - joins are unbounded (size < 0). *)
Definition wf_step (s : sys) (o : op) : Prop :=
  match o with
  | OAppend r payload pc h =>
      forall l e, nth_error (s_logs s) r = Some l -> append_entry l payload pc h = Some e ->
                  forall a, In a (s_univ s) -> e_hash a = h -> a = e
  | OAppendFail r payload pc h =>
      forall l e, nth_error (s_logs s) r = Some l -> append_entry l payload pc h = Some e ->
                  forall a, In a (s_univ s) -> e_hash a = h -> a = e
  | OJoin _ _ size => size < 0
  | ONew _ _ _ _ t0 => 0 <= t0
  | OOpen _ _ _ _ _ _ _ => False   (* histories with re-opened logs: see POpen.v ([owf]) *)
  | _ => True
  end.

Fixpoint wf_from (s : sys) (ops : list op) : Prop :=
  match ops with
  | [] => True
  | o :: ops' => wf_step s o /\ wf_from (fst (step s o)) ops'
  end.
Definition wf (ops : list op) : Prop := wf_from empty_sys ops.

Definition sinv (s : sys) : Prop :=
  univ_ok (s_univ s) /\ forall r l, nth_error (s_logs s) r = Some l -> linv (s_univ s) l.

Lemma linv_mono_U U e l : linv U l -> linv (U ++ [e]) l.
Proof.
  intros I. destruct I. split; auto. intros k x H. destruct (li_in_U _ _ H). rewrite in_app_iff. auto.
Qed.

Lemma nth_error_set_nth {A} (l : list A) r x r' :
  nth_error (set_nth r x l) r' = if Nat.eqb r r' then (match nth_error l r with Some _ => Some x | None => None end)
                                 else nth_error l r'.
Proof.
  revert r r'. induction l as [|y l IH]; intros [|r] [|r']; cbn [set_nth nth_error Nat.eqb]; auto.
  - destruct (Nat.eqb r r'); reflexivity.
Qed.

Lemma sinv_empty : sinv empty_sys.
Proof.
  split; [split; intros; contradiction|]. intros [|r] l H; discriminate.
Qed.

Lemma linv_set_identity U l key : linv U l -> linv U (set_identity l key).
Proof.
  intros I. destruct I. split; cbn; auto. intros e He. specialize (li_time e He). lia.
Qed.

Lemma linv_clock U l t : linv U l -> l_time l <= t ->
  linv U (mkLog (l_id l) (l_entries l) (l_heads l) (l_next l) t (l_cid l) (l_key l) (l_sort l) (l_deny l)).
Proof.
  intros I Ht. destruct I. split; cbn; auto. intros e He. specialize (li_time e He). lia.
Qed.

(* join of two invariant logs over the same universe, any size < 0 *)
Lemma join_linv U l o same size l' out :
  univ_ok U -> linv U l -> linv U o -> size < 0 ->
  join l o same size = (l', out) -> linv U l'.
Proof.
  intros UO Il Io Hs. unfold join, join_reads.
  destruct same; [intros H; injection H as <- _; auto|].
  destruct (N.eqb_spec (l_id l) (l_id o)) as [Hid|Hid]; cbn [negb]; [|intros H; injection H as <- _; auto].
  destruct (difference (l_entries o) (oslice (l_heads o)) l) as [newitems|] eqn:D; [|intros H; injection H as <- _; auto].
  destruct (forallb (entry_ok l) (oslice newitems)) eqn:OK; cbn [negb]; [|intros H; injection H as <- _; auto].
  assert (E : size <? 0 = true) by (apply Z.ltb_lt; lia). rewrite E.
  fold_j_ents l newitems. rewrite (own_heads_o U l o UO Il Io Hid newitems D).
  intros H. injection H as <- _.
  exact (linv_join U l o UO Il Io Hid newitems D).
Qed.

Theorem sinv_step s o : sinv s -> wf_step s o -> sinv (fst (step s o)).
Proof.
  intros [UO IL] W. destruct o as [id key sf deny t0|r payload pc h|r src size|r key|r mh|r io|r payload pc h|r|osrc okeep ohh oid okey osf odeny]; cbn [step].
  - (* ONew *)
    split; [exact UO|]. cbn [fst s_logs s_univ]. intros r l H.
    destruct (Nat.lt_ge_cases r (length (s_logs s))) as [Hl|Hl].
    + rewrite nth_error_app1 in H by assumption. eauto.
    + rewrite nth_error_app2 in H by assumption. destruct (r - length (s_logs s))%nat as [|n]; cbn in H.
      * injection H as <-. apply linv_new.
      * destruct n; discriminate.
  - (* OAppend *)
    destruct (nth_error (s_logs s) r) as [l|] eqn:L; [|split; auto].
    specialize (IL r l L) as Il. unfold append.
    destruct (append_entry l payload pc h) as [e|] eqn:AE; cbn [fst]; [|].
    + assert (HC : forall a, In a (s_univ s) -> e_hash a = h -> a = e) by (intros; eapply W; eauto).
      pose proof (univ_ok_append _ _ _ _ _ _ UO Il AE HC) as UO'.
      destruct (allowed l e) eqn:A; cbn [fst].
      * split; [exact UO'|]. cbn [s_logs s_univ]. intros r' l' H. rewrite nth_error_set_nth, L in H.
        destruct (Nat.eqb r r').
        -- injection H as <-. pose proof (linv_append _ _ _ _ _ _ Il AE HC A) as X.
           rewrite (append_ok_state _ _ _ _ _ AE A) in X. exact X.
        -- apply linv_mono_U. eauto.
      * split; [exact UO'|]. cbn [fst s_logs s_univ]. intros r' l' H. rewrite nth_error_set_nth, L in H.
        destruct (Nat.eqb r r').
        -- injection H as <-. apply linv_mono_U. apply (linv_clock _ l); auto.
           pose proof (ae_time_gt_clock l payload pc h e AE). lia.
        -- apply linv_mono_U. eauto.
    + split; [exact UO|]. cbn [s_logs s_univ]. intros r' l' H. rewrite nth_error_set_nth, L in H.
      destruct (Nat.eqb r r'); [injection H as <-; auto|eauto].
  - (* OJoin *)
    destruct (nth_error (s_logs s) r) as [l|] eqn:L; [|split; auto].
    destruct (nth_error (s_logs s) src) as [o|] eqn:O; [|split; auto].
    destruct (join l o (Nat.eqb r src) size) as [l' out] eqn:J. cbn [fst].
    split; [exact UO|]. cbn [s_logs s_univ]. intros r' l'' H. rewrite nth_error_set_nth, L in H.
    destruct (Nat.eqb r r'); [|eauto]. injection H as <-.
    exact (join_linv (s_univ s) l o (Nat.eqb r src) size l' out UO (IL r l L) (IL src o O) W J).
  - (* OSetIdentity *)
    destruct (nth_error (s_logs s) r) as [l|] eqn:L; [|split; auto]. cbn [fst].
    split; [exact UO|]. cbn [s_logs s_univ]. intros r' l' H. rewrite nth_error_set_nth, L in H.
    destruct (Nat.eqb r r'); [injection H as <-; apply linv_set_identity; eauto|eauto].
  - (* OPublish *)
    destruct (nth_error (s_logs s) r) as [l|] eqn:L; [|split; auto].
    destruct (olen (l_heads l) =? 0); split; auto.
  - (* OIter *)
    destruct (nth_error (s_logs s) r) as [l|] eqn:L; [|split; auto].
    destruct (iterator l io) as [[es c]| |]; split; auto.
  - (* OAppendFail *)
    destruct (nth_error (s_logs s) r) as [l|] eqn:L; [|split; auto].
    specialize (IL r l L) as Il.
    destruct (append_entry l payload pc h) as [e|] eqn:AE; cbn [fst]; [|split; auto].
    assert (HC : forall a, In a (s_univ s) -> e_hash a = h -> a = e) by (intros; eapply W; eauto).
    pose proof (univ_ok_append _ _ _ _ _ _ UO Il AE HC) as UO'.
    split; [exact UO'|]. cbn [fst s_logs s_univ]. intros r' l' H. rewrite nth_error_set_nth, L in H.
    destruct (Nat.eqb r r').
    + injection H as <-. apply linv_mono_U. apply (linv_clock _ l); auto.
      pose proof (ae_time_gt_clock l payload pc h e AE). lia.
    + apply linv_mono_U. eauto.
  - (* OFail *)
    split; auto.
  - (* OOpen: not part of these histories *)
    destruct W.
Qed.

Theorem sinv_run_from ops : forall s, sinv s -> wf_from s ops -> sinv (run_from s ops).
Proof.
  induction ops as [|o ops IH]; intros s I W; cbn [run_from fold_left]; [exact I|].
  destruct W as [W1 W2]. apply IH; [now apply sinv_step|exact W2].
Qed.

Theorem sinv_run ops : wf ops -> sinv (run ops).
Proof. intros W. apply sinv_run_from; [apply sinv_empty|exact W]. Qed.

(* every prefix of a well-formed history is well-formed: the invariant holds in every reachable state *)
Lemma wf_from_app s a b : wf_from s (a ++ b) -> wf_from s a.
Proof.
  revert s. induction a as [|o a IH]; intros s; cbn [app wf_from]; [auto|]. intros [W1 W2]. split; eauto.
Qed.

Lemma run_from_app s a b : run_from s (a ++ b) = run_from (run_from s a) b.
Proof. unfold run_from. apply fold_left_app. Qed.

Lemma wf_from_app_r s a b : wf_from s (a ++ b) -> wf_from (run_from s a) b.
Proof.
  revert s. induction a as [|o a IH]; intros s; cbn [app wf_from]; [auto|]. intros [W1 W2].
  change (run_from s (o :: a)) with (run_from (fst (step s o)) a). auto.
Qed.
