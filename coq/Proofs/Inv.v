(* The log invariant and its preservation by Append (see DESIGN 3.3).
   [U] is the universe of entries ever appended in the system (ghost); hashes are consistent in it. *)
From Coq Require Import List ZArith Bool Lia Permutation.
From IpfsLog Require Import Model.Log Proofs.OmapProofs Proofs.SortProofs.
Import ListNotations.
Open Scope Z_scope.

Definition ents (l : log) : list entry := oslice (l_entries l).
Definition named_in (es : list entry) (h : hash) : Prop := In h (all_nexts es).

Lemma named_in_iff es h : named_in es h <-> exists e, In e es /\ In h (e_next e).
Proof. unfold named_in, all_nexts. rewrite in_flat_map. tauto. Qed.

Lemma classic_named es h : named_in es h \/ ~ named_in es h.
Proof. unfold named_in. destruct (in_dec N.eq_dec h (all_nexts es)); auto. Qed.

(* universe: hash determines the entry; every named predecessor exists and is strictly older *)
Record univ_ok (U : list entry) : Prop := {
  u_fun : forall a b, In a U -> In b U -> e_hash a = e_hash b -> a = b;
  u_closed : forall a n, In a U -> In n (e_next a) -> exists p, In p U /\ e_hash p = n /\ e_time p < e_time a;
}.

Record linv (U : list entry) (l : log) : Prop := {
  li_nodup : NoDup (okeys (l_entries l));
  li_in_U : forall k e, In (k, e) (l_entries l) -> In e U /\ e_hash e = k;
  li_closed : forall e n, In e (ents l) -> In n (e_next e) -> In n (okeys (l_entries l));
  li_logid : forall e, In e (ents l) -> e_logid e = l_id l;
  li_heads_nodup : NoDup (okeys (l_heads l));
  li_heads : forall k e, In (k, e) (l_heads l) <-> (In (k, e) (l_entries l) /\ ~ named_in (ents l) k);
  li_next : forall n, In n (okeys (l_next l)) <-> named_in (ents l) n;
  li_time : forall e, In e (ents l) -> e_time e <= l_time l;
}.

Lemma linv_new U id key s deny t0 : linv U (new_log id key s deny t0).
Proof.
  split; cbn; try (now constructor); try tauto; try (intros; contradiction).
Qed.

Lemma ents_In l e : In e (ents l) <-> exists k, In (k, e) (l_entries l).
Proof. apply In_oslice. Qed.

Lemma linv_entry U l e : linv U l -> In e (ents l) -> In (e_hash e, e) (l_entries l) /\ In e U.
Proof.
  intros I H. apply ents_In in H. destruct H as [k H]. destruct (li_in_U _ _ I _ _ H) as [HU Hk]. subst. auto.
Qed.

Lemma linv_oget U l k e : linv U l -> (oget (l_entries l) k = Some e <-> In (k, e) (l_entries l)).
Proof.
  intros I. split; [apply oget_In|apply In_oget, (li_nodup _ _ I)].
Qed.

Lemma linv_well_keyed U l : linv U l -> well_keyed (l_entries l).
Proof. intros I k e H. now apply (li_in_U _ _ I). Qed.

(* two logs over the same universe agree on common hashes *)
Lemma linv_agree U l1 l2 k e1 e2 : univ_ok U -> linv U l1 -> linv U l2 ->
  In (k, e1) (l_entries l1) -> In (k, e2) (l_entries l2) -> e1 = e2.
Proof.
  intros UO I1 I2 H1 H2. destruct (li_in_U _ _ I1 _ _ H1), (li_in_U _ _ I2 _ _ H2).
  apply (u_fun _ UO); auto. congruence.
Qed.

(* predecessors present in the log are strictly older (I3) *)
Lemma linv_mono U l e n p : univ_ok U -> linv U l ->
  In e (ents l) -> In n (e_next e) -> In (n, p) (l_entries l) -> e_time p < e_time e.
Proof.
  intros UO I He Hn Hp. destruct (linv_entry _ _ _ I He) as [_ HeU].
  destruct (u_closed _ UO _ _ HeU Hn) as [q [HqU [Hq Ht]]].
  destruct (li_in_U _ _ I _ _ Hp) as [HpU Hpk].
  assert (p = q) by (apply (u_fun _ UO); auto; congruence). now subst.
Qed.

(* sorted heads: same set as the heads *)
Lemma sorted_heads_In l k e : NoDup (okeys (l_heads l)) -> well_keyed (l_heads l) ->
  (In (k, e) (sorted_heads l) <-> In (k, e) (l_heads l)).
Proof.
  intros Hnd Hw. unfold sorted_heads, sort_desc, sort_go. split.
  - intros H. apply from_entries_In in H. destruct H as [H Hk]. apply gosort_in in H.
    apply In_oslice in H. destruct H as [k' H]. rewrite (Hw _ _ H) in Hk. now subst.
  - intros H. pose proof (Hw _ _ H) as Hk. subst k. apply from_entries_complete.
    + eapply Permutation_NoDup; [apply Permutation_map; symmetry; apply gosort_perm|].
      replace (map e_hash (oslice (l_heads l))) with (okeys (l_heads l)); [exact Hnd|].
      unfold okeys, oslice. rewrite map_map. apply map_ext_in. intros [k' e'] Hin. cbn. symmetry. now apply Hw.
    + apply gosort_in. apply In_oslice. eauto.
Qed.

Lemma heads_well_keyed U l : linv U l -> well_keyed (l_heads l).
Proof. intros I k e H. apply (li_heads _ _ I) in H. destruct H as [H _]. now apply (li_in_U _ _ I) in H. Qed.

(* ---- Append ---- *)
Section Append.
  Variables (U : list entry) (l : log) (payload : N) (pc : Z) (h : hash) (e : entry).
  Hypothesis UO : univ_ok U.
  Hypothesis I : linv U l.
  Hypothesis AE : append_entry l payload pc h = Some e.

  Lemma ae_hash : e_hash e = h.
  Proof. unfold append_entry in AE. destruct (traverse _ _ _ _ _); inversion AE; reflexivity. Qed.

  Lemma ae_logid : e_logid e = l_id l.
  Proof. unfold append_entry in AE. destruct (traverse _ _ _ _ _); inversion AE; reflexivity. Qed.

  Lemma ae_cid_key : e_cid e = l_cid l /\ e_key e = l_key l.
  Proof. unfold append_entry in AE. destruct (traverse _ _ _ _ _); inversion AE; auto. Qed.

  Lemma ae_time : e_time e = Z.max (l_time l) (max_time (oslice (sorted_heads l)) 0) + 1.
  Proof. unfold append_entry in AE. destruct (traverse _ _ _ _ _); inversion AE; reflexivity. Qed.

  Lemma ae_next n : In n (e_next e) <-> In n (okeys (l_heads l)).
  Proof.
    pose proof (li_heads_nodup _ _ I) as Hnd. pose proof (heads_well_keyed _ _ I) as Hw.
    unfold append_entry in AE. destruct (traverse _ _ _ _ _); inversion AE; subst; cbn [e_next].
    rewrite uniq_In, <- in_rev, in_map_iff, In_okeys. split.
    - intros [x [Hx Hin]]. apply In_oslice in Hin. destruct Hin as [k Hin].
      apply sorted_heads_In in Hin; auto. pose proof (Hw _ _ Hin) as Hk. exists x. congruence.
    - intros [x Hin]. exists x. split; [now apply Hw|].
      apply In_oslice. exists n. now apply sorted_heads_In.
  Qed.

  Lemma ae_next_nodup : NoDup (e_next e).
  Proof. unfold append_entry in AE. destruct (traverse _ _ _ _ _); inversion AE; subst; cbn [e_next]. apply uniq_NoDup. Qed.

  Lemma ae_refs_nodup : NoDup (e_refs e).
  Proof. unfold append_entry in AE. destruct (traverse _ _ _ _ _); inversion AE; subst; cbn [e_refs]. apply uniq_NoDup. Qed.

  Lemma ae_refs_not_next r : In r (e_refs e) -> ~ In r (e_next e).
  Proof.
    unfold append_entry in AE. destruct (traverse _ _ _ _ _); inversion AE; subst; cbn [e_refs e_next].
    rewrite !uniq_In, filter_In. intros [_ Hm] Hn. apply negb_true_iff in Hm. apply mem_false in Hm. auto.
  Qed.

  (* the new time dominates every entry of the log *)
  Lemma ae_time_gt x : In x (ents l) -> e_time x < e_time e.
  Proof. intros Hx. rewrite ae_time. pose proof (li_time _ _ I _ Hx). lia. Qed.

  Lemma ae_time_gt_clock : l_time l < e_time e.
  Proof. rewrite ae_time. lia. Qed.

  (* hash consistency: any entry of the universe with hash h is e itself *)
  Hypothesis HC : forall a, In a U -> e_hash a = h -> a = e.

  Lemma ae_fresh : ~ In h (okeys (l_entries l)).
  Proof.
    intros Hin. apply oget_keys in Hin. destruct (oget (l_entries l) h) as [x|] eqn:E; [|congruence].
    apply oget_In in E. destruct (li_in_U _ _ I _ _ E) as [HxU Hk].
    assert (x = e) by (apply HC; auto). subst x.
    assert (In e (ents l)) by (apply ents_In; eauto).
    pose proof (ae_time_gt _ H). lia.
  Qed.

  Lemma univ_ok_append : univ_ok (U ++ [e]).
  Proof.
    split.
    - intros a b Ha Hb Hh. rewrite in_app_iff in Ha, Hb. cbn [In] in Ha, Hb.
      destruct Ha as [Ha|[<-|[]]], Hb as [Hb|[<-|[]]]; auto.
      + apply (u_fun _ UO); auto.
      + apply HC; auto. rewrite Hh. apply ae_hash.
      + symmetry. apply HC; auto. rewrite <- Hh. apply ae_hash.
    - intros a n Ha Hn. rewrite in_app_iff in Ha. cbn [In] in Ha. destruct Ha as [Ha|[<-|[]]].
      + destruct (u_closed _ UO _ _ Ha Hn) as [p [Hp [Hh Ht]]]. exists p. rewrite in_app_iff. auto.
      + apply ae_next in Hn. apply In_okeys in Hn. destruct Hn as [x Hin].
        apply (li_heads _ _ I) in Hin. destruct Hin as [Hin _].
        destruct (li_in_U _ _ I _ _ Hin) as [HxU Hxk]. exists x. rewrite in_app_iff. repeat split; auto.
        apply ae_time_gt. apply ents_In. eauto.
  Qed.

  Definition l' : log := fst (append l payload pc h).

  Lemma append_ok_state : allowed l e = true ->
    append l payload pc h =
      (mkLog (l_id l) (oset (l_entries l) h e) (from_entries [e])
             (fold_left (fun nx n => oset nx n e) (e_next e) (l_next l))
             (e_time e) (l_cid l) (l_key l) (l_sort l) (l_deny l), Ok e).
  Proof. intros A. unfold append. rewrite AE, A. reflexivity. Qed.

  Lemma entries_after : oset (l_entries l) h e = l_entries l ++ [(h, e)].
  Proof. apply oset_fresh, ae_fresh. Qed.

  Lemma fold_next_keys (ns : list hash) (nx : omap) n :
    In n (okeys (fold_left (fun nx n => oset nx n e) ns nx)) <-> In n (okeys nx) \/ In n ns.
  Proof.
    revert nx. induction ns as [|x ns IH]; intros nx; cbn [fold_left In]; [tauto|].
    rewrite IH, In_okeys_oset. intuition (subst; auto).
  Qed.

  Theorem linv_append : allowed l e = true -> linv (U ++ [e]) (fst (append l payload pc h)).
  Proof.
    intros A. rewrite (append_ok_state A). cbn [fst].
    assert (Hents : oslice (oset (l_entries l) h e) = ents l ++ [e]).
    { rewrite entries_after. unfold ents, oslice. now rewrite map_app. }
    assert (Hnamed : forall k, named_in (ents l ++ [e]) k <-> named_in (ents l) k \/ In k (e_next e)).
    { intros k. unfold named_in, all_nexts. rewrite flat_map_app, in_app_iff. cbn. rewrite app_nil_r. tauto. }
    split; cbn [l_entries l_heads l_next l_time l_id]; unfold ents; cbn [l_entries].
    - apply NoDup_okeys_oset, (li_nodup _ _ I).
    - intros k x H. rewrite entries_after, in_app_iff in H. cbn [In] in H. destruct H as [H|[H|[]]].
      + destruct (li_in_U _ _ I _ _ H). rewrite in_app_iff. auto.
      + injection H as <- <-. rewrite in_app_iff. cbn. split; [auto|apply ae_hash].
    - intros x n Hx Hn. rewrite Hents, in_app_iff in Hx. cbn [In] in Hx. rewrite In_okeys_oset.
      destruct Hx as [Hx|[<-|[]]].
      + right. eapply (li_closed _ _ I); eauto.
      + right. apply ae_next in Hn. apply In_okeys in Hn. destruct Hn as [y Hin].
        apply (li_heads _ _ I) in Hin. destruct Hin as [Hin _]. apply In_okeys. eauto.
    - intros x Hx. rewrite Hents, in_app_iff in Hx. cbn [In] in Hx. destruct Hx as [Hx|[<-|[]]].
      + now apply (li_logid _ _ I).
      + apply ae_logid.
    - cbn. constructor; [tauto|constructor].
    - intros k x. rewrite Hents, Hnamed. cbn [from_entries fold_left oset In]. rewrite entries_after, in_app_iff. cbn [In].
      rewrite ae_hash. split.
      + intros [H|[]]. injection H as <- <-. split; [auto|]. intros [Hn|Hn].
        * apply named_in_iff in Hn. destruct Hn as [y [Hy Hn]]. apply (li_closed _ _ I) in Hn; auto. now apply ae_fresh.
        * apply ae_next in Hn. apply In_okeys in Hn. destruct Hn as [y Hin].
          apply (li_heads _ _ I) in Hin. destruct Hin as [Hin _]. apply ae_fresh. apply In_okeys. eauto.
      + intros [[H|[H|[]]] Hn]; [|now left]. exfalso. apply Hn.
        destruct (classic_named (ents l) k) as [Y|Nn]; [now left|]. right. apply ae_next.
        assert (In (k, x) (l_heads l)) by (apply (li_heads _ _ I); auto).
        apply In_okeys. eauto.
    - intros n. rewrite fold_next_keys, Hents, Hnamed. now rewrite (li_next _ _ I).
    - intros x Hx. rewrite Hents, in_app_iff in Hx. cbn [In] in Hx. destruct Hx as [Hx|[<-|[]]]; [|lia].
      pose proof (ae_time_gt _ Hx). lia.
  Qed.
End Append.
