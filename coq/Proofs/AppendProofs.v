(* Facts about Append beyond the invariant (C04): the skip references. *)
From Coq Require Import List ZArith Bool Lia Permutation Sorted.
From IpfsLog Require Import Model.Log Proofs.OmapProofs Proofs.SortProofs Proofs.Inv Proofs.TravProofs.
Import ListNotations.
Open Scope Z_scope.

(* ---- whatever the comparator, amount and end hash: the traversal result only contains entries
        that were already in the result, on the stack, or in the index ---- *)
Lemma push_nexts_from_index entries ns : forall stack seen md stack' seen' md',
  push_nexts entries ns (stack, seen, md) = (stack', seen', md') ->
  forall x, In x stack' -> In x stack \/ exists c, oget entries c = Some x.
Proof.
  induction ns as [|c ns IH]; intros stack seen md stack' seen' md'; unfold push_nexts; cbn [fold_left].
  - intros H. injection H as <- <- <-. auto.
  - fold (push_nexts entries ns). unfold push_next at 2. destruct (oget entries c) as [n|] eqn:G; [|apply IH].
    destruct (mem (e_hash n) seen); [apply IH|]. intros H x Hx.
    destruct (IH _ _ _ _ _ _ H x Hx) as [[<-|?]|?]; eauto.
Qed.

Lemma trav_result_sources entries s amount endh fuel : forall stack seen res cnt out,
  trav fuel entries s amount endh stack seen res cnt = Some out ->
  forall k v, In (k, v) out ->
    In (k, v) res \/ (k = e_hash v /\ (In v stack \/ exists c, oget entries c = Some v)).
Proof.
  induction fuel as [|f IH]; intros stack seen res cnt out; destruct stack as [|e stack']; cbn [trav].
  - intros H; injection H as <-; auto.
  - destruct (_ && _); [intros H; injection H as <-; auto|discriminate].
  - intros H; injection H as <-; auto.
  - destruct (_ && _); [intros H; injection H as <-; auto|].
    destruct (ohas res (e_hash e)) eqn:O.
    + intros H k v Hin. destruct (IH _ _ _ _ _ H k v Hin) as [?|[? [?|?]]]; auto. right. split; auto. left. now right.
    + assert (Hres : forall k v, In (k, v) (oset res (e_hash e) e) -> In (k, v) res \/ (k = e_hash e /\ v = e)).
      { intros k v Hin. apply ohas_false in O. rewrite (oset_fresh _ _ _ O), in_app_iff in Hin. cbn [In] in Hin.
        destruct Hin as [?|[Hin|[]]]; auto. injection Hin as <- <-. auto. }
      destruct (match endh with Some h => N.eqb (e_hash e) h | None => false end).
      * intros H; injection H as <-. intros k v Hin. destruct (Hres k v Hin) as [?|[-> ->]]; auto.
        right. split; auto. left. now left.
      * fold (push_nexts entries (e_next e) (stack', e_hash e :: seen, false)).
        destruct (push_nexts entries (e_next e) (stack', e_hash e :: seen, false)) as [[stack'' seen''] md] eqn:PN.
        intros H k v Hin. destruct (IH _ _ _ _ _ H k v Hin) as [Hr|[Hk [Hs|Hx]]].
        -- destruct (Hres k v Hr) as [?|[-> ->]]; auto. right. split; auto. left. now left.
        -- right. split; auto.
           assert (Hs' : In v stack'') by (destruct md; [now apply sort_desc_In in Hs|exact Hs]).
           destruct (push_nexts_from_index _ _ _ _ _ _ _ _ PN v Hs') as [?|?]; auto. left. now right.
        -- right. auto.
Qed.

(* ---- getEveryPow2 ---- *)
Lemma pow2_loop_In fuel : forall i maxd all acc x,
  In x (pow2_loop fuel i maxd all acc) -> In x acc \/ In x (oslice all).
Proof.
  induction fuel as [|f IH]; intros i maxd all acc x; cbn [pow2_loop]; [auto|].
  destruct (i <=? maxd); [|auto]. intros H. apply IH in H. destruct H as [H|H]; [|auto].
  destruct (oat all (Z.min (olen all - 1) (i - 1))) as [e|] eqn:A; [|auto].
  apply in_app_iff in H. destruct H as [H|[<-|[]]]; [auto|]. right.
  unfold oat in A. destruct (_ <? 0); [discriminate|]. eapply nth_error_In; eauto.
Qed.

Lemma pow2_loop_length fuel : forall (k : nat) i maxd all acc,
  0 < i -> maxd < i * 2 ^ Z.of_nat k ->
  (length (pow2_loop fuel i maxd all acc) <= length acc + k)%nat.
Proof.
  induction fuel as [|f IH]; intros k i maxd all acc Hi Hk; cbn [pow2_loop]; [lia|].
  destruct (Z.leb_spec i maxd) as [Hle|Hgt]; [|lia].
  destruct k as [|k]; [change (Z.of_nat 0) with 0 in Hk; rewrite Z.pow_0_r in Hk; lia|].
  assert (Hk' : maxd < 2 * i * 2 ^ Z.of_nat k).
  { rewrite Nat2Z.inj_succ, Z.pow_succ_r in Hk by lia. lia. }
  specialize (IH k (2 * i) maxd all
                 (match oat all (Z.min (olen all - 1) (i - 1)) with Some e => acc ++ [e] | None => acc end)
                 ltac:(lia) Hk').
  destruct (oat all (Z.min (olen all - 1) (i - 1))); rewrite ?app_length in IH; cbn [length] in IH; lia.
Qed.

Lemma get_every_pow2_length all maxd : 1 <= maxd ->
  (length (get_every_pow2 all maxd) <= Z.to_nat (Z.log2 maxd) + 1)%nat.
Proof.
  intros H. unfold get_every_pow2. generalize 64%nat. intros fuel.
  change (length (pow2_loop fuel 1 maxd all []) <= length (@nil entry) + (Z.to_nat (Z.log2 maxd) + 1))%nat.
  apply pow2_loop_length; [lia|].
  pose proof (Z.log2_nonneg maxd) as Hn.
  replace (Z.of_nat (Z.to_nat (Z.log2 maxd) + 1)) with (Z.succ (Z.log2 maxd)) by lia.
  destruct (Z.log2_spec maxd ltac:(lia)) as [_ Hs]. lia.
Qed.

Lemma get_every_pow2_nonpos all maxd : maxd <= 0 -> get_every_pow2 all maxd = [].
Proof.
  intros H. unfold get_every_pow2. generalize 63%nat. intros f. change 64%nat with (S 63).
  cbn [pow2_loop]. destruct (Z.leb_spec 1 maxd); [lia|reflexivity].
Qed.

Lemma filter_length_le' {A} (f : A -> bool) l : (length (filter f l) <= length l)%nat.
Proof. induction l as [|x l IH]; cbn; [lia|]. destruct (f x); cbn; lia. Qed.

Lemma uniq_aux_length seen l : (length (uniq_aux seen l) <= length l)%nat.
Proof.
  revert seen. induction l as [|x l IH]; intros seen; cbn [uniq_aux length]; [lia|].
  destruct (mem x seen); [specialize (IH seen); lia|]. cbn [length]. specialize (IH (x :: seen)). lia.
Qed.

Lemma get_every_pow2_In all maxd x : In x (get_every_pow2 all maxd) -> In x (oslice all).
Proof.
  unfold get_every_pow2. generalize 64%nat. intros fuel H. apply pow2_loop_In in H. destruct H as [[]|H]. exact H.
Qed.

(* from here on the fuelled loops are opaque: the kernel must not unfold them at Qed *)
Local Opaque get_every_pow2 traverse.

Section Refs.
  Variables (U : list entry) (l : log) (payload : N) (pc : Z) (h : hash) (e : entry).
  Hypothesis I : linv U l.
  Hypothesis AE : append_entry l payload pc h = Some e.

  (* the skip references are entries of the log *)
  Theorem ae_refs_in_log r : In r (e_refs e) -> In r (okeys (l_entries l)).
  Proof.
    unfold append_entry in AE.
    destruct (traverse (l_entries l) (l_sort l) (sorted_heads l) (Z.max (if pc =? 0 then 1 else pc) (olen (sorted_heads l))) None)
      as [all|] eqn:T; [|discriminate].
    injection AE as <-. cbn [e_refs]. rewrite uniq_In, filter_In, in_map_iff. intros [[x [<- Hx]] _].
    assert (Hall : In x (oslice all)).
    { destruct (olen all <? (if pc =? 0 then 1 else pc)).
      - destruct (oat all (olen all - 1)) as [r0|] eqn:A.
        + apply in_app_iff in Hx. destruct Hx as [Hx|[<-|[]]].
          * now apply get_every_pow2_In in Hx.
          * unfold oat in A. destruct (_ <? 0); [discriminate|]. eapply nth_error_In; eauto.
        + now apply get_every_pow2_In in Hx.
      - now apply get_every_pow2_In in Hx. }
    apply In_oslice in Hall. destruct Hall as [k Hall].
    Local Transparent traverse. unfold traverse in T. Local Opaque traverse.
    destruct (trav_result_sources _ _ _ _ _ _ _ _ _ _ T k x Hall) as [[]|[Hk [Hs|[c Hg]]]].
    - apply sort_desc_In in Hs. apply In_oslice in Hs. destruct Hs as [k' Hs].
      apply sorted_heads_In in Hs; [|apply (li_heads_nodup _ _ I)|apply (heads_well_keyed _ _ I)].
      pose proof (heads_well_keyed _ _ I _ _ Hs). subst k'.
      apply (li_heads _ _ I) in Hs. destruct Hs as [Hs _]. apply In_okeys. eauto.
    - apply oget_In in Hg. pose proof (linv_well_keyed _ _ I _ _ Hg). subst c. apply In_okeys. eauto.
  Qed.

  (* at most logarithmically many in the requested pointer count *)
  Theorem ae_refs_length :
    let p := if pc =? 0 then 1 else pc in
    (length (e_refs e) <= (if (1 <=? p)%Z then Z.to_nat (Z.log2 p) + 2 else 0))%nat.
  Proof.
    cbn zeta. unfold append_entry in AE.
    destruct (traverse (l_entries l) (l_sort l) (sorted_heads l) (Z.max (if pc =? 0 then 1 else pc) (olen (sorted_heads l))) None)
      as [all|] eqn:T; [|discriminate].
    injection AE as <-. cbn [e_refs]. set (p := if pc =? 0 then 1 else pc).
    eapply Nat.le_trans; [apply uniq_aux_length|]. eapply Nat.le_trans; [apply filter_length_le'|]. rewrite map_length.
    destruct (Z.leb_spec 1 p) as [Hp|Hp].
    - assert (Hg : (length (get_every_pow2 all (Z.min p (olen all))) <= Z.to_nat (Z.log2 p) + 1)%nat).
      { destruct (Z.leb_spec 1 (Z.min p (olen all))) as [Hm|Hm].
        - eapply Nat.le_trans; [apply get_every_pow2_length; exact Hm|].
          pose proof (Z.log2_le_mono (Z.min p (olen all)) p ltac:(lia)).
          pose proof (Z.log2_nonneg (Z.min p (olen all))). lia.
        - rewrite get_every_pow2_nonpos by lia. cbn. lia. }
      destruct (olen all <? p); [|lia].
      destruct (oat all (olen all - 1)); rewrite ?app_length; cbn [length]; lia.
    - assert (E : olen all <? p = false) by (apply Z.ltb_ge; unfold olen; lia). rewrite E.
      rewrite get_every_pow2_nonpos by lia. cbn. lia.
  Qed.
End Refs.
