(* References stay inside the log (C04, C09) and the block store is causally closed at every
   instant (C17). *)
From Coq Require Import List ZArith Bool Lia Permutation.
From IpfsLog Require Import Model.System Proofs.OmapProofs Proofs.SortProofs Proofs.Inv Proofs.DiffProofs
     Proofs.JoinProofs Proofs.SysProofs Proofs.StepProofs Proofs.TravProofs Proofs.AppendProofs.
Import ListNotations.
Open Scope Z_scope.

(* every skip reference of an entry of a log is an entry of that log *)
Definition refs_closed (l : log) : Prop :=
  forall e, In e (ents l) -> forall x, In x (e_refs e) -> In x (okeys (l_entries l)).
Definition rinv (s : sys) : Prop := forall r l, nth_error (s_logs s) r = Some l -> refs_closed l.

Lemma refs_closed_join U l o same size l' out :
  univ_ok U -> linv U l -> linv U o -> size < 0 -> refs_closed l -> refs_closed o ->
  join l o same size = (l', out) -> refs_closed l'.
Proof.
  intros UO Il Io Hs Rl Ro. unfold join, join_reads.
  destruct same; [intros H; injection H as <- _; auto|].
  destruct (N.eqb_spec (l_id l) (l_id o)) as [Hid|Hid]; cbn [negb]; [|intros H; injection H as <- _; auto].
  destruct (difference (l_entries o) (oslice (l_heads o)) l) as [ni|] eqn:D; [|intros H; injection H as <- _; auto].
  destruct (forallb (entry_ok l) (oslice ni)) eqn:OK; cbn [negb]; [|intros H; injection H as <- _; auto].
  assert (E : size <? 0 = true) by (apply Z.ltb_lt; lia). rewrite E.
  intros H. injection H as <- _.
  pose proof (join_entries U l o UO Il Io Hid ni D) as JE. cbn [j_log l_entries] in JE.
  intros e He x Hx. unfold ents in He. cbn [l_entries] in He |- *. fold (j_ents l ni) in He |- *.
  apply In_oslice in He. destruct He as [k He]. apply JE in He. apply In_okeys.
  destruct He as [He|He].
  - assert (In x (okeys (l_entries l))) by (eapply Rl; eauto; apply ents_In; eauto).
    apply In_okeys in H. destruct H as [p Hp]. exists p. apply JE. auto.
  - assert (In x (okeys (l_entries o))) by (eapply Ro; eauto; apply ents_In; eauto).
    apply In_okeys in H. destruct H as [p Hp]. exists p. apply JE. auto.
Qed.

Theorem rinv_step s o : sinv s -> wf_step s o -> rinv s -> rinv (fst (step s o)).
Proof.
  intros [UO IL] W R. destruct o as [id key sf deny t0|r payload pc h|r src size|r key|r mh|r io|r payload pc h|r|osrc okeep ohh oid okey osf odeny]; cbn [step].
  - intros r l H. cbn [fst s_logs] in H.
    destruct (Nat.lt_ge_cases r (length (s_logs s))) as [Hl|Hl].
    + rewrite nth_error_app1 in H by assumption. eauto.
    + rewrite nth_error_app2 in H by assumption. destruct (r - length (s_logs s))%nat as [|n]; cbn in H.
      * injection H as <-. intros e [].
      * destruct n; discriminate.
  - destruct (nth_error (s_logs s) r) as [l|] eqn:L; [|exact R].
    unfold append. destruct (append_entry l payload pc h) as [e|] eqn:AE.
    + assert (HC : forall a, In a (s_univ s) -> e_hash a = h -> a = e) by (intros; eapply W; eauto).
      destruct (allowed l e) eqn:A; cbn [fst].
      * intros r' l' H. cbn [s_logs] in H. rewrite nth_error_set_nth, L in H. destruct (Nat.eqb r r'); [|eauto].
        injection H as <-. intros x Hx y Hy. unfold ents in Hx. cbn [l_entries] in Hx |- *.
        rewrite (entries_after _ _ _ _ _ _ (IL r l L) AE HC) in Hx |- *.
        unfold oslice in Hx. rewrite map_app, in_app_iff in Hx. cbn [map snd In] in Hx.
        unfold okeys. rewrite map_app, in_app_iff. left.
        destruct Hx as [Hx|[<-|[]]].
        -- apply (R r l L x); auto.
        -- exact (ae_refs_in_log _ l payload pc h e (IL r l L) AE y Hy).
      * intros r' l' H. cbn [s_logs] in H. rewrite nth_error_set_nth, L in H. destruct (Nat.eqb r r'); [|eauto].
        injection H as <-. exact (R r l L).
    + cbn [fst]. intros r' l' H. cbn [s_logs] in H. rewrite nth_error_set_nth, L in H.
      destruct (Nat.eqb r r'); [injection H as <-|]; eauto.
  - destruct (nth_error (s_logs s) r) as [l|] eqn:L; [|exact R].
    destruct (nth_error (s_logs s) src) as [o|] eqn:O; [|exact R].
    destruct (join l o (Nat.eqb r src) size) as [l' out] eqn:J. cbn [fst].
    intros r' l'' H. cbn [s_logs] in H. rewrite nth_error_set_nth, L in H. destruct (Nat.eqb r r'); [|eauto].
    injection H as <-.
    exact (refs_closed_join (s_univ s) l o _ size l' out UO (IL r l L) (IL src o O) W (R r l L) (R src o O) J).
  - destruct (nth_error (s_logs s) r) as [l|] eqn:L; [|exact R]. cbn [fst].
    intros r' l' H. cbn [s_logs] in H. rewrite nth_error_set_nth, L in H.
    destruct (Nat.eqb r r'); [injection H as <-; exact (R r l L)|eauto].
  - destruct (nth_error (s_logs s) r) as [l|] eqn:L; [|exact R].
    destruct (olen (l_heads l) =? 0); exact R.
  - destruct (nth_error (s_logs s) r) as [l|] eqn:L; [|exact R].
    destruct (iterator l io) as [[es c]| |]; exact R.
  - destruct (nth_error (s_logs s) r) as [l|] eqn:L; [|exact R].
    destruct (append_entry l payload pc h) as [e|]; [|exact R]. cbn [fst].
    intros r' l' H. cbn [s_logs] in H. rewrite nth_error_set_nth, L in H. destruct (Nat.eqb r r'); [|eauto].
    injection H as <-. exact (R r l L).
  - exact R.
  - destruct W.
Qed.

Theorem rinv_run ops : wf ops -> rinv (run ops).
Proof.
  unfold run, wf. assert (R0 : rinv empty_sys) by (intros [|r] l H; discriminate).
  pose proof sinv_empty as S0. revert R0 S0. generalize empty_sys.
  induction ops as [|o ops IH]; intros s R S W; cbn [run_from fold_left]; [exact R|].
  destruct W as [W1 W2]. apply IH; [now apply rinv_step|now apply sinv_step|exact W2].
Qed.

(* ---- the block store ---- *)
(* every block was written after all the blocks it links to: then EVERY prefix of the write trace
   (every possible crash point) is causally closed *)
Definition store_ordered (st : list (hash * list hash)) : Prop :=
  forall st1 b st2, st = st1 ++ b :: st2 -> forall n, In n (snd b) -> In n (map fst st1).

Definition closed_store (st : list (hash * list hash)) : Prop :=
  forall b, In b st -> forall n, In n (snd b) -> In n (map fst st).

Lemma store_ordered_prefix_closed st : store_ordered st ->
  forall pre suf, st = pre ++ suf -> closed_store pre.
Proof.
  intros SO pre suf E b Hb n Hn. apply in_split in Hb. destruct Hb as [p1 [p2 Hp]]. subst pre.
  rewrite <- app_assoc in E. cbn [app] in E. specialize (SO p1 b (p2 ++ suf) E n Hn).
  rewrite map_app, in_app_iff. auto.
Qed.

Lemma store_ordered_snoc st h links :
  store_ordered st -> (forall n, In n links -> In n (map fst st)) -> store_ordered (st ++ [(h, links)]).
Proof.
  intros SO HL st1 b st2 E n Hn.
  destruct st2 as [|b2 st2'] using rev_ind.
  - apply app_inj_tail in E. destruct E as [-> <-]. cbn in Hn. auto.
  - rewrite app_comm_cons, app_assoc in E. apply app_inj_tail in E. destruct E as [E _].
    eapply SO; eauto.
Qed.

Lemma add_block_ordered st h links :
  store_ordered st -> (forall n, In n links -> In n (map fst st)) -> store_ordered (add_block st h links).
Proof.
  intros SO HL. unfold add_block. destruct (existsb (fun b => N.eqb (fst b) h) st); [exact SO|]. now apply store_ordered_snoc.
Qed.

Lemma add_block_keeps st h links k : In k (map fst st) -> In k (map fst (add_block st h links)).
Proof.
  unfold add_block. destruct (existsb (fun b => N.eqb (fst b) h) st); [auto|]. rewrite map_app, in_app_iff. auto.
Qed.

Lemma add_block_has st h links : In h (map fst (add_block st h links)).
Proof.
  unfold add_block. destruct (existsb (fun b => N.eqb (fst b) h) st) eqn:E.
  - apply existsb_exists in E. destruct E as [b [Hb Hk]]. apply N.eqb_eq in Hk. subst. now apply in_map.
  - rewrite map_app, in_app_iff. right. now left.
Qed.

Definition stinv (s : sys) : Prop :=
  store_ordered (s_store s) /\
  forall r l, nth_error (s_logs s) r = Some l -> forall k, In k (okeys (l_entries l)) -> In k (map fst (s_store s)).

Lemma heads_keys_in_entries U l k : linv U l -> In k (okeys (l_heads l)) -> In k (okeys (l_entries l)).
Proof.
  intros I H. apply In_okeys in H. destruct H as [e H]. apply (li_heads _ _ I) in H. destruct H as [H _].
  apply In_okeys. eauto.
Qed.

Lemma json_heads_in_entries U l k : linv U l -> In k (json_heads l) -> In k (okeys (l_entries l)).
Proof.
  intros I H. unfold json_heads in H. apply in_map_iff in H. destruct H as [e [<- He]].
  apply sort_desc_In in He. apply In_oslice in He. destruct He as [k He].
  pose proof (heads_well_keyed _ _ I _ _ He). subst k. eapply heads_keys_in_entries; eauto. apply In_okeys. eauto.
Qed.

Lemma join_keys_subset U l o same size l' out k :
  univ_ok U -> linv U l -> linv U o -> size < 0 -> join l o same size = (l', out) ->
  In k (okeys (l_entries l')) -> In k (okeys (l_entries l)) \/ In k (okeys (l_entries o)).
Proof.
  intros UO Il Io Hs. unfold join, join_reads.
  destruct same; [intros H; injection H as <- _; auto|].
  destruct (N.eqb_spec (l_id l) (l_id o)) as [Hid|Hid]; cbn [negb]; [|intros H; injection H as <- _; auto].
  destruct (difference (l_entries o) (oslice (l_heads o)) l) as [ni|] eqn:D; [|intros H; injection H as <- _; auto].
  destruct (forallb (entry_ok l) (oslice ni)) eqn:OK; cbn [negb]; [|intros H; injection H as <- _; auto].
  assert (E : size <? 0 = true) by (apply Z.ltb_lt; lia). rewrite E.
  intros H. injection H as <- _. intros Hk. apply In_okeys in Hk. destruct Hk as [v Hk].
  apply (join_entries U l o UO Il Io Hid ni D) in Hk. destruct Hk; [left|right]; apply In_okeys; eauto.
Qed.

Theorem stinv_step s o : sinv s -> wf_step s o -> rinv s -> stinv s -> stinv (fst (step s o)).
Proof.
  intros [UO IL] W R [SO SH]. destruct o as [id key sf deny t0|r payload pc h|r src size|r key|r mh|r io|r payload pc h|r|osrc okeep ohh oid okey osf odeny]; cbn [step].
  - split; [exact SO|]. cbn [fst s_logs s_store]. intros r l H.
    destruct (Nat.lt_ge_cases r (length (s_logs s))) as [Hl|Hl].
    + rewrite nth_error_app1 in H by assumption. eauto.
    + rewrite nth_error_app2 in H by assumption. destruct (r - length (s_logs s))%nat as [|n]; cbn in H.
      * injection H as <-. intros k [].
      * destruct n; discriminate.
  - destruct (nth_error (s_logs s) r) as [l|] eqn:L; [|split; auto].
    unfold append. destruct (append_entry l payload pc h) as [e|] eqn:AE.
    + assert (HC : forall a, In a (s_univ s) -> e_hash a = h -> a = e) by (intros; eapply W; eauto).
      assert (Links : forall n, In n (e_next e ++ e_refs e) -> In n (map fst (s_store s))).
      { intros n Hn. apply in_app_iff in Hn. apply (SH r l L). destruct Hn as [Hn|Hn].
        - apply (ae_next _ l payload pc h e (IL r l L) AE) in Hn. eapply heads_keys_in_entries; eauto.
        - exact (ae_refs_in_log _ l payload pc h e (IL r l L) AE n Hn). }
      assert (X : forall l', (forall k, In k (okeys (l_entries l')) -> k = h \/ In k (okeys (l_entries l))) -> forall un,
                stinv (mkSys (set_nth r l' (s_logs s)) un (add_block (s_store s) h (e_next e ++ e_refs e)))).
      { intros l' Hl' un. split; cbn [s_store s_logs].
        - now apply add_block_ordered.
        - intros r' l'' H. rewrite nth_error_set_nth, L in H. destruct (Nat.eqb r r').
          + injection H as <-. intros k Hk. destruct (Hl' k Hk) as [->|Hk'].
            * apply add_block_has.
            * apply add_block_keeps. eapply SH; eauto.
          + intros k Hk. apply add_block_keeps. eapply SH; eauto. }
      destruct (allowed l e); cbn [fst]; apply X; cbn [l_entries].
      * intros k Hk. rewrite In_okeys_oset in Hk. exact Hk.
      * auto.
    + cbn [fst]. split; [exact SO|]. cbn [s_logs s_store]. intros r' l' H. rewrite nth_error_set_nth, L in H.
      destruct (Nat.eqb r r'); [injection H as <-|]; eauto.
  - destruct (nth_error (s_logs s) r) as [l|] eqn:L; [|split; auto].
    destruct (nth_error (s_logs s) src) as [o|] eqn:O; [|split; auto].
    destruct (join l o (Nat.eqb r src) size) as [l' out] eqn:J. cbn [fst].
    split; [exact SO|]. cbn [s_logs s_store]. intros r' l'' H. rewrite nth_error_set_nth, L in H.
    destruct (Nat.eqb r r'); [|eauto]. injection H as <-. intros k Hk.
    destruct (join_keys_subset (s_univ s) l o _ size l' out k UO (IL r l L) (IL src o O) W J Hk); eauto.
  - destruct (nth_error (s_logs s) r) as [l|] eqn:L; [|split; auto]. cbn [fst].
    split; [exact SO|]. cbn [s_logs s_store]. intros r' l' H. rewrite nth_error_set_nth, L in H.
    destruct (Nat.eqb r r'); [injection H as <-; exact (SH r l L)|eauto].
  - destruct (nth_error (s_logs s) r) as [l|] eqn:L; [|split; auto].
    destruct (olen (l_heads l) =? 0); [split; auto|]. cbn [fst]. split; cbn [s_store s_logs].
    + apply add_block_ordered; auto. intros n Hn. apply (SH r l L). eapply json_heads_in_entries; eauto.
    + intros r' l' H k Hk. apply add_block_keeps. eauto.
  - destruct (nth_error (s_logs s) r) as [l|] eqn:L; [|split; auto].
    destruct (iterator l io) as [[es c]| |]; split; auto.
  - destruct (nth_error (s_logs s) r) as [l|] eqn:L; [|split; auto].
    destruct (append_entry l payload pc h) as [e|]; [|split; auto]. cbn [fst].
    split; [exact SO|]. cbn [s_logs s_store]. intros r' l' H. rewrite nth_error_set_nth, L in H.
    destruct (Nat.eqb r r'); [injection H as <-; exact (SH r l L)|eauto].
  - split; auto.
  - destruct W.
Qed.

Theorem stinv_run ops : wf ops -> stinv (run ops).
Proof.
  unfold run, wf.
  assert (T0 : stinv empty_sys).
  { split; [|intros [|r] l H; discriminate]. intros st1 b st2 E. destruct st1; discriminate. }
  assert (R0 : rinv empty_sys) by (intros [|r] l H; discriminate).
  pose proof sinv_empty as S0. revert T0 R0 S0. generalize empty_sys.
  induction ops as [|o ops IH]; intros s T R S W; cbn [run_from fold_left]; [exact T|].
  destruct W as [W1 W2]. apply IH; [now apply stinv_step|now apply rinv_step|now apply sinv_step|exact W2].
Qed.

(* the store only grows: the write trace after more operations extends the earlier one *)
Lemma add_block_extends st h links : exists suf, add_block st h links = st ++ suf.
Proof. unfold add_block. destruct (existsb (fun b => N.eqb (fst b) h) st); [exists []; now rewrite app_nil_r|eauto]. Qed.

Lemma step_store_extends s o : exists suf, s_store (fst (step s o)) = s_store s ++ suf.
Proof.
  assert (Same : exists suf, s_store s = s_store s ++ suf) by (exists []; now rewrite app_nil_r).
  destruct o as [id key sf deny t0|r payload pc h|r src size|r key|r mh|r io|r payload pc h|r|osrc okeep ohh oid okey osf odeny]; cbn [step]; cbn [fst s_store]; auto.
  - destruct (nth_error (s_logs s) r) as [l|]; [|exact Same].
    destruct (append l payload pc h) as [l' [e|[]|]]; cbn [fst s_store]; auto using add_block_extends.
    destruct (append_entry l payload pc h); cbn [fst s_store]; auto using add_block_extends.
  - destruct (nth_error (s_logs s) r) as [l|]; [|exact Same].
    destruct (nth_error (s_logs s) src) as [o|]; [|exact Same].
    destruct (join l o (Nat.eqb r src) size). exact Same.
  - destruct (nth_error (s_logs s) r) as [l|]; exact Same.
  - destruct (nth_error (s_logs s) r) as [l|]; [|exact Same].
    destruct (olen (l_heads l) =? 0); cbn [fst s_store]; auto using add_block_extends.
  - destruct (nth_error (s_logs s) r) as [l|]; [|exact Same]. destruct (iterator l io) as [[es c]| |]; exact Same.
  - destruct (nth_error (s_logs s) r) as [l|]; [|exact Same]. destruct (append_entry l payload pc h); exact Same.
  - destruct (nth_error (s_logs s) osrc) as [l|]; exact Same.
Qed.
