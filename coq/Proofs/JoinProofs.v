(* Unbounded Join preserves the log invariant and computes the union (C01, C02, C05, C06). *)
From Coq Require Import List ZArith Bool Lia Permutation.
From IpfsLog Require Import Model.Log Proofs.OmapProofs Proofs.SortProofs Proofs.Inv Proofs.DiffProofs.
Import ListNotations.
Open Scope Z_scope.

(* ---- folds of oset over pairs whose values agree per key ---- *)
Definition functional (ps : omap) : Prop := forall k v1 v2, In (k, v1) ps -> In (k, v2) ps -> v1 = v2.

Lemma fold_oset_pairs (ps : omap) : forall m,
  NoDup (okeys m) -> functional (m ++ ps) ->
  let m' := fold_left (fun m kv => oset m (fst kv) (snd kv)) ps m in
  NoDup (okeys m') /\ forall k v, In (k, v) m' <-> In (k, v) (m ++ ps).
Proof.
  induction ps as [|[k0 v0] ps IH]; intros m Hnd Hf; cbn [fold_left].
  - rewrite app_nil_r. split; [auto|tauto].
  - cbn [fst snd]. specialize (IH (oset m k0 v0) (NoDup_okeys_oset _ _ _ Hnd)).
    assert (Hf' : functional (oset m k0 v0 ++ ps)).
    { intros k v1 v2 H1 H2. rewrite in_app_iff in H1, H2. apply (Hf k).
      - rewrite in_app_iff. cbn [In]. destruct H1 as [H1|H1]; [|auto].
        apply In_oset in H1; auto. destruct H1 as [[-> ->]|[_ H1]]; auto.
      - rewrite in_app_iff. cbn [In]. destruct H2 as [H2|H2]; [|auto].
        apply In_oset in H2; auto. destruct H2 as [[-> ->]|[_ H2]]; auto. }
    destruct (IH Hf') as [A B]. split; [exact A|]. intros k v. rewrite B, !in_app_iff. cbn [In].
    rewrite In_oset by assumption. split.
    + intros [[[-> ->]|[_ H]]|H]; auto.
    + intros [H|[H|H]]; auto.
      * destruct (N.eq_dec k k0) as [->|Hne]; [|left; right; auto].
        left. left. split; [reflexivity|]. apply (Hf k0); rewrite in_app_iff; cbn [In]; auto.
      * injection H as -> ->. left. left. auto.
Qed.

(* fold of entries keyed by their own hash = fold of pairs *)
Lemma fold_entries_as_pairs (l : list entry) m :
  fold_left (fun m e => oset m (e_hash e) e) l m =
  fold_left (fun m kv => oset m (fst kv) (snd kv)) (map (fun e => (e_hash e, e)) l) m.
Proof. revert m. induction l as [|e l IH]; intros m; cbn [fold_left map]; [reflexivity|]. apply IH. Qed.

Lemma oslice_pairs (m : omap) : well_keyed m -> map (fun e => (e_hash e, e)) (oslice m) = m.
Proof.
  intros Hw. unfold oslice. rewrite map_map. rewrite <- (map_id m) at 2. apply map_ext_in.
  intros [k e] Hin. cbn. now rewrite (Hw _ _ Hin).
Qed.

(* ---- own_heads: the other log's heads looked up among the log's own entries ---- *)
Lemma own_heads_fold_In (ents src : omap) : forall acc k v,
  In (k, v) (fold_left (fun m kv => match oget ents (fst kv) with Some own => oset m (fst kv) own | None => m end) src acc) ->
  NoDup (okeys acc) -> In (k, v) acc \/ oget ents k = Some v.
Proof.
  induction src as [|[k0 v0] src IH]; intros acc k v H ND; cbn [fold_left fst] in H; [auto|].
  destruct (oget ents k0) as [own|] eqn:G.
  - destruct (IH _ _ _ H (NoDup_okeys_oset _ _ _ ND)) as [Hin|Hg]; [|auto].
    apply In_oset in Hin; auto. destruct Hin as [[-> ->]|[_ Hin]]; auto.
  - eauto.
Qed.

(* whatever the other log claims as heads: every candidate is one of the log's own entries *)
Lemma own_heads_In ents src k v : In (k, v) (own_heads ents src) -> oget ents k = Some v.
Proof.
  intros H. destruct (own_heads_fold_In ents src [] k v H (NoDup_nil _)) as [[]|Hg]. exact Hg.
Qed.

(* for a source whose heads are entries the log holds (unchanged objects), nothing changes *)
Lemma own_heads_fold_id (ents src : omap) : forall acc,
  NoDup (okeys (acc ++ src)) -> (forall k v, In (k, v) src -> oget ents k = Some v) ->
  fold_left (fun m kv => match oget ents (fst kv) with Some own => oset m (fst kv) own | None => m end) src acc = acc ++ src.
Proof.
  induction src as [|[k0 v0] src IH]; intros acc ND Hg; cbn [fold_left fst]; [now rewrite app_nil_r|].
  rewrite (Hg k0 v0 (or_introl eq_refl)).
  assert (Hf : ~ In k0 (okeys acc)).
  { unfold okeys in *. rewrite map_app in ND. cbn [map fst] in ND. apply NoDup_remove_2 in ND.
    intro Hc. apply ND. rewrite in_app_iff. auto. }
  rewrite (oset_fresh _ _ _ Hf). rewrite IH.
  - now rewrite <- app_assoc.
  - now rewrite <- app_assoc.
  - intros k v Hin. apply Hg. now right.
Qed.

Lemma own_heads_id ents src :
  NoDup (okeys src) -> (forall k v, In (k, v) src -> oget ents k = Some v) -> own_heads ents src = src.
Proof. intros ND Hg. unfold own_heads. now rewrite (own_heads_fold_id ents src [] ND Hg). Qed.

(* ---- find_heads ---- *)
Lemma find_heads_In (m : omap) e :
  In e (find_heads m) <-> In e (oslice m) /\ ~ In (e_hash e) (all_nexts (oslice m)).
Proof.
  unfold find_heads. rewrite gosort_in, filter_In, negb_true_iff, mem_false. tauto.
Qed.

Lemma all_nexts_app a b : all_nexts (a ++ b) = all_nexts a ++ all_nexts b.
Proof. unfold all_nexts. apply flat_map_app. Qed.

Lemma named_in_app a b h : named_in (a ++ b) h <-> named_in a h \/ named_in b h.
Proof. unfold named_in. rewrite all_nexts_app, in_app_iff. tauto. Qed.

Lemma named_in_perm a b h : (forall e, In e a <-> In e b) -> named_in a h <-> named_in b h.
Proof.
  intros H. rewrite !named_in_iff. split; intros [e [He Hn]]; exists e; split; auto; now apply H.
Qed.

(* ---- every entry sits below a head; the entries of o missing from l are reachable from o's
        heads through entries missing from l ---- *)
Section TwoLogs.
  Variables (U : list entry) (l o : log).
  Hypothesis UO : univ_ok U.
  Hypothesis Il : linv U l.
  Hypothesis Io : linv U o.
  Hypothesis SameId : l_id l = l_id o.

  Let roots := map e_hash (oslice (l_heads o)).

  Lemma head_hash_root k v : In (k, v) (l_heads o) -> In k roots.
  Proof.
    intros H. unfold roots. apply in_map_iff. exists v. split; [now apply (heads_well_keyed _ _ Io)|].
    apply In_oslice. eauto.
  Qed.

  Lemma missing_reachable : forall n k v,
    (l_time o - e_time v < Z.of_nat n) ->
    In (k, v) (l_entries o) -> ~ In k (okeys (l_entries l)) ->
    greach (l_entries o) l roots k.
  Proof.
    induction n as [|n IH]; intros k v Hm Hin Hnl.
    - assert (In v (ents o)) by (apply ents_In; eauto). pose proof (li_time _ _ Io _ H). lia.
    - destruct (classic_named (ents o) k) as [Hn|Hn].
      + apply named_in_iff in Hn. destruct Hn as [e' [He' Hk]].
        destruct (linv_entry _ _ _ Io He') as [Hin' _].
        assert (Ht : e_time v < e_time e') by (eapply (linv_mono U o); eauto).
        assert (Hnl' : ~ In (e_hash e') (okeys (l_entries l))).
        { intros Hc. apply In_okeys in Hc. destruct Hc as [x Hx].
          assert (x = e') by (eapply (linv_agree U l o); eauto). subst x.
          apply Hnl. eapply (li_closed _ _ Il); eauto. apply ents_In. eauto. }
        eapply gr_step; [apply (IH (e_hash e') e'); auto; lia| |exact Hk].
        repeat split.
        * apply In_oget; auto. apply (li_nodup _ _ Io).
        * now apply ohas_false.
        * rewrite SameId. now apply (li_logid _ _ Io).
      + apply gr_root. apply (head_hash_root k v). apply (li_heads _ _ Io). auto.
  Qed.

  Lemma nonempty_has_head : l_entries o <> [] -> l_heads o <> [].
  Proof.
    (* take any entry; climb to an unnamed one *)
    intros Hne Hh.
    assert (forall n k v, l_time o - e_time v < Z.of_nat n -> In (k, v) (l_entries o) -> False) as X.
    { induction n as [|n IH]; intros k v Hm Hin.
      - assert (In v (ents o)) by (apply ents_In; eauto). pose proof (li_time _ _ Io _ H). lia.
      - destruct (classic_named (ents o) k) as [Hn|Hn].
        + apply named_in_iff in Hn. destruct Hn as [e' [He' Hk]].
          destruct (linv_entry _ _ _ Io He') as [Hin' _].
          assert (Ht : e_time v < e_time e') by (eapply (linv_mono U o); eauto).
          apply (IH (e_hash e') e'); auto. lia.
        + assert (In (k, v) (l_heads o)) by (apply (li_heads _ _ Io); auto). rewrite Hh in H. destruct H. }
    assert (exists k v, In (k, v) (l_entries o)) as [k [v Hin]].
    { destruct (l_entries o) as [|[k v] m]; [congruence|]. exists k, v. now left. }
    apply (X (S (Z.to_nat (l_time o - e_time v))) k v); [lia|exact Hin].
  Qed.

  (* the difference is exactly entries(o) \ entries(l) *)
  Theorem difference_spec newitems :
    difference (l_entries o) (oslice (l_heads o)) l = Some newitems ->
    NoDup (okeys newitems) /\
    forall k v, In (k, v) newitems <-> In (k, v) (l_entries o) /\ ~ In k (okeys (l_entries l)).
  Proof.
    unfold difference. destruct ((olen (l_entries o) =? 0) || (Z.of_nat (length (oslice (l_heads o))) =? 0)) eqn:E.
    - intros H. injection H as <-. split; [constructor|]. intros k v. split; [intros []|]. intros [Hin _]. exfalso.
      apply orb_true_iff in E. destruct E as [E|E]; apply Z.eqb_eq in E.
      + unfold olen in E. destruct (l_entries o); [destruct Hin|cbn in E; lia].
      + assert (l_heads o = []) by (unfold oslice in E; destruct (l_heads o); [reflexivity|cbn in E; lia]).
        apply nonempty_has_head; auto. intro Hc. rewrite Hc in Hin. destruct Hin.
    - intros H. apply diff_loop_spec in H. destruct H as [A B]. split; [exact A|].
      intros k v. rewrite B. fold roots. split.
      + intros [_ [G [O _]]]. split; [now apply oget_In|now apply ohas_false].
      + intros [Hin Hnl]. split.
        * apply (missing_reachable (S (Z.to_nat (l_time o - e_time v))) k v); auto. lia.
        * repeat split; [apply In_oget; auto; apply (li_nodup _ _ Io)|now apply ohas_false| |now apply (li_in_U _ _ Io) in Hin].
          rewrite SameId. apply (li_logid _ _ Io). apply ents_In. eauto.
  Qed.
End TwoLogs.

(* ---- climbing to a head, for any entry map with exact heads inside a universe ---- *)
Lemma NoDup_functional (m : omap) : NoDup (okeys m) -> functional m.
Proof.
  intros Hnd k v1 v2 H1 H2. apply In_oget in H1, H2; auto. congruence.
Qed.

Lemma climb U (es hs : omap) :
  univ_ok U ->
  (forall k e, In (k, e) es -> In e U /\ e_hash e = k) ->
  (forall k e, In (k, e) hs <-> In (k, e) es /\ ~ named_in (oslice es) k) ->
  forall k v, In (k, v) es -> exists kh hd, In (kh, hd) hs /\ e_time v <= e_time hd.
Proof.
  intros UO HU HH.
  assert (forall n k v, max_time U 0 - e_time v < Z.of_nat n -> In (k, v) es ->
            exists kh hd, In (kh, hd) hs /\ e_time v <= e_time hd) as X.
  { induction n as [|n IH]; intros k v Hm Hin.
    - destruct (HU _ _ Hin) as [HvU _]. pose proof (max_time_In U 0 v HvU). lia.
    - destruct (classic_named (oslice es) k) as [Hn|Hn].
      + apply named_in_iff in Hn. destruct Hn as [e' [He' Hk]].
        apply In_oslice in He'. destruct He' as [k' He'].
        destruct (HU _ _ He') as [He'U _]. destruct (HU _ _ Hin) as [HvU Hvk].
        destruct (u_closed _ UO _ _ He'U Hk) as [p [HpU [Hph Hpt]]].
        assert (p = v) by (apply (u_fun _ UO); auto; congruence). subst p.
        destruct (IH k' e') as [kh [hd [Hh Ht]]]; auto; [lia|]. exists kh, hd. split; [auto|lia].
      + exists k, v. split; [apply HH; auto|lia]. }
  intros k v Hin. apply (X (S (Z.to_nat (max_time U 0 - e_time v))) k v); [lia|exact Hin].
Qed.

Lemma from_opt_filter (c : entry -> bool) (L : list entry) m :
  fold_left (fun m oe => match oe with Some e => oset m (e_hash e) e | None => m end)
            (map (fun e => if c e then None else Some e) L) m =
  fold_left (fun m e => oset m (e_hash e) e) (filter (fun e => negb (c e)) L) m.
Proof.
  revert m. induction L as [|e L IH]; intros m; cbn [map fold_left filter]; [reflexivity|].
  destruct (c e); cbn [negb fold_left]; apply IH.
Qed.

Section JoinUnbounded.
  Variables (U : list entry) (l o : log).
  Hypothesis UO : univ_ok U.
  Hypothesis Il : linv U l.
  Hypothesis Io : linv U o.
  Hypothesis SameId : l_id l = l_id o.
  Variable newitems : omap.
  Hypothesis D : difference (l_entries o) (oslice (l_heads o)) l = Some newitems.

  Let NI := difference_spec U l o UO Il Io SameId newitems D.

  Lemma ni_nodup : NoDup (okeys newitems).
  Proof. exact (proj1 NI). Qed.
  Lemma ni_spec k v : In (k, v) newitems <-> In (k, v) (l_entries o) /\ ~ In k (okeys (l_entries l)).
  Proof. exact (proj2 NI k v). Qed.
  Lemma ni_wk : well_keyed newitems.
  Proof. intros k v H. apply ni_spec in H. destruct H as [H _]. now apply (li_in_U _ _ Io) in H. Qed.

  Definition j_ents : omap := fold_left (fun m e => oset m (e_hash e) e) (oslice newitems) (l_entries l).
  Definition j_nx : omap :=
    fold_left (fun nx e => fold_left (fun nx n => oset nx n e) (e_next e) nx) (oslice newitems) (l_next l).
  Definition j_heads : omap :=
    let merged := find_heads (omerge (l_heads l) (l_heads o)) in
    from_opt_entries (map (fun e => if mem (e_hash e) (all_nexts (oslice newitems)) || ohas j_nx (e_hash e)
                                    then None else Some e) merged).
  Definition j_log : log :=
    mkLog (l_id l) j_ents j_heads j_nx (Z.max (l_time l) (max_time (oslice j_heads) 0))
          (l_cid l) (l_key l) (l_sort l) (l_deny l).

  Lemma join_error size : forallb (entry_ok l) (oslice newitems) = false ->
    join l o false size = (l, Err EJoin).
  Proof.
    intros Hok. unfold join, join_reads.
    assert (E0 : N.eqb (l_id l) (l_id o) = true) by (apply N.eqb_eq; exact SameId). rewrite E0. cbn [negb].
    rewrite D, Hok. reflexivity.
  Qed.

  (* entries *)
  Lemma j_ents_spec :
    NoDup (okeys j_ents) /\
    forall k v, In (k, v) j_ents <-> In (k, v) (l_entries l) \/ In (k, v) newitems.
  Proof.
    unfold j_ents. rewrite fold_entries_as_pairs, (oslice_pairs _ ni_wk).
    destruct (fold_oset_pairs newitems (l_entries l) (li_nodup _ _ Il)) as [A B].
    - intros k v1 v2 H1 H2. rewrite in_app_iff in H1, H2.
      destruct H1 as [H1|H1], H2 as [H2|H2].
      + exact (NoDup_functional _ (li_nodup _ _ Il) k v1 v2 H1 H2).
      + apply ni_spec in H2. destruct H2 as [_ H2]. exfalso. apply H2. apply In_okeys. eauto.
      + apply ni_spec in H1. destruct H1 as [_ H1]. exfalso. apply H1. apply In_okeys. eauto.
      + exact (NoDup_functional _ ni_nodup k v1 v2 H1 H2).
    - split; [exact A|]. intros k v. rewrite B, in_app_iff. tauto.
  Qed.

  Lemma j_ents_slice e : In e (oslice j_ents) <-> In e (ents l) \/ In e (oslice newitems).
  Proof.
    rewrite !In_oslice. unfold ents. rewrite In_oslice. split.
    - intros [k H]. apply (proj2 j_ents_spec) in H. destruct H; eauto.
    - intros [[k H]|[k H]]; exists k; apply (proj2 j_ents_spec); auto.
  Qed.

  Lemma j_named n : named_in (oslice j_ents) n <-> named_in (ents l) n \/ named_in (oslice newitems) n.
  Proof.
    rewrite !named_in_iff. split.
    - intros [e [He Hn]]. apply j_ents_slice in He. destruct He; [left|right]; eauto.
    - intros [[e [He Hn]]|[e [He Hn]]]; exists e; (split; [apply j_ents_slice; auto|auto]).
  Qed.

  (* reverse index *)
  Lemma fold_next_keys' (e : entry) (ns : list hash) (nx : omap) n :
    In n (okeys (fold_left (fun nx n => oset nx n e) ns nx)) <-> In n (okeys nx) \/ In n ns.
  Proof.
    revert nx. induction ns as [|x ns IH]; intros nx; cbn [fold_left In]; [tauto|].
    rewrite IH, In_okeys_oset. intuition (subst; auto).
  Qed.

  Lemma j_nx_keys n : In n (okeys j_nx) <-> named_in (oslice j_ents) n.
  Proof.
    rewrite j_named. unfold j_nx. rewrite <- (li_next _ _ Il n). generalize (l_next l). generalize (oslice newitems).
    induction l0 as [|e es IH]; intros nx; cbn [fold_left].
    - unfold named_in. cbn. tauto.
    - rewrite IH, fold_next_keys'. unfold named_in, all_nexts. cbn [flat_map]. rewrite in_app_iff. tauto.
  Qed.

  (* merged heads *)
  Lemma heads_in_entries_l k e : In (k, e) (l_heads l) -> In (k, e) (l_entries l).
  Proof. intros H. now apply (li_heads _ _ Il) in H. Qed.
  Lemma heads_in_entries_o k e : In (k, e) (l_heads o) -> In (k, e) (l_entries o).
  Proof. intros H. now apply (li_heads _ _ Io) in H. Qed.

  Lemma omerge_spec :
    NoDup (okeys (omerge (l_heads l) (l_heads o))) /\
    forall k v, In (k, v) (omerge (l_heads l) (l_heads o)) <-> In (k, v) (l_heads l) \/ In (k, v) (l_heads o).
  Proof.
    unfold omerge.
    destruct (fold_oset_pairs (l_heads l) [] (NoDup_nil _)) as [A B].
    { cbn [app]. apply NoDup_functional, (li_heads_nodup _ _ Il). }
    cbn zeta in A, B.
    destruct (fold_oset_pairs (l_heads o) _ A) as [A' B'].
    { intros k v1 v2 H1 H2. rewrite in_app_iff in H1, H2. rewrite B in H1, H2. cbn [app] in H1, H2.
      destruct H1 as [H1|H1], H2 as [H2|H2].
      - exact (NoDup_functional _ (li_heads_nodup _ _ Il) k v1 v2 H1 H2).
      - eapply (linv_agree U l o); eauto using heads_in_entries_l, heads_in_entries_o.
      - symmetry. eapply (linv_agree U l o); eauto using heads_in_entries_l, heads_in_entries_o.
      - exact (NoDup_functional _ (li_heads_nodup _ _ Io) k v1 v2 H1 H2). }
    cbn zeta in A', B'. split; [exact A'|]. intros k v. rewrite B', in_app_iff, B. cbn [app]. tauto.
  Qed.

  Lemma omerge_wk : well_keyed (omerge (l_heads l) (l_heads o)).
  Proof.
    intros k v H. apply (proj2 omerge_spec) in H. destruct H as [H|H].
    - now apply (heads_well_keyed _ _ Il).
    - now apply (heads_well_keyed _ _ Io).
  Qed.

  (* an entry of the union that nothing in the union names is a head of the side it came from *)
  Lemma in_j_ents_of_o k v : In (k, v) (l_entries o) -> In (k, v) j_ents.
  Proof.
    intros H. apply (proj2 j_ents_spec).
    destruct (in_dec N.eq_dec k (okeys (l_entries l))) as [Hin|Hn].
    - left. apply In_okeys in Hin. destruct Hin as [x Hx].
      assert (x = v) by (eapply (linv_agree U l o); eauto). now subst.
    - right. apply ni_spec. auto.
  Qed.

  (* the heads of an invariant source are entries of the merged log: looking them up changes nothing *)
  Lemma own_heads_o : own_heads j_ents (l_heads o) = l_heads o.
  Proof.
    apply own_heads_id; [apply (li_heads_nodup _ _ Io)|].
    intros k v H. apply In_oget; [apply (proj1 j_ents_spec)|]. apply in_j_ents_of_o. now apply heads_in_entries_o.
  Qed.

  Lemma join_unfold size : size < 0 -> forallb (entry_ok l) (oslice newitems) = true ->
    l_id l = l_id o -> join l o false size = (j_log, Ok tt).
  Proof.
    intros Hs Hok Hid. unfold join, join_reads.
    assert (E0 : N.eqb (l_id l) (l_id o) = true) by (apply N.eqb_eq; exact Hid). rewrite E0. cbn [negb].
    rewrite D, Hok. cbn [negb]. assert (E : size <? 0 = true) by (apply Z.ltb_lt; lia). rewrite E.
    change (fold_left (fun m e => oset m (e_hash e) e) (oslice newitems) (l_entries l)) with j_ents.
    rewrite own_heads_o. reflexivity.
  Qed.

  Lemma named_o_named_j k : named_in (ents o) k -> named_in (oslice j_ents) k.
  Proof.
    rewrite !named_in_iff. intros [e [He Hn]]. exists e. split; [|auto].
    apply In_oslice. exists (e_hash e). apply in_j_ents_of_o. now apply (linv_entry _ _ _ Io).
  Qed.

  Lemma j_heads_spec :
    NoDup (okeys j_heads) /\
    forall k e, In (k, e) j_heads <-> In (k, e) j_ents /\ ~ named_in (oslice j_ents) k.
  Proof.
    unfold j_heads, from_opt_entries. rewrite from_opt_filter.
    set (c := fun e => mem (e_hash e) (all_nexts (oslice newitems)) || ohas j_nx (e_hash e)).
    set (L := filter (fun e => negb (c e)) (find_heads (omerge (l_heads l) (l_heads o)))).
    change (fold_left (fun m e => oset m (e_hash e) e) L []) with (from_entries L).
    destruct (from_entries_props L) as [A [B C]]. split; [exact A|].
    assert (HL : forall e, In e L <->
              (In (e_hash e, e) (l_heads l) \/ In (e_hash e, e) (l_heads o)) /\
              ~ In (e_hash e) (all_nexts (oslice (omerge (l_heads l) (l_heads o)))) /\
              ~ named_in (oslice j_ents) (e_hash e)).
    { intros e. unfold L. rewrite filter_In, find_heads_In, In_oslice. unfold c.
      rewrite negb_true_iff, orb_false_iff, mem_false, ohas_false, j_nx_keys. split.
      - intros [[[k Hk] Hn] [_ Hj]]. pose proof (omerge_wk _ _ Hk). subst k.
        apply (proj2 omerge_spec) in Hk. auto.
      - intros [Hk [Hn Hj]]. repeat split; auto.
        + exists (e_hash e). now apply (proj2 omerge_spec).
        + intros Hc. apply Hj. apply j_named. right. exact Hc. }
    assert (HLnd : NoDup (map e_hash L)).
    { unfold L. apply NoDup_map_filter. unfold find_heads.
      eapply Permutation_NoDup; [apply Permutation_map; symmetry; apply gosort_perm|].
      apply NoDup_map_filter.
      replace (map e_hash (oslice (omerge (l_heads l) (l_heads o)))) with (okeys (omerge (l_heads l) (l_heads o))).
      - apply (proj1 omerge_spec).
      - unfold okeys, oslice. rewrite map_map. apply map_ext_in. intros [k' e'] Hin. cbn. symmetry. now apply omerge_wk. }
    intros k e. split.
    - intros H. apply from_entries_In in H. destruct H as [HLe Hk]. subst k. apply HL in HLe.
      destruct HLe as [Hside [_ Hj]]. split; [|exact Hj].
      destruct Hside as [H|H].
      + apply (proj2 j_ents_spec). left. now apply heads_in_entries_l.
      + apply in_j_ents_of_o. now apply heads_in_entries_o.
    - intros [Hin Hj].
      assert (Hk : e_hash e = k).
      { apply (proj2 j_ents_spec) in Hin. destruct Hin as [Hin|Hin]; [now apply (li_in_U _ _ Il) in Hin|now apply ni_wk]. }
      subst k. apply from_entries_complete; auto. apply HL.
      assert (Hside : In (e_hash e, e) (l_heads l) \/ In (e_hash e, e) (l_heads o)).
      { apply (proj2 j_ents_spec) in Hin. destruct Hin as [Hin|Hin].
        - left. apply (li_heads _ _ Il). split; [auto|]. intros Hc. apply Hj. apply j_named. now left.
        - right. apply ni_spec in Hin. destruct Hin as [Hin _]. apply (li_heads _ _ Io). split; [auto|].
          intros Hc. apply Hj. now apply named_o_named_j. }
      split; [exact Hside|]. split; [|exact Hj].
      intros Hc. apply Hj. apply named_in_iff.
      change (In (e_hash e) (all_nexts (oslice (omerge (l_heads l) (l_heads o))))) with
             (named_in (oslice (omerge (l_heads l) (l_heads o))) (e_hash e)) in Hc.
      apply named_in_iff in Hc. destruct Hc as [x [Hx Hn]]. exists x. split; [|auto].
      apply In_oslice in Hx. destruct Hx as [kx Hx]. apply (proj2 omerge_spec) in Hx.
      apply In_oslice. exists kx. destruct Hx as [Hx|Hx].
      + apply (proj2 j_ents_spec). left. now apply heads_in_entries_l.
      + apply in_j_ents_of_o. now apply heads_in_entries_o.
  Qed.

  Theorem linv_join : linv U j_log.
  Proof.
    destruct j_ents_spec as [EN ES]. destruct j_heads_spec as [HN HS].
    split; cbn [j_log l_entries l_heads l_next l_time l_id]; unfold ents; cbn [l_entries].
    - exact EN.
    - intros k e H. apply ES in H. destruct H as [H|H]; [now apply (li_in_U _ _ Il)|].
      apply ni_spec in H. destruct H as [H _]. now apply (li_in_U _ _ Io).
    - intros e n He Hn. apply j_ents_slice in He. apply In_okeys. destruct He as [He|He].
      + pose proof (li_closed _ _ Il _ _ He Hn) as Hc. apply In_okeys in Hc. destruct Hc as [p Hp].
        exists p. apply ES. auto.
      + apply In_oslice in He. destruct He as [k He]. apply ni_spec in He. destruct He as [He _].
        assert (Heo : In e (ents o)) by (apply ents_In; eauto).
        pose proof (li_closed _ _ Io _ _ Heo Hn) as Hc. apply In_okeys in Hc. destruct Hc as [p Hp].
        exists p. now apply in_j_ents_of_o.
    - intros e He. apply j_ents_slice in He. destruct He as [He|He]; [now apply (li_logid _ _ Il)|].
      apply In_oslice in He. destruct He as [k He]. apply ni_spec in He. destruct He as [He _].
      rewrite SameId. apply (li_logid _ _ Io). apply ents_In. eauto.
    - exact HN.
    - exact HS.
    - exact j_nx_keys.
    - intros e He. apply j_ents_slice in He. destruct He as [He|He].
      + pose proof (li_time _ _ Il _ He). lia.
      + apply In_oslice in He. destruct He as [k He].
        assert (Hin : In (k, e) j_ents) by (apply ES; auto).
        destruct (climb U j_ents j_heads UO) with (k := k) (v := e) as [kh [hd [Hh Ht]]]; auto.
        * intros k0 e0 H0. apply ES in H0. destruct H0 as [H0|H0]; [now apply (li_in_U _ _ Il)|].
          apply ni_spec in H0. destruct H0 as [H0 _]. now apply (li_in_U _ _ Io).
        * assert (In hd (oslice j_heads)) by (apply In_oslice; eauto).
          pose proof (max_time_In (oslice j_heads) 0 hd H). lia.
  Qed.

  Theorem join_entries k v :
    In (k, v) (l_entries j_log) <-> In (k, v) (l_entries l) \/ In (k, v) (l_entries o).
  Proof.
    cbn [j_log l_entries]. rewrite (proj2 j_ents_spec). split.
    - intros [H|H]; [auto|]. apply ni_spec in H. tauto.
    - intros [H|H]; [auto|]. apply (proj2 j_ents_spec). now apply in_j_ents_of_o.
  Qed.
End JoinUnbounded.

(* after unfolding [join_reads] the merged entry map appears unfolded: fold it back so that the
   own_heads lemmas can be rewritten with *)
Ltac fold_j_ents l ni :=
  change (fold_left (fun m e => oset m (e_hash e) e) (oslice ni) (l_entries l)) with (j_ents l ni) in *.
