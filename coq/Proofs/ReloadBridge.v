(* Reloading closes the loop between the three parts of the model.

   Proofs/BridgeProofs.v: a replica of a well-formed history, seen as stored blocks, is a well-formed
   stored log, so (C09) every loader under every fetch schedule returns the same entries and heads.
   Proofs/POpen.v: a replica opened over a selection of another replica's entries, with no heads or
   with consistent ones, is again a log in the full sense and the history may go on with it ([owf]).

   Here: the log a complete reload returns IS such a re-opened replica - [OOpen] over the loaded
   entries (in the order in which the loader hands them to NewLog) with the loaded heads - and that
   step is admissible.  So every theorem about [owf] histories holds for histories that reload
   replicas from the store and keep appending to and merging the reloaded logs. *)
From Coq Require Import List ZArith NArith Bool Lia Permutation.
From IpfsLog Require Import Model.Log Model.System Model.WfDef Proofs.OmapProofs Proofs.Inv Proofs.JoinProofs
  Proofs.SysProofs Proofs.BoundedProofs Proofs.PInv Proofs.PSys Proofs.POpen.
Import ListNotations.
Open Scope Z_scope.

Lemma owf_from_app ops o : forall s, owf_from s ops -> owf_step (System.run_from s ops) o -> owf_from s (ops ++ [o]).
Proof.
  induction ops as [|x ops IH]; intros s W H; cbn [app owf_from System.run_from fold_left] in *.
  - split; [exact H|exact I].
  - destruct W as [W1 W2]. split; [exact W1|]. apply IH; assumption.
Qed.

Lemma owf_app ops o : owf ops -> owf_step (System.run ops) o -> owf (ops ++ [o]).
Proof. apply owf_from_app. Qed.

Section Reopen.
  Variables (U : list entry) (l : log).
  Hypothesis UO : univ_ok U.
  Hypothesis I : pinv U l.

  Let E := l_entries l.

  Lemma oget_of_entry e : In e (ents l) -> oget E (e_hash e) = Some e.
  Proof. intros He. apply In_oget; [apply (pi_nodup _ _ I)|apply (pinv_entry _ _ _ I He)]. Qed.

  Lemma ents_hashes_nodup : NoDup (map e_hash (ents l)).
  Proof.
    replace (map e_hash (ents l)) with (okeys E); [apply (pi_nodup _ _ I)|].
    unfold ents, oslice, okeys, E. rewrite map_map. apply map_ext_in. intros [k e] Hin. cbn.
    symmetry. now apply (pi_in_U _ _ I).
  Qed.

  Lemma flat_pick_id (P : list entry) : (forall e, In e P -> In e (ents l)) ->
    flat_map (fun h => match oget E h with Some e => [e] | None => [] end) (map e_hash P) = P.
  Proof.
    induction P as [|e P IH]; intros Hs; cbn [map flat_map]; [reflexivity|].
    rewrite (oget_of_entry e (Hs e (or_introl eq_refl))). cbn [app]. f_equal. apply IH. intros x Hx. apply Hs. now right.
  Qed.

  (* selecting every entry, in any order, selects exactly that list *)
  Lemma pick_all (P : list entry) : Permutation P (ents l) -> pick E (map e_hash P) = P.
  Proof.
    intros HP. unfold pick. rewrite uniq_id.
    - apply flat_pick_id. intros e He. eapply Permutation_in; eauto.
    - eapply Permutation_NoDup; [apply Permutation_map; symmetry; exact HP|apply ents_hashes_nodup].
  Qed.

  (* the log's own heads are consistent heads for the complete selection *)
  Lemma heads_consistent_all (P : list entry) (hh : list hash) :
    Permutation P (ents l) -> (forall h, In h hh <-> In h (okeys (l_heads l))) ->
    heads_consistentb (pick E (map e_hash P)) (pick E hh) = true.
  Proof.
    intros HP HH. rewrite (pick_all P HP).
    assert (PN : NoDup (map e_hash P)).
    { eapply Permutation_NoDup; [apply Permutation_map; symmetry; exact HP|apply ents_hashes_nodup]. }
    assert (PS : forall e, In e P <-> In e (ents l)).
    { intros e. split; intros H; [eapply Permutation_in; eauto|eapply Permutation_in; [symmetry; exact HP|exact H]]. }
    assert (FH : forall e, In e (Log.find_heads (from_entries P)) <-> In (e_hash e, e) (l_heads l)).
    { intros e. rewrite find_heads_In. rewrite (oslice_from_entries_nodup P PN). rewrite PS.
      rewrite (pi_heads _ _ I). fold (named_in P (e_hash e)). rewrite (named_in_perm P (ents l) (e_hash e) PS).
      split.
      - intros [He Hn]. split; [apply (pinv_entry _ _ _ I He)|exact Hn].
      - intros [He Hn]. split; [apply ents_In; eauto|exact Hn]. }
    unfold heads_consistentb. destruct (pick E hh) as [|h0 hs'] eqn:Ehs; [reflexivity|]. rewrite <- Ehs.
    apply andb_true_iff. split; apply forallb_forall.
    - intros e He. apply mem_In. apply in_map. apply FH.
      apply pick_In in He. destruct He as [h [Hh G]]. apply HH in Hh. apply In_okeys in Hh. destruct Hh as [e' Hh].
      pose proof (proj1 (proj1 (pi_heads _ _ I h e') Hh)) as Hin.
      pose proof (In_oget _ _ _ (pi_nodup _ _ I) Hin) as G'. fold E in G'. rewrite G in G'. injection G' as ->.
      pose proof (proj2 (pi_in_U _ _ I _ _ Hin)) as Hk. rewrite Hk. exact Hh.
    - intros h Hh. apply mem_In. apply in_map_iff in Hh. destruct Hh as [x [<- Hx]]. apply FH in Hx.
      apply in_map. apply pick_In. exists (e_hash x). split.
      + apply HH. apply In_okeys. eauto.
      + apply In_oget; [apply (pi_nodup _ _ I)|]. exact (proj1 (proj1 (pi_heads _ _ I _ _) Hx)).
  Qed.
End Reopen.

(* a replica of an [owf] history re-opened over all its entries (any order), with no heads or with its
   own heads, under its own id: the step is admissible, the history goes on *)
Theorem reopen_complete_admissible ops r l (P : list entry) (hh : list hash) key sf deny :
  owf ops -> nth_error (s_logs (System.run ops)) r = Some l ->
  Permutation P (ents l) ->
  (hh = [] \/ forall h, In h hh <-> In h (okeys (l_heads l))) ->
  owf (ops ++ [OOpen r (map e_hash P) hh (l_id l) key sf deny]) /\
  forall l', nth_error (s_logs (System.run (ops ++ [OOpen r (map e_hash P) hh (l_id l) key sf deny]))) (length (s_logs (System.run ops))) = Some l' ->
    ents l' = P /\ l_id l' = l_id l /\
    (forall k e, In (k, e) (l_heads l') <-> In (k, e) (l_heads l)).
Proof.
  intros W L HP HH. destruct (osinv_run ops W) as [UO IL]. pose proof (IL r l L) as I.
  assert (PK : pick (l_entries l) (map e_hash P) = P) by (apply (pick_all _ (lift l) I P HP)).
  assert (HC : heads_consistentb (pick (l_entries l) (map e_hash P)) (pick (l_entries l) hh) = true).
  { destruct HH as [->|HH].
    - unfold pick at 2. cbn. unfold heads_consistentb. reflexivity.
    - exact (heads_consistent_all _ (lift l) I P hh HP HH). }
  assert (WS : owf_step (System.run ops) (OOpen r (map e_hash P) hh (l_id l) key sf deny)).
  { cbn [owf_step]. intros l0 L0. rewrite L in L0. injection L0 as <-. split; [reflexivity|exact HC]. }
  split.
  - apply owf_app; [exact W|exact WS].
  - intros l' L'. unfold System.run in L'. rewrite run_from_app in L'. cbn [System.run_from fold_left System.step] in L'.
    fold (System.run ops) in L'. rewrite L in L'. cbn [fst s_logs] in L'.
    rewrite nth_error_app2 in L' by lia. rewrite Nat.sub_diag in L'. cbn [nth_error] in L'. injection L' as <-.
    assert (PN : NoDup (map e_hash P)).
    { eapply Permutation_NoDup; [apply Permutation_map; symmetry; exact HP|apply (ents_hashes_nodup _ (lift l) I)]. }
    pose proof (proj2 (osinv_run _ (owf_app ops _ W WS))) as IL'.
    split; [|split].
    + unfold open_from, new_log_from, ents. cbn [l_entries]. rewrite PK. apply (oslice_from_entries_nodup P PN).
    + reflexivity.
    + (* its heads are the unreferenced entries of the same entry set: those of l *)
      intros k e.
      assert (L'' : nth_error (s_logs (System.run (ops ++ [OOpen r (map e_hash P) hh (l_id l) key sf deny]))) (length (s_logs (System.run ops))) = Some (open_from l (map e_hash P) hh (l_id l) key sf deny)).
      { unfold System.run. rewrite run_from_app. cbn [System.run_from fold_left System.step]. fold (System.run ops). rewrite L. cbn [fst s_logs].
        rewrite nth_error_app2 by lia. rewrite Nat.sub_diag. reflexivity. }
      pose proof (IL' _ _ L'') as I'.
      rewrite (pi_heads _ _ I' k e). rewrite (pi_heads _ _ I k e).
      change (l_entries (lift (open_from l (map e_hash P) hh (l_id l) key sf deny))) with (l_entries (open_from l (map e_hash P) hh (l_id l) key sf deny)).
      change (ents (lift (open_from l (map e_hash P) hh (l_id l) key sf deny))) with (ents (open_from l (map e_hash P) hh (l_id l) key sf deny)).
      change (l_entries (lift l)) with (l_entries l). change (ents (lift l)) with (ents l).
      assert (ES : ents (open_from l (map e_hash P) hh (l_id l) key sf deny) = P).
      { unfold open_from, new_log_from, ents. cbn [l_entries]. rewrite PK. apply (oslice_from_entries_nodup P PN). }
      assert (EE : forall k e, In (k, e) (l_entries (open_from l (map e_hash P) hh (l_id l) key sf deny)) <-> In (k, e) (l_entries l)).
      { intros k0 e0. unfold open_from, new_log_from. cbn [l_entries]. rewrite PK. rewrite (from_entries_iff P k0 e0 PN). split.
        - intros [Hin <-]. apply (pinv_entry _ (lift l) _ I). eapply Permutation_in; eauto.
        - intros Hin. split; [|exact (proj2 (pi_in_U _ _ I _ _ Hin))]. eapply Permutation_in; [symmetry; exact HP|]. apply ents_In. eauto. }
      rewrite ES, EE.
      assert (PS : forall x, In x P <-> In x (ents l)).
      { intros x. split; intros H; [eapply Permutation_in; eauto|eapply Permutation_in; [symmetry; exact HP|exact H]]. }
      rewrite (named_in_perm P (ents l) k PS). tauto.
Qed.

(* any duplicate-free selection of a replica's entries, opened without heads, under its own id *)
Lemma pick_sub U l (P : list entry) : pinv U l -> (forall e, In e P -> In e (ents l)) -> NoDup (map e_hash P) ->
  pick (l_entries l) (map e_hash P) = P.
Proof.
  intros I HS ND. unfold pick. rewrite (uniq_id _ ND). exact (flat_pick_id U l I P HS).
Qed.

Theorem reopen_selection_admissible ops r l (P : list entry) key sf deny :
  owf ops -> nth_error (s_logs (System.run ops)) r = Some l ->
  (forall e, In e P -> In e (ents l)) -> NoDup (map e_hash P) ->
  let reopen := OOpen r (map e_hash P) [] (l_id l) key sf deny in
  owf (ops ++ [reopen]) /\
  exists l', nth_error (s_logs (System.run (ops ++ [reopen]))) (length (s_logs (System.run ops))) = Some l' /\
    ents l' = P /\ l_id l' = l_id l.
Proof.
  intros W L HS ND reopen. destruct (osinv_run ops W) as [UO IL]. pose proof (IL r l L) as I.
  assert (PK : pick (l_entries l) (map e_hash P) = P) by (apply (pick_sub _ (lift l) P I HS ND)).
  assert (WS : owf_step (System.run ops) reopen).
  { unfold reopen. cbn [owf_step]. intros l0 L0. rewrite L in L0. injection L0 as <-. split; [reflexivity|].
    unfold pick at 2. cbn. unfold heads_consistentb. reflexivity. }
  split; [apply owf_app; [exact W|exact WS]|].
  exists (open_from l (map e_hash P) [] (l_id l) key sf deny). split.
  - unfold reopen, System.run. rewrite run_from_app. cbn [System.run_from fold_left System.step]. fold (System.run ops). rewrite L. cbn [fst s_logs].
    rewrite nth_error_app2 by lia. rewrite Nat.sub_diag. reflexivity.
  - split; [|reflexivity]. unfold open_from, new_log_from, ents. cbn [l_entries]. rewrite PK. apply (oslice_from_entries_nodup P ND).
Qed.

(* ---- the log a loader returns ---- *)
From IpfsLog Require Import Model.Fetcher Proofs.FetcherBasics Proofs.LoaderProofs Proofs.BridgeProofs.

Lemma okeys_heads_hashes U l : pinv U l -> okeys (l_heads l) = map e_hash (oslice (l_heads l)).
Proof.
  intros I. unfold okeys, oslice. rewrite map_map. apply map_ext_in. intros [k e] Hin. cbn.
  symmetry. exact (pheads_well_keyed _ _ I _ _ Hin).
Qed.

(* any loaded log that is "the same log" in the sense of C09 (same id, a permutation of the entries,
   the same heads) is the replica [OOpen] makes from its entry order and its heads *)
Theorem reloaded_log_is_a_replica ops r l (l' : loaded) key sf deny :
  owf ops -> nth_error (s_logs (System.run ops)) r = Some l ->
  same_log (fentries_of l) (fheads_of l) (l_id l) l' ->
  let reopen := OOpen r (map fe_hash (lg_entries l')) (map fe_hash (lg_heads l')) (l_id l) key sf deny in
  owf (ops ++ [reopen]) /\
  exists lr, nth_error (s_logs (System.run (ops ++ [reopen]))) (length (s_logs (System.run ops))) = Some lr /\
    map fentry_of (ents lr) = lg_entries l' /\ l_id lr = lg_id l' /\
    (forall e, In e (fheads_of lr) <-> In e (lg_heads l')).
Proof.
  intros W L [Sid [Sperm [Sheads Snd]]] reopen. destruct (osinv_run ops W) as [UO IL]. pose proof (IL r l L) as I.
  unfold fentries_of in Sperm. apply Permutation_map_inv in Sperm. destruct Sperm as [P [EP HP]].
  assert (HH : forall h, In h (map fe_hash (lg_heads l')) <-> In h (okeys (l_heads l))).
  { intros h. pose proof (okeys_heads_hashes _ (lift l) I) as OK. change (l_heads (lift l)) with (l_heads l) in OK. rewrite OK.
    rewrite !in_map_iff. split.
    - intros [fe [<- Hfe]]. apply Sheads in Hfe. unfold fheads_of in Hfe. apply in_map_iff in Hfe.
      destruct Hfe as [e [<- He]]. exists e. split; [reflexivity|exact He].
    - intros [e [<- He]]. exists (fentry_of e). split; [reflexivity|]. apply Sheads. unfold fheads_of. now apply in_map. }
  assert (EK : map fe_hash (lg_entries l') = map e_hash P) by (rewrite EP, map_map; reflexivity).
  unfold reopen. rewrite EK.
  destruct (reopen_complete_admissible ops r l P (map fe_hash (lg_heads l')) key sf deny W L (Permutation_sym HP) (or_intror HH)) as [W' Res].
  split; [exact W'|].
  assert (L' : exists lr, nth_error (s_logs (System.run (ops ++ [OOpen r (map e_hash P) (map fe_hash (lg_heads l')) (l_id l) key sf deny]))) (length (s_logs (System.run ops))) = Some lr).
  { unfold System.run. rewrite run_from_app. cbn [System.run_from fold_left System.step]. fold (System.run ops). rewrite L. cbn [fst s_logs].
    rewrite nth_error_app2 by lia. rewrite Nat.sub_diag. eexists. reflexivity. }
  destruct L' as [lr L']. exists lr. split; [exact L'|]. destruct (Res lr L') as [Ee [Ei Eh]].
  split; [rewrite Ee; symmetry; exact EP|]. split; [congruence|].
  intros e. rewrite (Sheads e). unfold fheads_of. rewrite !in_map_iff. split; intros [x [<- Hx]]; exists x; (split; [reflexivity|]);
    apply In_oslice in Hx; destruct Hx as [k Hx]; apply In_oslice; exists k; now apply Eh.
Qed.

(* a loaded entry list that is a duplicate-free part of the stored log (what the length-limited loaders
   hand to NewLog, by the theorems of C10) gives a replica too: the three loaders that pass no heads *)
Theorem reloaded_selection_is_a_replica ops r l (X : list fentry) key sf deny :
  owf ops -> nth_error (s_logs (System.run ops)) r = Some l ->
  incl X (fentries_of l) -> NoDup (map fe_hash X) ->
  let reopen := OOpen r (map fe_hash X) [] (l_id l) key sf deny in
  owf (ops ++ [reopen]) /\
  exists lr, nth_error (s_logs (System.run (ops ++ [reopen]))) (length (s_logs (System.run ops))) = Some lr /\
    map fentry_of (ents lr) = X /\ l_id lr = l_id l.
Proof.
  intros W L HI ND reopen.
  assert (EX : exists P, X = map fentry_of P /\ forall e, In e P -> In e (ents l)).
  { clear ND reopen. induction X as [|x X IH]; [exists []; split; [reflexivity|intros e []]|].
    destruct IH as [P [EP HP]]; [intros y Hy; apply HI; now right|].
    assert (Hx : In x (fentries_of l)) by (apply HI; now left). unfold fentries_of in Hx. apply in_map_iff in Hx.
    destruct Hx as [e [<- He]]. exists (e :: P). split; [cbn; now rewrite EP|]. intros y [<-|Hy]; auto. }
  destruct EX as [P [EP HP]].
  assert (EK : map fe_hash X = map e_hash P) by (rewrite EP, map_map; reflexivity).
  unfold reopen. rewrite EK. rewrite EK in ND.
  destruct (reopen_selection_admissible ops r l P key sf deny W L HP ND) as [W' [lr [L' [Ee Ei]]]].
  split; [exact W'|]. exists lr. split; [exact L'|]. split; [rewrite Ee; symmetry; exact EP|exact Ei].
Qed.
