(* Lemmas for C18 over Model/EntryCodec.v and Model/LinkVerify.v. *)
From Coq Require Import List NArith ZArith Bool String Lia Permutation.
From IpfsLog Require Import Model.Cbor Model.EntryCodec Gen.Tables Proofs.CborProofs Proofs.EntryCodecProofs Model.LinkVerify.
(* deps *)
From IpfsLog Require Model.Json Model.Signing.
(* deps *)
Import ListNotations.
Local Open Scope string_scope.
Open Scope N_scope.
Local Open Scope list_scope.

Local Arguments t_int : simpl never.

(* ------------------------------------------------------------------------------------------ *)
(* what the stored tree exposes *)
Lemma links_t_int z : links_of (t_int z) = [].
Proof. unfold t_int. destruct (0 <=? z)%Z; reflexivity. Qed.

Lemma jclock_no_tag ck t : marshal_ptr marshal_jclock ck = Ok t -> links_of t = [].
Proof.
  destruct ck as [[id tm]|]; [|intros H; inversion H; reflexivity].
  unfold marshal_ptr, marshal_jclock, marshal_struct. rows_eval "jsonable.LamportClock". field_eval.
  intros H. inversion H. cbn [links_of flat_map snd app]. rewrite links_t_int. reflexivity.
Qed.

Lemma jidentity_no_tag idn t : marshal_ptr marshal_jidentity idn = Ok t -> links_of t = [].
Proof.
  destruct idn as [[id ty pk [[sid spk]|]]|]; [| |intros H; inversion H; reflexivity];
    unfold marshal_ptr, marshal_jidentity, marshal_jidsig, marshal_struct;
    rows_eval "jsonable.Identity"; field_eval; try (rows_eval "jsonable.IdentitySignature"; field_eval);
    intros H; inversion H; reflexivity.
Qed.

(* the struct marshalled for an entry whose link lists are empty or nil: no tagged item, and the
   next / refs fields are what [t_cids] makes of them *)
Lemma jentry_no_links j t :
  marshal_jentry "jsonable.Entry" j = Ok t -> len0 (j_next j) = true -> len0 (j_refs j) = true ->
  links_of t = [] /\
  field_of "jsonable.Entry" "Next" t = Some (match j_next j with None => CNull | Some _ => CArray [] end) /\
  field_of "jsonable.Entry" "Refs" t = Some (match j_refs j with None => CNull | Some _ => CArray [] end).
Proof.
  destruct j as [v lg ky sg nx rf ck pl idn el en]. cbn [j_next j_refs].
  unfold marshal_jentry, marshal_struct. rows_eval "jsonable.Entry". field_eval.
  destruct (marshal_ptr marshal_jclock ck) as [tc| |] eqn:Ec.
  2,3: destruct nx as [[|? ?]|], rf as [[|? ?]|]; cbn [t_cids map_opt of_opt bind]; intros; discriminate.
  destruct (marshal_ptr marshal_jidentity idn) as [ti| |] eqn:Ei.
  2,3: destruct nx as [[|? ?]|], rf as [[|? ?]|]; cbn [t_cids map_opt of_opt bind]; intros; discriminate.
  pose proof (jclock_no_tag ck tc Ec) as Lc. pose proof (jidentity_no_tag idn ti Ei) as Li.
  destruct nx as [[|? ?]|], rf as [[|? ?]|]; cbn [t_cids map_opt of_opt bind len0]; intros H Hn Hr; try discriminate;
    (destruct el as [|? ?], en as [|? ?]; cbn [is_empty_tree] in H; inversion H; subst t;
     (split; [cbn [links_of flat_map snd app]; rewrite Lc, Li; reflexivity|split; reflexivity])).
Qed.

Ltac efields := cbn [e_v e_logid e_payload e_next e_refs e_clock e_key e_sig e_identity e_hash e_additional].

(* to_tree of a v >= 2 entry is the marshalling of one of two structs *)
Local Opaque marshal_jentry.
Lemma to_tree_v2 e t : to_tree e = Ok t -> (1 <? e_v e) = true ->
  exists c ji, e_clock e = Some c /\ plain_identity (e_identity e) = Ok ji /\
    let base := {| j_v := e_v e; j_logid := e_logid e; j_key := hex_encode (e_key e); j_sig := hex_encode (e_sig e);
                   j_next := e_next e; j_refs := e_refs e; j_clock := Some (to_jclock c); j_payload := e_payload e;
                   j_identity := ji; j_enc_links := []; j_enc_nonce := [] |} in
    match assoc key_enc_links (e_additional e), assoc key_enc_nonce (e_additional e) with
    | Some l, Some n =>
      marshal_jentry "jsonable.Entry"
        {| j_v := e_v e; j_logid := e_logid e; j_key := hex_encode (e_key e); j_sig := hex_encode (e_sig e);
           j_next := Some []; j_refs := Some []; j_clock := Some (to_jclock c); j_payload := e_payload e;
           j_identity := ji; j_enc_links := l; j_enc_nonce := n |} = Ok t
    | _, _ => marshal_jentry "jsonable.Entry" base = Ok t
    end.
Proof.
  destruct e as [v lg pl nx rf ck ky sg idn hs add]. unfold to_tree, normalize. efields.
  intros H V2. destruct ck as [c|]; [|discriminate]. cbn [bind] in H. unfold to_jsonable in H. efields. cbn [e_v e_logid e_payload e_next e_refs e_clock e_key e_sig e_identity e_additional] in H.
  fold (plain_identity idn) in H. destruct (plain_identity idn) as [ji| |]; cbn [bind] in H; try discriminate.
  exists c, ji. split; [reflexivity|]. split; [reflexivity|].
  assert (V0 : (v =? 0) = false) by (apply N.eqb_neq; apply N.ltb_lt in V2; lia).
  assert (V1 : (v =? 1) = false) by (apply N.eqb_neq; apply N.ltb_lt in V2; lia).
  rewrite V0, V1, V2 in H. cbv zeta in *.
  cbn [j_v j_logid j_key j_sig j_payload j_next j_refs j_enc_links j_enc_nonce j_clock j_identity] in H.
  destruct (assoc key_enc_links add), (assoc key_enc_nonce add); cbn [bind marshal_jsonable] in H; exact H.
Qed.
Local Transparent marshal_jentry.

(* the stored block of an entry carrying the two link strings: no link anywhere, next = refs = [] *)
Theorem stored_block_hides_links e t : to_tree e = Ok t -> has_enc e = true ->
  links_of t = [] /\ field_of "jsonable.Entry" "Next" t = Some (CArray []) /\
  field_of "jsonable.Entry" "Refs" t = Some (CArray []).
Proof.
  intros H E. unfold has_enc in E.
  destruct (assoc key_enc_links (e_additional e)) as [l|] eqn:EL; [|discriminate].
  destruct (assoc key_enc_nonce (e_additional e)) as [n|] eqn:EN; [|discriminate].
  destruct (to_tree_v2 e t H E) as (c & ji & _ & _ & M). cbv zeta in M. rewrite EL, EN in M.
  exact (jentry_no_links _ t M eq_refl eq_refl).
Qed.

(* an entry without links has none to show, with or without a key *)
Theorem stored_block_without_links e t : to_tree e = Ok t -> (1 <? e_v e) = true ->
  len0 (e_next e) = true -> len0 (e_refs e) = true -> links_of t = [].
Proof.
  intros H V Hn Hr. destruct (to_tree_v2 e t H V) as (c & ji & _ & _ & M). cbv zeta in M.
  destruct (assoc key_enc_links (e_additional e)), (assoc key_enc_nonce (e_additional e));
    (eapply jentry_no_links; [exact M| |]; assumption || reflexivity).
Qed.

(* the clear part of the block does not depend on the links (nor on what was sealed) *)
Lemma jentry_clear_part j1 j2 t1 t2 :
  marshal_jentry "jsonable.Entry" j1 = Ok t1 -> marshal_jentry "jsonable.Entry" j2 = Ok t2 ->
  j_v j1 = j_v j2 -> j_logid j1 = j_logid j2 -> j_key j1 = j_key j2 -> j_next j1 = j_next j2 -> j_refs j1 = j_refs j2 ->
  j_clock j1 = j_clock j2 -> j_payload j1 = j_payload j2 -> j_identity j1 = j_identity j2 ->
  clear_part t1 = clear_part t2.
Proof.
  destruct j1 as [v lg ky sg nx rf ck pl idn el en], j2 as [v2 lg2 ky2 sg2 nx2 rf2 ck2 pl2 idn2 el2 en2].
  cbn [j_v j_logid j_key j_sig j_payload j_next j_refs j_enc_links j_enc_nonce j_clock j_identity].
  intros M1 M2 -> -> -> -> -> -> -> ->. revert M1 M2.
  unfold marshal_jentry, marshal_struct. rows_eval "jsonable.Entry". field_eval.
  destruct (of_opt (t_cids nx2)) as [tn| |]; cbn [bind]; try discriminate.
  destruct (of_opt (t_cids rf2)) as [tr| |]; cbn [bind]; try discriminate.
  destruct (marshal_ptr marshal_jclock ck2) as [tc| |]; cbn [bind]; try discriminate.
  destruct (marshal_ptr marshal_jidentity idn2) as [ti| |]; cbn [bind]; try discriminate.
  destruct el as [|? ?], en as [|? ?], el2 as [|? ?], en2 as [|? ?]; cbn [is_empty_tree];
    intros M1 M2; inversion M1; inversion M2; subst t1 t2; vm_compute; reflexivity.
Qed.

Theorem clear_part_independent_of_links e1 e2 t1 t2 :
  to_tree e1 = Ok t1 -> to_tree e2 = Ok t2 -> has_enc e1 = true -> has_enc e2 = true ->
  e_v e1 = e_v e2 -> e_logid e1 = e_logid e2 -> e_payload e1 = e_payload e2 -> e_clock e1 = e_clock e2 ->
  e_key e1 = e_key e2 -> e_identity e1 = e_identity e2 ->
  clear_part t1 = clear_part t2.
Proof.
  intros H1 H2 E1 E2 Hv Hl Hp Hc Hk Hi.
  pose proof E1 as V1. pose proof E2 as V2. unfold has_enc in E1, E2, V1, V2.
  destruct (assoc key_enc_links (e_additional e1)) as [l1|] eqn:EL1; [|discriminate].
  destruct (assoc key_enc_nonce (e_additional e1)) as [n1|] eqn:EN1; [|discriminate].
  destruct (assoc key_enc_links (e_additional e2)) as [l2|] eqn:EL2; [|discriminate].
  destruct (assoc key_enc_nonce (e_additional e2)) as [n2|] eqn:EN2; [|discriminate].
  destruct (to_tree_v2 e1 t1 H1 V1) as (c1 & ji1 & C1 & I1 & M1).
  destruct (to_tree_v2 e2 t2 H2 V2) as (c2 & ji2 & C2 & I2 & M2).
  cbv zeta in M1, M2. rewrite EL1, EN1 in M1. rewrite EL2, EN2 in M2.
  rewrite Hc, C2 in C1. inversion C1; subst c1. rewrite Hi, I2 in I1. inversion I1; subst ji1.
  eapply jentry_clear_part; [exact M1|exact M2|..];
    cbn [j_v j_logid j_key j_sig j_payload j_next j_refs j_enc_links j_enc_nonce j_clock j_identity]; congruence.
Qed.

(* ------------------------------------------------------------------------------------------ *)
(* readers *)
Lemma stored_block_unmarshal cidok e t c l n :
  to_tree e = Ok t -> (1 <? e_v e) = true -> e_clock e = Some c -> int64_ok (clk_time c) = true ->
  assoc key_enc_links (e_additional e) = Some l -> assoc key_enc_nonce (e_additional e) = Some n ->
  exists ji, unmarshal_jentry cidok t =
    Ok {| j_v := e_v e; j_logid := e_logid e; j_key := hex_encode (e_key e); j_sig := hex_encode (e_sig e);
          j_next := Some []; j_refs := Some []; j_clock := Some (to_jclock c); j_payload := e_payload e;
          j_identity := ji; j_enc_links := l; j_enc_nonce := n |}.
Proof.
  intros H V C I EL EN. destruct (to_tree_v2 e t H V) as (c' & ji & C' & _ & M). cbv zeta in M.
  rewrite C in C'. inversion C'; subst c'. rewrite EL, EN in M. exists ji.
  match type of M with marshal_jentry _ ?j = _ => destruct (jentry_rt_v2 cidok j) as (t' & Et & _ & Dt) end.
  { unfold jwf. cbn [j_next j_refs j_clock jclock_ok to_jclock jc_time]. rewrite I. reflexivity. }
  rewrite M in Et. inversion Et; subst t'. exact Dt.
Qed.

Section Readers.
  Variable cidok : bytes -> bool.
  Variable K : Type.
  Variable open_ : K -> bytes -> bytes -> option bytes.
  Variable b64enc : bytes -> bytes.
  Variable b64dec : bytes -> option bytes.
  Hypothesis b64_inv : forall x, b64dec (b64enc x) = Some x.

  (* a reader whose key does not open the box gets an error, not an entry *)
  Theorem reader_with_other_key k' e t c h box nonce :
    to_tree e = Ok t -> (1 <? e_v e) = true -> e_clock e = Some c -> int64_ok (clk_time c) = true ->
    assoc key_enc_links (e_additional e) = Some (b64enc box) -> assoc key_enc_nonce (e_additional e) = Some (b64enc nonce) ->
    is_nil (b64enc box) = false -> is_nil (b64enc nonce) = false ->
    open_ k' nonce box = None ->
    of_tree cidok K open_ b64dec (Some k') h t = Err EDecrypt.
  Proof.
    intros H V C I EL EN NL NN O.
    destruct (stored_block_unmarshal cidok e t c _ _ H V C I EL EN) as (ji & D).
    unfold of_tree. rewrite D. cbn [bind]. unfold decrypt_links.
    cbn [j_enc_links j_enc_nonce]. rewrite NL, NN. cbn [orb]. rewrite !b64_inv, O. reflexivity.
  Qed.
End Readers.

(* ------------------------------------------------------------------------------------------ *)
(* uniqueCIDs is idempotent *)
Lemma existsb_bytes_eqb c seen : existsb (bytes_eqb c) seen = true <-> In c seen.
Proof.
  rewrite existsb_exists. split.
  - intros (x & Hx & E). apply bytes_eqb_eq in E. now subst.
  - intros H. exists c. split; [exact H|apply bytes_eqb_refl].
Qed.

Lemma dedup_in seen l x : In x (dedup seen l) -> In x l /\ ~ In x seen.
Proof.
  revert seen. induction l as [|c l IH]; intros seen H; [contradiction|]. cbn [dedup] in H.
  destruct (existsb (bytes_eqb c) seen) eqn:E.
  - destruct (IH seen H). split; [now right|assumption].
  - destruct H as [->|H].
    + split; [now left|]. intros Hin. apply existsb_bytes_eqb in Hin. congruence.
    + destruct (IH (c :: seen) H) as [H1 H2]. split; [now right|]. intros Hin. apply H2. now right.
Qed.

Lemma dedup_nodup seen l : NoDup (dedup seen l).
Proof.
  revert seen. induction l as [|c l IH]; intros seen; cbn [dedup]; [constructor|].
  destruct (existsb (bytes_eqb c) seen); [apply IH|].
  constructor; [|apply IH]. intros Hin. apply dedup_in in Hin as [_ Hn]. apply Hn. now left.
Qed.

Lemma dedup_id seen l : NoDup l -> (forall x, In x l -> ~ In x seen) -> dedup seen l = l.
Proof.
  revert seen. induction l as [|c l IH]; intros seen ND Hd; [reflexivity|]. cbn [dedup].
  inversion ND as [|? ? Hc ND']; subst.
  destruct (existsb (bytes_eqb c) seen) eqn:E.
  - apply existsb_bytes_eqb in E. exfalso. apply (Hd c); [now left|exact E].
  - f_equal. apply IH; [exact ND'|]. intros x Hx [->|Hs]; [contradiction|]. apply (Hd x); [now right|exact Hs].
Qed.

Lemma unique_cids_idem l : unique_cids (unique_cids l) = unique_cids l.
Proof.
  unfold unique_cids. f_equal. apply dedup_id; [apply dedup_nodup|]. intros x _ H. exact H.
Qed.

Lemma copy_entry_idem e : copy_entry (copy_entry e) = copy_entry e.
Proof. unfold copy_entry. cbn [e_v e_logid e_payload e_next e_refs e_clock e_key e_sig e_identity e_hash e_additional]. now rewrite !unique_cids_idem. Qed.

(* ------------------------------------------------------------------------------------------ *)
(* creation and verification with a link key *)
Lemma len0_unique l : len0 (unique_cids l) = len0 l.
Proof.
  unfold unique_cids. destruct l as [[|c l]|]; reflexivity.
Qed.

Section Verification.
  Variable cid_text : bytes -> bytes.
  Variable cid_b58 : bytes -> bytes.

  (* the signed bytes do not involve key, signature, identity or hash *)
  Lemma signed_bytes_ext e1 e2 :
    e_logid e1 = e_logid e2 -> e_payload e1 = e_payload e2 -> list_of (e_next e1) = list_of (e_next e2) ->
    list_of (e_refs e1) = list_of (e_refs e2) -> e_v e1 = e_v e2 -> e_clock e1 = e_clock e2 ->
    e_additional e1 = e_additional e2 ->
    signed_bytes cid_b58 e1 = signed_bytes cid_b58 e2.
  Proof.
    destruct e1 as [v lg pl nx rf ck ky sg idn hs add], e2 as [v2 lg2 pl2 nx2 rf2 ck2 ky2 sg2 idn2 hs2 add2].
    cbn [e_v e_logid e_payload e_next e_refs e_clock e_key e_sig e_identity e_hash e_additional].
    intros -> -> E1 E2 -> -> ->. unfold signed_bytes, to_signing.
    cbn [e_v e_logid e_payload e_next e_refs e_clock e_key e_sig e_identity e_hash e_additional].
    rewrite E1, E2. reflexivity.
  Qed.

  (* the repaired nonce reference ignores everything PreSign/SetKey/SetSig change *)
  Lemma nonce_ref_nokey_ext e1 e2 :
    e_logid e1 = e_logid e2 -> e_payload e1 = e_payload e2 -> e_next e1 = e_next e2 ->
    e_v e1 = e_v e2 -> e_clock e1 = e_clock e2 ->
    nonce_ref_nokey cid_text e1 = nonce_ref_nokey cid_text e2.
  Proof. intros H1 H2 H3 H4 H5. unfold nonce_ref_nokey, nonce_ref_with. now rewrite H1, H2, H3, H4, H5. Qed.

  (* the nonce reference of the code changes when the key is set: the two strings differ in length *)
  Lemma nonce_ref_depends_on_key e k1 k2 :
    List.length k1 <> List.length k2 -> nonce_ref_with cid_text k1 e <> nonce_ref_with cid_text k2 e.
  Proof.
    intros Hl E. apply (f_equal (@List.length N)) in E. unfold nonce_ref_with in E.
    repeat (rewrite ?app_length in E; cbn [List.length] in E). lia.
  Qed.

  Section Crypto.
    Variable K : Type.
    Variable seal : K -> bytes -> bytes -> bytes.
    Variable derive : bytes -> bytes.
    Variable b64enc : bytes -> bytes.
    Variables skey pkey : Type.
    Variable pub : skey -> pkey.
    Variable pub_bytes : skey -> bytes.
    Variable unmarshal : bytes -> option pkey.
    Variable sign : skey -> bytes -> bytes.
    Variable verify : pkey -> bytes -> bytes -> bool.
    Hypothesis unmarshal_pub : forall sk, unmarshal (pub_bytes sk) = Some (pub sk).
    Hypothesis verify_sign : forall sk m, verify (pub sk) m (sign sk m) = true.
    Hypothesis pub_nonempty : forall sk, is_nil (pub_bytes sk) = false.
    Hypothesis sig_nonempty : forall sk m, is_nil (sign sk m) = false.

    Variable ref : entry -> bytes.
    (* what the repaired nonce reference satisfies (nonce_ref_nokey_ext) and the one in the code does not *)
    Hypothesis ref_ext : forall e1 e2,
      e_logid e1 = e_logid e2 -> e_payload e1 = e_payload e2 -> e_next e1 = e_next e2 ->
      e_v e1 = e_v e2 -> e_clock e1 = e_clock e2 -> ref e1 = ref e2.

    Notation presign_k := (presign K seal (fun x => derive (ref x)) b64enc).
    Notation verify_k := (verify_link cid_b58 K seal derive b64enc pkey unmarshal verify ref).

    (* x: any entry that agrees with the PreSign output p on the signed fields, carries sk's key and
       sk's signature over p's signed bytes, and whose AdditionalData is p's up to the order of the
       two link strings *)
    Lemma verify_core k sk p0 p x :
      presign_k (Some k) p0 = Ok p -> e_additional p0 = [] -> e_next p0 = unique_cids (e_next p0) ->
      e_refs p0 = unique_cids (e_refs p0) ->
      e_v x = e_v p -> e_logid x = e_logid p -> e_payload x = e_payload p -> e_next x = e_next p ->
      e_refs x = e_refs p -> e_clock x = e_clock p ->
      e_key x = pub_bytes sk -> e_sig x = sign sk (signed_bytes cid_b58 p) ->
      (e_additional x = e_additional p \/
       exists a b, e_additional p = [(key_enc_nonce, a); (key_enc_links, b)] /\
                   e_additional x = [(key_enc_links, b); (key_enc_nonce, a)]) ->
      verify_k (Some k) x = Ok true.
    Proof.
      intros P A0 U1 U2 Hv Hl Hp Hn Hr Hc Hk Hs Ha.
      unfold verify_link. rewrite Hk, Hs, pub_nonempty, sig_nonempty, unmarshal_pub.
      unfold presign in P |- *.
      destruct (len0 (e_next p0) && len0 (e_refs p0)) eqn:L0.
      - (* no links: PreSign is the identity, on p0 and on x *)
        inversion P; subst p. rewrite Hn, Hr, L0. cbn [bind].
        assert (SB : signed_bytes cid_b58 x = signed_bytes cid_b58 p0).
        { apply signed_bytes_ext; try congruence; try (f_equal; congruence).
          destruct Ha as [Ha|(a & b & Ha & _)]; [exact Ha|]. rewrite A0 in Ha. discriminate. }
        rewrite SB. now rewrite verify_sign.
      - (* links *)
        destruct (links_tree (e_next (copy_entry p0)) (e_refs (copy_entry p0))) as [lt| |] eqn:LT; try discriminate.
        cbn [bind] in P. inversion P as [Pp]. clear P. subst p.
        cbn [with_additional copy_entry e_v e_logid e_payload e_next e_refs e_clock e_additional] in Hv, Hl, Hp, Hn, Hr, Hc, Ha.
        rewrite <- U1 in Hn. rewrite <- U2 in Hr.
        rewrite Hn, Hr, L0.
        assert (Cn : unique_cids (e_next p0) = e_next p0) by congruence.
        assert (Cr : unique_cids (e_refs p0) = e_refs p0) by congruence.
        cbn [copy_entry e_next e_refs]. rewrite Hn, Hr, Cn, Cr.
        cbn [copy_entry e_next e_refs] in LT. rewrite Cn, Cr in LT. rewrite LT. cbn [bind].
        assert (R : ref (copy_entry x) = ref (copy_entry p0)).
        { apply ref_ext; cbn [copy_entry e_logid e_payload e_next e_v e_clock]; congruence. }
        rewrite R.
        match goal with |- Ok (verify _ (signed_bytes _ ?a) (sign _ (signed_bytes _ ?b))) = _ =>
          rewrite (signed_bytes_ext a b) end; [now rewrite verify_sign|..];
          cbn [with_additional copy_entry e_logid e_payload e_next e_refs e_v e_clock e_additional]; try congruence.
        rewrite A0 in *. destruct Ha as [Ha|(a & b & Ha & Hx)].
        * rewrite Ha. reflexivity.
        * rewrite Hx. reflexivity.
    Qed.

    Hypothesis nonce_nonempty : forall y, is_nil (b64enc (derive y)) = false.

    Notation create_k := (create_link cid_b58 K seal derive b64enc skey pub_bytes sign ref).

    (* an entry created with the link key verifies, as created and as read back from its block
       ([strip_additional h]: hash set, AdditionalData = the stored pair) - PROVIDED the nonce
       reference satisfies [ref_ext] *)
    Theorem created_entry_verifies k sk ident data e' h :
      e_additional data = [] -> create_k (Some k) sk ident data = Ok e' ->
      verify_k (Some k) e' = Ok true /\ verify_k (Some k) (strip_additional h e') = Ok true.
    Proof.
      intros A0. unfold create_link.
      match goal with |- bind (presign _ _ _ _ _ ?p0) _ = _ -> _ => remember p0 as P0 eqn:EP0 end.
      destruct (presign_k (Some k) P0) as [p| |] eqn:P; cbn [bind]; try discriminate.
      intros E. inversion E; subst e'. clear E.
      assert (A0' : e_additional P0 = []) by (rewrite EP0; cbn [e_additional copy_entry]; exact A0).
      assert (U1 : e_next P0 = unique_cids (e_next P0)) by (rewrite EP0; cbn [e_next copy_entry]; now rewrite unique_cids_idem).
      assert (U2 : e_refs P0 = unique_cids (e_refs P0)) by (rewrite EP0; cbn [e_refs copy_entry]; now rewrite unique_cids_idem).
      split.
      - apply (verify_core k sk P0 p); auto. 
      - apply (verify_core k sk P0 p); auto.
        cbn [strip_additional set_key_sig_identity e_additional]. unfold enc_pair.
        cbn [set_key_sig_identity e_additional e_v].
        unfold presign in P. destruct (len0 (e_next P0) && len0 (e_refs P0)).
        + inversion P; subst p. rewrite A0'. left. reflexivity.
        + destruct (links_tree (e_next (copy_entry P0)) (e_refs (copy_entry P0))) as [lt| |]; try discriminate.
          cbn [bind] in P. inversion P; subst p. clear P.
          cbn [with_additional copy_entry e_additional e_v]. rewrite A0'.
          right. eexists. eexists. split; [reflexivity|].
          change (assoc key_enc_links (set_assoc key_enc_nonce ?a (set_assoc key_enc_links ?b []))) with (Some b).
          cbn [set_assoc filter assoc bytes_eqb N.eqb Pos.eqb andb key_enc_links key_enc_nonce negb fst].
          rewrite EP0. cbn [e_v]. change (1 <? 2) with true. cbv iota.
          rewrite nonce_nonempty. rewrite andb_false_r. reflexivity.
    Qed.
  End Crypto.
End Verification.

(* the repaired reference qualifies *)
Theorem link_entries_verify_with_nokey_reference
  cid_text cid_b58 K seal derive b64enc skey pkey pub pub_bytes unmarshal sign verify :
  (forall sk, unmarshal (pub_bytes sk) = Some (pub sk)) ->
  (forall sk m, verify (pub sk) m (sign sk m) = true) ->
  (forall sk, is_nil (pub_bytes sk) = false) -> (forall sk m, is_nil (sign sk m) = false) ->
  (forall y, is_nil (b64enc (derive y)) = false) ->
  forall (k : K) (sk : skey) ident data e' h,
    e_additional data = [] ->
    create_link cid_b58 K seal derive b64enc skey pub_bytes sign (nonce_ref_nokey cid_text) (Some k) sk ident data = Ok e' ->
    verify_link cid_b58 K seal derive b64enc pkey unmarshal verify (nonce_ref_nokey cid_text) (Some k) e' = Ok true /\
    verify_link cid_b58 K seal derive b64enc pkey unmarshal verify (nonce_ref_nokey cid_text) (Some k) (strip_additional h e') = Ok true.
Proof.
  intros H1 H2 H3 H4 H5 k sk ident data e' h A C.
  eapply (created_entry_verifies cid_b58 K seal derive b64enc skey pkey pub pub_bytes unmarshal sign verify H1 H2 H3 H4
            (nonce_ref_nokey cid_text) (nonce_ref_nokey_ext cid_text) H5); eauto.
Qed.

(* ------------------------------------------------------------------------------------------ *)
(* toy oracles: identity "encryption"/"hash"/"base64", signature = 1 :: message *)
Definition toy_seal (_ : unit) (n m : bytes) : bytes := n ++ m.
Definition toy_sign (_ : unit) (m : bytes) : bytes := 1 :: m.
Definition toy_verify (_ : unit) (m s : bytes) : bool := bytes_eqb (1 :: m) s.
Definition toy_pub (_ : unit) : bytes := [7; 7].
Definition toy_data : entry :=
  {| e_v := 0; e_logid := [88]; e_payload := [116; 119; 111]; e_next := Some [[1; 113; 18; 1; 9]]; e_refs := None;
     e_clock := None; e_key := []; e_sig := []; e_identity := None; e_hash := None; e_additional := [] |}.

Definition toy_create ref := create_link (fun x => x) unit toy_seal (fun x => x) (fun x => x) unit toy_pub toy_sign ref (Some tt) tt None toy_data.
Definition toy_verify_entry ref e := verify_link (fun x => x) unit toy_seal (fun x => x) (fun x => x) unit (fun _ => Some tt) toy_verify ref (Some tt) e.

(* the code as it is: NonceRefForEntry reads the key, which is empty when PreSign runs inside
   CreateEntryWithIO and set when Verify runs PreSign again *)
Lemma toy_link_entry_does_not_verify :
  exists e, toy_create (nonce_ref (fun x => x)) = Ok e /\ e_next e = Some [[1; 113; 18; 1; 9]] /\
            toy_verify_entry (nonce_ref (fun x => x)) e = Ok false.
Proof. eexists. split; [vm_compute; reflexivity|]. split; vm_compute; reflexivity. Qed.

Lemma toy_link_entry_verifies_with_nokey_reference :
  exists e, toy_create (nonce_ref_nokey (fun x => x)) = Ok e /\
            toy_verify_entry (nonce_ref_nokey (fun x => x)) e = Ok true /\
            toy_verify_entry (nonce_ref_nokey (fun x => x)) (strip_additional [9] e) = Ok true.
Proof. eexists. split; [vm_compute; reflexivity|]. split; vm_compute; reflexivity. Qed.
