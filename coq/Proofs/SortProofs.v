(* Lemmas about the model of Go's insertion sort ([gosort]). *)
From Coq Require Import List ZArith Bool Lia Permutation Sorted.
Open Scope Z_scope.
From IpfsLog Require Import Model.Order.
Import ListNotations.

Section GoSortFacts.
  Variable A : Type.
  Variable less : A -> A -> bool.

  Lemma ins_perm x rp : Permutation (ins less x rp) (x :: rp).
  Proof.
    induction rp as [|y rp IH]; cbn [ins]; [reflexivity|].
    destruct (less x y); [|reflexivity].
    rewrite IH. apply perm_swap.
  Qed.

  Lemma fold_ins_perm l acc :
    Permutation (fold_left (fun rp x => ins less x rp) l acc) (l ++ acc).
  Proof.
    revert acc; induction l as [|x l IH]; intros acc; cbn [fold_left app]; [reflexivity|].
    rewrite IH. rewrite ins_perm. symmetry. apply Permutation_middle.
  Qed.

  Theorem gosort_perm l : Permutation (gosort less l) l.
  Proof.
    unfold gosort. rewrite <- Permutation_rev. rewrite fold_ins_perm. now rewrite app_nil_r.
  Qed.

  Lemma gosort_length l : length (gosort less l) = length l.
  Proof. apply Permutation_length, gosort_perm. Qed.

  Lemma gosort_in l x : In x (gosort less l) <-> In x l.
  Proof. split; apply Permutation_in; [|symmetry]; apply gosort_perm. Qed.

  Lemma gosort_nodup l : NoDup l -> NoDup (gosort less l).
  Proof. intros H. eapply Permutation_NoDup; [symmetry; apply gosort_perm|exact H]. Qed.

  Lemma gosort_nil : gosort less [] = [].
  Proof. reflexivity. Qed.

  (* Sortedness when [less] is a strict total order on the elements satisfying [P]. *)
  Variable P : A -> Prop.
  Hypothesis less_irrefl : forall a, P a -> less a a = false.
  Hypothesis less_trans : forall a b c, P a -> P b -> P c ->
      less a b = true -> less b c = true -> less a c = true.
  Hypothesis less_total : forall a b, P a -> P b -> a <> b -> less a b = true \/ less b a = true.

  Lemma less_asym a b : P a -> P b -> less a b = true -> less b a = false.
  Proof.
    intros Pa Pb H. destruct (less b a) eqn:E; [|reflexivity].
    rewrite <- (less_irrefl a Pa). symmetry. now apply (less_trans a b a).
  Qed.

  Definition gt (a b : A) : Prop := less b a = true.

  Lemma ins_sorted x rp :
    P x -> Forall P rp -> ~ In x rp ->
    StronglySorted gt rp -> StronglySorted gt (ins less x rp).
  Proof.
    intros Px; induction rp as [|y rp IH]; intros HP Hni Hs; cbn [ins].
    - constructor; constructor.
    - inversion HP as [|? ? Py HP']; subst. inversion Hs as [|? ? Hs' Hy]; subst.
      assert (Hxy : x <> y) by (intro; subst; apply Hni; now left).
      assert (Hni' : ~ In x rp) by (intro; apply Hni; now right).
      destruct (less x y) eqn:E.
      + constructor; [apply IH; auto|].
        rewrite Forall_forall. intros z Hz.
        apply (Permutation_in _ (ins_perm x rp)) in Hz. destruct Hz as [<-|Hz].
        * exact E.
        * rewrite Forall_forall in Hy. now apply Hy.
      + assert (Hyx : less y x = true).
        { destruct (less_total x y Px Py Hxy) as [T|T]; [congruence|exact T]. }
        constructor; [constructor; auto|].
        constructor; [exact Hyx|].
        rewrite Forall_forall in *. intros z Hz. unfold gt in *.
        apply (less_trans z y x); auto.
  Qed.

  Lemma fold_ins_sorted l acc :
    Forall P l -> Forall P acc -> NoDup (l ++ acc) ->
    StronglySorted gt acc ->
    StronglySorted gt (fold_left (fun rp x => ins less x rp) l acc).
  Proof.
    revert acc; induction l as [|x l IH]; intros acc HPl HPa Hnd Hs; cbn [fold_left]; [exact Hs|].
    inversion HPl as [|? ? Px HPl']; subst.
    cbn [app] in Hnd. inversion Hnd as [|? ? Hnx Hnd']; subst.
    apply IH; auto.
    - rewrite Forall_forall. intros z Hz. apply (Permutation_in _ (ins_perm x acc)) in Hz.
      destruct Hz as [<-|Hz]; [exact Px|]. rewrite Forall_forall in HPa; auto.
    - eapply Permutation_NoDup; [|exact Hnd].
      change (x :: l ++ acc) with ((x :: l) ++ acc).
      rewrite (Permutation_app_comm (x :: l) acc). cbn [app].
      rewrite (Permutation_app_comm l). rewrite ins_perm.
      symmetry. apply Permutation_middle.
    - apply ins_sorted; auto. intro Hin. apply Hnx. apply in_or_app. now right.
  Qed.

  Lemma sorted_snoc (R : A -> A -> Prop) l x :
    StronglySorted R l -> Forall (fun y => R y x) l -> StronglySorted R (l ++ [x]).
  Proof.
    induction l as [|y l IH]; intros Hs Hf; cbn [app]; [constructor; constructor|].
    inversion Hs as [|? ? Hs' Hy]; subst. inversion Hf as [|? ? Hyx Hf']; subst.
    constructor; [apply IH; auto|].
    apply Forall_app; split; [exact Hy|]. constructor; [exact Hyx|constructor].
  Qed.

  Lemma sorted_rev_gt l : StronglySorted gt l -> StronglySorted (fun a b => less a b = true) (rev l).
  Proof.
    induction l as [|x l IH]; intros Hs; cbn [rev]; [constructor|].
    inversion Hs as [|? ? Hs' Hx]; subst. apply sorted_snoc; [apply IH; exact Hs'|].
    rewrite Forall_forall in *. intros y Hy. apply Hx. now apply in_rev.
  Qed.

  Theorem gosort_sorted l :
    Forall P l -> NoDup l -> StronglySorted (fun a b => less a b = true) (gosort less l).
  Proof.
    intros HP Hnd. unfold gosort. apply sorted_rev_gt. apply fold_ins_sorted; auto.
    - now rewrite app_nil_r.
    - constructor.
  Qed.

  (* A strictly sorted enumeration of a set is unique. *)
  Lemma sorted_unique l1 l2 :
    Forall P l1 ->
    StronglySorted (fun a b => less a b = true) l1 ->
    StronglySorted (fun a b => less a b = true) l2 ->
    Permutation l1 l2 -> l1 = l2.
  Proof.
    revert l2; induction l1 as [|x l1 IH]; intros l2 HP S1 S2 Hp.
    - apply Permutation_nil in Hp. now subst.
    - destruct l2 as [|y l2]; [symmetry in Hp; apply Permutation_nil in Hp; discriminate|].
      inversion HP as [|? ? Px HP1]; subst.
      inversion S1 as [|? ? S1' Hx]; subst. inversion S2 as [|? ? S2' Hy]; subst.
      assert (Py : P y).
      { assert (In y (x :: l1)) by (apply (Permutation_in _ (Permutation_sym Hp)); now left).
        rewrite Forall_forall in HP. auto. }
      assert (x = y).
      { assert (Hyin : In y (x :: l1)) by (apply (Permutation_in _ (Permutation_sym Hp)); now left).
        assert (Hxin : In x (y :: l2)) by (apply (Permutation_in _ Hp); now left).
        destruct Hyin as [|Hyin]; [assumption|]. destruct Hxin as [|Hxin]; [congruence|].
        rewrite Forall_forall in Hx, Hy. specialize (Hx _ Hyin). specialize (Hy _ Hxin).
        rewrite (less_asym x y Px Py Hx) in Hy. discriminate. }
      subst y. f_equal. apply IH; auto. eapply Permutation_cons_inv; exact Hp.
  Qed.

  Theorem gosort_order_independent l l' :
    Forall P l -> NoDup l -> Permutation l l' -> gosort less l = gosort less l'.
  Proof.
    intros HP Hnd Hp.
    assert (HP' : Forall P l').
    { rewrite Forall_forall in *. intros z Hz. apply HP. apply (Permutation_in _ (Permutation_sym Hp) Hz). }
    apply sorted_unique.
    - rewrite Forall_forall in *. intros z Hz. apply HP. now apply gosort_in.
    - apply gosort_sorted; auto.
    - apply gosort_sorted; auto. eapply Permutation_NoDup; eauto.
    - rewrite !gosort_perm. exact Hp.
  Qed.
End GoSortFacts.

  (* ---- sort_less derived from a comparator with a value function ---- *)
Lemma StronglySorted_impl {A} (R1 R2 : A -> A -> Prop) l :
  (forall a b, R1 a b -> R2 a b) -> StronglySorted R1 l -> StronglySorted R2 l.
Proof.
  intros H S. induction S as [|x l S IH Hx]; constructor; auto.
  rewrite Forall_forall in *. intros y Hy. apply H. auto.
Qed.

Lemma StronglySorted_impl_in {A} (R1 R2 : A -> A -> Prop) l :
  (forall a b, In a l -> In b l -> R1 a b -> R2 a b) -> StronglySorted R1 l -> StronglySorted R2 l.
Proof.
  intros H S. induction S as [|x l S IH Hx]; constructor.
  - apply IH. intros a b Ha Hb. apply H; now right.
  - rewrite Forall_forall in *. intros y Hy. apply H; [now left|now right|auto].
Qed.

Section GoSortWeak.
  (* insertion sort with duplicates allowed: the result is weakly sorted *)
  Variable A : Type.
  Variable less : A -> A -> bool.
  Variable P : A -> Prop.
  Hypothesis less_irrefl : forall a, P a -> less a a = false.
  Hypothesis less_trans : forall a b c, P a -> P b -> P c ->
      less a b = true -> less b c = true -> less a c = true.
  Hypothesis less_total : forall a b, P a -> P b -> a <> b -> less a b = true \/ less b a = true.

  Lemma ins_sorted_weak x rp :
    P x -> Forall P rp ->
    StronglySorted (fun a b => less a b = false) rp ->
    StronglySorted (fun a b => less a b = false) (ins less x rp).
  Proof.
    intros Px; induction rp as [|y rp IH]; intros HP Hs; cbn [ins].
    - constructor; constructor.
    - inversion HP as [|? ? Py HP']; subst. inversion Hs as [|? ? Hs' Hy]; subst.
      destruct (less x y) eqn:E.
      + constructor; [apply IH; auto|].
        rewrite Forall_forall. intros z Hz.
        apply (Permutation_in _ (ins_perm _ less x rp)) in Hz. destruct Hz as [<-|Hz].
        * destruct (less y x) eqn:E2; [|reflexivity].
          rewrite <- (less_irrefl x Px). symmetry. now apply (less_trans x y x).
        * rewrite Forall_forall in Hy. now apply Hy.
      + constructor; [constructor; auto|].
        constructor; [exact E|].
        rewrite Forall_forall in *. intros z Hz. specialize (Hy z Hz).
        destruct (less x z) eqn:E3; [|reflexivity]. exfalso.
        assert (Pz : P z) by (apply HP'; exact Hz).
        destruct (less_total x y Px Py) as [T|T].
        * intro; subst. congruence.
        * congruence.
        * rewrite (less_trans y x z Py Px Pz T E3) in Hy. discriminate.
  Qed.

  Lemma fold_ins_sorted_weak l acc :
    Forall P l -> Forall P acc ->
    StronglySorted (fun a b => less a b = false) acc ->
    StronglySorted (fun a b => less a b = false) (fold_left (fun rp x => ins less x rp) l acc).
  Proof.
    revert acc; induction l as [|x l IH]; intros acc HPl HPa Hs; cbn [fold_left]; [exact Hs|].
    inversion HPl as [|? ? Px HPl']; subst. apply IH; auto.
    - rewrite Forall_forall. intros z Hz. apply (Permutation_in _ (ins_perm _ less x acc)) in Hz.
      destruct Hz as [<-|Hz]; [exact Px|]. rewrite Forall_forall in HPa; auto.
    - apply ins_sorted_weak; auto.
  Qed.

  Theorem gosort_sorted_weak l :
    Forall P l -> StronglySorted (fun a b => less b a = false) (gosort less l).
  Proof.
    intros HP. unfold gosort.
    assert (S : StronglySorted (fun a b => less a b = false) (fold_left (fun rp x => ins less x rp) l [])).
    { apply fold_ins_sorted_weak; auto; constructor. }
    revert S. generalize (fold_left (fun rp x => ins less x rp) l []). intros r S.
    induction r as [|x r IH]; cbn [rev]; [constructor|].
    inversion S as [|? ? S' Hx]; subst. apply sorted_snoc; [apply IH; exact S'|].
    rewrite Forall_forall in *. intros y Hy. apply Hx. now apply in_rev.
  Qed.
End GoSortWeak.

Section SortWith.
    Variable A : Type.
    Variable val : A -> A -> Z.
    Variable f : A -> A -> cres.
    Variable P : A -> Prop.
    Hypothesis f_val : forall a b, P a -> P b -> a <> b -> f a b = COk (val a b).
    Hypothesis f_self : forall a, P a -> f a a = CErr \/ f a a = COk 0.
    Hypothesis val_anti : forall a b, P a -> P b -> val b a = - val a b.
    Hypothesis val_trans : forall a b c, P a -> P b -> P c -> val a b < 0 -> val b c < 0 -> val a c < 0.
    Hypothesis val_total : forall a b, P a -> P b -> a <> b -> val a b <> 0.

    Lemma sort_less_irrefl rev a : P a -> sort_less f rev a a = false.
    Proof.
      intros Pa. unfold sort_less. destruct (f_self a Pa) as [-> | ->]; [reflexivity|].
      destruct rev; reflexivity.
    Qed.

    Lemma sort_less_val rev a b : P a -> P b -> a <> b ->
      sort_less f rev a b = if rev then 0 <? val a b else val a b <? 0.
    Proof. intros Pa Pb Hne. unfold sort_less. now rewrite f_val. Qed.

    Lemma sort_less_total rev a b : P a -> P b -> a <> b ->
      sort_less f rev a b = true \/ sort_less f rev b a = true.
    Proof.
      intros Pa Pb Hne. rewrite !sort_less_val by auto.
      pose proof (val_total a b Pa Pb Hne). pose proof (val_anti a b Pa Pb).
      destruct rev; rewrite ?Z.ltb_lt; lia.
    Qed.

    Lemma sort_less_trans rev a b c : P a -> P b -> P c ->
      sort_less f rev a b = true -> sort_less f rev b c = true -> sort_less f rev a c = true.
    Proof.
      intros Pa Pb Pc H1 H2.
      assert (Hab : a <> b) by (intro; subst; rewrite sort_less_irrefl in H1; auto; discriminate).
      assert (Hbc : b <> c) by (intro; subst; rewrite sort_less_irrefl in H2; auto; discriminate).
      rewrite (sort_less_val rev a b Pa Pb Hab) in H1.
      rewrite (sort_less_val rev b c Pb Pc Hbc) in H2.
      pose proof (val_anti a b Pa Pb) as A1. pose proof (val_anti b c Pb Pc) as A2.
      pose proof (val_anti a c Pa Pc) as A3.
      assert (Hac : a <> c).
      { intro; subst c. destruct rev; rewrite ?Z.ltb_lt in *; lia. }
      rewrite (sort_less_val rev a c Pa Pc Hac).
      destruct rev; rewrite ?Z.ltb_lt in *.
      - assert (B1 : val c b < 0) by lia. assert (B2 : val b a < 0) by lia.
        pose proof (val_trans c b a Pc Pb Pa B1 B2). lia.
      - exact (val_trans a b c Pa Pb Pc H1 H2).
    Qed.

    Theorem sort_go_perm rev l : Permutation (sort_go f rev l) l.
    Proof. apply gosort_perm. Qed.

    Theorem sort_go_sorted rev l : Forall P l -> NoDup l ->
      StronglySorted (fun a b => sort_less f rev a b = true) (sort_go f rev l).
    Proof.
      intros HP Hnd. unfold sort_go.
      apply (gosort_sorted _ (sort_less f rev) P
               (sort_less_trans rev) (sort_less_total rev)); auto.
    Qed.

    Theorem sort_go_deterministic rev l l' : Forall P l -> NoDup l -> Permutation l l' ->
      sort_go f rev l = sort_go f rev l'.
    Proof.
      intros HP Hnd Hp. unfold sort_go.
      apply (gosort_order_independent _ (sort_less f rev) P
               (sort_less_irrefl rev) (sort_less_trans rev) (sort_less_total rev)); auto.
    Qed.
  End SortWith.
