(* Lemmas about the keystore / identity model (Model/Keystore.v): the cache-coherence invariant,
   refinement of the datastore-map specification, monotonicity of the datastore, and the
   identity layer modulo abstract crypto. *)
From Coq Require Import PeanoNat.
From IpfsLog Require Import Model.Keystore.
Open Scope N_scope.

(* ------------------------------------------------------------------------------------------ *)
(* association lists *)

Lemma alookup_aremove_eq i m : alookup i (aremove i m) = None.
Proof.
  induction m as [|[j v] m IH]; simpl; auto.
  destruct (N.eqb_spec i j) as [E|E]; auto. simpl.
  destruct (N.eqb_spec i j); congruence.
Qed.

Lemma alookup_aremove_neq i j m : i <> j -> alookup i (aremove j m) = alookup i m.
Proof.
  intros Hne. induction m as [|[a v] m IH]; simpl; auto.
  destruct (N.eqb_spec j a) as [E|E].
  - subst a. destruct (N.eqb_spec i j); [congruence|auto].
  - simpl. destruct (N.eqb_spec i a); auto.
Qed.

Lemma alookup_In i m v : alookup i m = Some v -> In i (map fst m).
Proof.
  induction m as [|[j w] m IH]; simpl; [discriminate|].
  destruct (N.eqb_spec i j); auto.
Qed.

Lemma alookup_None i m : alookup i m = None <-> ~ In i (map fst m).
Proof.
  induction m as [|[j w] m IH]; simpl.
  - tauto.
  - destruct (N.eqb_spec i j) as [E|E].
    + split; [discriminate|]. intros H. exfalso. apply H. auto.
    + rewrite IH. split; intros H; [intros [F|F]; [congruence|auto]|auto].
Qed.

Lemma In_aremove x j m : In x (map fst (aremove j m)) -> In x (map fst m) /\ x <> j.
Proof.
  induction m as [|[a v] m IH]; simpl; [tauto|].
  destruct (N.eqb_spec j a) as [E|E].
  - intros H. destruct (IH H). auto.
  - simpl. intros [H|H]; [subst; split; auto | destruct (IH H); auto].
Qed.

Lemma NoDup_aremove j m : NoDup (map fst m) -> NoDup (map fst (aremove j m)).
Proof.
  induction m as [|[a v] m IH]; simpl; auto.
  intros H. inversion H as [|x l Hn Hd]; subst.
  destruct (N.eqb_spec j a); auto. simpl. constructor; auto.
  intros F. apply In_aremove in F. tauto.
Qed.

Lemma length_aremove_le j m : (length (aremove j m) <= length m)%nat.
Proof.
  induction m as [|[a v] m IH]; simpl; auto.
  destruct (N.eqb_spec j a); simpl; lia.
Qed.

Lemma length_aremove_lt j m v : alookup j m = Some v -> (length (aremove j m) < length m)%nat.
Proof.
  induction m as [|[a w] m IH]; simpl; [discriminate|].
  destruct (N.eqb_spec j a); simpl; intros H.
  - pose proof (length_aremove_le j m). lia.
  - apply IH in H. lia.
Qed.

Lemma alookup_app_l i l1 l2 v : alookup i l1 = Some v -> alookup i (l1 ++ l2) = Some v.
Proof.
  induction l1 as [|[j w] l1 IH]; simpl; [discriminate|].
  destruct (N.eqb_spec i j); auto.
Qed.

Lemma alookup_removelast i m v : alookup i (removelast m) = Some v -> alookup i m = Some v.
Proof.
  destruct m as [|p m]; [simpl; discriminate|].
  intros H. rewrite (app_removelast_last p) by discriminate.
  now apply alookup_app_l.
Qed.

Lemma NoDup_removelast {A} (l : list A) : NoDup l -> NoDup (removelast l).
Proof.
  induction l as [|a l IH]; simpl; auto.
  intros H. inversion H as [|x l' Hn Hd]; subst.
  destruct l as [|b l]; [constructor|].
  constructor; auto.
  intros F. apply Hn.
  rewrite (app_removelast_last b) by discriminate. apply in_or_app. auto.
Qed.

Lemma map_removelast {A B} (f : A -> B) (l : list A) : map f (removelast l) = removelast (map f l).
Proof.
  induction l as [|a l IH]; simpl; auto.
  destruct l as [|b l]; simpl; auto. simpl in IH. now rewrite IH.
Qed.

Lemma length_removelast {A} (l : list A) : length (removelast l) = pred (length l).
Proof.
  induction l as [|a l IH]; [reflexivity|].
  destruct l as [|b l]; [reflexivity|].
  change (length (a :: removelast (b :: l)) = length (b :: l)).
  cbn [length]. rewrite IH. reflexivity.
Qed.

Lemma alookup_ds_put i j k ds : alookup i (ds_put j k ds) = if i =? j then Some k else alookup i ds.
Proof.
  unfold ds_put. simpl. destruct (N.eqb_spec i j); auto. now apply alookup_aremove_neq.
Qed.

(* ------------------------------------------------------------------------------------------ *)
(* the invariant *)

Definition coherent (ds : amap) (c : cache) : Prop :=
  forall id v, alookup id c = Some v -> alookup id ds = Some v.

Definition cache_ok (cap : nat) (ds : amap) (c : cache) : Prop :=
  NoDup (map fst c) /\ (length c <= cap)%nat /\ coherent ds c.

Definition inv (cap : nat) (st : state) : Prop := Forall (cache_ok cap (st_ds st)) (st_caches st).

(* bindings persist *)
Definition ds_le (ds ds' : amap) : Prop := forall id v, alookup id ds = Some v -> alookup id ds' = Some v.

Lemma ds_le_refl ds : ds_le ds ds.
Proof. intros id v H; exact H. Qed.
Lemma ds_le_trans a b c : ds_le a b -> ds_le b c -> ds_le a c.
Proof. intros H1 H2 id v H. auto. Qed.
Lemma ds_le_put ds id k : alookup id ds = None -> ds_le ds (ds_put id k ds).
Proof.
  intros Hn i v H. rewrite alookup_ds_put. destruct (N.eqb_spec i id); [congruence|auto].
Qed.

Lemma cache_ok_empty cap ds : cache_ok cap ds [].
Proof. repeat split; simpl; [constructor|lia|intros id v H; discriminate]. Qed.

Lemma cache_ok_le cap ds ds' c : ds_le ds ds' -> cache_ok cap ds c -> cache_ok cap ds' c.
Proof. intros Hle (Hnd & Hlen & Hco). repeat split; auto. intros id v H. auto. Qed.

Lemma move_front_ok cap ds c i v w :
  cache_ok cap ds c -> alookup i c = Some w -> alookup i ds = Some v ->
  cache_ok cap ds ((i, v) :: aremove i c).
Proof.
  intros (Hnd & Hlen & Hco) Hc Hds. repeat split.
  - simpl. constructor; [|now apply NoDup_aremove].
    apply alookup_None. apply alookup_aremove_eq.
  - simpl. pose proof (length_aremove_lt i c w Hc). lia.
  - intros id x. simpl. destruct (N.eqb_spec id i) as [E|E].
    + intros H; inversion H; subst. exact Hds.
    + rewrite alookup_aremove_neq by exact E. apply Hco.
Qed.

Lemma lru_get_spec cap ds c i :
  cache_ok cap ds c -> fst (lru_get i c) = alookup i c /\ cache_ok cap ds (snd (lru_get i c)).
Proof.
  intros Hok. unfold lru_get. destruct (alookup i c) as [v|] eqn:E; simpl; split; auto.
  eapply move_front_ok; eauto. destruct Hok as (_ & _ & Hco). auto.
Qed.

Lemma lru_add_ok cap ds c i v :
  cache_ok cap ds c -> alookup i ds = Some v -> cache_ok cap ds (lru_add cap i v c).
Proof.
  intros Hok Hds. unfold lru_add. destruct (alookup i c) as [w|] eqn:E.
  - eapply move_front_ok; eauto.
  - destruct Hok as (Hnd & Hlen & Hco).
    assert (Hok' : NoDup (map fst ((i, v) :: c)) /\ coherent ds ((i, v) :: c)).
    { split.
      - simpl. constructor; auto. now apply alookup_None.
      - intros id x. simpl. destruct (N.eqb_spec id i); [intros H; inversion H; subst; auto | apply Hco]. }
    destruct Hok' as [Hnd' Hco'].
    destruct (Nat.ltb_spec cap (length ((i, v) :: c))) as [L|L].
    + repeat split.
      * rewrite map_removelast. now apply NoDup_removelast.
      * rewrite length_removelast. simpl. lia.
      * intros id x H. apply Hco'. now apply alookup_removelast.
    + repeat split; auto.
Qed.

(* a raw create of a fresh id keeps every other cache coherent *)
Lemma cache_ok_put cap ds c id k :
  alookup id ds = None -> cache_ok cap ds c -> cache_ok cap (ds_put id k ds) c.
Proof. intros Hn. apply cache_ok_le. now apply ds_le_put. Qed.

Definition expected_get (ds : amap) (id : kid) : output :=
  match alookup id ds with Some k => KOut_key k | None => KOut_err end.
Definition expected_has (ds : amap) (id : kid) : output :=
  match alookup id ds with Some _ => KOut_bool true | None => KOut_err end.

Lemma get_key_spec cap ds c id :
  cache_ok cap ds c ->
  cache_ok cap ds (fst (get_key cap ds c id)) /\ snd (get_key cap ds c id) = expected_get ds id.
Proof.
  intros Hok. unfold get_key, expected_get.
  destruct (lru_get_spec cap ds c id Hok) as [Hf Hs].
  destruct (lru_get id c) as [r c'] eqn:E. simpl in Hf, Hs. subst r.
  destruct (alookup id c) as [v|] eqn:Ec.
  - simpl. split; auto. destruct Hok as (_ & _ & Hco). now rewrite (Hco id v Ec).
  - unfold ds_get. destruct (alookup id ds) as [v|] eqn:Ed; simpl; split; auto.
    now apply lru_add_ok.
Qed.

(* HasKey variants: what is needed of them *)
Definition hk_ok (cap : nat) (hk : amap -> cache -> kid -> cache * output) : Prop :=
  forall ds c id, cache_ok cap ds c -> cache_ok cap ds (fst (hk ds c id)).
Definition hk_exact (cap : nat) (hk : amap -> cache -> kid -> cache * output) : Prop :=
  forall ds c id, cache_ok cap ds c -> snd (hk ds c id) = expected_has ds id.

Lemma has_key_unchanged cap ds c id : fst (has_key cap ds c id) = c.
Proof.
  unfold has_key, lru_peek, ds_get. destruct (alookup id c); simpl; auto.
  destruct (alookup id ds); simpl; auto.
Qed.

Lemma has_key_ok cap : hk_ok cap (has_key cap).
Proof. intros ds c id H. now rewrite has_key_unchanged. Qed.

(* the current HasKey: what it does answer *)
Lemma has_key_out cap ds c id :
  snd (has_key cap ds c id) =
    match alookup id c with
    | Some _ => KOut_bool true
    | None => match alookup id ds with Some _ => KOut_bool false | None => KOut_err end
    end.
Proof.
  unfold has_key, lru_peek, ds_get. destruct (alookup id c); simpl; auto.
  destruct (alookup id ds); simpl; auto.
Qed.

Lemma has_key_fixed_ok cap : hk_ok cap (has_key_fixed cap).
Proof.
  intros ds c id H. unfold has_key_fixed, lru_peek, ds_get.
  destruct (alookup id c); simpl; auto.
  destruct (alookup id ds) eqn:E; simpl; auto. now apply lru_add_ok.
Qed.

Lemma has_key_fixed_exact cap : hk_exact cap (has_key_fixed cap).
Proof.
  intros ds c id (_ & _ & Hco). unfold has_key_fixed, expected_has, lru_peek, ds_get.
  destruct (alookup id c) as [v|] eqn:E; simpl.
  - now rewrite (Hco id v E).
  - destruct (alookup id ds); auto.
Qed.

(* ------------------------------------------------------------------------------------------ *)
(* lists of caches *)

Lemma Forall_set_nth {A} (P : A -> Prop) n x l : Forall P l -> P x -> Forall P (set_nth n x l).
Proof.
  intros H Hx. revert n. induction H as [|a l Ha Hl IH]; intros n; simpl; [constructor|].
  destruct n; constructor; auto.
Qed.

Lemma length_set_nth {A} n (x : A) l : length (set_nth n x l) = length l.
Proof. revert n. induction l as [|a l IH]; intros n; simpl; auto. destruct n; simpl; auto. Qed.

Lemma nth_error_Forall {A} (P : A -> Prop) l n x : Forall P l -> nth_error l n = Some x -> P x.
Proof. intros H E. rewrite Forall_forall in H. apply H. eapply nth_error_In; eauto. Qed.

Lemma nth_error_valid {A} (l : list A) n : (n < length l)%nat -> exists x, nth_error l n = Some x.
Proof.
  intros H. destruct (nth_error l n) eqn:E; eauto.
  apply nth_error_None in E. lia.
Qed.

(* ------------------------------------------------------------------------------------------ *)
(* single operations *)

Section Ops.
  Variable cap : nat.

  Lemma do_get_invalid st i id : (length (st_caches st) <= i)%nat -> do_get cap st i id = (st, KOut_err).
  Proof. intros H. unfold do_get. apply nth_error_None in H. now rewrite H. Qed.

  Lemma do_create_invalid st i id k : (length (st_caches st) <= i)%nat -> do_create cap st i id k = (st, KOut_err).
  Proof. intros H. unfold do_create. apply nth_error_None in H. now rewrite H. Qed.

  Lemma do_get_spec st i id :
    inv cap st -> (i < length (st_caches st))%nat ->
    exists cs, do_get cap st i id = (mkState (st_ds st) cs, expected_get (st_ds st) id) /\
               length cs = length (st_caches st) /\ inv cap (mkState (st_ds st) cs).
  Proof.
    intros Hinv Hi. unfold do_get.
    destruct (nth_error_valid _ _ Hi) as [c Hc]. rewrite Hc.
    pose proof (nth_error_Forall _ _ _ _ Hinv Hc) as Hok.
    destruct (get_key_spec cap (st_ds st) c id Hok) as [H1 H2].
    destruct (get_key cap (st_ds st) c id) as [c' out]. simpl in H1, H2. subst out.
    eexists. split; [reflexivity|]. split; [apply length_set_nth|].
    unfold inv. simpl. now apply Forall_set_nth.
  Qed.

  Lemma do_create_spec st i id k :
    inv cap st -> (i < length (st_caches st))%nat -> alookup id (st_ds st) = None ->
    exists cs, do_create cap st i id k = (mkState (ds_put id k (st_ds st)) cs, KOut_key k) /\
               length cs = length (st_caches st) /\ inv cap (mkState (ds_put id k (st_ds st)) cs).
  Proof.
    intros Hinv Hi Hfresh. unfold do_create.
    destruct (nth_error_valid _ _ Hi) as [c Hc]. rewrite Hc.
    eexists. split; [reflexivity|]. split; [apply length_set_nth|].
    unfold inv. simpl.
    assert (Hall : Forall (cache_ok cap (ds_put id k (st_ds st))) (st_caches st)).
    { unfold inv in Hinv. rewrite Forall_forall in *. intros x Hx. apply cache_ok_put; auto. }
    apply Forall_set_nth; auto.
    apply lru_add_ok.
    - eapply nth_error_Forall; eauto.
    - rewrite alookup_ds_put, N.eqb_refl. reflexivity.
  Qed.

  (* get-or-create: returns the datastore's key if there is one, else stores the offered key *)
  Lemma goc_spec st i id k :
    inv cap st -> (i < length (st_caches st))%nat ->
    exists st' k',
      get_or_create cap st i id k = (st', Some k') /\ inv cap st' /\
      length (st_caches st') = length (st_caches st) /\
      alookup id (st_ds st') = Some k' /\
      ((alookup id (st_ds st) = Some k' /\ st_ds st' = st_ds st) \/
       (alookup id (st_ds st) = None /\ k' = k /\ st_ds st' = ds_put id k (st_ds st))).
  Proof.
    intros Hinv Hi. unfold get_or_create.
    destruct (do_get_spec st i id Hinv Hi) as (cs & E & Hlen & Hinv1). rewrite E.
    unfold expected_get. destruct (alookup id (st_ds st)) as [k0|] eqn:Ed.
    - exists (mkState (st_ds st) cs), k0. simpl. repeat split; auto.
    - assert (Hi1 : (i < length (st_caches (mkState (st_ds st) cs)))%nat) by (simpl; lia).
      destruct (do_create_spec _ i id k Hinv1 Hi1 Ed) as (cs2 & E2 & Hlen2 & Hinv2).
      rewrite E2. simpl in *. eexists _, k. split; [reflexivity|]. simpl.
      repeat split; auto; try lia.
      + rewrite N.eqb_refl. reflexivity.
  Qed.

  Lemma goc_invalid st i id k : (length (st_caches st) <= i)%nat -> get_or_create cap st i id k = (st, None).
  Proof.
    intros H. unfold get_or_create. rewrite do_get_invalid by exact H.
    rewrite do_create_invalid by exact H. reflexivity.
  Qed.

  Section WithHas.
    Variable hk : amap -> cache -> kid -> cache * output.
    Hypothesis Hhk : hk_ok cap hk.

    Lemma do_has_spec st i id :
      inv cap st -> (i < length (st_caches st))%nat ->
      exists c cs, nth_error (st_caches st) i = Some c /\ cache_ok cap (st_ds st) c /\
                 do_has hk st i id = (mkState (st_ds st) cs, snd (hk (st_ds st) c id)) /\
                 length cs = length (st_caches st) /\ inv cap (mkState (st_ds st) cs).
    Proof.
      intros Hinv Hi. unfold do_has.
      destruct (nth_error_valid _ _ Hi) as [c Hc]. rewrite Hc.
      pose proof (nth_error_Forall _ _ _ _ Hinv Hc) as Hok.
      pose proof (Hhk (st_ds st) c id Hok) as H1.
      destruct (hk (st_ds st) c id) as [c' out] eqn:Eh. simpl in *.
      exists c. eexists. rewrite Eh. simpl. split; [reflexivity|]. split; [exact Hok|]. split; [reflexivity|].
      split; [apply length_set_nth|].
      unfold inv. simpl. now apply Forall_set_nth.
    Qed.

    (* one step: invariant, abstraction, outputs, monotonicity *)
    Lemma step_facts st o :
      inv cap st -> op_ok st o ->
      let st' := fst (step_gen cap hk st o) in
      let out := snd (step_gen cap hk st o) in
      inv cap st' /\
      abs st' = fst (spec_step (abs st) o) /\
      ((match o with KHas _ _ => False | _ => True end \/ hk_exact cap hk) ->
         out = snd (spec_step (abs st) o)) /\
      ds_le (st_ds st) (st_ds st').
    Proof.
      intros Hinv Hok. destruct o as [i id k|i id|i id| |i id k]; simpl.
      - (* KCreate *)
        simpl in Hok. destruct (Nat.ltb_spec i (length (st_caches st))) as [L|L].
        + destruct (do_create_spec st i id k Hinv L Hok) as (cs & E & Hlen & Hinv').
          rewrite E. simpl. unfold abs. simpl. rewrite Hlen.
          repeat split; auto. now apply ds_le_put.
        + rewrite do_create_invalid by exact L. simpl. repeat split; auto using ds_le_refl.
      - (* KGet *)
        destruct (Nat.ltb_spec i (length (st_caches st))) as [L|L].
        + destruct (do_get_spec st i id Hinv L) as (cs & E & Hlen & Hinv').
          rewrite E. simpl. unfold abs. simpl. rewrite Hlen.
          repeat split; auto using ds_le_refl.
        + rewrite do_get_invalid by exact L. simpl. repeat split; auto using ds_le_refl.
      - (* KHas *)
        destruct (Nat.ltb_spec i (length (st_caches st))) as [L|L].
        + destruct (do_has_spec st i id Hinv L) as (c & cs & Hc & Hcok & E & Hlen & Hinv').
          rewrite E. simpl. unfold abs. simpl. rewrite Hlen.
          repeat split; auto using ds_le_refl.
          intros [F|Hex]; [contradiction|]. now apply Hex.
        + unfold do_has. apply nth_error_None in L. rewrite L. simpl.
          repeat split; auto using ds_le_refl.
      - (* KNewInstance *)
        unfold abs. simpl. rewrite app_length. simpl.
        repeat split; auto using ds_le_refl.
        + unfold inv. simpl. apply Forall_app. split; [exact Hinv|].
          constructor; [apply cache_ok_empty|constructor].
        + f_equal. lia.
      - (* KGetOrCreate *)
        destruct (Nat.ltb_spec i (length (st_caches st))) as [L|L].
        + destruct (goc_spec st i id k Hinv L) as (st' & k' & E & Hinv' & Hlen & Hl & Hcase).
          rewrite E. simpl. unfold abs. rewrite Hlen.
          destruct Hcase as [[Hd Hds]|[Hd [Hk Hds]]]; rewrite Hd, Hds.
          * repeat split; auto using ds_le_refl.
          * subst k'. repeat split; auto. now apply ds_le_put.
        + rewrite goc_invalid by exact L. simpl. repeat split; auto using ds_le_refl.
    Qed.

    Lemma step_inv st o : inv cap st -> op_ok st o -> inv cap (fst (step_gen cap hk st o)).
    Proof. intros H1 H2. apply (step_facts st o H1 H2). Qed.

    (* sequences *)
    Lemma run_facts ops : forall st,
      inv cap st -> ops_ok_gen cap hk st ops ->
      let st' := fst (run_gen cap hk st ops) in
      inv cap st' /\
      abs st' = fst (spec_run (abs st) ops) /\
      erase_has ops (snd (run_gen cap hk st ops)) = erase_has ops (snd (spec_run (abs st) ops)) /\
      (hk_exact cap hk -> snd (run_gen cap hk st ops) = snd (spec_run (abs st) ops)) /\
      ds_le (st_ds st) (st_ds st') /\
      (length (st_caches st) <= length (st_caches st'))%nat.
    Proof.
      induction ops as [|o r IH]; intros st Hinv Hok.
      - simpl. repeat split; auto using ds_le_refl.
      - destruct Hok as [Ho Hr].
        pose proof (step_facts st o Hinv Ho) as Hs. cbv zeta in Hs.
        assert (Hn1 : (length (st_caches st) <= snd (fst (spec_step (abs st) o)))%nat).
        { unfold abs, spec_step. destruct o; simpl; try destruct (Nat.ltb _ _); simpl; try lia.
          destruct (alookup id (st_ds st)); simpl; lia. }
        cbn [run_gen spec_run].
        destruct (step_gen cap hk st o) as [st1 out] eqn:Es.
        destruct (spec_step (abs st) o) as [s1 sout] eqn:Ess.
        cbn [fst snd] in Hs, Hr, Hn1. destruct Hs as (Hinv1 & Habs1 & Hout1 & Hle1).
        specialize (IH st1 Hinv1 Hr). cbv zeta in IH. rewrite Habs1 in IH.
        destruct (run_gen cap hk st1 r) as [st2 outs] eqn:Er.
        destruct (spec_run s1 r) as [s2 souts] eqn:Esr.
        cbn [fst snd] in IH |- *. destruct IH as (Hinv2 & Habs2 & Her2 & Hout2 & Hle2 & Hn2).
        split; [exact Hinv2|]. split; [exact Habs2|].
        split; [|split; [|split]].
        + cbn [erase_has]. rewrite Her2.
          destruct o; try (rewrite Hout1 by (left; exact I)); reflexivity.
        + intros Hex. rewrite Hout1 by (right; exact Hex). now rewrite Hout2.
        + eapply ds_le_trans; eauto.
        + assert (length (st_caches st1) = snd (abs st1)) as E1 by reflexivity.
          rewrite Habs1 in E1. lia.
    Qed.

    (* the syntactic condition implies the semantic one *)
    Lemma step_dom st o x :
      alookup x (st_ds (fst (step_gen cap hk st o))) <> None ->
      alookup x (st_ds st) <> None \/
      match o with KCreate _ id _ | KGetOrCreate _ id _ => x = id | _ => False end.
    Proof.
      assert (Hput : forall id k ds, alookup x (ds_put id k ds) <> None -> alookup x ds <> None \/ x = id).
      { intros id k ds. rewrite alookup_ds_put. destruct (N.eqb_spec x id); auto. }
      destruct o as [i id k|i id|i id| |i id k]; cbn [step_gen].
      - unfold do_create. destruct (nth_error (st_caches st) i); cbn [fst st_ds]; auto; apply Hput.
      - unfold do_get. destruct (nth_error (st_caches st) i); cbn [fst st_ds]; auto.
        destruct (get_key cap (st_ds st) c id); cbn [fst st_ds]; auto.
      - unfold do_has. destruct (nth_error (st_caches st) i); cbn [fst st_ds]; auto.
        destruct (hk (st_ds st) c id); cbn [fst st_ds]; auto.
      - cbn [fst st_ds]. auto.
      - unfold get_or_create, do_get, do_create.
        destruct (nth_error (st_caches st) i) as [c|] eqn:Ec.
        + destruct (get_key cap (st_ds st) c id) as [c' out]. cbn [st_caches st_ds].
          destruct out; cbn [fst st_ds]; auto;
            (destruct (nth_error (set_nth i c' (st_caches st)) i); cbn [fst st_ds]; auto; apply Hput).
        + rewrite Ec. cbn [fst st_ds]. auto.
    Qed.

    Lemma syn_ok_ops_ok ops : forall st seen,
      (forall x, alookup x (st_ds st) <> None -> In x seen) ->
      syn_ok seen ops -> ops_ok_gen cap hk st ops.
    Proof.
      induction ops as [|o r IH]; intros st seen Hdom Hsyn; simpl; auto.
      assert (Hnext : forall seen', (forall x, In x seen -> In x seen') ->
                (match o with KCreate _ id _ | KGetOrCreate _ id _ => In id seen' | _ => True end) ->
                forall x, alookup x (st_ds (fst (step_gen cap hk st o))) <> None -> In x seen').
      { intros seen' Hsub Hid x Hx. destruct (step_dom st o x Hx) as [H|H]; auto.
        destruct o; try contradiction; subst; auto. }
      destruct o as [i id k|i id|i id| |i id k]; simpl in Hsyn.
      - destruct Hsyn as [Hn Hs]. split.
        + simpl. destruct (alookup id (st_ds st)) eqn:E; auto.
          exfalso. apply Hn. apply Hdom. congruence.
        + eapply IH; [|exact Hs]. apply Hnext; simpl; auto.
      - split; [exact I|]. eapply IH; [|exact Hsyn]. apply Hnext; simpl; auto.
      - split; [exact I|]. eapply IH; [|exact Hsyn]. apply Hnext; simpl; auto.
      - split; [exact I|]. eapply IH; [|exact Hsyn]. apply Hnext; simpl; auto.
      - split; [exact I|]. eapply IH; [|exact Hsyn]. apply Hnext; simpl; auto.
    Qed.
  End WithHas.

  Lemma inv_init : inv cap init_state.
  Proof. constructor. Qed.
End Ops.

(* ------------------------------------------------------------------------------------------ *)
(* hex *)

Lemma unhexdigit_hexdigit d : d < 16 -> unhexdigit (hexdigit d) = Some d.
Proof.
  intros H. unfold hexdigit, unhexdigit.
  destruct (N.ltb_spec d 10) as [L|L].
  - replace (48 <=? 48 + d) with true by (symmetry; apply N.leb_le; lia).
    replace (48 + d <=? 57) with true by (symmetry; apply N.leb_le; lia).
    cbn [andb]. f_equal. lia.
  - replace (87 + d <=? 57) with false by (symmetry; apply N.leb_gt; lia).
    rewrite andb_false_r.
    replace (97 <=? 87 + d) with true by (symmetry; apply N.leb_le; lia).
    replace (87 + d <=? 102) with true by (symmetry; apply N.leb_le; lia).
    cbn [andb]. f_equal. lia.
Qed.

Definition bytes (bs : list N) : Prop := Forall (fun b => b < 256) bs.

Lemma unhex_hex bs : bytes bs -> unhex (hex bs) = Some bs.
Proof.
  induction 1 as [|b r Hb Hr IH]; [reflexivity|]. cbn [hex unhex].
  rewrite !unhexdigit_hexdigit.
  - rewrite IH. f_equal. f_equal. pose proof (N.div_mod b 16). lia.
  - apply N.mod_lt. lia.
  - apply N.div_lt_upper_bound; lia.
Qed.

(* ------------------------------------------------------------------------------------------ *)
(* identities, modulo crypto *)

Section IdentityProofs.
  Variable cap : nat.
  Variable pk : Type.
  Variable pub : key -> pk.
  Variable pkc : pk -> list N.
  Variable pku : pk -> list N.
  Variable sign : key -> list N -> list N.
  Variable idnum : list N -> kid.
  Variable verify : pk -> list N -> list N -> bool.       (* PubKey.Verify(data, sig) *)
  Variable parse_pk : list N -> option pk.                (* crypto.UnmarshalSecp256k1PublicKey *)

  Hypothesis verify_sign : forall s m, verify (pub s) m (sign s m) = true.
  Hypothesis parse_pkc : forall p, parse_pk (pkc p) = Some p.
  Hypothesis parse_pku : forall p, parse_pk (pku p) = Some p.
  Hypothesis pkc_bytes : forall p, bytes (pkc p).

  Notation create_identity := (create_identity cap pk pub pkc pku sign idnum).
  Notation sign_with := (sign_with cap sign idnum).
  Notation identity_of_ds := (identity_of_ds pk pub pkc pku sign idnum).
  Notation identity_of_keys := (identity_of_keys pk pub pkc pku sign).

  Lemma create_identity_spec st i uid k1 k2 :
    inv cap st -> (i < length (st_caches st))%nat ->
    exists st' idn,
      create_identity st i uid k1 k2 = (st', Some idn) /\ inv cap st' /\
      length (st_caches st') = length (st_caches st) /\
      ds_le (st_ds st) (st_ds st') /\
      identity_of_ds (st_ds st') uid = Some idn.
  Proof.
    intros Hinv Hi. unfold Keystore.create_identity.
    destruct (goc_spec cap st i (idnum uid) k1 Hinv Hi) as (st1 & key1 & E1 & Hinv1 & Hlen1 & Hl1 & Hc1).
    rewrite E1.
    assert (Hi1 : (i < length (st_caches st1))%nat) by lia.
    destruct (goc_spec cap st1 i (idnum (hex (pkc (pub key1)))) k2 Hinv1 Hi1)
      as (st2 & key2 & E2 & Hinv2 & Hlen2 & Hl2 & Hc2).
    rewrite E2.
    assert (Hi2 : (i < length (st_caches st2))%nat) by lia.
    destruct (do_get_spec cap st2 i (idnum uid) Hinv2 Hi2) as (cs & E3 & Hlen3 & Hinv3).
    rewrite E3.
    assert (Hle1 : ds_le (st_ds st) (st_ds st1)).
    { destruct Hc1 as [[_ Hd]|[Hn [_ Hd]]]; rewrite Hd; [apply ds_le_refl|now apply ds_le_put]. }
    assert (Hle2 : ds_le (st_ds st1) (st_ds st2)).
    { destruct Hc2 as [[_ Hd]|[Hn [_ Hd]]]; rewrite Hd; [apply ds_le_refl|now apply ds_le_put]. }
    pose proof (Hle2 _ _ Hl1) as Hl1'.
    unfold expected_get. rewrite Hl1'.
    eexists _, _. split; [reflexivity|]. simpl.
    repeat split; auto; try lia.
    - eapply ds_le_trans; eauto.
    - unfold Keystore.identity_of_ds. rewrite Hl1', Hl2. reflexivity.
  Qed.

  Lemma identity_of_ds_mono ds ds' uid idn :
    ds_le ds ds' -> identity_of_ds ds uid = Some idn -> identity_of_ds ds' uid = Some idn.
  Proof.
    intros Hle. unfold Keystore.identity_of_ds.
    destruct (alookup (idnum uid) ds) as [ka|] eqn:Ea; [|discriminate].
    destruct (alookup (idnum (hex (pkc (pub ka)))) ds) as [kb|] eqn:Eb; [|discriminate].
    intros H. rewrite (Hle _ _ Ea), (Hle _ _ Eb). exact H.
  Qed.

  (* creating again, anywhere later, gives the same identity *)
  Lemma create_identity_again st i uid k1 k2 idn :
    inv cap st -> (i < length (st_caches st))%nat ->
    identity_of_ds (st_ds st) uid = Some idn ->
    exists st', create_identity st i uid k1 k2 = (st', Some idn).
  Proof.
    intros Hinv Hi Hid.
    destruct (create_identity_spec st i uid k1 k2 Hinv Hi) as (st' & idn' & E & _ & _ & Hle & Hid').
    pose proof (identity_of_ds_mono _ _ _ _ Hle Hid) as H. rewrite Hid' in H.
    inversion H; subst. eauto.
  Qed.

  Lemma identity_of_ds_inv ds uid idn :
    identity_of_ds ds uid = Some idn ->
    exists ka kb, alookup (idnum uid) ds = Some ka /\ alookup (idnum (i_id idn)) ds = Some kb /\
                  idn = identity_of_keys ka kb.
  Proof.
    unfold Keystore.identity_of_ds.
    destruct (alookup (idnum uid) ds) as [ka|] eqn:Ea; [|discriminate].
    destruct (alookup (idnum (hex (pkc (pub ka)))) ds) as [kb|] eqn:Eb; [|discriminate].
    intros H. inversion H; subst. exists ka, kb. simpl. auto.
  Qed.

  Lemma id_sig_ok ka kb :
    let idn := identity_of_keys ka kb in
    parse_pk (i_pub idn) = Some (pub kb) /\ verify (pub kb) (i_id idn) (i_sig_id idn) = true.
  Proof. simpl. split; [apply parse_pku|apply verify_sign]. Qed.

  Lemma pk_sig_ok ka kb :
    let idn := identity_of_keys ka kb in
    unhex (i_id idn) = Some (pkc (pub ka)) /\ parse_pk (pkc (pub ka)) = Some (pub ka) /\
    verify (pub ka) (hex (i_pub idn ++ i_sig_id idn)) (i_sig_pub idn) = true.
  Proof. simpl. split; [apply unhex_hex, pkc_bytes|]. split; [apply parse_pkc|apply verify_sign]. Qed.

  Lemma sign_with_ok st j uid idn data :
    inv cap st -> (j < length (st_caches st))%nat ->
    identity_of_ds (st_ds st) uid = Some idn ->
    exists st' s p, sign_with st j idn data = (st', Some s) /\ inv cap st' /\
                    st_ds st' = st_ds st /\
                    parse_pk (i_pub idn) = Some p /\ verify p data s = true.
  Proof.
    intros Hinv Hj Hid.
    destruct (identity_of_ds_inv _ _ _ Hid) as (ka & kb & Ha & Hb & Heq).
    unfold Keystore.sign_with.
    destruct (do_get_spec cap st j (idnum (i_id idn)) Hinv Hj) as (cs & E & Hlen & Hinv').
    rewrite E. unfold expected_get. rewrite Hb.
    eexists _, _, (pub kb). split; [reflexivity|]. repeat split; auto.
    - subst idn. simpl. apply parse_pku.
  Qed.
End IdentityProofs.

(* ------------------------------------------------------------------------------------------ *)
(* reachable states and the user-level statements, generic in the HasKey variant *)

Section Reach.
  Variable cap : nat.
  Variable hk : amap -> cache -> kid -> cache * output.
  Hypothesis Hhk : hk_ok cap hk.

  Definition reachable_gen (st : state) : Prop :=
    exists ops, ops_ok_gen cap hk init_state ops /\ st = fst (run_gen cap hk init_state ops).

  Lemma reachable_gen_inv st : reachable_gen st -> inv cap st.
  Proof.
    intros (ops & Hok & E). subst st.
    apply (run_facts cap hk Hhk ops init_state (inv_init cap) Hok).
  Qed.

  Lemma get_now st i id :
    inv cap st -> (i < length (st_caches st))%nat ->
    snd (step_gen cap hk st (KGet i id)) = expected_get (st_ds st) id.
  Proof.
    intros Hinv Hi.
    destruct (step_facts cap hk Hhk st (KGet i id) Hinv I) as (_ & _ & Hout & _).
    rewrite Hout by (left; exact I). unfold abs, spec_step, expected_get.
    apply Nat.ltb_lt in Hi. rewrite Hi. reflexivity.
  Qed.

  Lemma has_now st i id :
    hk_exact cap hk -> inv cap st -> (i < length (st_caches st))%nat ->
    snd (step_gen cap hk st (KHas i id)) = expected_has (st_ds st) id.
  Proof.
    intros Hex Hinv Hi.
    destruct (step_facts cap hk Hhk st (KHas i id) Hinv I) as (_ & _ & Hout & _).
    rewrite Hout by (right; exact Hex). unfold abs, spec_step, expected_has.
    apply Nat.ltb_lt in Hi. rewrite Hi. reflexivity.
  Qed.

  (* a key that is in the datastore is returned, unchanged, by every instance at every later time *)
  Lemma get_later st ops i id k :
    inv cap st -> ops_ok_gen cap hk st ops -> alookup id (st_ds st) = Some k ->
    let st' := fst (run_gen cap hk st ops) in
    (i < length (st_caches st'))%nat ->
    snd (step_gen cap hk st' (KGet i id)) = KOut_key k.
  Proof.
    intros Hinv Hok Hk st' Hi.
    destruct (run_facts cap hk Hhk ops st Hinv Hok) as (Hinv' & _ & _ & _ & Hle & _).
    fold st' in Hinv', Hle.
    rewrite (get_now st' i id Hinv' Hi). unfold expected_get. now rewrite (Hle _ _ Hk).
  Qed.

  Lemma has_later st ops i id k :
    hk_exact cap hk ->
    inv cap st -> ops_ok_gen cap hk st ops -> alookup id (st_ds st) = Some k ->
    let st' := fst (run_gen cap hk st ops) in
    (i < length (st_caches st'))%nat ->
    snd (step_gen cap hk st' (KHas i id)) = KOut_bool true.
  Proof.
    intros Hex Hinv Hok Hk st' Hi.
    destruct (run_facts cap hk Hhk ops st Hinv Hok) as (Hinv' & _ & _ & _ & Hle & _).
    fold st' in Hinv', Hle.
    rewrite (has_now st' i id Hex Hinv' Hi). unfold expected_has. now rewrite (Hle _ _ Hk).
  Qed.
End Reach.

(* the current HasKey answers true only for stored keys, and an error for never-created ids *)
Lemma has_key_current_sound cap st i id :
  inv cap st -> (i < length (st_caches st))%nat ->
  let out := snd (step cap st (KHas i id)) in
  (out = KOut_bool true -> alookup id (st_ds st) <> None) /\
  (alookup id (st_ds st) = None -> out = KOut_err).
Proof.
  intros Hinv Hi. unfold step. cbn [step_gen].
  destruct (do_has_spec cap (has_key cap) (has_key_ok cap) st i id Hinv Hi)
    as (c & cs & Hc & Hcok & E & _ & _).
  rewrite E. cbn [snd]. rewrite has_key_out.
  destruct Hcok as (_ & _ & Hco).
  destruct (alookup id c) as [v|] eqn:Ec.
  - rewrite (Hco id v Ec). split; [discriminate|discriminate].
  - destruct (alookup id (st_ds st)); split; intros; congruence.
Qed.

(* identities across histories *)
Section IdentityReach.
  Variable cap : nat.
  Variable pk : Type.
  Variable pub : key -> pk.
  Variable pkc : pk -> list N.
  Variable pku : pk -> list N.
  Variable sign : key -> list N -> list N.
  Variable idnum : list N -> kid.
  Variable verify : pk -> list N -> list N -> bool.
  Variable parse_pk : list N -> option pk.
  Hypothesis verify_sign : forall s m, verify (pub s) m (sign s m) = true.
  Hypothesis parse_pkc : forall p, parse_pk (pkc p) = Some p.
  Hypothesis parse_pku : forall p, parse_pk (pku p) = Some p.
  Hypothesis pkc_bytes : forall p, bytes (pkc p).
  Variable hk : amap -> cache -> kid -> cache * output.
  Hypothesis Hhk : hk_ok cap hk.

  Notation create_identity := (create_identity cap pk pub pkc pku sign idnum).
  Notation sign_with := (sign_with cap sign idnum).
  Notation identity_of_ds := (identity_of_ds pk pub pkc pku sign idnum).

  Lemma created_identity_of_ds st i uid k1 k2 st1 idn :
    inv cap st -> (i < length (st_caches st))%nat ->
    create_identity st i uid k1 k2 = (st1, Some idn) ->
    inv cap st1 /\ identity_of_ds (st_ds st1) uid = Some idn /\
    length (st_caches st1) = length (st_caches st) /\ ds_le (st_ds st) (st_ds st1).
  Proof.
    intros Hinv Hi E.
    destruct (create_identity_spec cap pk pub pkc pku sign idnum st i uid k1 k2 Hinv Hi)
      as (st' & idn' & E' & Hinv' & Hlen & Hle & Hid).
    rewrite E in E'. inversion E'; subst. auto.
  Qed.

  Lemma create_identity_total st i uid k1 k2 :
    inv cap st -> (i < length (st_caches st))%nat ->
    exists idn, snd (create_identity st i uid k1 k2) = Some idn.
  Proof.
    intros Hinv Hi.
    destruct (create_identity_spec cap pk pub pkc pku sign idnum st i uid k1 k2 Hinv Hi)
      as (st' & idn' & E' & _).
    rewrite E'. cbn [snd]. eauto.
  Qed.

  Lemma create_identity_idem st i uid k1 k2 st1 idn ops j k1' k2' :
    inv cap st -> (i < length (st_caches st))%nat ->
    create_identity st i uid k1 k2 = (st1, Some idn) ->
    ops_ok_gen cap hk st1 ops ->
    let st2 := fst (run_gen cap hk st1 ops) in
    (j < length (st_caches st2))%nat ->
    snd (create_identity st2 j uid k1' k2') = Some idn.
  Proof.
    intros Hinv Hi E Hok st2 Hj.
    destruct (created_identity_of_ds st i uid k1 k2 st1 idn Hinv Hi E) as (Hinv1 & Hid & _ & _).
    destruct (run_facts cap hk Hhk ops st1 Hinv1 Hok) as (Hinv2 & _ & _ & _ & Hle & _).
    fold st2 in Hinv2, Hle.
    pose proof (identity_of_ds_mono pk pub pkc pku sign idnum _ _ _ _ Hle Hid) as Hid2.
    destruct (create_identity_again cap pk pub pkc pku sign idnum st2 j uid k1' k2' idn Hinv2 Hj Hid2)
      as (st3 & E3).
    now rewrite E3.
  Qed.

  Lemma created_id_sig_ok st i uid k1 k2 st1 idn :
    inv cap st -> (i < length (st_caches st))%nat ->
    create_identity st i uid k1 k2 = (st1, Some idn) ->
    exists p, parse_pk (i_pub idn) = Some p /\ verify p (i_id idn) (i_sig_id idn) = true.
  Proof.
    intros Hinv Hi E.
    destruct (created_identity_of_ds st i uid k1 k2 st1 idn Hinv Hi E) as (_ & Hid & _ & _).
    destruct (identity_of_ds_inv pk pub pkc pku sign idnum _ _ _ Hid) as (ka & kb & _ & _ & Heq).
    subst idn. exists (pub kb).
    apply (id_sig_ok pk pub pkc pku sign verify parse_pk verify_sign parse_pku).
  Qed.

  Lemma created_pk_sig_ok st i uid k1 k2 st1 idn :
    inv cap st -> (i < length (st_caches st))%nat ->
    create_identity st i uid k1 k2 = (st1, Some idn) ->
    exists ka raw,
      alookup (idnum uid) (st_ds st1) = Some ka /\
      unhex (i_id idn) = Some raw /\ parse_pk raw = Some (pub ka) /\
      verify (pub ka) (hex (i_pub idn ++ i_sig_id idn)) (i_sig_pub idn) = true.
  Proof.
    intros Hinv Hi E.
    destruct (created_identity_of_ds st i uid k1 k2 st1 idn Hinv Hi E) as (_ & Hid & _ & _).
    destruct (identity_of_ds_inv pk pub pkc pku sign idnum _ _ _ Hid) as (ka & kb & Ha & _ & Heq).
    subst idn. exists ka, (pkc (pub ka)). split; [exact Ha|].
    apply (pk_sig_ok pk pub pkc pku sign verify parse_pk verify_sign parse_pkc pkc_bytes).
  Qed.

  Lemma created_entry_sig_ok st i uid k1 k2 st1 idn ops j data :
    inv cap st -> (i < length (st_caches st))%nat ->
    create_identity st i uid k1 k2 = (st1, Some idn) ->
    ops_ok_gen cap hk st1 ops ->
    let st2 := fst (run_gen cap hk st1 ops) in
    (j < length (st_caches st2))%nat ->
    exists s p, snd (sign_with st2 j idn data) = Some s /\
                parse_pk (i_pub idn) = Some p /\ verify p data s = true.
  Proof.
    intros Hinv Hi E Hok st2 Hj.
    destruct (created_identity_of_ds st i uid k1 k2 st1 idn Hinv Hi E) as (Hinv1 & Hid & _ & _).
    destruct (run_facts cap hk Hhk ops st1 Hinv1 Hok) as (Hinv2 & _ & _ & _ & Hle & _).
    fold st2 in Hinv2, Hle.
    pose proof (identity_of_ds_mono pk pub pkc pku sign idnum _ _ _ _ Hle Hid) as Hid2.
    destruct (sign_with_ok cap pk pub pkc pku sign idnum verify parse_pk verify_sign parse_pku
                st2 j uid idn data Hinv2 Hj Hid2) as (st3 & s & p & E3 & _ & _ & Hp & Hv).
    exists s, p. rewrite E3. auto.
  Qed.
End IdentityReach.

(* ------------------------------------------------------------------------------------------ *)
(* small facts used by Props/C20.v *)

Lemma syn_okb_ok ops : forall seen, syn_okb seen ops = true -> syn_ok seen ops.
Proof.
  induction ops as [|o r IH]; intros seen H; simpl; auto.
  destruct o as [i id k|i id|i id| |i id k]; simpl in H; auto.
  apply andb_true_iff in H. destruct H as [Hn Hr]. split; auto.
  intros Hin. apply negb_true_iff in Hn.
  assert (existsb (N.eqb id) seen = true) as Hx.
  { apply existsb_exists. exists id. split; auto. apply N.eqb_refl. }
  congruence.
Qed.

Lemma create_stored cap hk st i id k :
  (i < length (st_caches st))%nat ->
  snd (step_gen cap hk st (KCreate i id k)) = KOut_key k /\
  alookup id (st_ds (fst (step_gen cap hk st (KCreate i id k)))) = Some k.
Proof.
  intros Hi. cbn [step_gen]. unfold do_create.
  destruct (nth_error_valid _ _ Hi) as [c Hc]. rewrite Hc. cbn [fst snd st_ds].
  split; [reflexivity|]. rewrite alookup_ds_put, N.eqb_refl. reflexivity.
Qed.

Definition reachable (cap : nat) : state -> Prop := reachable_gen cap (has_key cap).
Definition reachable_fixed (cap : nat) : state -> Prop := reachable_gen cap (has_key_fixed cap).

Lemma inv_caches cap st c :
  inv cap st -> In c (st_caches st) ->
  NoDup (map fst c) /\ (length c <= cap)%nat /\
  (forall id v, alookup id c = Some v -> alookup id (st_ds st) = Some v).
Proof. intros H Hin. unfold inv in H. rewrite Forall_forall in H. exact (H c Hin). Qed.
