(* Values() of a log satisfying the invariant (C03): complete, duplicate free, sorted by the
   log's ordering and hence causally ordered.  First for the hash-tiebreak ordering (always a strict
   total order), then transferred to the default ordering on tie-free logs. *)
From Coq Require Import List ZArith Bool Lia Permutation Sorted.
From IpfsLog Require Import Model.Log Proofs.OmapProofs Proofs.SortProofs Proofs.OrderProofs Proofs.Inv
     Proofs.DiffProofs Proofs.JoinProofs Proofs.TravProofs.
Import ListNotations.
Open Scope Z_scope.

Definition times_ok (l : log) : Prop := forall e, In e (ents l) -> int64_range (e_time e).

(* the closed form of the descending "less" for the hash-tiebreak ordering *)
Definition hv (a b : entry) : Z := hash_val N ncmp (key_of a) (key_of b).

Lemma sort_less_hash_desc a b :
  int64_range (e_time a) -> int64_range (e_time b) ->
  sort_less (log_cmp SHash) true a b = (0 <? hv a b).
Proof.
  intros Ha Hb. unfold sort_less, log_cmp, raw_cmp.
  rewrite (hash_spec N ncmp (key_of a) (key_of b)) by assumption. fold (hv a b).
  destruct (hv a b =? 0) eqn:E; [apply Z.eqb_eq in E; now rewrite E|reflexivity].
Qed.

Lemma sort_less_hash_asc a b :
  int64_range (e_time a) -> int64_range (e_time b) ->
  sort_less (log_cmp SHash) false a b = (hv a b <? 0).
Proof.
  intros Ha Hb. unfold sort_less, log_cmp, raw_cmp.
  rewrite (hash_spec N ncmp (key_of a) (key_of b)) by assumption. fold (hv a b).
  destruct (hv a b =? 0) eqn:E; [apply Z.eqb_eq in E; now rewrite E|reflexivity].
Qed.

Section HashOrder.
  Variable l : log.
  Variable U : list entry.
  Hypothesis UO : univ_ok U.
  Hypothesis I : linv U l.
  Hypothesis TO : times_ok l.

  Let entries := l_entries l.
  Notation P := (P entries).

  Lemma P_time e : P e -> int64_range (e_time e).
  Proof. intros H. apply TO. apply ents_In. eauto. Qed.

  Lemma P_neq_hash a b : P a -> P b -> a <> b -> e_hash a <> e_hash b.
  Proof.
    intros Pa Pb Hne Heq. apply Hne. unfold TravProofs.P in *. rewrite Heq in Pa.
    apply In_oget in Pa, Pb; try apply (li_nodup _ _ I). congruence.
  Qed.

  Lemma h_irrefl a : P a -> sort_less (log_cmp SHash) true a a = false.
  Proof.
    intros Pa. rewrite sort_less_hash_desc by now apply P_time. unfold hv.
    pose proof (hash_zero N ncmp ncmp_ord (key_of a) (key_of a) (P_time _ Pa) (P_time _ Pa)) as Z0.
    assert (hash_val N ncmp (key_of a) (key_of a) = 0) by (apply Z0; auto). rewrite H. reflexivity.
  Qed.

  Lemma h_trans a b c : P a -> P b -> P c -> gt SHash a b -> gt SHash b c -> gt SHash a c.
  Proof.
    unfold gt. intros Pa Pb Pc. rewrite !sort_less_hash_desc by now apply P_time.
    rewrite !Z.ltb_lt. unfold hv. intros H1 H2.
    pose proof (hash_anti N ncmp ncmp_ord (key_of a) (key_of b) (P_time _ Pa) (P_time _ Pb)).
    pose proof (hash_anti N ncmp ncmp_ord (key_of b) (key_of c) (P_time _ Pb) (P_time _ Pc)).
    pose proof (hash_anti N ncmp ncmp_ord (key_of a) (key_of c) (P_time _ Pa) (P_time _ Pc)).
    pose proof (hash_trans N ncmp ncmp_ord (key_of c) (key_of b) (key_of a) (P_time _ Pc) (P_time _ Pb) (P_time _ Pa)).
    lia.
  Qed.

  Lemma h_total a b : P a -> P b -> a <> b -> gt SHash a b \/ gt SHash b a.
  Proof.
    unfold gt. intros Pa Pb Hne. rewrite !sort_less_hash_desc by now apply P_time. rewrite !Z.ltb_lt. unfold hv.
    pose proof (hash_anti N ncmp ncmp_ord (key_of a) (key_of b) (P_time _ Pa) (P_time _ Pb)).
    pose proof (hash_total N ncmp ncmp_ord (key_of a) (key_of b) (P_time _ Pa) (P_time _ Pb) (P_neq_hash a b Pa Pb Hne)).
    lia.
  Qed.

  Lemma h_time a b : P a -> P b -> e_time b < e_time a -> gt SHash a b.
  Proof.
    unfold gt. intros Pa Pb Ht. rewrite sort_less_hash_desc by now apply P_time. rewrite Z.ltb_lt. unfold hv.
    pose proof (hash_anti N ncmp ncmp_ord (key_of a) (key_of b) (P_time _ Pa) (P_time _ Pb)).
    pose proof (hash_time N ncmp ncmp_ord (key_of b) (key_of a) (P_time _ Pb) (P_time _ Pa) Ht). lia.
  Qed.

  Lemma h_pred e n p : P e -> In n (e_next e) -> oget entries n = Some p -> gt SHash e p.
  Proof.
    intros Pe Hn Hg. apply oget_In in Hg.
    assert (Pp : P p) by (unfold TravProofs.P; now rewrite (linv_well_keyed _ _ I _ _ Hg)).
    apply h_time; auto. eapply (linv_mono U l); eauto. apply ents_In. eauto.
  Qed.
End HashOrder.

Lemma StronglySorted_rev {A} (R : A -> A -> Prop) l :
  StronglySorted R l -> StronglySorted (fun a b => R b a) (rev l).
Proof.
  induction l as [|x l IH]; intros S; cbn [rev]; [constructor|].
  inversion S as [|? ? S' Hx]; subst. apply sorted_snoc; [apply IH; exact S'|].
  rewrite Forall_forall in *. intros y Hy. apply Hx. now apply in_rev.
Qed.

Lemma unseen_nil entries : unseen entries [] = length entries.
Proof.
  unfold unseen, okeys. rewrite <- (map_length fst entries).
  induction (map fst entries) as [|k ks IH]; [reflexivity|]. simpl. now f_equal.
Qed.

(* every entry of an invariant log is reachable from its heads *)
Lemma all_reachable U l : univ_ok U -> linv U l ->
  forall k v, In (k, v) (l_entries l) -> treach (l_entries l) (oslice (l_heads l)) k.
Proof.
  intros UO I k v Hin.
  pose (lb := new_log (l_id l) 0 SLww [] 0).
  assert (G : greach (l_entries l) lb (map e_hash (oslice (l_heads l))) k).
  { apply (missing_reachable U lb l UO (linv_new U _ _ _ _ _) I eq_refl (S (Z.to_nat (l_time l - e_time v))) k v); auto.
    lia. }
  clear Hin. induction G as [h Hr|h e n G IH [Hg _] Hn].
  - apply in_map_iff in Hr. destruct Hr as [r [<- Hr]]. now apply tr_root.
  - eapply tr_step; eauto.
Qed.

Section ValuesHash.
  Variable l : log.
  Variable U : list entry.
  Hypothesis UO : univ_ok U.
  Hypothesis I : linv U l.
  Hypothesis TO : times_ok l.
  Hypothesis SH : l_sort l = SHash.

  Lemma roots_in r : In r (oslice (l_heads l)) -> In (e_hash r, r) (l_entries l).
  Proof.
    intros H. apply In_oslice in H. destruct H as [k H]. pose proof (heads_well_keyed _ _ I _ _ H). subst k.
    now apply (li_heads _ _ I) in H.
  Qed.

  Theorem values_hash_spec :
    exists v, values l = Some v /\
      NoDup (okeys v) /\
      (forall k e, In (k, e) v <-> In (k, e) (l_entries l)) /\
      StronglySorted (fun a b => gt SHash b a) (oslice v).
  Proof.
    unfold values, traverse. rewrite SH.
    set (stack0 := sort_desc SHash (oslice (l_heads l))).
    pose proof (trav_fuel_ok (l_entries l) SHash (li_nodup _ _ I) (linv_well_keyed _ _ I) (-1) None
                  (trav_fuel (l_entries l) stack0) stack0 [] [] 0) as F.
    destruct (trav (trav_fuel (l_entries l) stack0) (l_entries l) SHash (-1) None stack0 [] [] 0) as [out|] eqn:T.
    2:{ exfalso. apply F; [|reflexivity]. unfold trav_fuel. rewrite unseen_nil. lia. }
    destruct (trav_all_spec (l_entries l) SHash (li_nodup _ _ I) (linv_well_keyed _ _ I) (oslice (l_heads l)) roots_in
                (h_irrefl l TO) (h_trans l TO) (h_total l U I TO) (h_pred l U UO I TO) _ out T) as [A [B C]].
    exists (rev out). split; [reflexivity|]. split; [|split].
    - unfold okeys. rewrite map_rev. apply NoDup_rev. exact A.
    - intros k e. rewrite <- in_rev, B. split; [tauto|]. intros H. split; [auto|]. eapply all_reachable; eauto.
    - unfold oslice. rewrite map_rev. apply StronglySorted_rev. exact C.
  Qed.
End ValuesHash.

(* ---- the default ordering on tie-free logs ---- *)
Definition tie_free (l : log) : Prop :=
  forall a b, In a (ents l) -> In b (ents l) -> a <> b -> (e_time a, e_cid a) <> (e_time b, e_cid b).

Lemma log_cmp_lww_eq_hash a b :
  int64_range (e_time a) -> int64_range (e_time b) -> (e_time a, e_cid a) <> (e_time b, e_cid b) ->
  log_cmp SLww a b = log_cmp SHash a b.
Proof.
  intros Ha Hb Hne. unfold log_cmp, raw_cmp.
  rewrite (lww_spec N ncmp (key_of a) (key_of b)), (hash_spec N ncmp (key_of a) (key_of b)) by assumption.
  rewrite (lww_eq_hash N ncmp ncmp_ord (key_of a) (key_of b)); auto.
Qed.

Definition with_sort (l : log) (s : sortfn) : log :=
  mkLog (l_id l) (l_entries l) (l_heads l) (l_next l) (l_time l) (l_cid l) (l_key l) s (l_deny l).

Lemma linv_with_sort U l s : linv U l -> linv U (with_sort l s).
Proof. intros I. destruct I. split; auto. Qed.

Lemma heads_slice_nodup U l : linv U l -> NoDup (oslice (l_heads l)).
Proof.
  intros I. pose proof (li_heads_nodup _ _ I) as Hnd. pose proof (heads_well_keyed _ _ I) as Hw.
  apply (NoDup_map_inv e_hash).
  replace (map e_hash (oslice (l_heads l))) with (okeys (l_heads l)); [exact Hnd|].
  unfold okeys, oslice. rewrite map_map. apply map_ext_in. intros [k e] Hin. cbn. symmetry. now apply Hw.
Qed.

Section ValuesLww.
  Variable l : log.
  Variable U : list entry.
  Hypothesis UO : univ_ok U.
  Hypothesis I : linv U l.
  Hypothesis TO : times_ok l.
  Hypothesis TF : tie_free l.

  Lemma lww_agree a b : P (l_entries l) a -> P (l_entries l) b -> a <> b ->
    sort_less (log_cmp SLww) true a b = sort_less (log_cmp SHash) true a b.
  Proof.
    intros Pa Pb Hne. unfold sort_less. rewrite log_cmp_lww_eq_hash; auto.
    - apply TO. apply ents_In. eauto.
    - apply TO. apply ents_In. eauto.
    - apply TF; auto; apply ents_In; eauto.
  Qed.

  Theorem values_lww_eq_hash : l_sort l = SLww -> values l = values (with_sort l SHash).
  Proof.
    intros SL. unfold values, traverse. cbn [with_sort l_entries l_sort l_heads]. rewrite SL.
    rewrite (traverse_ext (l_entries l) (linv_well_keyed _ _ I) SLww SHash lww_agree
               (oslice (l_heads l)) (roots_in l U I) (heads_slice_nodup U l I)); [reflexivity|].
    intros r e Hr Pe Hn. apply In_oslice in Hr. destruct Hr as [k Hr].
    pose proof (heads_well_keyed _ _ I _ _ Hr). subst k.
    apply (li_heads _ _ I) in Hr. destruct Hr as [_ Hun]. apply Hun. apply named_in_iff.
    exists e. split; [apply ents_In; eauto|exact Hn].
  Qed.
End ValuesLww.

(* ---- the general statement: for the hash-tiebreak ordering always, for the default ordering on
        tie-free logs ---- *)
Definition order_total (l : log) : Prop := l_sort l = SHash \/ (l_sort l = SLww /\ tie_free l).

Definition asc (l : log) (a b : entry) : Prop := sort_less (log_cmp (l_sort l)) false a b = true.

Lemma times_ok_with_sort l s : times_ok l -> times_ok (with_sort l s).
Proof. intros H e He. apply H. exact He. Qed.

Theorem values_spec U l : univ_ok U -> linv U l -> times_ok l -> order_total l ->
  exists v, values l = Some v /\
    NoDup (okeys v) /\
    (forall k e, In (k, e) v <-> In (k, e) (l_entries l)) /\
    StronglySorted (asc l) (oslice v) /\
    StronglySorted (fun a b => gt SHash b a) (oslice v).
Proof.
  intros UO I TO OT.
  assert (X : forall l0, linv U l0 -> times_ok l0 -> l_sort l0 = SHash ->
            exists v, values l0 = Some v /\ NoDup (okeys v) /\ (forall k e, In (k, e) v <-> In (k, e) (l_entries l0)) /\
                      StronglySorted (fun a b => gt SHash b a) (oslice v)).
  { intros l0 I0 T0 S0. exact (values_hash_spec l0 U UO I0 T0 S0). }
  destruct OT as [SH|[SL TF]].
  - destruct (X l I TO SH) as [v [V [A [B C]]]]. exists v. repeat split; auto; try apply B.
    eapply StronglySorted_impl_in; [|exact C]. intros a b Ha Hb G. unfold asc. rewrite SH.
    assert (Ta : int64_range (e_time a)) by (apply TO; apply In_oslice in Ha; destruct Ha as [k Ha]; apply B in Ha; apply ents_In; eauto).
    assert (Tb : int64_range (e_time b)) by (apply TO; apply In_oslice in Hb; destruct Hb as [k Hb]; apply B in Hb; apply ents_In; eauto).
    unfold gt in G. rewrite sort_less_hash_desc in G by assumption. rewrite sort_less_hash_asc by assumption.
    apply Z.ltb_lt in G. apply Z.ltb_lt. unfold hv in *.
    pose proof (hash_anti N ncmp ncmp_ord (key_of a) (key_of b) Ta Tb). lia.
  - rewrite (values_lww_eq_hash l U I TO TF SL).
    destruct (X (with_sort l SHash) (linv_with_sort U l SHash I) (times_ok_with_sort l SHash TO) eq_refl) as [v [V [A [B C]]]].
    cbn [with_sort l_entries] in B. exists v. repeat split; auto; try apply B.
    eapply StronglySorted_impl_in; [|exact C]. intros a b Ha Hb G. unfold asc. rewrite SL.
    assert (Ea : In a (ents l)) by (apply In_oslice in Ha; destruct Ha as [k Ha]; apply B in Ha; apply ents_In; eauto).
    assert (Eb : In b (ents l)) by (apply In_oslice in Hb; destruct Hb as [k Hb]; apply B in Hb; apply ents_In; eauto).
    pose proof (TO a Ea) as Ta. pose proof (TO b Eb) as Tb.
    assert (Hne : a <> b).
    { intro; subst b. unfold gt in G. rewrite sort_less_hash_desc in G by assumption. unfold hv in G.
      assert (hash_val N ncmp (key_of a) (key_of a) = 0) by (apply (hash_zero N ncmp ncmp_ord); auto).
      rewrite H in G. discriminate. }
    unfold sort_less. rewrite log_cmp_lww_eq_hash; auto.
    change (sort_less (log_cmp SHash) false a b = true). rewrite sort_less_hash_asc by assumption.
    unfold gt in G. rewrite sort_less_hash_desc in G by assumption.
    apply Z.ltb_lt in G. apply Z.ltb_lt. unfold hv in *.
    pose proof (hash_anti N ncmp ncmp_ord (key_of a) (key_of b) Ta Tb). lia.
Qed.

(* ---- causality and uniqueness ---- *)
Lemma sorted_app_tail {A} (R : A -> A -> Prop) l1 x l2 :
  StronglySorted R (l1 ++ x :: l2) -> Forall (R x) l2.
Proof.
  induction l1 as [|y l1 IH]; cbn [app]; intros S; inversion S; subst; auto.
Qed.

Theorem values_causal U l v : univ_ok U -> linv U l -> times_ok l ->
  (forall k e, In (k, e) v <-> In (k, e) (l_entries l)) ->
  StronglySorted (fun a b => gt SHash b a) (oslice v) ->
  forall l1 e l2, oslice v = l1 ++ e :: l2 ->
  forall n p, In n (e_next e) -> In (n, p) (l_entries l) -> In p l1.
Proof.
  intros UO I TO B C l1 e l2 E n p Hn Hp.
  assert (He : In e (ents l)).
  { assert (In e (oslice v)) by (rewrite E; apply in_or_app; right; now left).
    apply In_oslice in H. destruct H as [k H]. apply B in H. apply ents_In. eauto. }
  assert (Pe : P (l_entries l) e) by (now apply (linv_entry _ _ _ I)).
  assert (Gp : gt SHash e p) by (eapply (h_pred l U UO I TO); eauto; apply In_oget; auto; apply (li_nodup _ _ I)).
  assert (Hpv : In p (oslice v)) by (apply In_oslice; exists n; now apply B).
  rewrite E in Hpv. apply in_app_iff in Hpv. destruct Hpv as [?|[<-|Hp2]]; [assumption| |].
  - exfalso. pose proof (linv_mono U l e n e UO I He Hn Hp). lia.
  - exfalso. rewrite E in C. pose proof (sorted_app_tail _ _ _ _ C) as F. rewrite Forall_forall in F.
    specialize (F p Hp2). cbn beta in F.
    assert (Pp : P (l_entries l) p) by (unfold P; now rewrite (linv_well_keyed _ _ I _ _ Hp)).
    exact (gt_asym (l_entries l) SHash (h_irrefl l TO) (h_trans l TO) e p Pe Pp Gp F).
Qed.

Theorem values_unique U l1 l2 v1 v2 :
  univ_ok U -> linv U l1 -> linv U l2 -> times_ok l1 ->
  (forall k e, In (k, e) (l_entries l1) <-> In (k, e) (l_entries l2)) ->
  NoDup (okeys v1) -> NoDup (okeys v2) ->
  (forall k e, In (k, e) v1 <-> In (k, e) (l_entries l1)) ->
  (forall k e, In (k, e) v2 <-> In (k, e) (l_entries l2)) ->
  StronglySorted (fun a b => gt SHash b a) (oslice v1) ->
  StronglySorted (fun a b => gt SHash b a) (oslice v2) ->
  v1 = v2.
Proof.
  intros UO I1 I2 TO Same N1 N2 B1 B2 S1 S2.
  assert (W1 : well_keyed v1) by (intros k e H; apply B1 in H; now apply (li_in_U _ _ I1) in H).
  assert (W2 : well_keyed v2) by (intros k e H; apply B2 in H; now apply (li_in_U _ _ I2) in H).
  rewrite <- (oslice_pairs v1 W1), <- (oslice_pairs v2 W2). f_equal.
  assert (Hin : forall e, In e (oslice v1) <-> In e (oslice v2)).
  { intros e. rewrite !In_oslice. split; intros [k H]; exists k; [apply B2, Same, B1|apply B1, Same, B2]; exact H. }
  assert (ND : forall v, NoDup (okeys v) -> well_keyed v -> NoDup (oslice v)).
  { intros v Nv Wv. apply (NoDup_map_inv e_hash).
    replace (map e_hash (oslice v)) with (okeys v); [exact Nv|].
    unfold okeys, oslice. rewrite map_map. apply map_ext_in. intros [k e] H. cbn. symmetry. now apply Wv. }
  assert (PP : forall e, In e (oslice v1) -> P (l_entries l1) e).
  { intros e He. apply In_oslice in He. destruct He as [k He]. apply B1 in He. pose proof (linv_well_keyed _ _ I1 _ _ He). subst k. exact He. }
  apply (sorted_unique entry (fun a b => sort_less (log_cmp SHash) true b a) (P (l_entries l1))).
  - intros a Pa. now apply (h_irrefl l1 TO).
  - intros a b c Pa Pb Pc H1 H2. exact (h_trans l1 TO c b a Pc Pb Pa H2 H1).
  - rewrite Forall_forall. exact PP.
  - exact S1.
  - exact S2.
  - apply NoDup_Permutation; auto.
Qed.

(* ---- two strictly sorted enumerations of nested sets: the smaller is a subsequence of the larger ---- *)
Inductive subseq {A} : list A -> list A -> Prop :=
| sub_nil l : subseq [] l
| sub_skip x l1 l2 : subseq l1 l2 -> subseq l1 (x :: l2)
| sub_take x l1 l2 : subseq l1 l2 -> subseq (x :: l1) (x :: l2).

Lemma sorted_incl_subseq {A} (R : A -> A -> Prop) (l1 l2 : list A) :
  (forall a b, In a l2 -> In b l2 -> R a b -> ~ R b a) ->
  (forall a, In a l2 -> ~ R a a) ->
  StronglySorted R l1 -> StronglySorted R l2 -> incl l1 l2 -> subseq l1 l2.
Proof.
  intros Asym Irr. revert l1. induction l2 as [|y l2 IH]; intros l1 S1 S2 Hin.
  - destruct l1 as [|x l1]; [constructor|]. destruct (Hin x (or_introl eq_refl)).
  - destruct l1 as [|x l1]; [constructor|].
    inversion S1 as [|? ? S1' Hx]; subst. inversion S2 as [|? ? S2' Hy]; subst.
    rewrite Forall_forall in Hx, Hy.
    assert (Asym' : forall a b, In a l2 -> In b l2 -> R a b -> ~ R b a) by (intros; apply Asym; auto; now right).
    assert (Irr' : forall a, In a l2 -> ~ R a a) by (intros; apply Irr; now right).
    destruct (Hin x (or_introl eq_refl)) as [E|Hx2].
    + subst y. apply sub_take. apply IH; auto. intros z Hz. destruct (Hin z (or_intror Hz)) as [E|?]; [|assumption].
      exfalso. subst z. apply (Irr x (or_introl eq_refl)). now apply Hx.
    + apply sub_skip. apply IH; auto. intros z Hz. destruct (Hin z Hz) as [E|?]; [|assumption].
      exfalso. subst z. destruct Hz as [E|Hz].
      * subst x. apply (Irr y (or_introl eq_refl)). now apply Hy.
      * specialize (Hx y Hz). specialize (Hy x Hx2). apply (Asym y x); auto; [now left|now right].
Qed.

Theorem values_subsequence U l l' v v' :
  univ_ok U -> linv U l -> linv U l' -> times_ok l' ->
  (forall k e, In (k, e) (l_entries l) -> In (k, e) (l_entries l')) ->
  (forall k e, In (k, e) v <-> In (k, e) (l_entries l)) ->
  (forall k e, In (k, e) v' <-> In (k, e) (l_entries l')) ->
  StronglySorted (fun a b => gt SHash b a) (oslice v) ->
  StronglySorted (fun a b => gt SHash b a) (oslice v') ->
  subseq (oslice v) (oslice v').
Proof.
  intros UO I I' TO Sub B B' S S'.
  assert (PP : forall e, In e (oslice v') -> P (l_entries l') e).
  { intros e He. apply In_oslice in He. destruct He as [k He]. apply B' in He.
    pose proof (linv_well_keyed _ _ I' _ _ He). subst k. exact He. }
  apply (sorted_incl_subseq (fun a b => gt SHash b a)); auto.
  - intros a b Ha Hb G. apply (gt_asym (l_entries l') SHash (h_irrefl l' TO) (h_trans l' TO)); auto.
  - intros a Ha G. unfold gt in G. rewrite (h_irrefl l' TO a (PP a Ha)) in G. discriminate.
  - intros e He. apply In_oslice in He. destruct He as [k He]. apply In_oslice. exists k. apply B'. apply Sub. now apply B.
Qed.
