(* Lemmas about Model/Cbor.v: decode is a left inverse of encode on well-formed trees (hence
   encode is injective and prefix-free), and canonical map ordering does not depend on the order
   in which the pairs are presented. *)
From Coq Require Import List NArith Bool Lia Arith Permutation Sorted.
From IpfsLog Require Import Model.Cbor.
(* deps: keep this comment line directly after the Require line (lib/verif.py deps_of scans it) *)
Import ListNotations.
Open Scope N_scope.

(* ------------------------------------------------------------------------------------------ *)
(* induction principle for the nested type *)
Section cbor_ind2.
  Variable P : cbor -> Prop.
  Hypothesis HUint : forall n, P (CUint n).
  Hypothesis HNeg : forall n, P (CNegint n).
  Hypothesis HText : forall bs, P (CText bs).
  Hypothesis HBytes : forall bs, P (CBytes bs).
  Hypothesis HArr : forall l, Forall P l -> P (CArray l).
  Hypothesis HMap : forall kvs, Forall (fun kv => P (snd kv)) kvs -> P (CMap kvs).
  Hypothesis HTag : forall t v, P v -> P (CTag t v).
  Hypothesis HNull : P CNull.
  Hypothesis HBool : forall b, P (CBool b).

  Fixpoint cbor_ind2 (t : cbor) : P t :=
    match t with
    | CUint n => HUint n
    | CNegint n => HNeg n
    | CText bs => HText bs
    | CBytes bs => HBytes bs
    | CArray l => HArr l ((fix go (l : list cbor) : Forall P l :=
                             match l with
                             | [] => Forall_nil _
                             | x :: l' => Forall_cons _ (cbor_ind2 x) (go l')
                             end) l)
    | CMap kvs => HMap kvs ((fix go (l : list (bytes * cbor)) : Forall (fun kv => P (snd kv)) l :=
                               match l with
                               | [] => Forall_nil _
                               | kv :: l' => Forall_cons _ (cbor_ind2 (snd kv)) (go l')
                               end) kvs)
    | CTag t v => HTag t v (cbor_ind2 v)
    | CNull => HNull
    | CBool b => HBool b
    end.
End cbor_ind2.

(* unfolding equations relating the nested fixpoints to the list-level functions *)
Lemma encode_array l : encode (CArray l) = head 4 (len l) ++ encode_list l.
Proof. reflexivity. Qed.
Lemma encode_map kvs : encode (CMap kvs) = head 5 (len kvs) ++ encode_kvs kvs.
Proof. reflexivity. Qed.
Lemma size_array l : size (CArray l) = S (size_list l).
Proof. reflexivity. Qed.
Lemma size_map kvs : size (CMap kvs) = S (size_kvs kvs).
Proof. reflexivity. Qed.
Lemma wf_array l : wf (CArray l) = (len l <? two64) && wf_list l.
Proof. reflexivity. Qed.
Lemma wf_map kvs : wf (CMap kvs) = (len kvs <? two64) && wf_kvs kvs.
Proof. reflexivity. Qed.

(* ------------------------------------------------------------------------------------------ *)
(* big-endian arguments *)
Lemma be_bytes_length k n : length (be_bytes k n) = k.
Proof.
  revert n. induction k as [|k IH]; intros n; simpl; [reflexivity|].
  rewrite app_length, IH. simpl. lia.
Qed.

Lemma be_value_snoc l b : be_value (l ++ [b]) = be_value l * 256 + b.
Proof. unfold be_value. rewrite fold_left_app. reflexivity. Qed.

Lemma be_roundtrip k n : n < 256 ^ N.of_nat k -> be_value (be_bytes k n) = n.
Proof.
  revert n. induction k as [|k IH]; intros n Hn.
  - simpl in Hn. cbn. lia.
  - simpl be_bytes. rewrite be_value_snoc. rewrite IH.
    + rewrite N.mul_comm. symmetry. apply N.div_mod. discriminate.
    + rewrite Nat2N.inj_succ, N.pow_succ_r' in Hn.
      apply N.div_lt_upper_bound; [discriminate|exact Hn].
Qed.

Lemma all_bytes_app a b : all_bytes (a ++ b) = all_bytes a && all_bytes b.
Proof. unfold all_bytes. apply forallb_app. Qed.

Lemma be_bytes_all k n : all_bytes (be_bytes k n) = true.
Proof.
  revert n. induction k as [|k IH]; intros n; simpl; [reflexivity|].
  rewrite all_bytes_app, IH. cbn. rewrite andb_true_r. apply N.ltb_lt.
  apply N.mod_lt. discriminate.
Qed.

Lemma take_app x r : take (length x) (x ++ r) = Some (x, r).
Proof. induction x as [|b x IH]; simpl; [reflexivity|]. now rewrite IH. Qed.

Lemma take_n_app x r fuel : (length x <= fuel)%nat -> take_n (len x) (x ++ r) fuel = Some (x, r).
Proof.
  revert fuel. induction x as [|b x IH]; intros fuel Hf.
  - destruct fuel; reflexivity.
  - destruct fuel as [|f]; [simpl in Hf; lia|].
    unfold len. simpl length. cbn [take_n app].
    replace (N.of_nat (S (length x)) =? 0) with false
      by (symmetry; apply N.eqb_neq; lia).
    replace (N.of_nat (S (length x)) - 1) with (len x) by (unfold len; lia).
    rewrite IH by (simpl in Hf; lia). reflexivity.
Qed.

Lemma take_N_app x r : take_N (len x) (x ++ r) = Some (x, r).
Proof. unfold take_N. apply take_n_app. rewrite app_length. lia. Qed.

Lemma read_be_ok k lo n r :
  n < 256 ^ N.of_nat k -> lo <= n -> read_be k lo (be_bytes k n ++ r) = Some (n, r).
Proof.
  intros Hn Hlo. unfold read_be.
  rewrite <- (be_bytes_length k n) at 1. rewrite take_app.
  rewrite be_bytes_all, be_roundtrip by exact Hn.
  replace (lo <=? n) with true by (symmetry; now apply N.leb_le). reflexivity.
Qed.

(* ------------------------------------------------------------------------------------------ *)
(* heads *)
Lemma divmod32 m ai : ai < 32 -> (m * 32 + ai) / 32 = m /\ (m * 32 + ai) mod 32 = ai.
Proof.
  intros H. split.
  - symmetry. apply (N.div_unique _ 32 m ai); [exact H|lia].
  - symmetry. apply (N.mod_unique _ 32 m ai); [exact H|lia].
Qed.

Definition head_ai (n : N) : N :=
  if n <? 24 then n else if n <? 256 then 24 else if n <? 65536 then 25 else if n <? two32 then 26 else 27.

Lemma head_ai_lt n : head_ai n < 28.
Proof.
  unfold head_ai. destruct (n <? 24) eqn:E; [apply N.ltb_lt in E; lia|].
  repeat match goal with |- context [if ?c then _ else _] => destruct c end; lia.
Qed.

Lemma head_cons m n : exists tl, head m n = (m * 32 + head_ai n) :: tl.
Proof.
  unfold head, head_ai.
  repeat match goal with |- context [if ?c then _ else _] => destruct c end; eexists; reflexivity.
Qed.

Lemma pow256_1 : 256 ^ N.of_nat 1 = 256. Proof. reflexivity. Qed.
Lemma pow256_2 : 256 ^ N.of_nat 2 = 65536. Proof. reflexivity. Qed.
Lemma pow256_4 : 256 ^ N.of_nat 4 = two32. Proof. reflexivity. Qed.
Lemma pow256_8 : 256 ^ N.of_nat 8 = two64. Proof. reflexivity. Qed.

Lemma read_head_head m n r :
  m <= 6 -> n < two64 -> read_head (head m n ++ r) = Some (m, n, r).
Proof.
  intros Hm Hn. unfold head.
  destruct (n <? 24) eqn:E1.
  { apply N.ltb_lt in E1. cbn [app read_head].
    destruct (divmod32 m n ltac:(lia)) as [Hd Hmod].
    replace (m * 32 + n <? 224) with true by (symmetry; apply N.ltb_lt; lia).
    rewrite Hmod, Hd. unfold read_arg.
    replace (n <? 24) with true by (symmetry; now apply N.ltb_lt). reflexivity. }
  apply N.ltb_ge in E1.
  destruct (n <? 256) eqn:E2.
  { apply N.ltb_lt in E2. cbn [app read_head].
    destruct (divmod32 m 24 ltac:(lia)) as [Hd Hmod].
    replace (m * 32 + 24 <? 224) with true by (symmetry; apply N.ltb_lt; lia).
    rewrite Hmod, Hd. change (read_arg 24 (n :: r)) with (read_be 1 24 ([n] ++ r)).
    replace [n] with (be_bytes 1 n).
    - rewrite read_be_ok; [reflexivity|rewrite pow256_1; exact E2|exact E1].
    - cbn. rewrite N.mod_small by exact E2. reflexivity. }
  apply N.ltb_ge in E2.
  destruct (n <? 65536) eqn:E3.
  { apply N.ltb_lt in E3. cbn [app read_head].
    destruct (divmod32 m 25 ltac:(lia)) as [Hd Hmod].
    replace (m * 32 + 25 <? 224) with true by (symmetry; apply N.ltb_lt; lia).
    rewrite Hmod, Hd. change (read_arg 25 (be_bytes 2 n ++ r)) with (read_be 2 256 (be_bytes 2 n ++ r)).
    rewrite read_be_ok; [reflexivity|rewrite pow256_2; exact E3|exact E2]. }
  apply N.ltb_ge in E3.
  destruct (n <? two32) eqn:E4.
  { apply N.ltb_lt in E4. cbn [app read_head].
    destruct (divmod32 m 26 ltac:(lia)) as [Hd Hmod].
    replace (m * 32 + 26 <? 224) with true by (symmetry; apply N.ltb_lt; lia).
    rewrite Hmod, Hd. change (read_arg 26 (be_bytes 4 n ++ r)) with (read_be 4 65536 (be_bytes 4 n ++ r)).
    rewrite read_be_ok; [reflexivity|rewrite pow256_4; exact E4|exact E3]. }
  apply N.ltb_ge in E4.
  cbn [app read_head].
  destruct (divmod32 m 27 ltac:(lia)) as [Hd Hmod].
  replace (m * 32 + 27 <? 224) with true by (symmetry; apply N.ltb_lt; lia).
  rewrite Hmod, Hd. change (read_arg 27 (be_bytes 8 n ++ r)) with (read_be 8 two32 (be_bytes 8 n ++ r)).
  rewrite read_be_ok; [reflexivity|rewrite pow256_8; exact Hn|exact E4].
Qed.

(* ------------------------------------------------------------------------------------------ *)
(* decode after encode *)
Lemma decode_body_head dec dec_arr dec_map m n r :
  m <= 6 -> n < two64 ->
  decode_body dec dec_arr dec_map (head m n ++ r) =
  match m with
  | 0 => Some (CUint n, r)
  | 1 => Some (CNegint n, r)
  | 2 => match take_N n r with Some (x, r2) => Some (CBytes x, r2) | None => None end
  | 3 => match take_N n r with Some (x, r2) => Some (CText x, r2) | None => None end
  | 4 => match dec_arr n r with Some (l, r2) => Some (CArray l, r2) | None => None end
  | 5 => match dec_map n r with Some (l, r2) => Some (CMap l, r2) | None => None end
  | 6 => match dec r with Some (v, r2) => Some (CTag n v, r2) | None => None end
  | _ => None
  end.
Proof.
  intros Hm Hn. pose proof (read_head_head m n r Hm Hn) as RH.
  destruct (head_cons m n) as [tl E]. rewrite E in *. cbn [app] in *.
  unfold decode_body. pose proof (head_ai_lt n) as Hai.
  replace (m * 32 + head_ai n =? 246) with false by (symmetry; apply N.eqb_neq; lia).
  replace (m * 32 + head_ai n =? 245) with false by (symmetry; apply N.eqb_neq; lia).
  replace (m * 32 + head_ai n =? 244) with false by (symmetry; apply N.eqb_neq; lia).
  rewrite RH. reflexivity.
Qed.

Lemma len_cons_nz {A} (x : A) l : (len (x :: l) =? 0) = false.
Proof. apply N.eqb_neq. unfold len. simpl. lia. Qed.
Lemma len_cons_pred {A} (x : A) l : len (x :: l) - 1 = len l.
Proof. unfold len. simpl length. lia. Qed.

Definition dec_ok (x : cbor) : Prop :=
  wf x = true -> forall fuel rest, (size x <= fuel)%nat -> decode fuel (encode x ++ rest) = Some (x, rest).

Lemma decode_arr_encode l :
  Forall dec_ok l -> wf_list l = true ->
  forall fuel rest, (size_list l <= fuel)%nat ->
    decode_arr fuel (len l) (encode_list l ++ rest) = Some (l, rest).
Proof.
  induction 1 as [|x l Hx Hl IH]; intros Hwf fuel rest Hf.
  - destruct fuel as [|f]; [simpl in Hf; lia|]. reflexivity.
  - simpl in Hwf. apply andb_true_iff in Hwf as [Hwx Hwl].
    destruct fuel as [|f]; [simpl in Hf; lia|]. simpl size_list in Hf.
    cbn [decode_arr]. unfold arr_body. rewrite len_cons_nz, len_cons_pred.
    cbn [encode_list]. rewrite <- app_assoc.
    rewrite (Hx Hwx f _) by lia. rewrite (IH Hwl f rest) by lia. reflexivity.
Qed.

Lemma decode_map_encode kvs :
  Forall (fun kv => dec_ok (snd kv)) kvs -> wf_kvs kvs = true ->
  forall fuel rest, (size_kvs kvs <= fuel)%nat ->
    decode_map fuel (len kvs) (encode_kvs kvs ++ rest) = Some (kvs, rest).
Proof.
  induction 1 as [|[k v] l Hx Hl IH]; intros Hwf fuel rest Hf.
  - destruct fuel as [|f]; [simpl in Hf; lia|]. reflexivity.
  - simpl in Hwf. apply andb_true_iff in Hwf as [Hwx Hwl]. apply andb_true_iff in Hwx as [Hwk Hwv].
    apply N.ltb_lt in Hwk.
    destruct fuel as [|f]; [simpl in Hf; lia|]. simpl size_kvs in Hf.
    cbn [decode_map]. unfold map_body. rewrite len_cons_nz, len_cons_pred.
    cbn [encode_kvs]. rewrite <- !app_assoc.
    rewrite (read_head_head 3 (len k)) by (try exact Hwk; lia).
    rewrite take_N_app. simpl snd in Hx.
    rewrite (Hx Hwv f _) by lia. rewrite (IH Hwl f rest) by lia. reflexivity.
Qed.

Lemma decode_encode_fuel : forall t, dec_ok t.
Proof.
  induction t as [n|n|bs|bs|l IH|kvs IH|tg v IH| |b] using cbor_ind2; unfold dec_ok; intros Hwf fuel rest Hf;
    (destruct fuel as [|f]; [simpl in Hf; lia|]); cbn [decode].
  - simpl in Hwf. apply N.ltb_lt in Hwf. cbn [encode]. now rewrite decode_body_head by (try exact Hwf; lia).
  - simpl in Hwf. apply N.ltb_lt in Hwf. cbn [encode]. now rewrite decode_body_head by (try exact Hwf; lia).
  - simpl in Hwf. apply N.ltb_lt in Hwf. cbn [encode]. rewrite <- app_assoc.
    rewrite decode_body_head by (try exact Hwf; lia). now rewrite take_N_app.
  - simpl in Hwf. apply N.ltb_lt in Hwf. cbn [encode]. rewrite <- app_assoc.
    rewrite decode_body_head by (try exact Hwf; lia). now rewrite take_N_app.
  - rewrite wf_array in Hwf. apply andb_true_iff in Hwf as [Hl Hwl]. apply N.ltb_lt in Hl.
    rewrite encode_array, <- app_assoc. rewrite size_array in Hf.
    rewrite decode_body_head by (try exact Hl; lia).
    now rewrite (decode_arr_encode l IH Hwl f rest) by lia.
  - rewrite wf_map in Hwf. apply andb_true_iff in Hwf as [Hl Hwl]. apply N.ltb_lt in Hl.
    rewrite encode_map, <- app_assoc. rewrite size_map in Hf.
    rewrite decode_body_head by (try exact Hl; lia).
    now rewrite (decode_map_encode kvs IH Hwl f rest) by lia.
  - simpl in Hwf. apply andb_true_iff in Hwf as [Ht Hv]. apply N.ltb_lt in Ht.
    cbn [encode]. rewrite <- app_assoc. simpl size in Hf.
    rewrite decode_body_head by (try exact Ht; lia).
    now rewrite (IH Hv f rest) by lia.
  - reflexivity.
  - destruct b; reflexivity.
Qed.

Theorem decode_encode t rest : wf t = true -> decode (fuel_for t) (encode t ++ rest) = Some (t, rest).
Proof. intros H. apply decode_encode_fuel; [exact H|unfold fuel_for; lia]. Qed.

Theorem decode_encode_any_fuel t rest fuel :
  wf t = true -> (fuel_for t <= fuel)%nat -> decode fuel (encode t ++ rest) = Some (t, rest).
Proof. intros H Hf. now apply decode_encode_fuel. Qed.

(* injectivity, in the strong (prefix-free) form *)
Theorem encode_prefix_free t1 t2 r1 r2 :
  wf t1 = true -> wf t2 = true -> encode t1 ++ r1 = encode t2 ++ r2 -> t1 = t2 /\ r1 = r2.
Proof.
  intros H1 H2 E.
  pose proof (decode_encode_any_fuel t1 r1 (max (fuel_for t1) (fuel_for t2)) H1 ltac:(lia)) as D1.
  pose proof (decode_encode_any_fuel t2 r2 (max (fuel_for t1) (fuel_for t2)) H2 ltac:(lia)) as D2.
  rewrite E in D1. rewrite D1 in D2. inversion D2. auto.
Qed.

Theorem encode_injective t1 t2 : wf t1 = true -> wf t2 = true -> encode t1 = encode t2 -> t1 = t2.
Proof.
  intros H1 H2 E. apply (encode_prefix_free t1 t2 [] [] H1 H2). now rewrite E.
Qed.

(* size against number of bytes: 3 * length is enough fuel *)
Lemma head_length_pos m n : (1 <= length (head m n))%nat.
Proof. destruct (head_cons m n) as [tl E]. rewrite E. simpl. lia. Qed.

Lemma size_le_bytes : forall t, (S (size t) <= 3 * length (encode t))%nat.
Proof.
  induction t as [n|n|bs|bs|l IH|kvs IH|tg v IH| |b] using cbor_ind2.
  - cbn [encode size]. pose proof (head_length_pos 0 n). lia.
  - cbn [encode size]. pose proof (head_length_pos 1 n). lia.
  - cbn [encode size]. rewrite app_length. pose proof (head_length_pos 3 (len bs)). lia.
  - cbn [encode size]. rewrite app_length. pose proof (head_length_pos 2 (len bs)). lia.
  - rewrite encode_array, size_array, app_length.
    assert (size_list l <= 1 + 3 * length (encode_list l))%nat as HL.
    { induction IH as [|x l Hx Hl IHl]; simpl; [lia|]. rewrite app_length. lia. }
    pose proof (head_length_pos 4 (len l)). lia.
  - rewrite encode_map, size_map, app_length.
    assert (size_kvs kvs <= 1 + 3 * length (encode_kvs kvs))%nat as HL.
    { induction IH as [|[k x] l Hx Hl IHl]; simpl; [lia|]. rewrite !app_length. simpl snd in Hx. lia. }
    pose proof (head_length_pos 5 (len kvs)). lia.
  - cbn [encode size]. rewrite app_length. pose proof (head_length_pos 6 tg). lia.
  - simpl. lia.
  - simpl. lia.
Qed.

Theorem decode_all_encode t : wf t = true -> decode_all (encode t) = Some t.
Proof.
  intros H. unfold decode_all.
  pose proof (decode_encode_any_fuel t [] (3 * length (encode t)) H) as D.
  rewrite app_nil_r in D. rewrite D; [reflexivity|].
  unfold fuel_for. pose proof (size_le_bytes t). lia.
Qed.

(* ------------------------------------------------------------------------------------------ *)
(* canonical ordering of map keys (RFC 7049 section 3.9: length first, then bytewise) *)
Lemma lex_leb_refl a : lex_leb a a = true.
Proof. induction a as [|x a IH]; simpl; [reflexivity|]. rewrite N.ltb_irrefl. exact IH. Qed.

Lemma lex_leb_total a b : lex_leb a b = true \/ lex_leb b a = true.
Proof.
  revert b. induction a as [|x a IH]; intros [|y b]; simpl; auto.
  destruct (N.ltb_spec x y); auto. destruct (N.ltb_spec y x); auto.
Qed.

Lemma lex_leb_antisym a b : length a = length b -> lex_leb a b = true -> lex_leb b a = true -> a = b.
Proof.
  revert b. induction a as [|x a IH]; intros [|y b] Hl; simpl in *; try discriminate; auto.
  destruct (N.ltb_spec x y), (N.ltb_spec y x); try lia; try discriminate.
  intros H1 H2. assert (x = y) by lia. subst. f_equal. apply IH; auto.
Qed.

Lemma lex_leb_trans a b c : lex_leb a b = true -> lex_leb b c = true -> lex_leb a c = true.
Proof.
  revert b c. induction a as [|x a IH]; intros [|y b] [|z c]; simpl; auto; try discriminate.
  destruct (N.ltb_spec x y), (N.ltb_spec y x), (N.ltb_spec y z), (N.ltb_spec z y),
           (N.ltb_spec x z), (N.ltb_spec z x); try lia; auto; try discriminate.
  apply IH.
Qed.

Lemma key_leb_total a b : key_leb a b = true \/ key_leb b a = true.
Proof.
  unfold key_leb. rewrite (Nat.compare_antisym (length a) (length b)).
  destruct (Nat.compare (length a) (length b)); simpl; auto. apply lex_leb_total.
Qed.

Lemma key_leb_antisym a b : key_leb a b = true -> key_leb b a = true -> a = b.
Proof.
  unfold key_leb. rewrite (Nat.compare_antisym (length a) (length b)).
  destruct (Nat.compare (length a) (length b)) eqn:E; simpl; try discriminate.
  apply Nat.compare_eq in E. now apply lex_leb_antisym.
Qed.

Lemma key_leb_trans a b c : key_leb a b = true -> key_leb b c = true -> key_leb a c = true.
Proof.
  unfold key_leb.
  destruct (Nat.compare_spec (length a) (length b)), (Nat.compare_spec (length b) (length c)),
           (Nat.compare_spec (length a) (length c)); try lia; auto; try discriminate.
  apply lex_leb_trans.
Qed.

Section canon.
  Variable V : Type.
  Definition kle (a b : bytes * V) : Prop := key_leb (fst a) (fst b) = true.

  Lemma insert_perm (kv : bytes * V) (l : list (bytes * V)) : Permutation (insert_kv kv l) (kv :: l).
  Proof.
    induction l as [|kv' l IH]; simpl; [reflexivity|].
    destruct (key_leb (fst kv) (fst kv')); [reflexivity|].
    rewrite IH. apply perm_swap.
  Qed.

  Lemma canon_perm (l : list (bytes * V)) : Permutation (canon_map l) l.
  Proof.
    induction l as [|kv l IH]; simpl; [reflexivity|].
    rewrite insert_perm. now constructor.
  Qed.

  Lemma insert_sorted (kv : bytes * V) (l : list (bytes * V)) : StronglySorted kle l -> StronglySorted kle (insert_kv kv l).
  Proof.
    induction 1 as [|kv' l Hs IH Hall]; simpl.
    - constructor; constructor.
    - destruct (key_leb (fst kv) (fst kv')) eqn:E.
      + constructor; [constructor; assumption|]. constructor; [exact E|].
        eapply Forall_impl; [|exact Hall]. intros c Hc. unfold kle in *.
        eapply key_leb_trans; eauto.
      + constructor; [exact IH|].
        assert (Hk : kle kv' kv).
        { unfold kle. destruct (key_leb_total (fst kv') (fst kv)) as [H|H]; [exact H|congruence]. }
        eapply Permutation_Forall; [symmetry; apply insert_perm|]. constructor; assumption.
  Qed.

  Lemma canon_sorted (l : list (bytes * V)) : StronglySorted kle (canon_map l).
  Proof. induction l as [|kv l IH]; simpl; [constructor|]. now apply insert_sorted. Qed.

  Lemma sorted_perm_unique (l1 : list (bytes * V)) : forall l2,
    StronglySorted kle l1 -> StronglySorted kle l2 -> Permutation l1 l2 ->
    NoDup (map fst l1) -> l1 = l2.
  Proof.
    induction l1 as [|a l1 IH]; intros l2 S1 S2 P ND.
    - apply Permutation_nil in P. now subst.
    - destruct l2 as [|b l2]; [apply Permutation_sym, Permutation_nil in P; discriminate|].
      inversion S1 as [|? ? S1' A1]; subst. inversion S2 as [|? ? S2' A2]; subst.
      inversion ND as [|? ? Hnotin ND']; subst.
      assert (a = b) as ->.
      { assert (Ha : In a (b :: l2)) by (eapply Permutation_in; [exact P|now left]).
        assert (Hb : In b (a :: l1)) by (eapply Permutation_in; [symmetry; exact P|now left]).
        destruct Ha as [Ha|Ha]; [now subst|]. destruct Hb as [Hb|Hb]; [now subst|].
        rewrite Forall_forall in A1, A2. pose proof (A1 b Hb) as K1. pose proof (A2 a Ha) as K2.
        exfalso. apply Hnotin. rewrite (key_leb_antisym _ _ K1 K2). now apply in_map. }
      f_equal. apply IH; auto. eapply Permutation_cons_inv; exact P.
  Qed.

  (* the emitted order of a Go map does not depend on the order in which the runtime iterates *)
  Theorem canon_map_perm_invariant (l l' : list (bytes * V)) :
    NoDup (map fst l) -> Permutation l l' -> canon_map l = canon_map l'.
  Proof.
    intros ND P. apply sorted_perm_unique; try apply canon_sorted.
    - rewrite canon_perm, P. symmetry. apply canon_perm.
    - eapply Permutation_NoDup; [|exact ND]. apply Permutation_map. symmetry. apply canon_perm.
  Qed.

End canon.
